"""Correspondence + oracle for work package "tracker+parser" (C08, C02, C19-reordering).

run(seed, scale, driver)   real Python vs the Lean driver:
   (a) tracker: random enter/exit/reset sequences on ParsingContext + unified_enter/exit_schema
   (b) parser : random schema graphs through the real load_ir_from_spec, compared with "parseSpec"
oracle(seed, scale)        the properties themselves on the real parser (no Lean)
replay(case)               re-run one oracle case
"""
from __future__ import annotations

import json
import os
import random
import subprocess
import sys
import time

# ----------------------------------------------------------------------------------------------
# helpers


def _drive(driver: str, requests: list) -> list:
    inp = "\n".join(json.dumps(r) for r in requests) + "\n"
    p = subprocess.run([driver], input=inp.encode(), stdout=subprocess.PIPE, stderr=subprocess.PIPE, check=True)
    out = [json.loads(line) for line in p.stdout.decode().splitlines() if line.strip()]
    if len(out) != len(requests):
        raise RuntimeError(f"driver answered {len(out)} lines for {len(requests)} requests")
    return out


class _Env:
    """Set PYOPENAPI_MAX_DEPTH (read dynamically by unified_cycle_check) and silence logging."""

    def __init__(self, max_depth: int):
        self.max_depth = max_depth

    def __enter__(self):
        import logging

        self.old = os.environ.get("PYOPENAPI_MAX_DEPTH")
        os.environ["PYOPENAPI_MAX_DEPTH"] = str(self.max_depth)
        self.old_disable = logging.root.manager.disable
        logging.disable(logging.CRITICAL)
        return self

    def __exit__(self, *a):
        import logging

        if self.old is None:
            os.environ.pop("PYOPENAPI_MAX_DEPTH", None)
        else:
            os.environ["PYOPENAPI_MAX_DEPTH"] = self.old
        logging.disable(self.old_disable)


# ----------------------------------------------------------------------------------------------
# (a) tracker

TRACKER_NAMES = [
    "A", "B", "C", "User", "UserGroup", "UserGroupItem", "Tree", "TreeChildrenItem", "Children",
    "ChildrenItem", "FooProperty", "Item", "", "user", "Ab", "AbItem",
]


def _gen_tracker_seq(rng: random.Random) -> list:
    """A mix of parser-shaped and arbitrary sequences."""
    n = rng.randint(1, 30)
    pool = rng.sample(TRACKER_NAMES, rng.randint(1, 6))
    seq: list = []
    open_names: list = []
    style = rng.random()
    for _ in range(n):
        r = rng.random()
        name = None if rng.random() < 0.15 else rng.choice(pool)
        if style < 0.5:
            # shaped-ish: close what we opened, occasionally re-enter
            if open_names and r < 0.4:
                seq.append(["exit", open_names.pop()])
            else:
                seq.append(["enter", name, rng.random() < 0.5])
                open_names.append(name)
        else:
            if r < 0.5:
                seq.append(["enter", name, rng.random() < 0.5])
            elif r < 0.92:
                seq.append(["exit", name])
            elif name is not None:
                seq.append(["reset", name])
    if style < 0.5 and rng.random() < 0.8:
        while open_names:
            seq.append(["exit", open_names.pop()])
    return seq


def _py_tracker(max_depth: int, seq: list) -> list:
    from pyopenapi_gen.core.parsing.context import ParsingContext
    from pyopenapi_gen.core.parsing import unified_cycle_detection as U

    out = []
    with _Env(max_depth):
        ctx = ParsingContext()
        u = ctx.unified_cycle_context
        for ev in seq:
            action = placeholder = None
            stored = False
            if ev[0] == "enter":
                u.allow_self_reference = ev[2]
                r = ctx.unified_enter_schema(ev[1])
                action = r.action.value
                ph = r.placeholder_schema
                if ph is not None:
                    placeholder = (
                        "depth" if ph._max_depth_exceeded_marker
                        else "self_ref" if ph._is_self_referential_stub
                        else "cycle" if ph._is_circular_ref else "?"
                    )
                    stored = ev[1] is not None and ctx.parsed_schemas.get(ev[1]) is ph
            elif ev[0] == "exit":
                ctx.unified_exit_schema(ev[1])
            else:
                u.schema_states[ev[1]] = U.SchemaState.NOT_STARTED
            out.append({
                "action": action, "placeholder": placeholder, "stored": stored,
                "depth": u.recursion_depth, "stack": list(u.schema_stack),
                "states": sorted([k, v.value] for k, v in u.schema_states.items()),
                "cycles": [[c.schema_name, list(c.cycle_path), c.is_direct_self_reference, c.depth_when_detected]
                           for c in u.detected_cycles],
                "depth_exceeded": sorted(u.depth_exceeded_schemas),
                "cycle_detected": u.cycle_detected,
            })
    return out


def _run_tracker(rng: random.Random, n_cases: int, driver: str, res: dict) -> None:
    cases = []
    for _ in range(n_cases):
        md = rng.choice([0, 1, 2, 3, 5, 150])
        cases.append((md, _gen_tracker_seq(rng)))
    reqs = [{"f": "trackerRun", "a": [md, seq]} for md, seq in cases]
    model = _drive(driver, reqs)
    seen = set()
    for (md, seq), m in zip(cases, model):
        impl = _py_tracker(md, seq)
        res["comparisons"] += 1
        acts = [o["action"] for o in impl if o["action"]]
        for a in acts:
            res["distribution"]["tracker:" + a] = res["distribution"].get("tracker:" + a, 0) + 1
        if any(a != "continue" for a in acts):
            key = json.dumps([md, seq])
            if key not in seen:
                seen.add(key)
                res["nontrivial"] += 1
        if m != impl:
            if len(res["disagreements"]) < 50:
                res["disagreements"].append({"label": "tracker", "request": [md, seq], "model": m, "impl": impl})
        elif len(res["samples"]) < 2 and any(a == "create" for a in acts):
            res["samples"].append({"tracker": [md, seq], "last": impl[-1]})


# ----------------------------------------------------------------------------------------------
# (b) parser: Node language (compact JSON, see Pog/Drv/Parser.lean) and its OpenAPI rendering

SCHEMA_NAMES = [
    "User", "UserGroup", "Order", "OrderItem", "Item", "Tree", "Children", "FooProperty", "Aa", "Bb", "Cc",
    "user_group", "Owner", "EventBirthday", "Pet", "PetOwner", "a.b",
]
PROP_KEYS = [
    "id", "name", "group", "members", "owner", "children", "items", "item", "user", "user_group", "kids", "extra",
    "data", "Owner", "tree", "pet", "2fa", "order-item",
]
PRIMS = ["string", "integer", "number", "boolean"]


def R(t):
    return {"r": t}


def to_openapi(n: dict) -> dict:
    if "r" in n:
        # "via": a JSON pointer BELOW a component (`#/components/schemas/Order/properties/status`).  The loader - and therefore the
        # model, which only sees the last segment - resolves every $ref by its last segment.
        return {"$ref": "#/components/schemas/" + (n["via"] + "/" if n.get("via") else "") + n["r"]}
    if "p" in n:
        d = {"type": n["p"]}
        if n.get("e"):
            d["enum"] = {"string": ["a", "b"], "integer": [1, 2], "number": [1.5, 2.5], "boolean": [True]}[n["p"]]
        return d
    if "all" in n:
        d = {"allOf": [to_openapi(x) for x in n["all"]]}
        if n.get("o"):
            d["properties"] = {k: to_openapi(v) for k, v in n["o"]}
        if n.get("q"):
            d["required"] = list(n["q"])
        return d
    if "one" in n:
        return {"oneOf": [to_openapi(x) for x in n["one"]]}
    if "any" in n:
        return {"anyOf": [to_openapi(x) for x in n["any"]]}
    if "i" in n:
        return {"type": "array", "items": to_openapi(n["i"])}
    if "n" in n:
        d = dict(to_openapi(n["n"]))
        d["nullable"] = True
        return d
    d = {"type": "object"}
    if n["o"] is not None:
        d["properties"] = {k: to_openapi(v) for k, v in n["o"]}
    if n.get("q"):
        d["required"] = list(n["q"])
    if n.get("a") is not None:
        d["additionalProperties"] = to_openapi(n["a"])
    return d


def spec_of(decls: list) -> dict:
    return {
        "openapi": "3.0.0", "info": {"title": "t", "version": "1"}, "paths": {},
        "components": {"schemas": {k: to_openapi(v) for k, v in decls}},
    }


def _gen_node(rng: random.Random, names: list, depth: int, top: bool = False) -> dict:
    r = rng.random()
    if depth <= 0:
        return R(rng.choice(names)) if r < 0.6 else {"p": rng.choice(PRIMS), "e": rng.random() < 0.2}
    if top:
        if r < 0.62:
            kind = "obj"
        elif r < 0.74:
            kind = "all"
        elif r < 0.80:
            kind = "ref"
        elif r < 0.86:
            kind = "arr"
        elif r < 0.92:
            kind = "one"
        elif r < 0.96:
            kind = "prim"
        else:
            kind = "any"
    else:
        if r < 0.42:
            kind = "ref"
        elif r < 0.57:
            kind = "prim"
        elif r < 0.72:
            kind = "arr"
        elif r < 0.84:
            kind = "obj"
        elif r < 0.90:
            kind = "all"
        elif r < 0.94:
            kind = "one"
        elif r < 0.97:
            kind = "any"
        else:
            kind = "null"
    if kind == "ref":
        t = rng.choice(names) if rng.random() < 0.95 else "Missing"
        return R(t)
    if kind == "prim":
        return {"p": rng.choice(PRIMS), "e": rng.random() < 0.25}
    if kind == "arr":
        return {"i": _gen_node(rng, names, depth - 1)}
    if kind == "null":
        return {"n": _gen_node(rng, names, depth - 1)}
    if kind in ("one", "any"):
        return {kind: [_gen_node(rng, names, depth - 1) for _ in range(rng.randint(1, 3))]}
    keys = rng.sample(PROP_KEYS, rng.randint(0, 4))
    props = [[k, _gen_node(rng, names, depth - 1)] for k in keys]
    req = [k for k in keys if rng.random() < 0.4]
    if rng.random() < 0.1:
        req.append("ghost")
    if rng.random() < 0.3:
        # `required` naming a property this node does not declare itself: inside an allOf member it tightens a property declared by
        # a sibling member / the $ref-ed parent (the "NewPet requires PetBase.name" idiom), elsewhere it is a stray name
        req.extend(k for k in rng.sample(PROP_KEYS, rng.randint(1, 2)) if k not in req)
    if kind == "all":
        parts = [_gen_node(rng, names, depth - 1) if rng.random() < 0.4 else R(rng.choice(names))
                 for _ in range(rng.randint(1, 3))]
        return {"all": parts, "o": props, "q": req}
    has_props = rng.random() < 0.9
    ap = _gen_node(rng, names, depth - 1) if rng.random() < 0.12 else None
    return {"o": props if has_props else None, "q": req if has_props else [], "a": ap}


def _gen_refheavy(rng: random.Random) -> list:
    """Objects whose properties are (arrays of / allOf of / maps of) references, plus alias schemas: the shapes that
    drive the tracker through cycle exits and RETURN_EXISTING fall-throughs."""
    pool = rng.choice([["Aa", "Bb", "Cc", "Dd", "Zz"], ["User", "UserGroup", "Pet", "PetOwner", "Order"]])
    names = pool[: rng.randint(2, 5)]
    decls = []
    for n in names:
        if rng.random() < 0.2:
            decls.append([n, R(rng.choice(names))])
            continue
        props = []
        for i in range(rng.randint(1, 5)):
            t = R(rng.choice(names))
            r = rng.random()
            node = t if r < 0.6 else {"i": t} if r < 0.8 else {"all": [t], "o": [], "q": []} if r < 0.9 else \
                {"o": None, "q": [], "a": t}
            props.append(["p%d" % i, node])
        decls.append([n, {"o": props, "q": [], "a": None}])
    rng.shuffle(decls)
    return decls


def gen_simple_dag(rng: random.Random) -> list:
    """The fragment of `C02.parse_faithful_partial`: object schemas, class-cased names, properties plain primitives or
    $refs that only point 'down' a random linear order (acyclic); declared in a random order."""
    pool = ["Order", "Customer", "Address", "Item", "UserGroup", "User", "FooProperty", "Tree", "Aa", "Bb"]
    names = rng.sample(pool, rng.randint(1, 6))
    decls = []
    for i, n in enumerate(names):
        keys = rng.sample(["id", "name", "owner", "group", "items", "user_group", "data", "2fa", "Owner", "kids"],
                          rng.randint(0, 5))
        props = []
        for k in keys:
            if i > 0 and rng.random() < 0.6:
                props.append([k, R(rng.choice(names[:i]))])
            else:
                props.append([k, {"p": rng.choice(PRIMS), "e": False}])
        req = [k for k in keys if rng.random() < 0.4]
        decls.append([n, {"o": props, "q": req, "a": None}])
    rng.shuffle(decls)
    return decls


def gen_simple2_dag(rng: random.Random) -> list:
    """Aimed at the fragment of `C02b.parse_faithful_partial2` (`Simple2`): object schemas whose properties are plain primitives,
    $refs, arrays of either or maps of either, plus top-level arrays / primitive aliases; acyclic; declared in a random order.
    Whether a document IS in the fragment is decided by the Lean predicate (`parserInFragment2`), not by this generator: some
    of what is generated here is deliberately outside (a map property whose context name collides with a declared name)."""
    pool = ["Order", "Customer", "Address", "Item", "UserGroup", "User", "Tree", "Aa", "Bb", "OrderMeta", "Tags", "Price"]
    names = rng.sample(pool, rng.randint(1, 6))
    decls = []
    for i, n in enumerate(names):
        def leaf():
            return R(rng.choice(names[:i])) if i > 0 and rng.random() < 0.55 else {"p": rng.choice(PRIMS), "e": False}
        r0 = rng.random()
        if r0 < 0.12:
            decls.append([n, {"i": leaf()}])
            continue
        if r0 < 0.18:
            decls.append([n, {"p": rng.choice(PRIMS), "e": False}])
            continue
        keys = rng.sample(["id", "name", "owner", "group", "items", "user_group", "data", "meta", "labels", "kids", "tags"],
                          rng.randint(0, 5))
        props = []
        for k in keys:
            r = rng.random()
            props.append([k, leaf() if r < 0.4 else {"i": leaf()} if r < 0.7 else {"o": None, "q": [], "a": leaf()}])
        req = [k for k in keys if rng.random() < 0.4]
        decls.append([n, {"o": props, "q": req, "a": None}])
    rng.shuffle(decls)
    return decls


def ranks_of(decls: list):
    """The least rank table satisfying `Simple2.cost` (Pog/Lemmas/ParserFaithful2.lean: propCost / topCost / leafCost), or None when
    the references are cyclic or dangling (then the document is outside the fragment anyway)."""
    nodes = dict((d[0], d[1]) for d in decls)
    memo: dict = {}

    def leaf_cost(nd, seen):
        return rank(nd["r"], seen) + 2 if "r" in nd else 0

    def prop_cost(nd, seen):
        if "r" in nd:
            return rank(nd["r"], seen) + 1
        if "i" in nd:
            return leaf_cost(nd["i"], seen) + 1
        if "a" in nd and nd.get("o") is None and nd.get("a") is not None:
            return leaf_cost(nd["a"], seen) + 1
        return 0

    def rank(n, seen):
        if n in memo:
            return memo[n]
        if n in seen or n not in nodes:
            raise ValueError(n)
        nd = nodes[n]
        seen = seen | {n}
        r = leaf_cost(nd["i"], seen) if "i" in nd else 0
        for _k, p in (nd.get("o") or []) if "o" in nd else []:
            r = max(r, prop_cost(p, seen))
        memo[n] = r
        return r

    try:
        return [[n, rank(n, frozenset())] for n in nodes]
    except (ValueError, KeyError, TypeError, RecursionError):
        return None


def _add_nested_pointers(rng: random.Random, decls: list) -> list:
    """$refs that point below a component: to a property of a declared object, from another property of the same or of another
    schema; sometimes the pointer sits INSIDE the property it points to (array items / map values), which is a cycle that no named
    schema lies on."""
    objs = [d for d in decls if isinstance(d[1], dict) and isinstance(d[1].get("o"), list) and d[1]["o"] and "all" not in d[1]]
    if not objs:
        return decls
    for _ in range(rng.randint(1, 2)):
        d = rng.choice(objs)
        k = rng.choice(d[1]["o"])[0]
        ptr = {"r": k, "via": d[0] + "/properties"}
        r = rng.random()
        if r < 0.35:
            holder = rng.choice(objs)
            if all(kv[0] != "ptr" for kv in holder[1]["o"]):
                holder[1]["o"].append(["ptr", ptr])
        elif r < 0.7:
            for kv in d[1]["o"]:
                if kv[0] == k:
                    kv[1] = {"i": ptr} if rng.random() < 0.5 else {"o": None, "q": [], "a": ptr}
        else:
            holder = rng.choice(objs)
            if all(kv[0] != "ptrs" for kv in holder[1]["o"]):
                holder[1]["o"].append(["ptrs", {"i": ptr}])
    return decls


def gen_decls(rng: random.Random) -> list:
    r0 = rng.random()
    if r0 < 0.12:
        return gen_simple_dag(rng)
    if r0 < 0.35:
        return _gen_refheavy(rng)
    if r0 < 0.43:
        return _add_nested_pointers(rng, _gen_decls_plain(rng))
    return _gen_decls_plain(rng)


def _gen_decls_plain(rng: random.Random) -> list:
    k = rng.randint(1, 5)
    style = rng.random()
    if style < 0.3:
        pool = ["User", "UserGroup", "Pet", "PetOwner", "Order", "OrderItem", "Owner", "EventBirthday"]
    elif style < 0.5:
        pool = ["Aa", "Bb", "Cc", "Dd", "Zz"]
    else:
        pool = SCHEMA_NAMES
    names = rng.sample(pool, min(k, len(pool)))
    depth = rng.choice([1, 2, 2, 3])
    return [[n, _gen_node(rng, names, depth, top=True)] for n in names]


# ---- independent reference resolver (same denotation as `specFields` in Pog/Model/ParserSpec.lean) ----

def _cls(n: str) -> str:
    from pyopenapi_gen.core.utils import NameSanitizer

    return NameSanitizer.sanitize_class_name(n)


def ref_kind(node: dict) -> str:
    if "$ref" in node:
        return "ref:" + _cls(node["$ref"].split("/")[-1])
    if "allOf" in node:
        return "obj"
    if "oneOf" in node or "anyOf" in node:
        return "union"
    t = node.get("type")
    if t == "array":
        return "arr<" + ref_kind(node.get("items", {})) + ">"
    if t == "object":
        return "obj"
    return t if t in PRIMS else "unknown"


def ref_shape(schemas: dict, node: dict, visiting: frozenset):
    """(key -> kind, required names) declared by `node`: own properties, allOf parts, refs followed."""
    if "$ref" in node:
        n = node["$ref"].split("/")[-1]
        if n in visiting or n not in schemas:
            return {}, set()
        return ref_shape(schemas, schemas[n], visiting | {n})
    if "allOf" in node:
        props: dict = {}
        req = set(node.get("required", []))
        for part in node["allOf"]:
            p, r = ref_shape(schemas, part, visiting)
            for k, v in p.items():
                props.setdefault(k, v)
            req |= r
        for k, v in node.get("properties", {}).items():
            props[k] = ref_kind(v)
        return props, req
    if node.get("type") == "object":
        return {k: ref_kind(v) for k, v in node.get("properties", {}).items()}, set(node.get("required", []))
    return {}, set()


def _pointer_target(schemas: dict, pn: dict):
    """The node a nested-pointer ref designates (JSON pointer below components/schemas), or None."""
    cur = schemas
    for seg in (pn["via"] + "/" + pn["r"]).split("/"):
        if isinstance(cur, dict) and seg in cur:
            cur = cur[seg]
        elif isinstance(cur, list) and seg.isdigit() and int(seg) < len(cur):
            cur = cur[int(seg)]
        else:
            return None
    return cur


def ref_fields(schemas: dict, name: str) -> list:
    props, req = ref_shape(schemas, schemas[name], frozenset([name]))
    return [[k, k in req, v] for k, v in props.items()]


# ---- reading the real IR the way `modelFields` reads the model ----

def _ir_flag_kind(o) -> str:
    return ("depth" if o._max_depth_exceeded_marker else "cycle" if o._is_circular_ref
            else "self" if o._is_self_referential_stub else "unresolved" if o._from_unresolved_ref else "full")


def _reg_lookup(reg: dict, n: str):
    from pyopenapi_gen.core.utils import NameSanitizer

    if n in reg:
        return reg[n]
    return reg.get(NameSanitizer.sanitize_class_name(n))


def impl_kind(o, reg: dict, decl_names: list, fuel: int = 6) -> str:
    if fuel == 0:
        return "unknown"
    if _ir_flag_kind(o) != "full":
        return "ref:" + o.name if o.name is not None else "unknown"
    for n in decl_names:
        if _reg_lookup(reg, n) is o:
            return "ref:" + _cls(n)
    if o._refers_to_schema is not None:
        return impl_kind(o._refers_to_schema, reg, decl_names, fuel - 1)
    t = o.type
    if t is None:
        return "union" if (o.any_of is not None or o.one_of is not None) else "unknown"
    if t == "array":
        return "arr<" + (impl_kind(o.items, reg, decl_names, fuel - 1) if o.items is not None else "unknown") + ">"
    if t == "object":
        return "obj"
    return t if t in PRIMS else "ref:" + t


def impl_fields(reg: dict, decl_names: list) -> list:
    out = []
    for n in decl_names:
        o = _reg_lookup(reg, n)
        if o is None:
            out.append([n, None, "missing"])
        else:
            out.append([n, [[k, k in o.required, impl_kind(v, reg, decl_names)] for k, v in o.properties.items()],
                        _ir_flag_kind(o)])
    return out


class _TooDeep(Exception):
    pass


def _summ(o, reg_values, d=3):
    if d == 0 or o is None:
        return None
    kind = ("depth" if o._max_depth_exceeded_marker else "cycle" if o._is_circular_ref
            else "self" if o._is_self_referential_stub else "unresolved" if o._from_unresolved_ref else "full")
    from pyopenapi_gen import IRSchema

    return {
        "name": o.name, "type": o.type, "kind": kind, "enum": bool(o.enum),
        "refers": o._refers_to_schema.name if o._refers_to_schema is not None else None,
        "registered": any(v is o for v in reg_values),
        "items": _summ(o.items, reg_values, d - 1) if o.items is not None else None,
        "addl": isinstance(o.additional_properties, IRSchema),
        "nprops": len(o.properties),
    }


def py_parse(max_depth: int, fuel: int, decls: list, want_ir: bool = False) -> dict:
    """Run the REAL load_ir_from_spec on the rendered spec with enter/exit hooks, a nesting counter on
    `_parse_schema` (raising when more than `fuel` calls are open) and a registry snapshot taken when
    `build_schemas` is left."""
    import pyopenapi_gen.core.loader.loader as L
    import pyopenapi_gen.core.loader.schemas.extractor as E
    import pyopenapi_gen.core.parsing.schema_parser as SP
    import pyopenapi_gen.core.parsing.unified_cycle_detection as U

    events: list = []
    st = {"open": 0, "max": 0, "ctx": None, "rest_violations": [], "neg": False}
    oe, ox, op, ob = U.unified_enter_schema, U.unified_exit_schema, SP._parse_schema, L.build_schemas
    ov = L.validate_spec  # optional third-party validator: its verdict is ignored by the loader, it only costs 90 ms
    snap: dict = {}

    def enter(name, ctx):
        r = oe(name, ctx)
        events.append(["enter", name, r.action.value, ctx.recursion_depth])
        return r

    def exit_(name, ctx):
        ox(name, ctx)
        if ctx.recursion_depth < 0:
            st["neg"] = True
        events.append(["exit", name, None, ctx.recursion_depth])

    def parse(*a, **k):
        st["open"] += 1
        if st["open"] > fuel:
            st["open"] -= 1
            raise _TooDeep()
        st["max"] = max(st["max"], st["open"])
        st["ctx"] = a[2]
        try:
            return op(*a, **k)
        finally:
            st["open"] -= 1
            if st["open"] == 0:
                u = a[2].unified_cycle_context
                if u.schema_stack or u.recursion_depth != 0 or any(
                        v == U.SchemaState.IN_PROGRESS for kk, v in u.schema_states.items() if kk):
                    st["rest_violations"].append(a[0])

    def build(raw_schemas, raw_components):
        try:
            return ob(raw_schemas, raw_components)
        finally:
            ctx = st["ctx"]
            if ctx is not None:
                vals = list(ctx.parsed_schemas.values())
                snap["registry"] = [
                    [k, _summ(v, vals), [[pk, pk in v.required, _summ(pv, vals)] for pk, pv in v.properties.items()]]
                    for k, v in ctx.parsed_schemas.items()
                ]
                u = ctx.unified_cycle_context
                snap["fields"] = impl_fields(ctx.parsed_schemas, [d[0] for d in decls])
                snap["rest"] = (not u.schema_stack) and u.recursion_depth == 0
                snap["states"] = sorted([k, v.value] for k, v in u.schema_states.items())
            else:
                snap["registry"], snap["rest"], snap["states"] = [], True, []
                snap["fields"] = [[d[0], None, "missing"] for d in decls]

    raises = None
    ir = None
    t0 = time.time()
    import warnings

    old_limit = sys.getrecursionlimit()
    sys.setrecursionlimit(max(old_limit, 6 * fuel + 500))
    with _Env(max_depth), warnings.catch_warnings():
        warnings.simplefilter("ignore")
        U.unified_enter_schema, U.unified_exit_schema = enter, exit_
        SP._parse_schema = parse
        E._parse_schema = parse
        L.build_schemas = build
        L.validate_spec = None
        try:
            ir = L.load_ir_from_spec(spec_of(decls))
        except _TooDeep:
            raises = "RecursionError"
        except RecursionError:
            raises = "RecursionError"
        except RuntimeError as e:
            raises = "RuntimeError" if "was not parsed" in str(e) else "RuntimeError:" + str(e)[:80]
        except Exception as e:  # noqa: BLE001
            raises = type(e).__name__ + ":" + str(e)[:80]
        finally:
            U.unified_enter_schema, U.unified_exit_schema = oe, ox
            SP._parse_schema = op
            E._parse_schema = op
            L.build_schemas = ob
            L.validate_spec = ov
            sys.setrecursionlimit(old_limit)
    out = {
        "events": events, "registry": snap.get("registry", []), "oom": raises == "RecursionError",
        "maxNest": st["max"], "raises": raises, "rest": snap.get("rest", True), "states": snap.get("states", []),
        "fields": snap.get("fields", []),
    }
    schemas = spec_of(decls)["components"]["schemas"]
    out["spec"] = [[d[0], ref_fields(schemas, d[0])] for d in decls]
    if want_ir:
        out["_ir"] = ir
        out["_rest_violations"] = st["rest_violations"]
        out["_neg"] = st["neg"]
        out["_secs"] = time.time() - t0
    return out


def _cmp_parser(m: dict, impl: dict) -> bool:
    if m["oom"] or impl["oom"]:
        return m["oom"] == impl["oom"]
    keys = ["events", "registry", "maxNest", "raises", "rest", "states", "spec"]
    if not all(m[k] == impl[k] for k in keys):
        return False
    # model fields: [name, fields|null, kind, faithful]; the Faithful flag must agree with the python judgement
    if [x[:3] for x in m["fields"]] != impl["fields"]:
        return False
    spec = dict((n, f) for n, f in impl["spec"])
    for n, fs, kind, faithful in m["fields"]:
        py = fs is not None and kind == "full" and _same_field_set(fs, spec[n])
        if py != faithful:
            return False
    return True


def _same_field_set(a: list, b: list) -> bool:
    return all(x in b for x in a) and all(x in a for x in b)


def _features(decls: list, impl: dict) -> list:
    f = set()
    for e in impl["events"]:
        if e[0] == "enter":
            f.add("act:" + e[2])
    for k, o, props in impl["registry"]:
        f.add("reg:" + o["kind"])
    if impl["raises"]:
        f.add("raises:" + impl["raises"].split(":")[0])
    # double exit = fall-through
    ev = impl["events"]
    for i, e in enumerate(ev):
        if e[0] == "enter" and e[2] == "existing" and i + 2 < len(ev) and ev[i + 2][0] == "enter":
            f.add("fallthrough")
    txt = json.dumps(decls)
    for tag, pat in [("allOf", '"all"'), ("oneOf", '"one"'), ("anyOf", '"any"'), ("array", '"i"'),
                     ("map", '"a": {'), ("nullable", '"n"'), ("enum", '"e": true')]:
        if pat in txt:
            f.add("node:" + tag)
    return sorted(f)


def _run_parser(rng: random.Random, n_cases: int, driver: str, res: dict) -> None:
    cases = []
    for _ in range(n_cases):
        decls = gen_decls(rng)
        if rng.random() < 0.3:
            rng.shuffle(decls)
        md = rng.choice([3, 10, 150])
        cases.append((md, 60, decls))
    model = _drive(driver, [{"f": "parseSpec", "a": [md, fuel, decls]} for md, fuel, decls in cases])
    seen = set()
    for (md, fuel, decls), m in zip(cases, model):
        impl = py_parse(md, fuel, decls)
        res["comparisons"] += 1
        feats = _features(decls, impl)
        for f in feats:
            res["distribution"][f] = res["distribution"].get(f, 0) + 1
        if any(f.startswith(("act:create", "act:existing", "act:placeholder", "raises", "fallthrough")) for f in feats):
            key = json.dumps([md, decls])
            if key not in seen:
                seen.add(key)
                res["nontrivial"] += 1
        if "error" in m or not _cmp_parser(m, impl):
            if len(res["disagreements"]) < 50:
                res["disagreements"].append({"label": "parser", "request": [md, fuel, decls], "model": m, "impl": impl})
        elif len(res["samples"]) < 5 and "act:create" in feats and len(decls) <= 3 and len(json.dumps(decls)) < 400:
            res["samples"].append({"parser": [md, decls], "events": impl["events"][:12], "raises": impl["raises"]})


def _run_fragment2(rng: random.Random, n_cases: int, driver: str, res: dict) -> None:
    """The tie between the THEOREM `C02b.parse_faithful_partial2` and the real loader: documents the Lean decision procedure
    `inFragment2` accepts (C02b.inFragment2_sound: then the model loads without error and every declared name is Faithful) are
    loaded by the real load_ir_from_spec, which must not raise and must give every declared schema exactly the fields the document
    declares.  Membership is decided in Lean; the generators only aim."""
    cases = []
    for k in range(n_cases):
        decls = gen_simple2_dag(rng) if k % 4 else gen_decls(rng)
        rs = ranks_of(decls)
        if rs is None:
            res["distribution"]["fragment2:no-rank(cyclic/dangling)"] = res["distribution"].get("fragment2:no-rank(cyclic/dangling)", 0) + 1
            continue
        top = max([r for _n, r in rs] + [0])
        md = rng.choice([top + 1, top + 1, top, 10, 150])     # top + 1 is the tightest depth limit the theorem allows
        cases.append((md, ORACLE_FUEL, decls, rs))
    if not cases:
        return
    member = _drive(driver, [{"f": "parserInFragment2", "a": [md, fuel, decls, rs]} for md, fuel, decls, rs in cases])
    for (md, fuel, decls, rs), m in zip(cases, member):
        if m is not True:
            key = "fragment2:outside" if m is False else "fragment2:driver-error"
            res["distribution"][key] = res["distribution"].get(key, 0) + 1
            if m is not False and len(res["disagreements"]) < 50:
                res["disagreements"].append({"label": "fragment2", "request": [md, fuel, decls, rs], "model": m, "impl": None})
            continue
        res["distribution"]["fragment2:inside"] = res["distribution"].get("fragment2:inside", 0) + 1
        txt = json.dumps(decls)
        for tag, pat in [("array", '"i"'), ("map", '"a": {'), ("tight-depth", None)]:
            if (pat and pat in txt) or (pat is None and md == max([r for _n, r in rs] + [0]) + 1):
                res["distribution"]["fragment2:inside:" + tag] = res["distribution"].get("fragment2:inside:" + tag, 0) + 1
        impl = py_parse(md, fuel, decls)
        res["comparisons"] += 1
        spec = dict((n, f) for n, f in impl["spec"])
        bad = []
        if impl["oom"] or impl["raises"]:
            bad.append(["raises", impl["raises"] or "RecursionError"])
        else:
            for n, fs, kind in impl["fields"]:
                if fs is None or kind != "full" or not _same_field_set(fs, spec[n]):
                    bad.append([n, kind, fs, spec[n]])
        if bad and len(res["disagreements"]) < 50:
            res["disagreements"].append({"label": "fragment2: C02b.parse_faithful_partial2 holds of the model on this document, the real loader is not faithful",
                                         "request": [md, fuel, decls, rs], "model": "inFragment2 = true => Faithful for every declared name", "impl": bad})
        elif not bad:
            res["nontrivial"] += 1 if ('"i"' in txt or '"a": {' in txt) else 0


# ----------------------------------------------------------------------------------------------
# oracle: C08 / C02 / C19 evaluated directly on the real parser

ORACLE_FUEL = 320  # nesting bound: the real parser uses 3 Python frames per nested _parse_schema call, so this is
#                    about where CPython's default recursion limit (1000) is hit inside load_ir_from_spec (the hooks
#                    add a frame per call, so py_parse lifts the interpreter limit and counts the nesting itself)


def _classify_c02(decls: list, name: str, node: dict, kind: str, fields, spec: list) -> str:
    names = [d[0] for d in decls]
    if kind == "depth":
        return "depth-placeholder-permanent"
    if kind in ("cycle", "self"):
        if any(o != name and o.startswith(name) for o in names):
            return "prefix-name-loses-fields"
        if "Item" in name or "Property" in name:
            return "synthetic-looking-name-loses-fields"
        return "cycle-placeholder-replaces-schema"
    if kind == "unresolved":
        return "unresolved-stub-replaces-schema"
    keys_i = [f[0] for f in fields]
    keys_s = [f[0] for f in spec]
    if set(keys_i) != set(keys_s):
        if "all" in node and set(keys_i) < set(keys_s):
            return "allof-child-in-parent-inherits-nothing"
        if "all" in node:
            return "allof-fields-differ"
        return "synthetic-name-shadows-declared-schema" if "o" in node else "fields-differ-other"
    sp = {f[0]: f for f in spec}
    for k, req, kd in fields:
        if sp[k][2] != kd:
            if "ref:" in kd and "ref:" not in sp[k][2]:
                return "inline-prop-named-like-schema"
            if "ref:" in sp[k][2] and "ref:" not in kd:
                return "ref-typed-as-unregistered-copy"
            aliases = {_cls(d[0]) for d in decls if "r" in d[1] or ("n" in d[1] and "r" in d[1]["n"])}
            if any(("ref:" + a) in sp[k][2] for a in aliases):
                return "alias-target-substituted"
            return "field-kind-differs"
    # F8 is about an allOf child that is parsed INSIDE its parent (i.e. while a reference cycle through it is open); a required flag
    # lost on an acyclic allOf is a different defect and must not be absorbed by that finding
    return "allof-required-lost-in-cycle" if ("all" in node and _reaches_itself(decls, name)) else \
        "allof-required-flag-differs" if "all" in node else "required-flag-differs"


def _refs_of(node) -> set:
    out = set()
    if isinstance(node, dict):
        if "r" in node and isinstance(node["r"], str):
            out.add(node["r"])
        for v in node.values():
            out |= _refs_of(v)
    elif isinstance(node, list):
        for v in node:
            out |= _refs_of(v)
    return out


def _closure(decls: list, name: str) -> set:
    """class-cased names of every schema reachable from `name` through references"""
    g = {d[0]: _refs_of(d[1]) for d in decls}
    g.update({_cls(k): v for k, v in list(g.items())})
    seen, todo = set(), [name]
    while todo:
        x = todo.pop()
        if x in seen:
            continue
        seen.add(x)
        todo.extend(g.get(x, ()))
    return {_cls(x) for x in seen}


def _reaches_itself(decls: list, name: str) -> bool:
    """Is there a reference cycle anywhere in the document from which `name` is reachable or on which it lies?  (What is parsed
    'inside' what depends on the declaration order, so any cycle touching the schema's reference closure counts.)"""
    g = {d[0]: _refs_of(d[1]) for d in decls}
    g.update({_cls(k): v for k, v in list(g.items())})
    seen, todo = set(), [name]
    while todo:
        n = todo.pop()
        if n in seen:
            continue
        seen.add(n)
        todo.extend(g.get(n, ()))
    for n in seen:            # a cycle inside the closure?
        stack, vis = list(g.get(n, ())), set()
        while stack:
            m = stack.pop()
            if m == n:
                return True
            if m in vis:
                continue
            vis.add(m)
            stack.extend(g.get(m, ()))
    # ... or `name` is referenced from a cycle that is parsed first
    for n in g:
        if name in g.get(n, ()) or _cls(name) in g.get(n, ()):
            stack, vis = list(g.get(n, ())), set()
            while stack:
                m = stack.pop()
                if m == n:
                    return True
                if m in vis:
                    continue
                vis.add(m)
                stack.extend(g.get(m, ()))
    return False


def _model_view(r: dict) -> dict:
    """name -> (entry kind, set of fields) for the permutation check"""
    return {n: (kind, None if fs is None else sorted(map(tuple, fs))) for n, fs, kind in r["fields"]}


def _eval_case(case: dict) -> list:
    """All property violations of one case (list of failure dicts)."""
    md, decls = case["max_depth"], case["decls"]
    fails = []
    t0 = time.time()
    r = py_parse(md, ORACLE_FUEL, decls, want_ir=True)
    secs = time.time() - t0

    def fail(cls, observed, expected, **extra):
        c = dict(case)
        c.update(extra)
        c["class"] = cls
        fails.append({"class": cls, "case": c, "observed": observed, "expected": expected})

    # ---- C08
    if r["raises"] == "RecursionError":
        def _is_alias(node):
            while isinstance(node, dict) and "n" in node:
                node = node["n"]
            return isinstance(node, dict) and "r" in node
        # F51 is recorded for cycles THROUGH AN ALIAS SCHEMA only; the same failure on a document without one is a new violation
        has_alias = any(_is_alias(d[1]) for d in decls)
        from pyopenapi_gen.core.utils import NameSanitizer as _NS
        # F61: a declared name that is not class-cased is registered under its sanitised name and looked up under the raw one
        raw_name = any(_NS.sanitize_class_name(d[0]) != d[0] for d in decls)
        fail("depth-limit-bypassed-recursion-error" + ("" if has_alias else "-unsanitised-name" if raw_name else "-other"),
             f"more than {ORACLE_FUEL} nested _parse_schema calls "
             f"(RecursionError at the default interpreter limit), PYOPENAPI_MAX_DEPTH={md}",
             "recursion cut by placeholders at the depth limit")
        return fails
    if secs > 20:
        fail("load-too-slow", f"{secs:.1f}s", "terminates promptly")
    if r["_neg"]:
        fail("depth-negative", "recursion_depth < 0", "depth >= 0")
    if r["_rest_violations"] or not r["rest"]:
        fail("tracker-not-at-rest", r["_rest_violations"], "rest state after each top-level schema")
    if any(v == "in_progress" for k, v in r["states"] if k):
        fail("schema-left-in-progress", r["states"], "every schema in a terminal state")
    if r["raises"] is not None:
        from pyopenapi_gen.core.utils import NameSanitizer as NS

        missing = [n for n, fs, kind in r["fields"] if kind == "missing"]
        for n in missing:
            node = dict(decls)[n] if not isinstance(decls, dict) else decls[n]
            while "n" in node:
                node = node["n"]
            if "r" in node:
                cls = "alias-schema-not-parsed"
            elif NS.sanitize_class_name(NS.sanitize_class_name(n)) != NS.sanitize_class_name(n):
                cls = "sanitize-twice-name-not-parsed"
            else:
                cls = "declared-name-not-parsed-other"
            fail(cls, r["raises"], "every declared schema name is present in the result", name=n)
        if not missing:
            fail("load-raises-other", r["raises"], "loads")
        return fails
    # ---- C02
    spec = dict((n, f) for n, f in r["spec"])
    nodes = dict((d[0], d[1]) for d in decls)
    oa_schemas = spec_of(decls)["components"]["schemas"]
    depth_cut = {_cls(x) for x, _f, k in r["fields"] if k == "depth"} | {o.get("name") for _k, o, _p in r["registry"] if o.get("kind") == "depth"}
    for n, fs, kind in r["fields"]:
        node = nodes[n]
        while "n" in node:
            node = node["n"]
        # properties that are nested-pointer $refs are judged against what the pointer really designates; the name-based
        # denotation (shared with the Lean `specFields`, which sees the last segment only) judges all the others
        via = {kv[0]: kv[1] for kv in (node.get("o") or []) if isinstance(kv[1], dict) and kv[1].get("via")} if isinstance(node.get("o"), list) else {}
        if via and fs is not None and kind == "full":
            for k, pn in via.items():
                target = _pointer_target(oa_schemas, pn)
                want = ref_kind(target) if isinstance(target, dict) and "$ref" not in target else None
                got = next((f[2] for f in fs if f[0] == k), None)
                if want is not None and got != want:
                    fail("nested-pointer-ref-resolved-by-last-segment", {"key": k, "kind": got},
                         {"key": k, "kind": want, "pointer": to_openapi(pn)["$ref"]}, name=n)
        fs_n = None if fs is None else [f for f in fs if f[0] not in via]
        spec_n = [f for f in spec[n] if f[0] not in via]
        ok = fs_n is not None and kind == "full" and _same_field_set(fs_n, spec_n)
        if not ok:
            cls = _classify_c02(decls, n, node, kind, fs_n or [], spec_n)
            if cls == "allof-required-flag-differs" and _closure(decls, n) & depth_cut:
                # a composition member that was cut at the depth limit (F9) contributes neither fields nor required flags
                cls = "depth-placeholder-permanent"
            fail(cls, {"kind": kind, "fields": fs}, {"kind": "full", "fields": spec[n]}, name=n)
    # ---- C19: declaration order / property order
    perm = case.get("perm")
    if perm is not None or case.get("decls2") is not None:
        decls2 = [decls[i] for i in perm] if perm is not None else decls
        if case.get("shuffle_props"):
            decls2 = _shuffle_props(decls2, random.Random(case["shuffle_props"]))
        if case.get("decls2") is not None:  # explicit re-ordering of properties (witness of a Lean counterexample)
            decls2 = case["decls2"]
        r2 = py_parse(md, ORACLE_FUEL, decls2)
        v1, v2 = _model_view(r), _model_view(r2)
        if r2["raises"] != r["raises"] or v1 != v2:
            diff = sorted(n for n in v1 if v1.get(n) != v2.get(n))
            fail("declaration-order-changes-models" if not (case.get("shuffle_props") or case.get("decls2"))
                 else "property-order-changes-models",
                 {"differs": diff, "raises": [r["raises"], r2["raises"]]}, "same set of models and fields")
    return fails


def _shuffle_props(decls: list, rng: random.Random) -> list:
    def sh(n):
        if not isinstance(n, dict):
            return n
        m = {}
        for k, v in n.items():
            if k == "o" and v is not None:
                v = [[kk, sh(vv)] for kk, vv in v]
                rng.shuffle(v)
                m[k] = v
            elif k in ("all", "one", "any"):
                m[k] = [sh(x) for x in v]
            elif k in ("i", "n", "a") and v is not None:
                m[k] = sh(v)
            else:
                m[k] = v
        return m

    return [[n, sh(nd)] for n, nd in decls]


KNOWN_WITNESSES = [
    # (max_depth, decls, perm) — the witnesses of the `_counterexample` theorems, always evaluated
    (150, [["User", {"o": [["group", R("UserGroup")]], "q": [], "a": None}],
           ["UserGroup", {"o": [["members", {"i": R("User")}]], "q": [], "a": None}]], [1, 0]),
    (150, [["Parent", {"o": [["kids", {"i": R("Child")}]], "q": [], "a": None}],
           ["Child", {"all": [R("Parent"), {"o": [["extra", {"p": "string", "e": False}]], "q": [], "a": None}],
                      "o": [], "q": []}]], [1, 0]),
    (150, [["A", R("B")], ["B", {"o": [["x", {"p": "string", "e": False}]], "q": [], "a": None}]], None),
    (150, [["a.b", {"o": [["x", {"p": "string", "e": False}]], "q": [], "a": None}]], None),
    (150, [["Owner", {"o": [["owner", {"o": None, "q": [], "a": None}]], "q": [], "a": None}]], None),
    (150, [["Event", {"o": [["owner", {"o": None, "q": [], "a": None}]], "q": [], "a": None}],
           ["EventOwner", {"o": [["name", {"p": "string", "e": False}]], "q": [], "a": None}]], [1, 0]),
    (150, [["Zz", {"o": [["p0", R("Aa")], ["p2", {"i": R("Dd")}], ["p3", R("Aa")]], "q": [], "a": None}],
           ["Aa", {"o": [["p0", R("Dd")], ["p2", R("Dd")], ["p3", R("Bb")], ["p4", R("Bb")]], "q": [], "a": None}],
           ["Dd", R("Cc")],
           ["Cc", {"o": [["p1", R("Aa")], ["p2", R("Aa")]], "q": [], "a": None}],
           ["Bb", {"o": [["p0", R("Zz")], ["p1", R("Zz")]], "q": [], "a": None}]], None),
    (2, [["A", {"o": [["b", R("B")]], "q": [], "a": None}], ["B", {"o": [["c", R("C")]], "q": [], "a": None}],
         ["C", {"o": [["x", {"p": "string", "e": False}]], "q": [], "a": None}]], [2, 1, 0]),
    # F66: a $ref below a component is resolved by its last segment
    (150, [["Order", {"o": [["status", {"p": "string", "e": False}], ["copy", {"r": "status", "via": "Order/properties"}]], "q": [], "a": None}],
           ["Status", {"o": [["x", {"p": "integer", "e": False}]], "q": [], "a": None}]], None),
]


def oracle(seed: int, scale: float) -> dict:
    rng = random.Random(seed)
    failures: list = []
    evaluations = 0
    cases = [{"max_depth": md, "decls": d, "perm": perm} for md, d, perm in KNOWN_WITNESSES]
    _bb = ["Bb", {"o": [["p", R("Aa")], ["q", R("Aa")]], "q": [], "a": None}]
    cases.append({"max_depth": 150, "perm": None,
                  "decls": [["Aa", {"o": [["p", R("Aa")], ["q", R("Bb")]], "q": [], "a": None}], _bb],
                  "decls2": [["Aa", {"o": [["q", R("Bb")], ["p", R("Aa")]], "q": [], "a": None}], _bb]})
    for _ in range(max(5, int(800 * scale))):
        # the fragment of C02.parse_faithful_partial / C19.parse_perm_invariant_partial: no failure is expected here
        decls = gen_simple_dag(rng)
        perm = list(range(len(decls)))
        rng.shuffle(perm)
        cases.append({"max_depth": rng.choice([10, 150]), "decls": decls, "perm": perm, "fragment": "simple-dag"})
    for _ in range(max(10, int(5000 * scale))):
        decls = gen_decls(rng)
        perm = list(range(len(decls)))
        rng.shuffle(perm)
        case = {"max_depth": rng.choice([3, 10, 150, 150]), "decls": decls, "perm": perm}
        if rng.random() < 0.3:
            case["perm"] = list(range(len(decls)))
            case["shuffle_props"] = rng.randint(1, 10**6)
        cases.append(case)
    per_class: dict = {}
    for case in cases:
        evaluations += 1
        for f in _eval_case(case):
            if case.get("fragment"):
                # a violation INSIDE the proved fragment would contradict the theorem (or the correspondence)
                f["class"] = "UNEXPECTED-in-proved-fragment:" + f["class"]
                f["case"]["class"] = f["class"]
            per_class[f["class"]] = per_class.get(f["class"], 0) + 1
            if per_class[f["class"]] <= 6:  # keep the report small: a few witnesses per class
                failures.append(f)
    return {"evaluations": evaluations, "failures": failures, "failures_per_class": per_class}


def replay(case) -> bool:
    """Re-run one oracle case; True iff a violation of the SAME class is still observed."""
    cls = case.get("class")
    if cls == "synthetic-name-collision":
        from . import faith3
        return faith3.replay(case)
    if cls and cls.startswith("UNEXPECTED-in-proved-fragment:"):
        cls = cls.split(":", 1)[1]
    name = case.get("name")
    for f in _eval_case({k: v for k, v in case.items() if k not in ("class", "name")}):
        if cls is None or (f["class"] == cls and (name is None or f["case"].get("name") == name)):
            return True
    return False


# ----------------------------------------------------------------------------------------------
# public API (parser part is added below)


def run(seed: int, scale: float, driver: str) -> dict:
    rng = random.Random(seed)
    res = {"comparisons": 0, "disagreements": [], "nontrivial": 0, "rule": "", "samples": [], "distribution": {}}
    _run_tracker(rng, max(20, int(1500 * scale)), driver, res)
    _run_parser(rng, max(20, int(8000 * scale)), driver, res)
    _run_fragment2(random.Random(seed ^ 0x5f2), max(20, int(1500 * scale)), driver, res)
    res["rule"] = (
        "parser: random schema graphs (1-5 named schemas from pools with prefix pairs User/UserGroup, Pet/PetOwner, "
        "Order/OrderItem, names containing Item/Property, a non-class-cased name; nodes: $ref, primitive(+enum), object "
        "(+required, +additionalProperties, with/without properties key), array, allOf(+own props), oneOf, anyOf, "
        "nullable; dangling refs) rendered to OpenAPI and loaded by the REAL load_ir_from_spec with enter/exit hooks, "
        "PYOPENAPI_MAX_DEPTH in {3,10,150}; compared: full enter/exit event trace with actions and depths, maximal "
        "nesting of _parse_schema, the whole registry after build_schemas (key, kind, name, type, items, fields with "
        "wire key/required/summary), tracker states, rest flag, raised error; non-trivial = some enter answered other "
        "than CONTINUE, or an error raised. "
        "fragment2: documents aimed at Simple2 (objects with primitive / $ref / array / map properties, top-level arrays and "
        "primitive aliases, depth limit down to the tightest the theorem allows) whose membership the driver decides with "
        "inFragment2 (C02b.inFragment2_sound); on every accepted document the real loader must not raise and must be faithful. "
        "tracker: random enter/exit/reset sequences (half parser-shaped, half arbitrary) over a name pool with "
        "prefix pairs, Item/Property/Children names and the empty name, max depth in {0,1,2,3,5,150}; compared per "
        "event: action, placeholder kind, stored flag, depth, stack, states, detected cycles; non-trivial = at least "
        "one answer other than CONTINUE."
    )
    return res


if __name__ == "__main__":
    here = os.path.dirname(os.path.abspath(__file__))
    drv = os.path.join(here, ".lake", "build", "bin", "driver")
    t = time.time()
    r = run(int(sys.argv[1]) if len(sys.argv) > 1 else 0, float(sys.argv[2]) if len(sys.argv) > 2 else 1.0, drv)
    print(json.dumps({k: v for k, v in r.items() if k not in ("disagreements", "samples")}, indent=1))
    for d in r["disagreements"][:3]:
        print(json.dumps(d)[:3000])
    print(f"{len(r['disagreements'])} disagreements, {r['comparisons']} comparisons, {time.time() - t:.1f}s")
    t = time.time()
    o = oracle(int(sys.argv[1]) if len(sys.argv) > 1 else 0, float(sys.argv[2]) if len(sys.argv) > 2 else 1.0)
    print("oracle:", o["evaluations"], "evaluations;", json.dumps(o["failures_per_class"], indent=1))
    bad = [f for f in o["failures"] if not replay(f["case"])]
    print(f"replay confirms {len(o['failures']) - len(bad)}/{len(o['failures'])} kept failures, {time.time() - t:.1f}s")
