"""C17 — transport applies defaults, per-request headers and auth as documented."""
from __future__ import annotations

from .. import findings
from . import _generic as g

PROP = "C17"
CORR = "vf.corr.c17"
# header-case-variant-not-overridden (F27a) and apikey-query-dropped / apikey-cookie-dropped (F27b) are repaired: no oracle class
# maps to a finding any more, a recurrence is a violation
CLASSES: dict[str, str] = {}


def check(run, ctx) -> None:
    known = findings.Known(run, PROP)
    g.run_corr(run, ctx, CORR, "Http.prepareHeaders")
    g.replay_witnesses(run, known, {})
    g.run_oracle(run, ctx, known, CORR, "C17 on the real transport", CLASSES)
    known.report_unreplayed()


def search(run, ctx) -> None:
    check(run, ctx)


def replay(run, ctx, rec) -> bool:
    return g.replay_generic(rec)
