import Pog.Lemmas.ConvGen
import Pog.Props.C16
import Pog.Props.C20
/-
  C03 (converter part) — generated models round-trip conforming JSON on the wire names of the spec.

  FULL STATEMENT: for every generated model and every JSON document that conforms to its schema, structuring
  then unstructuring yields JSON equal to the input, where the only tolerated difference is that an absent
  optional property may reappear as null or, if array/map valued, as an empty container.  Keys on the wire
  are the spec's original property names whatever Python field names were derived; formatted values
  (date-time, date, uuid, byte/binary, enums) survive unchanged.

  What is proved (models: `Pog.Model.Conv`, `Pog.Model.ConvGen`; tied to the code by corr_conv.py):

    meta_maps_inverse        : the emitted `Meta` maps are mutually inverse bijections between the schema's property
                               names and the derived (pairwise distinct) field identifiers; wire keys = property names (full)
    roundtrip_generated      : C16 `decode_encode` instantiated with those maps: any property names, any derived names  (full)
    chosen_leaves_supported  : every python type the resolver chooses for a string `format` has a codec:
                               a structure hook and an unstructure hook (or it is a cattrs builtin)                 (full)
    chosen_leaves_supported_former_witness : (F10 repaired) `uuid ↦ UUID`, `time ↦ time` used to have neither hook; now a
                               UUID / time string is structured and written back unchanged
    chosen_leaves_roundtrip  : a canonically spelled value of ANY format of `format_mapping` (and of the default) survives
                               structure-then-unstructure unchanged, for every codec                                (full)
    unsupported_field_poisons_class : a model with ONE property whose type has no structure hook (what is left: an unresolved
                               forward reference, F42) cannot be decoded at all, whatever the payload
                               (the failure happens while the class's structure function is generated)      (total defect)
-/
namespace Pog.C03
open Pog

/-! ## the `Meta` maps -/

/-- For an object schema whose property names are pairwise distinct (they are the keys of a mapping), the class
    the generator emits exists (the name de-duplication loop terminates, C20) and
      * its field identifiers are pairwise distinct, one per property;
      * `key_transform_with_load` is `{property ↦ identifier}` and `key_transform_with_dump` is its converse
        (`(p, n) ∈ load ↔ (n, p) ∈ dump`), both injective;
      * the key the converter READS a field from and the key it WRITES it to are both the field's original
        property name — for every property name whatsoever (keywords, case-fold collisions, punctuation, …);
      * the set of wire keys is exactly the set of property names. -/
theorem meta_maps_inverse (props : List PropSpec) (hnd : (props.map PropSpec.name).Nodup) :
    ∃ cd names load dump, generatedClass props = some cd
      ∧ cd.loadMap = some load ∧ cd.dumpMap = some dump
      ∧ (∀ p n, (p, n) ∈ load ↔ (n, p) ∈ dump)
      ∧ (load.map Prod.fst).Nodup ∧ (load.map Prod.snd).Nodup
      ∧ cd.fields.map Field.pyName = names ∧ names.Nodup ∧ names.length = props.length
      ∧ cd.fields.map (loadKey cd) = cd.fields.map (dumpKey cd)
      ∧ (cd.fields.map (loadKey cd)).Perm (props.map PropSpec.name)
      ∧ classOk cd = true := by
  obtain ⟨cd, names, hg, _, hl, hd, hnn, hlen, hpn, hlk, hdk⟩ := generatedClass_spec props
  have hperm := (sortProps_perm props).map PropSpec.name
  have hps : ((sortProps props).map PropSpec.name).Nodup := hperm.nodup_iff.mpr hnd
  have hlen2 : ((sortProps props).map PropSpec.name).length = names.length := by simp [hlen]
  refine ⟨cd, names, _, _, hg, hl, hd, ?_, ?_, ?_, hpn, hnn, ?_, by rw [hlk, hdk], hlk ▸ hperm,
    generatedClass_ok props hnd cd hg⟩
  · intro p n
    exact ⟨mem_zip_swap _ _ p n, mem_zip_swap _ _ n p⟩
  · rw [List.map_fst_zip (by omega)]; exact hps
  · rw [List.map_snd_zip (by omega)]; exact hnn
  · rw [hlen, (sortProps_perm props).length_eq]

/-- The derived identifiers are the ones C20 talks about (`Pog.fieldNames` over the sorted property names). -/
theorem meta_maps_names (props : List PropSpec) :
    ∃ cd names, generatedClass props = some cd
      ∧ fieldNames ((sortProps props).map PropSpec.name) = some names
      ∧ cd.fields.map Field.pyName = names := by
  obtain ⟨cd, names, hg, hfn, _, _, _, _, hpn, _, _⟩ := generatedClass_spec props
  exact ⟨cd, names, hg, hfn, hpn⟩

/-- Keyword-like, case-fold-colliding and punctuation-only-different property names: the identifiers collide
    before de-duplication (`user_id`, `user_id_2`, …), the wire keys are the original names. -/
example :
    (generatedClass [⟨"userId".toList, .leaf .str, .required⟩, ⟨"user_id".toList, .leaf .int, .required⟩,
                     ⟨"class".toList, .optional (.leaf .str), .none⟩, ⟨"user-id".toList, .leaf .int, .required⟩]).map
      (fun cd => cd.fields.map (fun f => (f.pyName, loadKey cd f, dumpKey cd f)))
    = some [("user_id".toList, "user-id".toList, "user-id".toList),
            ("user_id_2".toList, "userId".toList, "userId".toList),
            ("user_id_3".toList, "user_id".toList, "user_id".toList),
            ("class_".toList, "class".toList, "class".toList)] := by decide

/-! ## round trip of generated models -/

/-- Every class of the declaration table is one the generator emits (from distinct property names). -/
def Generated (decls : Decls) : Prop :=
  ∀ d ∈ decls, ∃ props : List PropSpec, (props.map PropSpec.name).Nodup ∧ generatedClass props = some d.2

theorem generated_declsOk (decls : Decls) (h : Generated decls) : declsOk decls = true := by
  simp only [declsOk, List.all_eq_true]
  intro d hd
  obtain ⟨props, hnd, hg⟩ := h d hd
  exact generatedClass_ok props hnd d.2 hg

/-- C16 `decode_encode` for generated models: whatever the property names are and whatever identifiers were
    derived from them, a conforming document comes back as `normaliseF … j` — the same keys (the spec's names),
    the same values, absent defaulted properties filled in with `null` / `[]` / `{}`. -/
theorem roundtrip_generated (c : Codecs) (n : Nat) (reg : List Str) (decls : Decls) (t : Ty) (j : JsonV)
    (hgen : Generated decls) (hreg : allRegistered reg decls = true)
    (hconf : conformsF c n decls t j = true) :
    ∃ v, structF c n decls t j = .ok v ∧ unstrF c n reg decls (some t) v = .ok (normaliseF n decls t j) :=
  Pog.C16.decode_encode c n reg decls t j (generated_declsOk decls hgen) hreg hconf

/-- The hypothesis is satisfiable: a table holding the class emitted for `{petId: int, class: str, pet-name?: str}`. -/
example : ∃ cd, generatedClass [⟨"petId".toList, .leaf .int, .required⟩, ⟨"pet-name".toList, .optional (.leaf .str), .none⟩,
      ⟨"class".toList, .leaf .str, .required⟩] = some cd ∧ Generated [("Pet".toList, cd)] := by
  obtain ⟨cd, _, _, _, hg, _⟩ := meta_maps_inverse
    [⟨"petId".toList, .leaf .int, .required⟩, ⟨"pet-name".toList, .optional (.leaf .str), .none⟩,
     ⟨"class".toList, .leaf .str, .required⟩] (by decide)
  refine ⟨cd, hg, ?_⟩
  intro d hd
  simp only [List.mem_singleton] at hd
  subst hd
  exact ⟨_, by decide, hg⟩

/-- C03 as stated: the re-encoded document `out` equals the input up to the order of object keys, except that `out`
    may carry additional keys whose value is `null`, `[]` or `{}` (`tolerated`): nothing is lost, nothing is changed,
    no key is renamed. -/
theorem roundtrip_tolerated (c : Codecs) (n : Nat) (reg : List Str) (decls : Decls) (t : Ty) (j : JsonV)
    (hgen : Generated decls) (hreg : allRegistered reg decls = true)
    (hconf : conformsF c n decls t j = true) :
    ∃ v out, structF c n decls t j = .ok v ∧ unstrF c n reg decls (some t) v = .ok out ∧ tolerated j out = true := by
  obtain ⟨v, h1, h2⟩ := roundtrip_generated c n reg decls t j hgen hreg hconf
  exact ⟨v, _, h1, h2, tolerated_normalise c decls (generated_declsOk decls hgen) n t j hconf⟩

/-- The tolerance is a genuine restriction: a dropped key, a changed value or a renamed key is not tolerated. -/
example : tolerated (.obj [("a".toList, .int 1), ("b".toList, .int 2)]) (.obj [("a".toList, .int 1)]) = false
    ∧ tolerated (.int 5) (.str "5".toList) = false
    ∧ tolerated (.obj [("userId".toList, .int 1)]) (.obj [("user_id".toList, .int 1)]) = false
    ∧ tolerated (.obj [("a".toList, .int 1)]) (.obj [("x".toList, .null), ("a".toList, .int 1), ("l".toList, .arr [])]) = true := by
  decide

/-! ## the leaves the resolver chooses -/

/-- FULL STATEMENT: every python type `_resolve_string` chooses for a string `format` can be structured by the bundled
    converter and is unstructured by a hook of the module (or is JSON as it stands).  Table-level: re-checked by
    `decide` against `formatMapping` × `leafSupported`. -/
theorem chosen_leaves_supported : ∀ e ∈ formatMapping, leafRoundTrips e.2 = true := by
  decide

/-- The statement is not vacuous: the table has entries, `uuid` and `time` among them. -/
example : ("uuid".toList, Leaf.uuid) ∈ formatMapping ∧ ("time".toList, Leaf.time) ∈ formatMapping
    ∧ formatMapping.length = 10 := by decide

/-- The default of `format_mapping.get` (`str`, e.g. for `byte`, `password`) is supported. -/
theorem default_leaf_supported : leafRoundTrips .str = true := by decide

/-- The former witnesses of F10 (repaired): `format: uuid` resolves to `UUID`, `format: time` to `datetime.time`; the
    converter used to register no hook for either.  Now both are in `leafSupported`, a UUID / time string is structured
    to a `UUID` / `time` object, and that object is unstructured to the same string. -/
theorem chosen_leaves_supported_former_witness :
    leafOfFormat "uuid".toList = .uuid ∧ leafRoundTrips .uuid = true
    ∧ leafOfFormat "time".toList = .time ∧ leafRoundTrips .time = true
    ∧ structureFromDict Codecs.exec 3 [] (.leaf .uuid) (.str "123e4567-e89b-12d3-a456-426614174000".toList)
        = .ok (.uuid "123e4567-e89b-12d3-a456-426614174000".toList)
    ∧ (unstructureToDict Codecs.exec 3 [] [] (.uuid "123e4567-e89b-12d3-a456-426614174000".toList)).1
        = .ok (.str "123e4567-e89b-12d3-a456-426614174000".toList)
    ∧ roundtrip Codecs.exec 3 [] [] (.leaf .time) (.str "12:30:00+05:30".toList)
        = .ok (.ok (.str "12:30:00+05:30".toList))
    ∧ structureFromDict Codecs.exec 3 [] (.leaf .uuid) (.str "not-a-uuid".toList) = .error ⟨false, [([], .uuidForm)]⟩ := by
  decide

/-- What `chosen_leaves_supported` buys: for EVERY entry of `format_mapping` (and for the default `str`), every codec and
    every canonically spelled wire value of that leaf type, structuring succeeds and unstructuring the result gives the
    wire value back. -/
theorem chosen_leaves_roundtrip (c : Codecs) (n : Nat) (reg : List Str) (decls : Decls) (fmt : Str) (j : JsonV)
    (hconf : leafConforms c (leafOfFormat fmt) j = true) :
    ∃ v, structF c (n + 1) decls (.leaf (leafOfFormat fmt)) j = .ok v
      ∧ unstrF c (n + 1) reg decls (some (.leaf (leafOfFormat fmt))) v = .ok j := by
  have hrt : leafRoundTrips (leafOfFormat fmt) = true := by
    unfold leafOfFormat
    cases hg : aget formatMapping fmt with
    | none => exact default_leaf_supported
    | some l => exact chosen_leaves_supported (fmt, l) (aget_mem _ _ _ hg)
  simp only [leafRoundTrips, Bool.and_eq_true] at hrt
  have hc : conformsF c (n + 1) decls (.leaf (leafOfFormat fmt)) j = true := by
    simp only [conformsF, resolvable, hrt.1, hrt.2, hconf, Bool.and_self]
  obtain ⟨v, h1, h2, _⟩ := roundtrip_leaf c reg decls n _ j hc
  refine ⟨v, h1, ?_⟩
  rw [h2]; simp [normaliseF]

/-- The hypothesis is satisfiable for the formerly unsupported formats (and fails for a non-canonical spelling). -/
example : leafConforms Codecs.exec (leafOfFormat "uuid".toList) (.str "123e4567-e89b-12d3-a456-426614174000".toList) = true
    ∧ leafConforms Codecs.exec (leafOfFormat "time".toList) (.str "23:59:59".toList) = true
    ∧ leafConforms Codecs.exec (leafOfFormat "time".toList) (.str "23:59:59Z".toList) = false
    ∧ leafConforms Codecs.exec (leafOfFormat "date-time".toList) (.str "2020-01-01T00:00:00".toList) = true := by decide

/-- A dataclass with one field whose type has no structure hook (an unresolved forward reference `"Node"`, a list of
    them — F42) cannot be structured from ANY non-null payload — even one that omits the field: cattrs looks the hooks
    up when it generates the class's structure function. -/
theorem unsupported_field_poisons_class (c : Codecs) (n : Nat) (decls : Decls) (name : Str) (cd : ClassDecl)
    (j : JsonV) (hcd : aget decls name = some cd) (hj : j ≠ .null)
    (hbad : ∃ f ∈ cd.fields, resolvable f.ty = false) :
    structF c (n + 1) decls (.dc name) j = .error (.leaf .unsupported) := by
  obtain ⟨f, hf, hr⟩ := hbad
  have hall : cd.fields.all (fun f => resolvable f.ty) = false := by
    rw [List.all_eq_false]; exact ⟨f, hf, by simp [hr]⟩
  rw [structF_dc]
  cases j <;> simp_all [structClass]

/-- `Optional["N"]` IS resolvable (it goes through the union hook and fails only when a non-null value arrives);
    a bare forward reference, or a `List["N"]`, is not.  A `UUID` / `time` field (bare or in a list) is. -/
example : resolvable (.optional (.fwd "N".toList)) = true ∧ resolvable (.fwd "N".toList) = false
    ∧ resolvable (.list (.fwd "N".toList)) = false
    ∧ resolvable (.leaf .uuid) = true ∧ resolvable (.list (.leaf .time)) = true := by decide

example : structureFromDict Codecs.exec 4
    [("N".toList, { fields := [⟨"id".toList, .leaf .int, .required⟩, ⟨"kids".toList, .list (.fwd "N".toList), .list⟩],
                    loadMap := none, dumpMap := none })]
    (.dc "N".toList) (.obj [("id".toList, .int 1)]) = .error ⟨false, [([], .unsupported)]⟩ := by decide

/-- The former poisoned class of F10 now decodes and re-encodes: `class U: id: int; uid: Optional[UUID] = None`. -/
example : roundtrip Codecs.exec 4 []
    [("U".toList, { fields := [⟨"id".toList, .leaf .int, .required⟩, ⟨"uid".toList, .optional (.leaf .uuid), .none⟩],
                    loadMap := none, dumpMap := none })]
    (.dc "U".toList) (.obj [("id".toList, .int 1), ("uid".toList, .str "00000000-0000-0000-0000-000000000005".toList)])
    = .ok (.ok (.obj [("id".toList, .int 1), ("uid".toList, .str "00000000-0000-0000-0000-000000000005".toList)])) := by decide

end Pog.C03
