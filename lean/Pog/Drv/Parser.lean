import Pog.Drv.Util
import Pog.Model.Tracker
import Pog.Model.Parser
import Pog.Model.ParserSpec
import Pog.Lemmas.Simple2Dec
import Pog.Lemmas.Simple3Dec
open Lean Pog Pog.Drv
namespace Pog.Drv

def parserFns : List String := ["trackerRun", "parseSpec", "parserInFragment2", "parserInFragment3"]

private def getOptStr (j : Json) : Except String (Option Str) :=
  if j.isNull then pure none else do pure (some (← getStr j))

private def stateName : Trk.SchemaState → String
  | .notStarted => "not_started"
  | .inProgress => "in_progress"
  | .completed => "completed"
  | .phCycle => "placeholder_cycle"
  | .phDepth => "placeholder_depth"
  | .phSelfRef => "placeholder_self_ref"

private def actionName : Trk.CycleAction → String
  | .continueParsing => "continue"
  | .returnPlaceholder => "placeholder"
  | .createPlaceholder => "create"
  | .returnExisting => "existing"

private def phName : Trk.PhKind → String
  | .depth => "depth"
  | .cycle => "cycle"
  | .selfRef => "self_ref"

private def getReq (j : Json) : Except String Trk.Req := do
  let a ← j.getArr?
  let kind ← (← argN a 0).getStr?
  match kind with
  | "enter" => pure (.enter (← getOptStr (← argN a 1)) (← getBool (← argN a 2)))
  | "exit" => pure (.exit (← getOptStr (← argN a 1)))
  | "reset" => pure (.reset (← getStr (← argN a 1)))
  | k => throw s!"unknown tracker event {k}"

private def jTrSt (s : Trk.TrSt) : List (String × Json) :=
  let st := s.states.toArray.qsort (fun a b => String.ofList a.1 < String.ofList b.1)
  [("depth", jnat s.depth), ("stack", jstrs s.stack),
   ("states", Json.arr (st.map (fun (n, v) => Json.arr #[jstr n, Json.str (stateName v)]))),
   ("cycles", jlist (fun (c : Trk.CycleInfo) => Json.arr #[jstr c.name, jstrs c.path,
      Json.bool c.direct, jnat c.depthWhen]) s.cycles),
   ("depth_exceeded", jstrs (s.depthExceeded.toArray.qsort
      (fun a b => String.ofList a < String.ofList b)).toList),
   ("cycle_detected", Json.bool s.cycleDetected)]

private def jObs (o : Trk.Obs) : Json :=
  Json.mkObj ([("action", jopt (fun a => Json.str (actionName a)) o.action),
    ("placeholder", jopt (fun a => Json.str (phName a)) o.placeholder),
    ("stored", Json.bool o.stored)] ++ jTrSt o.st)

/-! ### parser -/

private def getPrimTy (s : String) : Except String Prs.PrimTy :=
  match s with
  | "string" => pure .string
  | "integer" => pure .integer
  | "number" => pure .number
  | "boolean" => pure .boolean
  | t => throw s!"unknown primitive type {t}"

/-- Compact JSON of `Prs.Node`:
    {"r": target} | {"p": ty, "e": bool} | {"o": [[k, node]…]|null, "q": [req…], "a": node|null}
    | {"i": node} | {"all": [node…], "o": [[k, node]…], "q": [req…]} | {"one": [node…]}
    | {"any": [node…]} | {"n": node} -/
private partial def getNode (j : Json) : Except String Prs.Node := do
  let props (pj : Json) : Except String (List (Str × Prs.Node)) := do
    let a ← pj.getArr?
    a.toList.mapM (fun kv => do
      let p ← kv.getArr?
      pure ((← getStr (← argN p 0)), (← getNode (← argN p 1))))
  if let .ok t := j.getObjVal? "r" then
    pure (.ref (← getStr t))
  else if let .ok t := j.getObjVal? "p" then
    pure (.prim (← getPrimTy (← t.getStr?)) ((j.getObjValAs? Bool "e").toOption.getD false))
  else if let .ok ps := j.getObjVal? "all" then
    let parts ← getList getNode ps
    let own ← match j.getObjVal? "o" with
      | .ok o => if o.isNull then pure [] else props o
      | .error _ => pure []
    let req ← match j.getObjVal? "q" with
      | .ok q => getStrs q
      | .error _ => pure []
    pure (.allOf parts own req)
  else if let .ok ps := j.getObjVal? "one" then
    pure (.oneOf (← getList getNode ps))
  else if let .ok ps := j.getObjVal? "any" then
    pure (.anyOf (← getList getNode ps))
  else if let .ok i := j.getObjVal? "i" then
    pure (.arr (← getNode i))
  else if let .ok n := j.getObjVal? "n" then
    pure (.nullable (← getNode n))
  else if let .ok o := j.getObjVal? "o" then
    let ps ← if o.isNull then pure none else do pure (some (← props o))
    let req ← match j.getObjVal? "q" with
      | .ok q => getStrs q
      | .error _ => pure []
    let ap ← match j.getObjVal? "a" with
      | .ok a => if a.isNull then pure none else do pure (some (← getNode a))
      | .error _ => pure none
    pure (.obj ps req ap)
  else throw s!"bad node {j.compress}"

private def kindName : Prs.ModelKind → String
  | .full => "full"
  | .cyclePlaceholder => "cycle"
  | .depthPlaceholder => "depth"
  | .selfStub => "self"
  | .unresolved => "unresolved"

/-- summary of one heap object (items followed `d` levels) -/
private def jIR (s : Prs.PSt) : Nat → Nat → Json
  | 0, _ => Json.null
  | d + 1, id =>
    let o := s.get id
    Json.mkObj [
      ("name", jopt jstr o.name), ("type", jopt jstr o.type), ("kind", Json.str (kindName o.kind)),
      ("enum", Json.bool o.hasEnum),
      ("refers", match o.refersTo with | some t => jopt jstr (s.get t).name | none => Json.null),
      ("registered", Json.bool (s.reg.any (fun kv => kv.2 == id))),
      ("items", match o.items with | some i => jIR s d i | none => Json.null),
      ("addl", Json.bool o.addl.isSome),
      ("nprops", jnat o.props.length)]

private def jEntry (s : Prs.PSt) (key : Str) (id : Nat) : Json :=
  let o := s.get id
  Json.arr #[jstr key, jIR s 3 id,
    jlist (fun (kv : Str × Nat) => Json.arr #[jstr kv.1, Json.bool (o.required.contains kv.1), jIR s 3 kv.2]) o.props]

private def kindStr : Prs.Kind → String
  | .prim ty => String.ofList ty.str
  | .ref n => "ref:" ++ String.ofList n
  | .arr k => "arr<" ++ kindStr k ++ ">"
  | .obj => "obj"
  | .union => "union"
  | .unknown => "unknown"

private def jField (f : Prs.Field) : Json :=
  Json.arr #[jstr f.key, Json.bool f.required, Json.str (kindStr f.kind)]

private def jEvents (md : Nat) (w : List Trk.Ev) : Json :=
  let rec go (st : Trk.TrSt) : List Trk.Ev → List Json
    | [] => []
    | e :: rest =>
      let st' := Trk.apply st e
      match e with
      | .enter n _ act => Json.arr #[Json.str "enter", jopt jstr n, Json.str (actionName act), jnat st'.depth] :: go st' rest
      | .exit n => Json.arr #[Json.str "exit", jopt jstr n, Json.null, jnat st'.depth] :: go st' rest
      | .reset _ => go st' rest
  Json.arr (go { maxDepth := md } w).toArray

def parserRun (f : String) (a : Array Json) : Except String Json := do
  match f with
  | "trackerRun" =>
    let md ← getNat (← argN a 0)
    let reqs ← getList getReq (← argN a 1)
    pure (jlist jObs (Trk.runReqs { maxDepth := md } reqs))
  | "parseSpec" =>
    let md ← getNat (← argN a 0)
    let fuel ← getNat (← argN a 1)
    let decls ← getList (fun kv => do
      let p ← kv.getArr?
      pure ((← getStr (← argN p 0)), (← getNode (← argN p 1)))) (← argN a 2)
    let s := Prs.buildSchemas md fuel decls
    let miss := Prs.missing decls s
    pure (Json.mkObj [
      ("events", jEvents md s.trace),
      ("registry", jlist (fun (kv : Str × Nat) => jEntry s kv.1 kv.2) s.reg),
      ("oom", Json.bool s.oom),
      ("maxNest", jnat s.maxNest),
      ("raises", if s.oom then Json.str "RecursionError"
                 else if miss.isEmpty then Json.null else Json.str "RuntimeError"),
      ("missing", jstrs miss),
      ("rest", Json.bool (s.tr.stack.isEmpty && s.tr.depth == 0)),
      ("spec", jlist (fun (d : Str × Prs.Node) => Json.arr #[jstr d.1, jlist jField (Prs.specFields decls d.1)]) decls),
      ("fields", jlist (fun (d : Str × Prs.Node) => Json.arr #[jstr d.1,
          match Prs.modelFields decls s d.1 with
          | some fs => jlist jField fs
          | none => Json.null,
          Json.str (match s.lookup d.1 with | some id => kindName (s.get id).kind | none => "missing"),
          Json.bool (decide (Prs.Faithful decls s d.1))]) decls),
      ("states", Json.arr ((s.tr.states.toArray.qsort (fun a b => String.ofList a.1 < String.ofList b.1)).map
          (fun (n, v) => Json.arr #[jstr n, Json.str (stateName v)])))])
  | "parserInFragment2" =>
    -- [maxDepth, fuel, decls, [[name, rank]…]] -> does the document satisfy the hypotheses of C02b.parse_faithful_partial2
    -- for `buildSchemas maxDepth fuel decls` (C02b.inFragment2_sound)?
    let md ← getNat (← argN a 0)
    let fuel ← getNat (← argN a 1)
    let decls ← getList (fun kv => do
      let p ← kv.getArr?
      pure ((← getStr (← argN p 0)), (← getNode (← argN p 1)))) (← argN a 2)
    let rs ← getList (fun kv => do
      let p ← kv.getArr?
      pure ((← getStr (← argN p 0)), (← getNat (← argN p 1)))) (← argN a 3)
    pure (Json.bool (Prs.inFragment2 md fuel decls rs))
  | "parserInFragment3" =>
    -- same arguments: the hypotheses of C02c.parse_faithful_partial3 (C02c.inFragment3_sound)
    let md ← getNat (← argN a 0)
    let fuel ← getNat (← argN a 1)
    let decls ← getList (fun kv => do
      let p ← kv.getArr?
      pure ((← getStr (← argN p 0)), (← getNode (← argN p 1)))) (← argN a 2)
    let rs ← getList (fun kv => do
      let p ← kv.getArr?
      pure ((← getStr (← argN p 0)), (← getNat (← argN p 1)))) (← argN a 3)
    pure (Json.bool (Prs.inFragment3 md fuel decls rs))
  | _ => throw s!"unknown function {f}"

def dispatchParser : Dispatch := fun f a _ =>
  if parserFns.contains f then some (parserRun f a) else none

end Pog.Drv
