import Pog.Model.Parser
import Pog.Lemmas.Tracker
/-
  Lemmas about M-parser, part 1: the event trace.

  Every function of the model only talks to the tracker through `doEnter / doExit / doReset`, which
  append the event to `PSt.trace`; so for every call
      (post).trace = (pre).trace ++ w,   (post).tr = runEvs (pre).tr w,   Consistent (pre).tr w
  and — because `parseCore` closes what it opens on every path — `w` is `Shaped`.
  This is `Ext`; it is reflexive, transitive, and preserved by every building block given that the
  callback `P` preserves it (`GoodP`).  Induction on the fuel is then one line.
-/
namespace Pog.Prs
open Pog Pog.Trk

theorem consistentB_append (s : TrSt) (u v : List Ev) :
    consistentB s (u ++ v) = (consistentB s u && consistentB (runEvs s u) v) := by
  induction u generalizing s with
  | nil => simp [consistentB, runEvs]
  | cons e u ih =>
    simp only [List.cons_append, consistentB, ih, runEvs_cons, Bool.and_assoc]

theorem Consistent.append {s : TrSt} {u v : List Ev} (hu : Consistent s u)
    (hv : Consistent (runEvs s u) v) : Consistent s (u ++ v) := by
  unfold Consistent at *
  rw [consistentB_append, hu, hv]; rfl

/-- `s'` is reached from `s` by emitting a shaped, consistent event word. -/
def Ext (s s' : PSt) : Prop :=
  ∃ w, s'.trace = s.trace ++ w ∧ Shaped w ∧ s'.tr = runEvs s.tr w ∧ Consistent s.tr w

/-- same tracker, same trace (heap / registry / counters may differ) -/
def SameTr (s s' : PSt) : Prop := s'.tr = s.tr ∧ s'.trace = s.trace

theorem SameTr.ext {s s' : PSt} (h : SameTr s s') : Ext s s' :=
  ⟨[], by simp [h.2], .nil, by simp [h.1, runEvs], by simp [Consistent, consistentB]⟩

theorem Ext.refl (s : PSt) : Ext s s := SameTr.ext ⟨rfl, rfl⟩

theorem Ext.trans {a b c : PSt} (h1 : Ext a b) (h2 : Ext b c) : Ext a c := by
  obtain ⟨w1, ht1, hs1, hr1, hc1⟩ := h1
  obtain ⟨w2, ht2, hs2, hr2, hc2⟩ := h2
  refine ⟨w1 ++ w2, by rw [ht2, ht1, List.append_assoc], hs1.append hs2, ?_, ?_⟩
  · rw [hr2, hr1, runEvs_append]
  · exact Consistent.append hc1 (by rw [← hr1]; exact hc2)

theorem SameTr.trans_ext {a b c : PSt} (h1 : SameTr a b) (h2 : Ext b c) : Ext a c :=
  Ext.trans h1.ext h2

theorem Ext.trans_same {a b c : PSt} (h1 : Ext a b) (h2 : SameTr b c) : Ext a c :=
  Ext.trans h1 h2.ext

theorem sameTr_alloc (s : PSt) (o : IR) : SameTr s (s.alloc o).2 := ⟨rfl, rfl⟩
theorem sameTr_modify (s : PSt) (i : Nat) (f : IR → IR) : SameTr s (s.modify i f) := ⟨rfl, rfl⟩
theorem sameTr_regSet (s : PSt) (k : Str) (i : Nat) : SameTr s (s.regSet k i) := ⟨rfl, rfl⟩

def GoodP (P : PFn) : Prop := ∀ name node allow s, Ext s (P name node allow s).2

/-! ### the three emitters -/

theorem doEnter_spec (s : PSt) (name : Option Str) (allow : Bool) :
    (s.doEnter name allow).1 = (Trk.enter s.tr name allow).2 ∧
    (s.doEnter name allow).2.2.tr = (Trk.enter s.tr name allow).1 ∧
    (s.doEnter name allow).2.2.trace =
      s.trace ++ [.enter name allow (Trk.enter s.tr name allow).2.action] := by
  unfold PSt.doEnter
  simp only []
  split
  · simp only [PSt.alloc]
    split <;> simp [PSt.regSet]
  · simp

theorem doExit_tr (s : PSt) (name : Option Str) : (s.doExit name).tr = Trk.exit s.tr name := rfl
theorem doExit_trace (s : PSt) (name : Option Str) : (s.doExit name).trace = s.trace ++ [.exit name] := rfl
theorem doReset_tr (s : PSt) (n : Str) : (s.doReset n).tr = Trk.reset s.tr n := rfl
theorem doReset_trace (s : PSt) (n : Str) : (s.doReset n).trace = s.trace ++ [.reset n] := rfl

/-! ### building blocks -/

theorem resolveRef_ext (decls : Decls) (P : PFn) (hP : GoodP P) (t : Str) (allow : Bool) (s : PSt) :
    Ext s (resolveRef decls P t allow s).2 := by
  unfold resolveRef
  simp only []
  split
  · exact (sameTr_alloc _ _).ext
  · split
    · split
      · exact Ext.refl s
      · split
        · exact (sameTr_alloc _ _).ext
        · exact hP _ _ _ _
    · split
      · exact (sameTr_alloc _ _).ext
      · exact hP _ _ _ _

theorem parseList_ext (P : PFn) (hP : GoodP P) (allow : Bool) (ns : List Node) :
    ∀ s, Ext s (parseList P allow ns s).2 := by
  induction ns with
  | nil => intro s; exact Ext.refl s
  | cons n rest ih =>
    intro s
    simp only [parseList]
    exact Ext.trans (hP none n allow s) (ih _)

theorem parseOwn_ext (P : PFn) (hP : GoodP P) (name : Option Str) (allow : Bool)
    (ps : List (Str × Node)) : ∀ mp s, Ext s (parseOwn P name allow ps mp s).2 := by
  induction ps with
  | nil => intro mp s; exact Ext.refl s
  | cons kv rest ih =>
    intro mp s
    obtain ⟨k, p⟩ := kv
    simp only [parseOwn]
    exact Ext.trans (hP _ p allow s) (ih _ _)

theorem parseItems_ext (P : PFn) (hP : GoodP P) (name : Option Str) (items : Node) (allow : Bool)
    (s : PSt) : Ext s (parseItems P name items allow s).2 := by
  unfold parseItems
  simp only []
  split
  · exact Ext.trans_same (hP _ _ _ _) (sameTr_alloc _ _)
  · exact hP _ _ _ _

/-- closes `SameTr s (…)` goals where the right-hand side is built from `alloc`, `modify`, `regSet`
    and `if`s -/
macro "same_tac" : tactic =>
  `(tactic| (refine ⟨?_, ?_⟩ <;> (simp only [PSt.alloc, PSt.modify, PSt.regSet]; (repeat' split)) <;> rfl))

theorem finishReg_same (decls : Decls) (n : Str) (id : Nat) (s : PSt) :
    SameTr s (finish.finishReg decls n id s).2 := by
  unfold finish.finishReg
  simp only []
  same_tac

theorem finish_same (decls : Decls) (name : Option Str) (id : Nat) (s : PSt) :
    SameTr s (finish decls name id s).2 := by
  unfold finish
  split
  · split
    · exact ⟨rfl, rfl⟩
    · split
      · split
        · exact ⟨rfl, rfl⟩
        · exact finishReg_same _ _ _ _
      · exact finishReg_same _ _ _ _
  · exact ⟨rfl, rfl⟩

theorem ext_call {s s' : PSt} {q : Nat × PSt} (h1 : Ext s q.2) (h2 : SameTr q.2 s') : Ext s s' :=
  Ext.trans h1 h2.ext

theorem ext_ite {c : Prop} [Decidable c] {s : PSt} {a b : Nat × PSt} (ha : Ext s a.2) (hb : Ext s b.2) :
    Ext s (if c then a else b).2 := by
  split <;> assumption

theorem propInline_ext (P : PFn) (hP : GoodP P) (parent : Option Str) (allow : Bool) (k : Str) (p : Node)
    (s : PSt) : Ext s (propInline P parent allow k p s).2 := by
  unfold propInline
  simp only []
  refine ext_call (hP (some (parent.getD [] ++ sanClass k)) p allow s) ?_
  same_tac

theorem propOther_ext (P : PFn) (hP : GoodP P) (parent : Option Str) (allow : Bool) (k : Str) (p : Node)
    (s : PSt) : Ext s (propOther P parent allow k p s).2 := by
  unfold propOther
  simp only []
  have h := hP (propCtxName parent k p) p allow s
  refine ext_ite ?_ (ext_ite ?_ ?_)
  · exact ext_call h (sameTr_alloc _ _)
  · exact ext_call h (sameTr_alloc _ _)
  · exact ext_call h (sameTr_modify _ _ _)

theorem propStep_ext (decls : Decls) (P : PFn) (hP : GoodP P) (parent : Option Str) (allow : Bool)
    (k : Str) (p : Node) (s : PSt) : Ext s (propStep decls P parent allow k p s).2 := by
  unfold propStep
  split
  · exact resolveRef_ext decls P hP _ allow s
  · exact ext_ite (propInline_ext P hP parent allow k p s) (propOther_ext P hP parent allow k p s)

theorem parseProps_ext (decls : Decls) (P : PFn) (hP : GoodP P) (parent : Option Str) (allow : Bool)
    (ps : List (Str × Node)) : ∀ acc s, Ext s (parseProps decls P parent allow ps acc s).2 := by
  induction ps with
  | nil => intro acc s; exact Ext.refl s
  | cons kv rest ih =>
    intro acc s
    obtain ⟨k, p⟩ := kv
    simp only [parseProps]
    split
    · exact ih _ _
    · exact Ext.trans (propStep_ext decls P hP parent allow k p s) (ih _ _)

theorem body_ext (decls : Decls) (P : PFn) (hP : GoodP P) (name : Option Str) (node : Node)
    (allow : Bool) (s : PSt) : Ext s (body decls P name node allow s).2 := by
  unfold body
  simp only []
  split
  · -- ref
    have h := resolveRef_ext decls P hP ‹Str› allow s
    split
    · split
      · exact h
      · split
        · exact h
        · split
          · exact Ext.trans_same h (sameTr_regSet _ _ _)
          · exact h
    · exact h
  · -- prim
    exact Ext.trans (sameTr_alloc _ _).ext (finish_same _ _ _ _).ext
  · -- obj
    rename_i props req ap _
    have h1 : Ext s (match props with
        | some ps => parseProps decls P (if truthy name = true then Option.map sanClass name else none)
                      allow ps [] s
        | none => ([], s)).2 := by
      split
      · exact parseProps_ext decls P hP _ allow _ _ _
      · exact Ext.refl s
    refine Ext.trans h1 ?_
    have h2 : ∀ s0 : PSt, Ext s0 (match ap with
        | some a => (match P none a allow s0 with | (i, s) => (some i, s))
        | none => ((none : Option Nat), s0)).2 := by
      intro s0
      split
      · exact hP none _ allow s0
      · exact Ext.refl s0
    refine Ext.trans (h2 _) ?_
    exact Ext.trans (sameTr_alloc _ _).ext (finish_same _ _ _ _).ext
  · -- arr
    refine Ext.trans ?_ (finish_same _ _ _ _).ext
    refine Ext.trans ?_ (sameTr_modify _ _ _).ext
    refine Ext.trans ?_ (parseItems_ext P hP name _ allow _)
    refine Ext.trans ?_ (sameTr_alloc _ _).ext
    exact parseItems_ext P hP name _ allow s
  · -- allOf
    refine Ext.trans ?_ (finish_same _ _ _ _).ext
    refine Ext.trans ?_ (sameTr_alloc _ _).ext
    refine Ext.trans ?_ (parseOwn_ext P hP name allow _ _ _)
    exact parseList_ext P hP allow _ s
  · -- oneOf
    refine Ext.trans ?_ (finish_same _ _ _ _).ext
    refine Ext.trans ?_ (sameTr_alloc _ _).ext
    exact parseList_ext P hP allow _ s
  · -- anyOf
    refine Ext.trans ?_ (finish_same _ _ _ _).ext
    refine Ext.trans ?_ (sameTr_alloc _ _).ext
    exact parseList_ext P hP allow _ s
  · exact Ext.refl s

/-- body followed by the `finally` exit: a shaped word and then `exit name`. -/
theorem bodyAndExit_spec (decls : Decls) (P : PFn) (hP : GoodP P) (name : Option Str) (node : Node)
    (allow : Bool) (s : PSt) :
    ∃ w, Shaped w ∧ (bodyAndExit decls P name node allow s).2.trace = s.trace ++ (w ++ [.exit name]) ∧
      (bodyAndExit decls P name node allow s).2.tr = Trk.exit (runEvs s.tr w) name ∧
      Consistent s.tr w := by
  obtain ⟨w, ht, hs, hr, hc⟩ := body_ext decls P hP name node allow s
  refine ⟨w, hs, ?_, ?_, hc⟩
  · simp only [bodyAndExit, doExit_trace, ht, List.append_assoc]
  · simp only [bodyAndExit, doExit_tr, hr]

theorem consistent_singleton_exit (s : TrSt) (n : Option Str) : Consistent s [.exit n] := by
  simp [Consistent, consistentB]

theorem parseCore_ext (decls : Decls) (P : PFn) (hP : GoodP P) (name : Option Str) (node : Node)
    (allow : Bool) (s : PSt) : Ext s (parseCore decls P name node allow s).2 := by
  obtain ⟨hr, htr, htrace⟩ := doEnter_spec s name allow
  -- immediate balancing exit
  have hstop : ∀ act, (Trk.enter s.tr name allow).2.action = act → act ≠ .continueParsing →
      Ext s ((s.doEnter name allow).2.2.doExit name) := by
    intro act hact hne
    refine ⟨[.enter name allow act, .exit name], ?_, .stop name allow act [] hne .nil, ?_, ?_⟩
    · rw [doExit_trace, htrace, hact]; simp
    · rw [doExit_tr, htr]; rfl
    · simp [Consistent, consistentB, hact]
  -- a body after the enter
  have hcont : (Trk.enter s.tr name allow).2.action = .continueParsing →
      Ext s (bodyAndExit decls P name node allow (s.doEnter name allow).2.2).2 := by
    intro hact
    obtain ⟨w, hs, ht, hrr, hc⟩ := bodyAndExit_spec decls P hP name node allow (s.doEnter name allow).2.2
    refine ⟨.enter name allow .continueParsing :: (w ++ .exit name :: []), ?_, .cont name allow w [] hs .nil, ?_, ?_⟩
    · rw [ht, htrace, hact]; simp
    · rw [hrr, htr, runEvs_cons, runEvs_append]; rfl
    · have : Consistent s.tr ([Ev.enter name allow .continueParsing] ++ (w ++ [.exit name])) := by
        refine Consistent.append (by simp [Consistent, consistentB, hact]) ?_
        refine Consistent.append ?_ (consistent_singleton_exit _ _)
        rw [htr] at hc
        exact hc
      simpa using this
  -- the fall-through
  have hfall : (Trk.enter s.tr name allow).2.action = .returnExisting →
      ∀ s1 : PSt, s1.tr = runEvs (Trk.exit (Trk.enter s.tr name allow).1 name) (resetEvs name) →
        s1.trace = s.trace ++ ([.enter name allow .returnExisting, .exit name] ++ resetEvs name) →
        Ext s (bodyAndExit decls P name node allow s1).2 := by
    intro hact s1 h1 h2
    obtain ⟨w, hs, ht, hrr, hc⟩ := bodyAndExit_spec decls P hP name node allow s1
    refine ⟨.enter name allow .returnExisting :: .exit name :: (resetEvs name ++ (w ++ .exit name :: [])),
      ?_, .fall name allow w [] hs .nil, ?_, ?_⟩
    · rw [ht, h2]; simp
    · rw [hrr, h1, runEvs_cons, runEvs_cons, runEvs_append, runEvs_append]; rfl
    · have : Consistent s.tr (([Ev.enter name allow .returnExisting, .exit name] ++ resetEvs name) ++
          (w ++ [.exit name])) := by
        refine Consistent.append ?_ ?_
        · cases name with
          | none => simp [Consistent, consistentB, hact, resetEvs]
          | some m =>
            by_cases hm : m = []
            · subst hm
              simp [Consistent, consistentB, hact, resetEvs]
            · simp [Consistent, consistentB, hact, resetEvs, hm]
        · refine Consistent.append ?_ (consistent_singleton_exit _ _)
          have : runEvs s.tr ([Ev.enter name allow .returnExisting, .exit name] ++ resetEvs name) = s1.tr := by
            rw [h1, runEvs_append]; rfl
          rw [this]; exact hc
      simpa [List.append_assoc] using this
  unfold parseCore
  simp only []
  rw [hr]
  split
  · rename_i hact
    exact hstop _ hact (by simp)
  · rename_i hact
    have h := hstop _ hact (by simp)
    split
    · split
      · split
        · exact h
        · exact Ext.trans_same h (sameTr_alloc _ _)
      · exact Ext.trans_same h (sameTr_alloc _ _)
    · exact Ext.trans_same h (sameTr_alloc _ _)
  · rename_i hact
    split
    · rename_i n
      split
      · rename_i htruthy
        split
        · exact hstop _ hact (by simp)
        · have hn : n ≠ [] := by
            intro e; subst e; simp [truthy] at htruthy
          refine hfall hact _ ?_ ?_
          · rw [doReset_tr, doExit_tr, htr]; simp [resetEvs, hn, runEvs, apply]
          · rw [doReset_trace, doExit_trace, htrace, hact]; simp [resetEvs, hn]
      · rename_i htruthy
        have hn : n = [] := by
          cases n with
          | nil => rfl
          | cons c cs => simp [truthy] at htruthy
        refine hfall hact _ ?_ ?_
        · rw [doExit_tr, htr]; simp [resetEvs, hn, runEvs]
        · rw [doExit_trace, htrace, hact]; simp [resetEvs, hn]
    · refine hfall hact _ ?_ ?_
      · rw [doExit_tr, htr]; simp [resetEvs, runEvs]
      · rw [doExit_trace, htrace, hact]; simp [resetEvs]
  · rename_i hact
    exact hcont hact

theorem parseStep_good (decls : Decls) (P : PFn) (hP : GoodP P) : GoodP (parseStep decls P) := by
  intro name node allow s
  unfold parseStep
  simp only []
  have h1 : SameTr s { s with nest := s.nest + 1, maxNest := max s.maxNest (s.nest + 1) } := ⟨rfl, rfl⟩
  refine Ext.trans h1.ext (Ext.trans (parseCore_ext decls P hP name node allow _) ?_)
  exact SameTr.ext ⟨rfl, rfl⟩

theorem parse_good (decls : Decls) (fuel : Nat) : GoodP (parse decls fuel) := by
  induction fuel with
  | zero =>
    intro name node allow s
    exact SameTr.ext ⟨rfl, rfl⟩
  | succ n ih => exact parseStep_good decls _ ih

theorem buildLoop_ext (decls : Decls) (fuel : Nat) (ds : List (Str × Node)) :
    ∀ s, Ext s (buildLoop decls fuel ds s) := by
  induction ds with
  | nil => intro s; exact Ext.refl s
  | cons d rest ih =>
    intro s
    obtain ⟨n, nd⟩ := d
    simp only [buildLoop]
    split
    · exact Ext.trans (parse_good decls fuel _ _ _ _) (ih _)
    · exact ih _

end Pog.Prs
