import Pog.Model.Basic
import Pog.Model.Names
/-
  Model of the pieces of the generator that decide whether two runs give the same bytes (C09):

    * `ClientGenerator._show_diffs`                      generator/client_generator.py:552-573
    * the non-force decision                             generator/client_generator.py:296-312
    * `ImportCollector.add_import` / `get_import_statements` / `get_formatted_imports`
      and `make_relative_import`                         context/import_collector.py
    * `ModelsEmitter._generate_init_py_content`          emitters/models_emitter.py:142-190
    * `extract_url_variables` and its consumer
      `_ensure_path_variables_as_params`                 helpers/url_utils.py, visit/endpoint/processors/parameter_processor.py

  Python `set`/`dict` valued state is a LIST here (insertion order = any order); the theorems in
  `Pog/Props/C09.lean` show which outputs depend on the order of that list and which do not.

  Trusted (executable description, not proved against CPython):
    * `str.splitlines` splits at  \n \r \r\n \v \f \x1c \x1d \x1e \x85     ;
    * `Path.read_text()` (text mode, `newline=None`) maps `\r\n` and `\r` to `\n`;
    * `list(difflib.unified_diff(a, b))` is empty iff `a == b`;
    * `Path(new).rglob("*.py")` yields exactly the entries whose last component ends in ".py";
    * Python compares `str` by code point, lexicographically (`strLt`); `sorted` is stable.
-/
namespace Pog.Diff
open Pog

/-! ## ordering of strings, `sorted(set(..))`, `sorted(list)` -/

/-- Python `a < b` on `str`. -/
def strLt : Str → Str → Bool
  | _, [] => false
  | [], _ :: _ => true
  | a :: as, b :: bs => decide (a < b) || (a == b && strLt as bs)

/-- insertion into a strictly increasing list, dropping duplicates -/
def insertU (x : Str) : List Str → List Str
  | [] => [x]
  | y :: ys => if strLt x y then x :: y :: ys else if x = y then y :: ys else y :: insertU x ys

/-- python `sorted(set(xs))` for strings. -/
def sortU (l : List Str) : List Str := l.foldr insertU []

/-- stable insertion by key: `x` goes in front of the first element whose key is not smaller. -/
def insertByKey {α : Type} (key : α → Str) (x : α) : List α → List α
  | [] => [x]
  | y :: ys => if strLt (key y) (key x) then y :: insertByKey key x ys else x :: y :: ys

/-- python `sorted(xs, key=key)` (stable; duplicates kept). -/
def sortByKey {α : Type} (key : α → Str) (l : List α) : List α := l.foldr (insertByKey key) []

/-- python `sorted(xs)` on a list of strings. -/
def pySorted (l : List Str) : List Str := sortByKey id l

/-! ## `str.split(ch)`, `str.splitlines()`, universal newlines -/

/-- python `s.split(ch)` for a one-character separator (never returns `[]`). -/
def splitOnC (ch : Char) : Str → List Str
  | [] => [[]]
  | c :: cs =>
    if c = ch then [] :: splitOnC ch cs
    else match splitOnC ch cs with
      | [] => [[c]]
      | h :: t => (c :: h) :: t

/-- the line boundaries of `str.splitlines` -/
def isLineBreak (c : Char) : Bool :=
  c = '\n' || c = '\r' || c.toNat = 0x0b || c.toNat = 0x0c || c.toNat = 0x1c || c.toNat = 0x1d ||
  c.toNat = 0x1e || c.toNat = 0x85 || c.toNat = 0x2028 || c.toNat = 0x2029

/-- `str.splitlines()`, one character at a time: `cur` is the current line reversed, `afterCR` says
    that the previous character was a `\r` (a following `\n` belongs to the same boundary). -/
def splitlinesGo : Str → Bool → Str → List Str
  | cur, _, [] => if cur = [] then [] else [cur.reverse]
  | cur, afterCR, c :: cs =>
    if afterCR && c = '\n' then splitlinesGo cur false cs
    else if isLineBreak c then cur.reverse :: splitlinesGo [] (c = '\r') cs
    else splitlinesGo (c :: cur) false cs

def splitlines (s : Str) : List Str := splitlinesGo [] false s

/-- text-mode read with `newline=None`: `\r\n` → `\n`, lone `\r` → `\n`. -/
def universalNewlinesGo : Bool → Str → Str
  | _, [] => []
  | afterCR, c :: cs =>
    if afterCR && c = '\n' then universalNewlinesGo false cs
    else if c = '\r' then '\n' :: universalNewlinesGo true cs
    else c :: universalNewlinesGo false cs

def universalNewlines (s : Str) : Str := universalNewlinesGo false s

/-- `path.read_text().splitlines()` of a file whose decoded content is `s`. -/
def pyLines (s : Str) : List Str := splitlines (universalNewlines s)

/-! ## `_show_diffs` -/

/-- A directory tree: file path relative to the directory (components) ↦ decoded content. -/
abbrev Tree := List (List Str × Str)

/-- the `rglob("*.py")` filter -/
def isPyFile (p : List Str) : Bool :=
  match p.getLast? with
  | some n => endsWith n ".py".toList
  | none => false

/-- one iteration of the loop of `_show_diffs`: `true` = this new file produces a diff. -/
def fileDiffers (old : Tree) (p : List Str) (c : Str) : Bool :=
  isPyFile p &&
    match old.lookup p with
    | some oc => pyLines oc != pyLines c
    | none => false          -- `if old_file.exists():` — a missing old file is skipped silently

/-- `_show_diffs(old_dir, new_dir)`. -/
def showDiffs (old new : Tree) : Bool := new.any (fun e => fileDiffers old e.1 e.2)

/-- `has_diff_client or has_diff_core` where the core comparison is only made `if core_dir != out_dir`. -/
def noForceHasDiff (oldOut newOut oldCore newCore : Tree) (coreDistinct : Bool) : Bool :=
  showDiffs oldOut newOut || (coreDistinct && showDiffs oldCore newCore)

/-! ## `ImportCollector` -/

/-- `STDLIB_MODULES_PREFER_PLAIN_IMPORT_WHEN_NAME_MATCHES` -/
def preferPlainModules : List Str :=
  ["os", "sys", "re", "json", "contextlib", "functools", "itertools", "logging", "math", "asyncio",
   "tempfile", "subprocess", "textwrap"].map String.toList

/-- `COMMON_STDLIB` -/
def commonStdlib : List Str :=
  ["typing", "os", "sys", "re", "json", "collections", "datetime", "enum", "pathlib", "abc",
   "contextlib", "functools", "itertools", "logging", "math", "decimal", "dataclasses", "asyncio",
   "tempfile", "subprocess", "textwrap"].map String.toList

/-- The calls made on a collector, in call order. -/
inductive ImpOp where
  /-- `add_import(module, name)` -/
  | imp (m n : Str)
  /-- `add_relative_import(module, name)` -/
  | rel (m n : Str)
  /-- `add_plain_import(module)` -/
  | plain (m : Str)
  deriving DecidableEq, Repr

/-- What the rendering functions read besides the collected sets. -/
structure ImpCtx where
  /-- `sys.builtin_module_names` of the running interpreter -/
  builtins : List Str
  /-- `_current_file_module_dot_path` -/
  current : Option Str
  /-- `_current_file_package_root` -/
  pkgRoot : Option Str
  /-- `_current_file_core_pkg_name_for_abs` -/
  corePkg : Option Str
  deriving Repr

/-- `add_import`: `module == name and module in PREFER_PLAIN` becomes a plain import. -/
def ImpOp.norm : ImpOp → ImpOp
  | .imp m n => if m = n ∧ preferPlainModules.contains m then .plain m else .imp m n
  | o => o

def ImpOp.impPair? : ImpOp → Option (Str × Str)
  | .imp m n => some (m, n)
  | _ => none
def ImpOp.relPair? : ImpOp → Option (Str × Str)
  | .rel m n => some (m, n)
  | _ => none
def ImpOp.plain? : ImpOp → Option Str
  | .plain m => some m
  | _ => none

/-- `self.imports` as (module, name) pairs. -/
def impPairs (ops : List ImpOp) : List (Str × Str) := ops.filterMap (fun o => o.norm.impPair?)
/-- `self.relative_imports` as pairs. -/
def relPairs (ops : List ImpOp) : List (Str × Str) := ops.filterMap (fun o => o.norm.relPair?)
/-- `sorted(self.plain_imports)`. -/
def plainSorted (ops : List ImpOp) : List Str := sortU (ops.filterMap (fun o => o.norm.plain?))

/-- `sorted(d.keys())` -/
def keysSorted (ps : List (Str × Str)) : List Str := sortU (ps.map (·.1))
/-- `sorted(d[m])` -/
def namesSorted (ps : List (Str × Str)) (m : Str) : List Str :=
  sortU ((ps.filter (fun p => p.1 = m)).map (·.2))

/-- `_is_stdlib` -/
def isStdlibModule (ctx : ImpCtx) (m : Str) : Bool :=
  ctx.builtins.contains m || commonStdlib.contains m ||
    commonStdlib.contains ((splitOnC '.' m).headD [])

/-- python truthiness of an optional string -/
def truthy : Option Str → Bool
  | some (_ :: _) => true
  | _ => false

def commonLen : List Str → List Str → Nat
  | a :: as, b :: bs => if a = b then commonLen as bs + 1 else 0
  | _, _ => 0

/-- `make_relative_import(current_module_dot_path, target_module_dot_path)` -/
def makeRelativeImport (cur tgt : Str) : Str :=
  let cp := splitOnC '.' cur
  let tp := splitOnC '.' tgt
  let cd := cp.dropLast
  let l := commonLen cd tp
  let up := cd.length - l
  let rem := tp.drop l
  if up = 0 then
    let direct := decide (cp.length < tp.length) && startsWith tgt (cur ++ ['.'])
    let suffix := if direct then tp.drop cp.length else rem
    '.' :: joinWith ['.'] suffix
  else List.replicate (up + 1) '.' ++ joinWith ['.'] rem

def fromLine (m : Str) (names : List Str) : Str :=
  "from ".toList ++ m ++ " import ".toList ++ joinWith ", ".toList names

/-- one iteration of the `for module_name, names_set in sorted(self.imports.items())` loop -/
def standardLine (ctx : ImpCtx) (ps : List (Str × Str)) (m : Str) : Str :=
  let names := namesSorted ps m
  let coreAbs :=
    match ctx.corePkg with
    | some (c :: cs) => startsWith m ((c :: cs) ++ ['.']) || decide (m = c :: cs)
    | _ => false
  if coreAbs then fromLine m names
  else if isStdlibModule ctx m then fromLine m names
  else
    match ctx.current, ctx.pkgRoot with
    | some (c :: cs), some (r :: rs) =>
      if startsWith m ((r :: rs) ++ ['.']) then fromLine (makeRelativeImport (c :: cs) m) names
      else fromLine m names
    | _, _ => fromLine m names

/-- `get_import_statements()` from the collected sets -/
def importStatementsCore (ctx : ImpCtx) (ps rs0 : List (Str × Str)) (plainS : List Str) : List Str :=
  let standard := (keysSorted ps).map (standardLine ctx ps)
  let plain := plainS.map (fun m => "import ".toList ++ m)
  let rs := rs0.filter (fun p => !(decide (ctx.current = some p.1)))
  let relative := (keysSorted rs).map (fun m => fromLine m (namesSorted rs m))
  pySorted plain ++ pySorted standard ++ pySorted relative

/-- `get_import_statements()` -/
def importStatements (ctx : ImpCtx) (ops : List ImpOp) : List Str :=
  importStatementsCore ctx (impPairs ops) (relPairs ops) (plainSorted ops)

/-- `get_formatted_imports()` from the collected sets -/
def formattedImportsCore (ctx : ImpCtx) (ps rs : List (Str × Str)) (plain : List Str) : Str :=
  let mods := keysSorted ps
  let std := mods.filter (isStdlibModule ctx)
  let other := mods.filter (fun m => !isStdlibModule ctx m)
  let rels := keysSorted rs
  let s1 := std.map (fun m => fromLine m (namesSorted ps m))
  let s2 := if !std.isEmpty && !other.isEmpty then s1 ++ [[]] else s1
  let s3 := s2 ++ other.map (fun m => fromLine m (namesSorted ps m))
  let s4 :=
    if !plain.isEmpty then
      (if !s3.isEmpty then s3 ++ [[]] else s3) ++ plain.map (fun m => "import ".toList ++ m)
    else s3
  let s5 :=
    if !rels.isEmpty && (!std.isEmpty || !other.isEmpty || !plain.isEmpty) then s4 ++ [[]] else s4
  let s6 := s5 ++ rels.map (fun m => fromLine m (namesSorted rs m))
  joinWith ['\n'] s6

/-- `get_formatted_imports()` -/
def formattedImports (ctx : ImpCtx) (ops : List ImpOp) : Str :=
  formattedImportsCore ctx (impPairs ops) (relPairs ops) (plainSorted ops)

/-! ## `models/__init__.py` -/

/-- The attributes of an `IRSchema` that `_generate_init_py_content` reads. -/
structure InitSchema where
  name : Str
  genName : Str
  stem : Str
  unresolved : Bool
  deriving DecidableEq, Repr

/-- `_generate_init_py_content` from `self.parsed_schemas.values()` in dict order. -/
def initExports (schemas : List InitSchema) : Str :=
  let cands := schemas.filter (fun s => !s.name.isEmpty && !s.genName.isEmpty && !s.stem.isEmpty)
  let sorted := sortByKey (·.name) cands
  let used := sorted.filter (fun s => !s.unresolved && s.stem != "__init__".toList)
  let imports := used.map (fun s => "from .".toList ++ s.stem ++ " import ".toList ++ s.genName)
  let exports := (sortU (used.map (·.genName))).map (fun n => "    '".toList ++ n ++ "',".toList)
  rstripC '\n' (joinWith ['\n']
    (["from typing import List".toList, []] ++ imports ++ [[], "__all__: List[str] = [".toList] ++
      exports ++ ["]".toList]))

/-! ## URL template variables -/

/-- `re.findall(r"{([^}]+)}", url)` one character at a time; `inside = some acc` after an opening
    brace (`acc` reversed). -/
def extractUrlVarsGo : Option Str → Str → List Str
  | _, [] => []
  | none, c :: cs => if c = '{' then extractUrlVarsGo (some []) cs else extractUrlVarsGo none cs
  | some acc, c :: cs =>
    if c = '}' then
      (if acc = [] then extractUrlVarsGo none cs else acc.reverse :: extractUrlVarsGo none cs)
    else extractUrlVarsGo (some (c :: acc)) cs

/-- The matches of `extract_url_variables` in order of occurrence (python then builds a `set`). -/
def extractUrlVars (url : Str) : List Str := extractUrlVarsGo none url

/-- A parameter of an endpoint method as far as ordering is concerned. -/
structure ParamInfo where
  name : Str
  required : Bool
  originalName : Str
  deriving DecidableEq, Repr

/-- The loop of `_ensure_path_variables_as_params`, given the order `vars` in which the python
    `set` happens to be iterated; `known` are the keys of `param_details_map`. -/
def ensurePathVars (known : List Str) : List Str → List ParamInfo
  | [] => []
  | v :: vs =>
    let n := sanMethod v
    if known.contains n then ensurePathVars known vs
    else ⟨n, true, v⟩ :: ensurePathVars (n :: known) vs

/-- `final_ordered_params` of `ParameterProcessor.process`: the declared parameters followed by
    the path variables that were not declared, then the stable `sort(key=lambda p: not p["required"])`. -/
def finalParams (declared : List ParamInfo) (vars : List Str) : List ParamInfo :=
  let all := declared ++ ensurePathVars (declared.map (·.name)) vars
  all.filter (·.required) ++ all.filter (fun p => !p.required)

/-- What the code does since the repair of F18: `for var in sorted(url_vars)` - the set is iterated in sorted order, so the
    result is a function of the SET of variables (`vars` = the set in any order). -/
def codeParams (declared : List ParamInfo) (vars : List Str) : List ParamInfo := finalParams declared (sortU vars)

end Pog.Diff
