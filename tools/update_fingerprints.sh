#!/bin/sh
# after every commit to /repo that the models were updated for: refresh the fingerprint baseline
cd /verif && /venv/bin/python -m vf.fingerprints
