#!/venv/bin/python
"""C07 (operation side) + C19 (status-key rendering): correspondence and oracle.

run    : Lean model `Pog.Ops` (compiled driver) vs the REAL loader `load_ir_from_spec` and the REAL
         `EndpointsEmitter.emit` (called once = diff path, twice = direct path of `ClientGenerator.generate`).
oracle : the property itself on the real code: every operation of an accepted document is an IR operation,
         JSON and YAML renderings give the same operations, the methods of every tag client are pairwise
         distinct and each operation is defined exactly once in each of its tag clients.
Nothing is imported from pyopenapi_gen at module level.
"""
from __future__ import annotations

import ast
import contextlib
import io
import json
import os
import random
import shutil
import subprocess
import sys
import tempfile
import warnings

HERE = os.path.dirname(os.path.abspath(__file__))
METHODS = ["get", "post", "put", "patch", "delete", "options", "head", "trace"]
STRATEGIES = ["operationId", "clean", "path"]
SKIP_PREFIX = "Skipping operation parsing for "


# ------------------------------------------------------------------------------------------------ infrastructure
@contextlib.contextmanager
def _scratch():
    base = os.environ.get("VERIF_SCRATCH_DIR", "/tmp")
    os.makedirs(base, exist_ok=True)
    d = tempfile.mkdtemp(prefix="corr_c07_", dir=base)
    old_env, old_td = os.environ.get("TMPDIR"), tempfile.tempdir
    os.environ["TMPDIR"] = d          # the generator appends a debug log to gettempdir()
    tempfile.tempdir = d
    import logging
    old_disable = logging.root.manager.disable
    logging.disable(logging.CRITICAL)
    try:
        yield d
    finally:
        logging.disable(old_disable)
        tempfile.tempdir = old_td
        if old_env is None:
            os.environ.pop("TMPDIR", None)
        else:
            os.environ["TMPDIR"] = old_env
        shutil.rmtree(d, ignore_errors=True)


def _uinfo(strings) -> dict:
    import re
    tbl = {}
    for s in strings:
        for c in s:
            if ord(c) >= 128 and str(ord(c)) not in tbl:
                tbl[str(ord(c))] = {"w": bool(re.match(r"\w", c)), "d": c.isdigit(), "l": c.lower(), "U": c.upper(),
                                    "iu": c.isupper()}
    return tbl


def _strings_of(x, acc):
    if isinstance(x, str):
        acc.append(x)
    elif isinstance(x, dict):
        for k, v in x.items():
            _strings_of(k, acc)
            _strings_of(v, acc)
    elif isinstance(x, (list, tuple)):
        for v in x:
            _strings_of(v, acc)
    return acc


def _driver_batch(driver: str, reqs: list[dict]) -> list:
    if not reqs:
        return []
    out = []
    for i in range(0, len(reqs), 4000):
        chunk = reqs[i:i + 4000]
        for r in chunk:
            u = _uinfo(_strings_of(r["a"], []))
            if u:
                r["u"] = u
        data = "\n".join(json.dumps(r, ensure_ascii=True) for r in chunk) + "\n"
        p = subprocess.run([driver], input=data, capture_output=True, text=True, timeout=600)
        if p.returncode != 0:
            raise RuntimeError(f"driver exited {p.returncode}: {p.stderr[-1000:]}")
        lines = [l for l in p.stdout.split("\n") if l != ""]
        if len(lines) != len(chunk):
            raise RuntimeError(f"driver answered {len(lines)} lines for {len(chunk)} requests")
        out += [json.loads(l) for l in lines]
    return out


# ------------------------------------------------------------------------------------------------ real code
def _spec(paths: dict) -> dict:
    return {"openapi": "3.1.0", "info": {"title": "t", "version": "1"}, "paths": paths}


def _load(spec: dict, strategy: str):
    """-> (IRSpec, [warning messages]) from the real loader."""
    from pyopenapi_gen.core.loader.loader import load_ir_from_spec
    from pyopenapi_gen.ir import NamingStrategy
    with warnings.catch_warnings(record=True) as w:
        warnings.simplefilter("always")
        ir = load_ir_from_spec(spec, naming_strategy=NamingStrategy(strategy))
    return ir, [str(x.message) for x in w]


def _ops_of_ir(ir) -> list:
    return [[o.path, o.method.value, o.operation_id, list(o.tags)] for o in ir.operations]


def _class_methods(endpoints_dir: str, files: list[str]) -> list:
    """[[module file, [method names of the (non-Protocol) client class in definition order]]…] in `files` order."""
    res = []
    for f in files:
        if os.path.basename(f) == "__init__.py":
            continue
        tree = ast.parse(open(f, encoding="utf-8").read())
        for n in tree.body:
            if isinstance(n, ast.ClassDef) and not n.name.endswith("Protocol"):
                res.append([os.path.basename(f), [m.name for m in n.body
                                                  if isinstance(m, (ast.AsyncFunctionDef, ast.FunctionDef)) and m.name != "__init__"]])
    return res


def _emit(ir, passes: int, scratch: str) -> list:
    """Call the real `EndpointsEmitter.emit` `passes` times on the same IR operations (what
    `ClientGenerator.generate` does: 2 on the direct path, 1 on the diff path)."""
    from pyopenapi_gen.context.render_context import RenderContext
    from pyopenapi_gen.emitters.endpoints_emitter import EndpointsEmitter
    d = tempfile.mkdtemp(prefix="emit-", dir=scratch)
    try:
        out = os.path.join(d, "client")
        os.makedirs(out)
        ctx = RenderContext(core_package_name="client.core", package_root_for_generated_code=out,
                            overall_project_root=d, parsed_schemas=ir.schemas, output_package_name="client")
        files = []
        with warnings.catch_warnings():
            warnings.simplefilter("ignore")
            for _ in range(passes):
                files = EndpointsEmitter(context=ctx).emit(ir.operations, out)
        return _class_methods(os.path.join(out, "endpoints"), files)
    finally:
        shutil.rmtree(d, ignore_errors=True)


def _generate(spec_text: str, ext: str, strategy: str, scratch: str):
    """Real `generate_client(force=True)`; -> (ok, clients | error, skip-warnings)."""
    from pyopenapi_gen import generate_client
    from pyopenapi_gen.ir import NamingStrategy
    d = tempfile.mkdtemp(prefix="gen-", dir=scratch)
    try:
        sp = os.path.join(d, "spec" + ext)
        with open(sp, "w", encoding="utf-8") as fh:
            fh.write(spec_text)
        buf = io.StringIO()
        try:
            with warnings.catch_warnings(record=True) as w, contextlib.redirect_stdout(buf), contextlib.redirect_stderr(buf):
                warnings.simplefilter("always")
                generate_client(sp, os.path.join(d, "out"), "client", force=True, no_postprocess=True,
                                naming_strategy=NamingStrategy(strategy))
        except BaseException as e:  # noqa: BLE001 - "generation failed visibly"
            return False, f"{type(e).__name__}: {str(e)[:300]}", []
        ed = os.path.join(d, "out", "client", "endpoints")
        files = sorted(os.path.join(ed, f) for f in os.listdir(ed) if f.endswith(".py"))
        skips = [str(x.message) for x in w if str(x.message).startswith(SKIP_PREFIX)]
        return True, _class_methods(ed, files), skips
    finally:
        shutil.rmtree(d, ignore_errors=True)


# ------------------------------------------------------------------------------------------------ generators
SEGS = ["a", "b", "users", "{id}", "{user_id}", "user-profile", "userProfile", "user_profile", "v1", "1a", "b_2", "b_2_2",
        "", "details", "Items", "HTTPServer", "{b}", "a.b", "x y", "café", "{}", "_", "items2XX", "ABc"]
ID_POOL = ["foo", "foo", "foo_2", "foo_2_2", "Foo", "getItem", "get_item", "GetItem", "listUsers", "list_users", "x",
           "class", "id", "get", "_", "$", "9lives", "créer", "用户", "HTTPThing", "a-b", "a b", "", "foo_3", "list"]
TAG_POOL = ["pets", "Pets", "PETS", "store", "user", "User Admin", "user_admin", "a-b", "default", "Default", "x1"]


def _gen_path(r: random.Random) -> str:
    k = r.random()
    if k < 0.04:
        return r.choice(["/", "", "//", "a", "a/b", "/{}"])
    p = "/" + "/".join(r.choice(SEGS) for _ in range(r.randint(1, 3)))
    if r.random() < 0.1:
        p += "/"
    return p


def _gen_method_key(r: random.Random) -> str:
    k = r.random()
    m = r.choice(METHODS)
    if k < 0.7:
        return m
    if k < 0.78:
        return m.upper()
    if k < 0.84:
        return m.capitalize()
    if k < 0.88:
        return "".join(c.upper() if r.random() < 0.5 else c for c in m)
    if k < 0.90:
        return r.choice(["poſt", "ſearch", "optıons", "tracé"])   # "poſt".upper() == "POST", "optıons".upper() == "OPTIONS"
    return r.choice(["parameters", "summary", "description", "servers", "$ref", "x-ext", "query", "connect", "Parameters",
                     "SUMMARY", "gets", "ge t", " get", ""])


def _fastapi_id(r: random.Random, path: str, method: str) -> str:
    import re
    norm = re.sub(r"_+", "_", re.sub(r"[^0-9a-zA-Z_]", "_", re.sub(r"[{}]", "", path.strip("/")))).strip("_")
    base = r.choice(["create_details", "read", "Get_Thing", ""])
    k = r.random()
    if k < 0.6:
        return f"{base}_{norm}_{method.lower()}"
    if k < 0.75:
        return f"{base}_{norm.upper()}_{method.upper()}"
    if k < 0.85:
        return f"{norm}_{method.lower()}"
    return f"{base}_{method.lower()}"


def _gen_status_keys(r: random.Random, p_int: float) -> list:
    n = r.choice([0, 1, 1, 2, 2, 3])
    ks = []
    for _ in range(n):
        if r.random() < p_int:
            k = r.choice([200, 201, 404, 500, 204])
        elif r.random() < p_int / 3:
            k = r.choice([1.5, True, 200.0])          # YAML `1.5:` / `true:` / `200.0:` - still rejected (`code must be a string`)
        else:
            k = r.choice(["200", "201", "404", "default", "2XX", "500", "4XX"])
        if k not in ks:
            ks.append(k)
    return ks


RAISERS = ["none", "list", "str", "int", "params-int", "params-item", "reqbody-int", "tags-null"]


def _gen_entry(r: random.Random, path: str, key: str, p_int: float, p_raise: float):
    """-> (python node, model op json)."""
    if key in ("parameters", "servers"):
        return [], {}
    if key in ("summary", "description", "$ref"):
        return "text", {}
    if r.random() < p_raise:
        kind = r.choice(RAISERS)
        if kind == "none":
            return None, {"raises": True}
        if kind == "list":
            return [], {"raises": True}
        if kind == "str":
            return "operationId", {"raises": True}
        if kind == "int":
            return 5, {"raises": True}
        node = {"operationId": "r" + str(r.randint(0, 9)), "responses": {"200": {"description": "d"}}}
        if kind == "params-int":
            node["parameters"] = 5
        elif kind == "params-item":
            node["parameters"] = [5]
        elif kind == "reqbody-int":
            node["requestBody"] = 5
        else:
            # `list(None)` raises AFTER the responses were parsed; with str status keys and a non-empty id
            # that is the only raise, so `parseRaises` describes it
            node["tags"] = None
        return node, {"operationId": node["operationId"], "responses": [{"s": "200"}], "raises": True}
    node: dict = {}
    mop: dict = {}
    k = r.random()
    if k < 0.55:
        oid = r.choice(ID_POOL)
    elif k < 0.75:
        oid = _fastapi_id(r, path, key)
    else:
        oid = None
    if oid is not None:
        node["operationId"] = oid
    mop["operationId"] = oid
    k = r.random()
    if k < 0.45:
        tags = [r.choice(TAG_POOL) for _ in range(r.randint(0, 3))]
        node["tags"] = tags
        mop["tags"] = tags
    elif k < 0.5:
        t = r.choice(["pets", "ab", ""])
        node["tags"] = t
        mop["tags"] = t
    if r.random() < 0.85:
        ks = _gen_status_keys(r, p_int)
        resp = {}
        for sk in ks:
            v = {"description": "d"}
            if r.random() < 0.2:
                v["content"] = {"application/json": {"schema": {"type": r.choice(["string", "integer"])}}}
            resp[sk] = v
        node["responses"] = resp
        mop["responses"] = [{"s": sk} if isinstance(sk, str) else {"i": sk} if (isinstance(sk, int) and not isinstance(sk, bool)) else {"b": json.dumps(sk)}
                            for sk in ks]
    if r.random() < 0.3:
        node["summary"] = "s"
    return node, mop


def _gen_doc(r: random.Random, p_int=0.12, p_raise=0.06, max_paths=4):
    """-> (python paths dict, model paths json)."""
    paths, mpaths = {}, []
    for _ in range(r.randint(1, max_paths)):
        p = _gen_path(r)
        if p in paths:
            continue
        if r.random() < 0.03:            # a path item that is not a mapping is skipped without a trace
            paths[p] = r.choice([None, [], "x"])
            mpaths.append([p, []])
            continue
        item, mitem = {}, []
        for _ in range(r.randint(1, 4)):
            key = _gen_method_key(r)
            if key in item:
                continue
            node, mop = _gen_entry(r, p, key, p_int, p_raise)
            item[key] = node
            mitem.append([key, mop])
        paths[p] = item
        mpaths.append([p, mitem])
    return paths, mpaths


def _reason_of(msg: str) -> str:
    if msg.endswith(": code must be a string"):
        return "codeNotStr"
    if msg.endswith(": operation_id_for_promo must be provided"):
        return "emptyOpId"
    return "other"


# ------------------------------------------------------------------------------------------------ run
def run(seed: int, scale: float, driver: str) -> dict:
    r = random.Random(seed)
    comparisons = 0
    disagreements: list = []
    nontrivial: set = set()
    dist: dict = {}
    samples: list = []

    def bump(k, n=1):
        dist[k] = dist.get(k, 0) + n

    def compare(label, request, model, impl):
        nonlocal comparisons
        comparisons += 1
        if model != impl:
            if len(disagreements) < 50:
                disagreements.append({"label": label, "request": request, "model": model, "impl": impl})
            return False
        return True

    with _scratch() as scratch:
        # --- the two literal tables -------------------------------------------------------------
        from pyopenapi_gen.http_types import HTTPMethod
        import inspect
        from pyopenapi_gen.core.loader.operations import parser as ops_parser
        m_methods, m_skip = _driver_batch(driver, [{"f": "httpMethods", "a": []}, {"f": "skipKeys", "a": []}])
        compare("httpMethods", [], m_methods, list(HTTPMethod.__members__))
        skip_sets = [sorted(e.value for e in n.comparators[0].elts)
                     for n in ast.walk(ast.parse(inspect.getsource(ops_parser.parse_operations)))
                     if isinstance(n, ast.Compare) and isinstance(n.ops[0], ast.In) and isinstance(n.comparators[0], ast.Set)]
        compare("skipKeys", [], sorted(m_skip), skip_sets[0] if len(skip_sets) == 1 else skip_sets)

        # --- deriveOpId alone: PATH strategy on documents of bare operations -------------------
        n_docs = max(3, int(120 * scale))
        reqs, expect = [], []
        for _ in range(n_docs):
            paths = {}
            for _ in range(20):
                p = _gen_path(r) if r.random() < 0.7 else "/" + "".join(
                    r.choice("abXY_-{}/.9 é") for _ in range(r.randint(0, 10)))
                if p in paths:
                    continue
                key = r.choice(METHODS)
                if r.random() < 0.2:
                    key = r.choice([key.upper(), key.capitalize(), "poſt"])
                paths[p] = {key: {}}
            ir, _w = _load(_spec(paths), "path")
            got = {(o.path): o.operation_id for o in ir.operations}
            for p, item in paths.items():
                key = next(iter(item))
                reqs.append({"f": "deriveOpId", "a": [key, p]})
                expect.append(got.get(p))
        for q, m, e in zip(reqs, _driver_batch(driver, reqs), expect):
            compare("deriveOpId", q["a"], m, e)
            bump("deriveOpId")
            key, p = q["a"]
            if e != key.lower() + p.replace("/", "_"):     # anything but the plain `get_a_b` shape
                nontrivial.add(("d", key, p))
                bump("deriveOpId: id is not method+path verbatim")

        # --- parseOps ------------------------------------------------------------------------------
        n_docs = max(10, int(2000 * scale))
        cases = []
        for i in range(n_docs):
            paths, mpaths = _gen_doc(r)
            strat = STRATEGIES[i % 3]
            ir, ws = _load(_spec(paths), strat)
            skips = [m for m in ws if m.startswith(SKIP_PREFIX)]
            cases.append((strat, paths, mpaths, _ops_of_ir(ir), skips))
        res = _driver_batch(driver, [{"f": "parseOps", "a": [c[0], c[2]]} for c in cases])
        for (strat, paths, mpaths, impl_ops, skips), m in zip(cases, res):
            req = {"strategy": strat, "paths": mpaths}
            ok = compare("parseOps.ops", req, m["ops"], impl_ops)
            ok &= compare("parseOps.warnings", req, m["warnings"], len(skips))
            impl_w = []
            for k, msg in enumerate(skips):
                mw = m["warns"][k] if k < len(m["warns"]) else None
                if mw is not None and msg.startswith(f"{SKIP_PREFIX}{mw[0]} {mw[1]}: "):
                    impl_w.append([mw[0], mw[1], _reason_of(msg)])
                else:
                    impl_w.append([msg, _reason_of(msg)])
            ok &= compare("parseOps.warns", req, m["warns"], impl_w)
            compare("parseOps.partition", req, len(m["pairs"]), len(impl_ops) + len(skips))
            bump("parseOps docs: " + strat)
            n_keys = sum(len(it) for _, it in mpaths)
            feats = []
            if m["warnings"]:
                feats.append("dropped")
            if any(w[2] == "codeNotStr" for w in m["warns"]):
                feats.append("int-status-key")
            if any(w[2] == "emptyOpId" for w in m["warns"]):
                feats.append("empty-id")
            if any(w[2] == "other" for w in m["warns"]):
                feats.append("raises")
            if n_keys > len(m["pairs"]):
                feats.append("skipped-key")
            if any(k != k.lower() for _, it in mpaths for k, _o in it if k.upper() in m_methods or k.lower() != k):
                feats.append("mixed-case-key")
            declared = [o.get("operationId") for _, it in mpaths for _k, o in it]
            if any(op[2] not in declared for op in m["ops"]):
                feats.append("derived-or-cleaned-id")
            if any(isinstance(o.get("tags"), str) for _, it in mpaths for _k, o in it):
                feats.append("str-tags")
            for f in feats:
                bump("parseOps: " + f)
            if feats:
                nontrivial.add(("p", strat, json.dumps(mpaths, sort_keys=True)))
            if feats and len(samples) < 4 and len(feats) >= 2:
                samples.append({"fn": "parseOps", "strategy": strat, "paths": paths if _jsonable(paths) else mpaths,
                                "model": {"ops": m["ops"], "warns": m["warns"]}, "impl": {"ops": impl_ops, "warnings": skips}})

        # --- de-duplication + tag grouping against the real emitter (1 pass = diff path, 2 = direct) -----------
        n_docs = max(6, int(500 * scale))
        cases = []
        safe_tags = ["pets", "Pets", "store", "user", "user_admin", "default", "x1"]
        ids = ["foo", "foo", "foo", "foo_2", "foo_2_2", "foo_3", "Foo", "getItem", "get_item", "bar", "bar_2"]
        for i in range(n_docs):
            paths, mpaths = {}, []
            k = 0
            for pi in range(r.randint(1, 3)):
                p = f"/p{pi}"
                item, mitem = {}, []
                for key in r.sample(METHODS, r.randint(1, 4)):
                    oid = r.choice(ids) if r.random() < 0.9 else f"u{k}"
                    k += 1
                    tags = [r.choice(safe_tags) for _ in range(r.choice([0, 0, 1, 1, 2, 3]))]
                    node = {"operationId": oid, "responses": {"200": {"description": "d"}}}
                    mop = {"operationId": oid, "responses": [{"s": "200"}]}
                    if tags or r.random() < 0.3:
                        node["tags"] = tags
                        mop["tags"] = tags
                    item[key] = node
                    mitem.append([key, mop])
                paths[p] = item
                mpaths.append([p, mitem])
            direct = (i % 2 == 0)
            strat = "operationId" if i % 5 else "path"
            if strat == "path":     # make derived ids collide: /a/b, /a/{b}, /a/b_2, /a/b_2_2
                ren = dict(zip(list(paths), r.sample(["/a/b", "/a/{b}", "/a-b", "/a/b_2", "/a/b_2_2"], len(paths))))
                paths = {ren[p]: v for p, v in paths.items()}
                mpaths = [[ren[p], it] for p, it in mpaths]
            ir, _ws = _load(_spec(paths), strat)
            pre_ids = [o.operation_id for o in ir.operations]
            impl_clients = _emit(ir, 2 if direct else 1, scratch)
            post_ids = [o.operation_id for o in ir.operations]
            cases.append((strat, direct, mpaths, pre_ids, post_ids, impl_clients))
        reqs = []
        for strat, direct, mpaths, pre_ids, post_ids, impl_clients in cases:
            reqs.append({"f": "clients", "a": [strat, direct, mpaths]})
            reqs.append({"f": "finalMethodNames", "a": [direct, pre_ids]})
        res = _driver_batch(driver, reqs)
        from pyopenapi_gen.core.utils import NameSanitizer
        for j, (strat, direct, mpaths, pre_ids, post_ids, impl_clients) in enumerate(cases):
            m_clients, m_names = res[2 * j], res[2 * j + 1]
            req = {"strategy": strat, "direct": direct, "paths": mpaths}
            files = [c[0] for c in impl_clients]
            bump("clients docs: " + ("direct (2 emit passes)" if direct else "diff path (1 emit pass)"))
            # the model lists clients by tag key; the code writes one module per key in the same order
            compare("clients", req, [c[1] for c in m_clients], [c[1] for c in impl_clients])
            compare("clients.files-unique", req, len(set(files)), len(files))
            compare("finalMethodNames", {"direct": direct, "ids": pre_ids}, m_names,
                    [NameSanitizer.sanitize_method_name(x) for x in post_ids])
            feats = []
            if post_ids != pre_ids:
                feats.append("suffix added")
            if len(set(m_names)) < len(m_names):
                feats.append("two operations, one method name")
            if any(len(set(c[1])) < len(c[1]) for c in m_clients):
                feats.append("client defines a name twice")
            for f in feats:
                bump("clients: " + f)
            if feats:
                nontrivial.add(("c", strat, direct, json.dumps(mpaths, sort_keys=True)))
                if len(samples) < 6 and "suffix added" in feats:
                    samples.append({"fn": "clients", "request": req, "model": m_clients, "impl": impl_clients})

    return {"comparisons": comparisons, "disagreements": disagreements, "nontrivial": len(nontrivial),
            "rule": ("seeded random documents: 1-4 paths built from a pool of segments (templated, camelCase, hyphen, "
                     "digit-leading, empty, non-ASCII), 1-4 keys per path item (lower/upper/mixed-case methods, `poſt`, "
                     "non-method keys), operationIds from a colliding pool / FastAPI-style / missing / empty / non-ASCII, "
                     "tags absent/list/bare string, status keys str or int, nodes that make the parser raise; each document "
                     "is loaded by the real load_ir_from_spec under one of the three strategies and compared with "
                     "parseOps (ops, warning count, warning prefix+reason, partition). deriveOpId is compared through the "
                     "PATH strategy; clients/finalMethodNames are compared with the real EndpointsEmitter.emit run once "
                     "or twice. Non-trivial = a distinct case with a dropped operation, a skipped key, a mixed-case key, "
                     "a derived/cleaned id, bare-string tags (parseOps); an id that is not method+path verbatim "
                     "(deriveOpId); a suffix added or a name collision (clients)."),
            "samples": samples[:6], "distribution": dist}


def _jsonable(x) -> bool:
    try:
        json.dumps(x)
        return not _has_nonstr_key(x)
    except (TypeError, ValueError):
        return False


def _has_nonstr_key(x) -> bool:
    if isinstance(x, dict):
        return any(not isinstance(k, str) or _has_nonstr_key(v) for k, v in x.items())
    if isinstance(x, list):
        return any(_has_nonstr_key(v) for v in x)
    return False


# ------------------------------------------------------------------------------------------------ oracle
O_IDS = ["foo", "foo", "foo", "foo_2", "foo_2_2", "getItem", "get_item", "listUsers", "bar", "create_details_details_post"]
O_TAGS = ["pets", "Pets", "store", "user"]
O_SEGS = ["a", "b", "{b}", "b_2", "b_2_2", "users", "{id}", "details", "items"]


PATTERNS = [["foo", "foo", "foo_2", "foo_2_2"], ["getItem", "get_item", "get_item_2", "getItem_2_2"],
            ["foo", "foo", "foo_2"], ["bar", "Bar", "bar"]]
PATH_PATTERN = ["/a/b", "/a/{b}", "/a/b_2", "/a/b_2_2"]


def _o_doc(r: random.Random, kind: str) -> dict:
    """An accepted document (lower-case method keys, mapping nodes, declared responses).  Status keys are python
    ints where the YAML author left them unquoted; `_stringify` gives the JSON reading of the same document."""
    paths = {}
    if kind == "names" and r.random() < 0.35:
        # operation ids (or, for the PATH strategy, paths) whose sanitised forms collide, in document order
        ids = list(r.choice(PATTERNS))
        tag = r.choice([None, "pets"])
        for i, p in enumerate(PATH_PATTERN[:len(ids)]):
            node = {"operationId": ids[i], "responses": {"200": {"description": "ok"}}}
            if tag:
                node["tags"] = [tag]
            paths[p] = {"get": node}
        return _spec(paths)
    unquoted = r.random() < (0.6 if kind == "render" else 0.3)   # did the YAML author leave numeric codes unquoted?
    n_paths = r.randint(1, 3)
    k = 0
    for _ in range(n_paths):
        p = "/" + "/".join(r.choice(O_SEGS) for _ in range(r.randint(1, 2)))
        if p in paths:
            continue
        item = {}
        for m in r.sample(METHODS, r.randint(1, 3)):
            node: dict = {}
            if kind == "names":
                if r.random() < 0.85:
                    node["operationId"] = r.choice(O_IDS)
                tags = [r.choice(O_TAGS) for _ in range(r.choice([0, 0, 1, 1, 2]))]
                if tags:
                    node["tags"] = tags
                node["responses"] = {"200": {"description": "ok"}}
            else:
                x = r.random()
                if x < 0.7:
                    node["operationId"] = f"op{k}"
                elif x < 0.73:
                    node["operationId"] = ""
                k += 1
                if r.random() < 0.4:
                    node["tags"] = [r.choice(O_TAGS)]
                keys = []
                for _ in range(r.randint(1, 3)):
                    sk = r.choice(["200", "201", "404", "default", "2XX", "500"])
                    if unquoted and sk.isdigit() and r.random() < 0.7:
                        sk = int(sk)
                    if str(sk) not in [str(z) for z in keys]:
                        keys.append(sk)
                node["responses"] = {sk: {"description": "d"} for sk in keys}
            item[m] = node
        paths[p] = item
    return _spec(paths)


def _stringify(x):
    if isinstance(x, dict):
        return {str(k): _stringify(v) for k, v in x.items()}
    if isinstance(x, list):
        return [_stringify(v) for v in x]
    return x


def _ops_in(doc: dict) -> list:
    return [(p, m.upper(), op) for p, item in doc["paths"].items() for m, op in item.items() if m in METHODS]


def _parse_text(text: str, ext: str, scratch: str) -> dict:
    """The real file loader (`fetch_spec` → json.loads / yaml.safe_load)."""
    from pyopenapi_gen.core.spec_fetcher import fetch_spec
    fd, p = tempfile.mkstemp(suffix=ext, dir=scratch)
    try:
        with os.fdopen(fd, "w", encoding="utf-8") as fh:
            fh.write(text)
        return fetch_spec(p)
    finally:
        os.unlink(p)


def _eval_case(case: dict, scratch: str) -> list:
    """Evaluate one oracle case on the real code; -> list of failures."""
    import yaml
    kind, strat = case["kind"], case["strategy"]
    fails = []

    def fail(cls, observed, expected):
        fails.append({"class": cls, "case": case, "observed": observed, "expected": expected})

    if kind == "count":
        # every (path, method) of the document as the tool reads it from YAML must be an IR operation
        doc = _parse_text(case["yaml"], ".yaml", scratch)
        try:
            ir, ws = _load(doc, strat)
        except Exception:  # noqa: BLE001 - generation failed visibly: allowed by the property
            return fails
        out = [(o.path, o.method.value) for o in ir.operations]
        for p, mu, op in _ops_in(doc):
            n = out.count((p, mu))
            if n != 1:
                resp = op.get("responses", {})
                if any(not isinstance(k, (str, int)) or isinstance(k, bool) for k in resp):
                    cls = "float-or-bool-status-key-drops-operation"      # observation F16b (never generated by the oracle's documents)
                elif op.get("operationId") == "" and resp:
                    cls = "empty-operation-id-drops-operation"
                elif any(not isinstance(k, str) for k in resp):
                    cls = "int-status-key-drops-operation"                 # F16, repaired: unexpected from now on
                else:
                    cls = "operation-dropped"
                fail(cls, {"operation": [p, mu], "ir_count": n,
                           "warnings": [w for w in ws if w.startswith(SKIP_PREFIX)][:5]},
                     "exactly one IROperation, or a failed generation")
    elif kind == "render":
        # the same document: JSON text, YAML with quoted keys, YAML with unquoted numeric keys
        rend = {}
        for name, text, ext in (("json", case["json"], ".json"), ("yaml-quoted", case["yaml_quoted"], ".yaml"),
                                ("yaml-unquoted", case["yaml"], ".yaml")):
            ir, _ws = _load(_parse_text(text, ext, scratch), strat)
            rend[name] = _ops_of_ir(ir)
        if rend["yaml-quoted"] != rend["json"]:
            fail("yaml-quoted-differs", rend, "same operations for every rendering")
        if rend["yaml-unquoted"] != rend["json"]:
            fail("yaml-int-status-key", {"json": rend["json"], "yaml-unquoted": rend["yaml-unquoted"]},
                 "same operations for every rendering")
    elif kind == "names":
        doc = json.loads(case["json"])
        ok, clients, skips = _generate(case["json"], ".json", strat, scratch)
        if not ok:
            return fails     # generation failed visibly: allowed by the property
        ops = _ops_in(doc)
        # (a) methods of one client class pairwise distinct
        expected_incidences = 0
        dup_tag = False
        for p, mu, op in ops:
            keys = [t.lower() for t in (op.get("tags") or ["default"])]    # O_TAGS: same client iff equal ignoring case
            expected_incidences += len(set(keys))
            dup_tag |= len(set(keys)) < len(keys)
        for mod, names in clients:
            dups = sorted({n for n in names if names.count(n) > 1})
            if dups:
                fail("duplicate-tag-same-client" if dup_tag and _only_tag_dups(doc, mod, names)
                     else "dedup-suffix-collision",
                     {"client": mod, "methods": names}, "pairwise distinct method names in one client class")
        # (b) nothing lost: distinct (client, method) pairs = (operation, client) incidences
        got = sum(len(set(names)) for _m, names in clients)
        if got != expected_incidences and not fails:
            fail("operation-dropped", {"clients": clients, "defined": got}, {"incidences": expected_incidences})
    return fails


def _only_tag_dups(doc: dict, mod: str, names: list) -> bool:
    """Is every repeated name of this client explained by an operation listing the client's tag twice?"""
    n_rep = len(names) - len(set(names))
    n_tag = 0
    for _p, _m, op in _ops_in(doc):
        keys = [t.lower() for t in (op.get("tags") or ["default"])]
        n_tag += sum(keys.count(k) - 1 for k in set(keys) if k == mod[:-3])
    return n_rep == n_tag


def _make_cases(seed: int, scale: float) -> list:
    import yaml
    r = random.Random(seed)
    cases = []
    for i in range(max(6, int(700 * scale))):
        doc = _o_doc(r, "count")
        cases.append({"kind": "count", "strategy": STRATEGIES[i % 3],
                      "yaml": yaml.safe_dump(doc, sort_keys=False, default_flow_style=bool(i % 2))})
    for i in range(max(6, int(500 * scale))):
        doc = _o_doc(r, "render")
        sdoc = _stringify(doc)
        cases.append({"kind": "render", "strategy": STRATEGIES[i % 3], "json": json.dumps(sdoc),
                      "yaml_quoted": yaml.safe_dump(sdoc, sort_keys=False),
                      "yaml": yaml.safe_dump(doc, sort_keys=False, default_flow_style=bool(i % 2))})
    for i in range(max(4, int(60 * scale))):
        doc = _o_doc(r, "names")
        cases.append({"kind": "names", "strategy": "operationId" if i % 3 else "path", "json": json.dumps(doc)})
    return cases


def oracle(seed: int, scale: float) -> dict:
    failures = []
    n = 0
    with _scratch() as scratch:
        for case in _make_cases(seed, scale):
            n += 1
            failures += _eval_case(case, scratch)
    return {"evaluations": n, "failures": failures}


def replay(case) -> bool:
    c = case.get("case", case) if isinstance(case, dict) else case
    with _scratch() as scratch:
        return bool(_eval_case(c, scratch))


if __name__ == "__main__":
    seed = int(sys.argv[1]) if len(sys.argv) > 1 else 0
    scale = float(sys.argv[2]) if len(sys.argv) > 2 else 1.0
    import time
    t0 = time.time()
    res = run(seed, scale, os.path.join(HERE, ".lake/build/bin/driver"))
    for d in res["disagreements"][:10]:
        print("DISAGREE", json.dumps(d, ensure_ascii=False, default=str)[:1500])
    print(json.dumps(res["distribution"], indent=1, ensure_ascii=False))
    print(f"run: {res['comparisons']} comparisons, {res['nontrivial']} nontrivial, {time.time() - t0:.1f}s")
    t0 = time.time()
    orc = oracle(seed, scale)
    by = {}
    for f in orc["failures"]:
        by[f["class"]] = by.get(f["class"], 0) + 1
    print(f"oracle: {orc['evaluations']} evaluations, failures by class: {by}, {time.time() - t0:.1f}s")
    if orc["failures"]:
        f0 = orc["failures"][0]
        print("replay of first failure still fails:", replay(f0))
    print(f"{len(res['disagreements'])} disagreements")
