import Pog.Lemmas.SurfaceGroup
/-
  The module file name of a tag client determines the normalised tag key (ASCII tags):
      normTagKey u t = (sanModule u t).filter (· != '_')
  hence two tag groups can never be written to the same `endpoints/<module>.py`.
-/
namespace Pog

/-! ## The tokenizer loses no alphanumeric character -/

def TokSt.content (st : TokSt) : Str := st.out.reverse.flatten ++ st.cur.reverse

def TokSt.WF (st : TokSt) : Prop := st.kind = .none → st.cur = []

theorem TokSt.flush_content {st : TokSt} (h : st.WF) : st.flush.reverse.flatten = st.content := by
  obtain ⟨k, cur, out⟩ := st
  cases k
  · have : cur = [] := h rfl
    subst this
    simp [TokSt.flush, TokSt.content]
  all_goals simp [TokSt.flush, TokSt.content]

theorem not_alnum_of_not {c : Char} (h1 : ¬ isLowerA c = true) (h2 : ¬ isUpperA c = true) (h3 : ¬ isDigitA c = true) :
    isAlnumA c = false := by
  simp only [Bool.not_eq_true] at h1 h2 h3
  simp [isAlnumA, isAlphaA, h1, h2, h3]

theorem tokStep_content (st : TokSt) (c : Char) (h : st.WF) :
    (tokStep st c).WF ∧ (tokStep st c).content = st.content ++ (if isAlnumA c then [c] else []) := by
  have hfl := TokSt.flush_content h
  obtain ⟨k, cur, out⟩ := st
  unfold tokStep
  split
  · rename_i hc
    have hc := isAlnumA_of_lower hc
    cases k
    · have : cur = [] := h rfl
      subst this
      exact ⟨by simp [TokSt.WF], by simp [TokSt.content, hc]⟩
    · simp only
      split
      · exact ⟨by simp [TokSt.WF], by simp [TokSt.content, hc]⟩
      · exact ⟨by simp [TokSt.WF], by simp [TokSt.content, hc]⟩
      · exact ⟨by simp [TokSt.WF], by simp [TokSt.content, hc]⟩
    · exact ⟨by simp [TokSt.WF], by simp [TokSt.content, hc]⟩
    · exact ⟨by simp [TokSt.WF], by simp [TokSt.content, hc]⟩
  · split
    · rename_i hc
      have hc := isAlnumA_of_upper hc
      cases k
      · have : cur = [] := h rfl
        subst this
        exact ⟨by simp [TokSt.WF], by simp [TokSt.content, hc]⟩
      · exact ⟨by simp [TokSt.WF], by simp [TokSt.content, hc]⟩
      · exact ⟨by simp [TokSt.WF], by simp [TokSt.content, hc]⟩
      · exact ⟨by simp [TokSt.WF], by simp [TokSt.content, hc]⟩
    · split
      · rename_i hc
        have hc := isAlnumA_of_digit hc
        cases k
        · have : cur = [] := h rfl
          subst this
          exact ⟨by simp [TokSt.WF], by simp [TokSt.content, hc]⟩
        · exact ⟨by simp [TokSt.WF], by simp [TokSt.content, hc]⟩
        · exact ⟨by simp [TokSt.WF], by simp [TokSt.content, hc]⟩
        · exact ⟨by simp [TokSt.WF], by simp [TokSt.content, hc]⟩
      · rename_i h1 h2 h3
        have hc := not_alnum_of_not h1 h2 h3
        refine ⟨by simp [TokSt.WF], ?_⟩
        simp only [TokSt.content, List.reverse_nil, List.append_nil, hc, Bool.false_eq_true, if_false]
        rw [hfl]; rfl

theorem foldl_tokStep_content (s : Str) (st : TokSt) (h : st.WF) :
    (s.foldl tokStep st).WF ∧ (s.foldl tokStep st).content = st.content ++ s.filter isAlnumA := by
  induction s generalizing st with
  | nil => exact ⟨h, by simp⟩
  | cons c cs ih =>
    obtain ⟨h1, h2⟩ := tokStep_content st c h
    obtain ⟨h3, h4⟩ := ih _ h1
    refine ⟨h3, ?_⟩
    simp only [List.foldl_cons]
    rw [h4, h2, List.filter_cons]
    split <;> simp

/-- The tokens, concatenated, are exactly the ASCII alphanumerics of the input in order. -/
theorem tokenize_flatten (s : Str) : (tokenize s).flatten = s.filter isAlnumA := by
  have h0 : TokSt.init.WF := fun _ => rfl
  obtain ⟨h1, h2⟩ := foldl_tokStep_content s TokSt.init h0
  unfold tokenize
  rw [TokSt.flush_content h1, h2]
  simp [TokSt.content, TokSt.init]

/-! ## Filtering the underscores out of a module name -/

def noUs (s : Str) : Str := s.filter (· != '_')

theorem noUs_append (a b : Str) : noUs (a ++ b) = noUs a ++ noUs b := by simp [noUs]

theorem noUs_joinWith (ws : List Str) : noUs (joinWith ['_'] ws) = (ws.map noUs).flatten := by
  fun_induction joinWith ['_'] ws with
  | case1 => rfl
  | case2 x => simp
  | case3 x y rest ih =>
    rw [noUs_append, noUs_append, ih]
    simp [noUs]

theorem noUs_of_alnum (w : Str) (h : w.all isAlnumA = true) : noUs w = w := by
  unfold noUs
  rw [List.filter_eq_self]
  intro c hc
  have := List.all_eq_true.1 h c hc
  have hne : c ≠ '_' := by
    intro e; subst e; simp [isAlnumA_us] at this
  simpa using hne

theorem noUs_digitGuard (m : Str) : noUs (digitGuard m) = noUs m := by
  rcases digitGuard_cases m with h | h <;> rw [h]
  simp [noUs]

theorem noUs_methodPost (m : Str) : noUs (methodPost m) = noUs m := by
  unfold methodPost
  split
  · rw [noUs_append, noUs_digitGuard]; simp [noUs]
  · exact noUs_digitGuard m

theorem lowerS_ascii (u : UInfo) (s : Str) (h : s.all isAscii = true) : u.lowerS s = s.map lowerA := by
  induction s with
  | nil => rfl
  | cons c cs ih =>
    simp only [List.all_cons, Bool.and_eq_true] at h
    have ih' := ih h.2
    simp only [UInfo.lowerS] at ih' ⊢
    simp [List.flatMap_cons, h.1, ih']

theorem all_ascii_of_alnum (w : Str) (h : w.all isAlnumA = true) : w.all isAscii = true := by
  rw [List.all_eq_true] at h ⊢
  intro c hc
  exact isAscii_of_isAlnumA (h c hc)

theorem normTagKey_ascii (u : UInfo) (t : Str) (h : t.all isAscii = true) :
    normTagKey u t = (t.filter isAlnumA).map lowerA := by
  unfold normTagKey
  have hf : t.filter (fun c => u.isWord c && c != '_') = t.filter isAlnumA := by
    apply List.filter_congr
    intro c hc
    have hca := List.all_eq_true.1 h c hc
    simp only [UInfo.isWord, hca, if_true]
    by_cases hu : c = '_'
    · subst hu; decide
    · have : (c != '_') = true := by simpa using hu
      have hu' : (c == '_') = false := by simpa using hu
      simp [isIdChar, this, hu']
  rw [hf, lowerS_ascii]
  rw [List.all_eq_true] at h ⊢
  intro c hc
  exact h c (List.mem_filter.1 hc).1

/-- With at least one ASCII alphanumeric. -/
theorem noUs_sanModule_alnum (u : UInfo) (t : Str) (h : t.any isAlnumA = true) :
    noUs (sanModule u t) = (t.filter isAlnumA).map lowerA := by
  rw [sanModule_eq u t h, noUs_methodPost, noUs_joinWith, List.map_map]
  have : (tokenize t).map (noUs ∘ u.lowerS) = (tokenize t).map (List.map lowerA) := by
    apply List.map_congr_left
    intro w hw
    obtain ⟨_, hall⟩ := tokenize_good t w hw
    simp only [Function.comp_def]
    rw [lowerS_ascii u w (all_ascii_of_alnum w hall)]
    apply noUs_of_alnum
    rw [List.all_map, List.all_eq_true]
    intro c hc
    exact isAlnumA_lowerA (List.all_eq_true.1 hall c hc)
  rw [this, ← List.map_flatten, tokenize_flatten]

/-! ### No ASCII alphanumeric: the module name consists of underscores only -/

theorem splitWordRuns_chars (u : UInfo) (s cur : Str) :
    ∀ w ∈ splitWordRuns u s cur, ∀ c ∈ w, (c ∈ s ∧ u.isWord c = true) ∨ c ∈ cur := by
  induction s generalizing cur with
  | nil =>
    intro w hw c hc
    simp only [splitWordRuns] at hw
    split at hw
    · cases hw
    · simp only [List.mem_singleton] at hw
      subst hw
      exact .inr (by simpa using hc)
  | cons d ds ih =>
    intro w hw c hc
    simp only [splitWordRuns] at hw
    split at hw
    · rename_i hd
      rcases ih (d :: cur) w hw c hc with ⟨h1, h2⟩ | h
      · exact .inl ⟨List.mem_cons_of_mem _ h1, h2⟩
      · rcases List.mem_cons.1 h with rfl | h
        · exact .inl ⟨by simp, hd⟩
        · exact .inr h
    · split at hw
      · rcases ih [] w hw c hc with ⟨h1, h2⟩ | h
        · exact .inl ⟨List.mem_cons_of_mem _ h1, h2⟩
        · cases h
      · rcases List.mem_cons.1 hw with rfl | hw
        · exact .inr (by simpa using hc)
        · rcases ih [] w hw c hc with ⟨h1, h2⟩ | h
          · exact .inl ⟨List.mem_cons_of_mem _ h1, h2⟩
          · cases h

theorem mem_joinWith_us (ws : List Str) (c : Char) (hc : c ∈ joinWith ['_'] ws) :
    c = '_' ∨ ∃ w ∈ ws, c ∈ w := by
  fun_induction joinWith ['_'] ws with
  | case1 => cases hc
  | case2 x => exact .inr ⟨x, by simp, hc⟩
  | case3 x y rest ih =>
    simp only [List.append_assoc, List.mem_append, List.mem_singleton] at hc
    rcases hc with h | h | h
    · exact .inr ⟨x, by simp, h⟩
    · exact .inl h
    · rcases ih h with h | ⟨w, hw, hcw⟩
      · exact .inl h
      · exact .inr ⟨w, List.mem_cons_of_mem _ hw, hcw⟩

theorem sanModule_all_us (u : UInfo) (t : Str) (hascii : t.all isAscii = true) (h : t.any isAlnumA = false) :
    ∀ c ∈ sanModule u t, c = '_' := by
  have htok : tokenize t = [] := (tokenize_eq_nil_iff t).2 h
  have hm : ∀ c ∈ joinWith ['_'] ((splitWordRuns u t []).map u.lowerS), c = '_' := by
    intro c hc
    rcases mem_joinWith_us _ c hc with h1 | ⟨w, hw, hcw⟩
    · exact h1
    · obtain ⟨w0, hw0, rfl⟩ := List.mem_map.1 hw
      have hall : ∀ d ∈ w0, d = '_' := by
        intro d hd
        rcases splitWordRuns_chars u t [] w0 hw0 d hd with ⟨hdt, hdw⟩ | hd'
        · have hda := List.all_eq_true.1 hascii d hdt
          simp only [UInfo.isWord, hda, if_true] at hdw
          have hna : isAlnumA d = false := by
            have := List.any_eq_false.1 h d hdt
            simpa using this
          simp only [isIdChar, hna, Bool.false_or, beq_iff_eq] at hdw
          exact hdw
        · cases hd'
      have hw0' : w0.all isAscii = true := by
        rw [List.all_eq_true]; intro d hd; rw [hall d hd]; decide
      rw [lowerS_ascii u w0 hw0'] at hcw
      obtain ⟨d, hd, rfl⟩ := List.mem_map.1 hcw
      rw [hall d hd]; decide
  have key : ∀ (m1 : Str), (∀ c ∈ m1, c = '_') →
      ∀ c ∈ (if isKeyword m1 || isReserved m1 then m1 ++ ['_'] else m1), c = '_' := by
    intro m1 h1 c hc
    split at hc
    · rcases List.mem_append.1 hc with h | h
      · exact h1 c h
      · simpa using h
    · exact h1 c hc
  have key2 : ∀ (m0 : Str), (∀ c ∈ m0, c = '_') →
      ∀ c ∈ (if startsWithDigit u m0 then '_' :: m0 else m0), c = '_' := by
    intro m0 h0 c hc
    split at hc
    · rcases List.mem_cons.1 hc with rfl | h
      · rfl
      · exact h0 c h
    · exact h0 c hc
  unfold sanModule
  simp only [htok, List.isEmpty_nil, if_true]
  intro c hc
  exact key _ (key2 _ hm) c hc

theorem noUs_of_all_us (s : Str) (h : ∀ c ∈ s, c = '_') : noUs s = [] := by
  unfold noUs
  rw [List.filter_eq_nil_iff]
  intro c hc
  simp [h c hc]

/-- For an ASCII tag the module name determines the normalised key. -/
theorem normTagKey_eq_noUs_sanModule (u : UInfo) (t : Str) (h : t.all isAscii = true) :
    normTagKey u t = noUs (sanModule u t) := by
  rw [normTagKey_ascii u t h]
  cases ha : t.any isAlnumA with
  | true => rw [noUs_sanModule_alnum u t ha]
  | false =>
    rw [noUs_of_all_us _ (sanModule_all_us u t h ha)]
    have : t.filter isAlnumA = [] := by
      rw [List.filter_eq_nil_iff]
      intro c hc
      have := List.any_eq_false.1 ha c hc
      simpa using this
    rw [this]; rfl

/-! ## No two tag groups share a module file (ASCII tags) -/

theorem nodup_map_of_factor {α β γ : Type} (l : List α) (f : α → β) (k : α → γ) (h : β → γ)
    (hk : ∀ x ∈ l, k x = h (f x)) (hn : (l.map k).Nodup) : (l.map f).Nodup := by
  induction l with
  | nil => simp
  | cons a l ih =>
    simp only [List.map_cons, List.nodup_cons] at hn ⊢
    refine ⟨?_, ih (fun x hx => hk x (List.mem_cons_of_mem _ hx)) hn.2⟩
    intro hmem
    obtain ⟨b, hb, hfb⟩ := List.mem_map.1 hmem
    apply hn.1
    rw [hk a (by simp), ← hfb, ← hk b (List.mem_cons_of_mem _ hb)]
    exact List.mem_map_of_mem hb

theorem tagPairs_key (u : UInfo) (ops : List TagOp) (p : Str × Str × Option Str) (hp : p ∈ tagPairs u ops) :
    p.1 = normTagKey u p.2.1 ∧ ∃ op ∈ ops, p.2.1 ∈ tagsOrDefault op := by
  unfold tagPairs at hp
  obtain ⟨op, hop, hp⟩ := List.mem_flatMap.1 hp
  obtain ⟨h1, h2⟩ := opTagPairs_mem u op.id _ [] p hp
  exact ⟨h1, op, hop, h2⟩

/-- The canonical tag of a group is one of the tags of some operation, and its normalised key is the group's key. -/
theorem groupEndpoints_canon (u : UInfo) (ops : List TagOp) (g : TagGroup) (hg : g ∈ groupEndpoints u ops) :
    g.key = normTagKey u g.canon ∧ (∃ op ∈ ops, g.canon ∈ tagsOrDefault op) ∧
      g.module = sanModule u g.canon ∧ g.cls = sanClass g.canon ++ kClientSuffix := by
  unfold groupEndpoints at hg
  obtain ⟨e, he, rfl⟩ := List.mem_map.1 hg
  rw [keyToPairs_eq] at he
  obtain ⟨h1, h2⟩ := gfold_entry _ _ _ e he
  have hne : e.2.map (·.1) ≠ [] := by simpa using h2
  have hsome := pyMaxTag_of_ne u _ hne
  have hmem := pyMaxTag_mem u _ _ hsome
  obtain ⟨q, hq, hqc⟩ := List.mem_map.1 hmem
  rw [h1] at hq
  obtain ⟨p, hp, rfl⟩ := List.mem_map.1 hq
  obtain ⟨hp1, hp2⟩ := List.mem_filter.1 hp
  obtain ⟨hk, hop⟩ := tagPairs_key u ops p hp1
  refine ⟨?_, ?_, rfl, rfl⟩
  · show e.1 = normTagKey u ((pyMaxTag u (e.2.map (·.1))).getD kDefaultTag)
    have hp2' : p.1 = e.1 := by simpa using hp2
    rw [← hqc, ← hk, hp2']
  · show ∃ op ∈ ops, (pyMaxTag u (e.2.map (·.1))).getD kDefaultTag ∈ tagsOrDefault op
    rw [← hqc]; exact hop

theorem kDefaultTag_ascii : kDefaultTag.all isAscii = true := by decide

theorem groupEndpoints_modules_nodup (u : UInfo) (ops : List TagOp)
    (hascii : ∀ op ∈ ops, ∀ t ∈ op.tags, t.all isAscii = true) :
    ((groupEndpoints u ops).map (·.module)).Nodup := by
  apply nodup_map_of_factor (groupEndpoints u ops) (·.module) (·.key) noUs _ (groupEndpoints_keys_nodup u ops)
  intro g hg
  obtain ⟨hk, ⟨op, hop, hc⟩, hm, _⟩ := groupEndpoints_canon u ops g hg
  have hca : g.canon.all isAscii = true := by
    unfold tagsOrDefault at hc
    split at hc
    · rw [List.mem_singleton.1 hc]; exact kDefaultTag_ascii
    · exact hascii op hop _ hc
  rw [hk, hm]
  exact normTagKey_eq_noUs_sanModule u g.canon hca

end Pog
