import Pog.Model.Stream
/-
  Lemmas about the incremental UTF-8 decoder model (`utf8Run`, `utf8Chunks`, `utf8Encode`).
-/
namespace Pog

theorem utf8Run_append (p : List Byte) (a b : List Byte) :
    utf8Run p (a ++ b) =
      (utf8Run p a).bind (fun r => (utf8Run r.2 b).map (fun r' => (r.1 ++ r'.1, r'.2))) := by
  induction a generalizing p with
  | nil =>
    simp only [List.nil_append, utf8Run, Option.bind_some]
    cases utf8Run p b <;> simp
  | cons b0 a ih =>
    simp only [List.cons_append, utf8Run]
    cases utf8Seq (p ++ [b0]) with
    | complete c =>
      simp only
      rw [ih]
      cases utf8Run [] a with
      | none => simp
      | some r =>
        obtain ⟨t, p'⟩ := r
        simp only [Option.bind_some]
        cases utf8Run p' b <;> simp
    | pending => simp only; rw [ih]
    | invalid => simp

/-- Decoding chunk by chunk and concatenating = decoding the concatenation (same pending bytes). -/
theorem utf8Chunks_flatten (p : List Byte) (chs : List (List Byte)) :
    (utf8Chunks p chs).map (fun r => (r.1.flatten, r.2)) = utf8Run p chs.flatten := by
  induction chs generalizing p with
  | nil => simp [utf8Chunks, utf8Run]
  | cons ch chs ih =>
    simp only [utf8Chunks, List.flatten_cons, utf8Run_append]
    cases utf8Run p ch with
    | none => simp
    | some r =>
      obtain ⟨t, p'⟩ := r
      simp only [Option.bind_some]
      rw [← ih p']
      cases utf8Chunks p' chs <;> simp

/-! ### decode ∘ encode = id -/

theorem char_valid_nat (c : Char) : c.toNat < 0xd800 ∨ (0xdfff < c.toNat ∧ c.toNat < 0x110000) := c.valid

theorem seq1 (n : Nat) (h : n < 0x80) : utf8Seq [n] = .complete (Char.ofNat n) := by
  simp [utf8Seq, h]

theorem seq2a (n : Nat) (h1 : 0x80 ≤ n) (h2 : n < 0x800) : utf8Seq [0xC0 + n / 64] = .pending := by
  have : ¬ (0xC0 + n / 64 < 0x80) := by omega
  have : 0xC2 ≤ 0xC0 + n / 64 := by omega
  have : 0xC0 + n / 64 ≤ 0xF4 := by omega
  simp [utf8Seq, *]

theorem seq2b (n : Nat) (h1 : 0x80 ≤ n) (h2 : n < 0x800) :
    utf8Seq [0xC0 + n / 64, 0x80 + n % 64] = .complete (Char.ofNat n) := by
  have : 0xC2 ≤ 0xC0 + n / 64 := by omega
  have : 0xC0 + n / 64 ≤ 0xDF := by omega
  have : 0x80 + n % 64 ≤ 0xBF := by omega
  simp [utf8Seq, isCont, *]
  congr 1; omega

/-- 3-byte lead and admissible second byte for a non-surrogate `n` in U+0800..U+FFFF. -/
theorem second3_enc (n : Nat) (h1 : 0x800 ≤ n) (h2 : n < 0x10000) (hs : n < 0xd800 ∨ 0xdfff < n) :
    second3 (0xE0 + n / 4096) (0x80 + n / 64 % 64) = true := by
  unfold second3
  by_cases ha : n / 4096 = 0
  · have : 0xA0 ≤ 0x80 + n / 64 % 64 := by omega
    have : 0x80 + n / 64 % 64 ≤ 0xBF := by omega
    simp [*]
  · by_cases hb : n / 4096 = 13
    · have : 0x80 + n / 64 % 64 ≤ 0x9F := by omega
      simp [*]
    · have e1 : ¬ (0xE0 + n / 4096 = 0xE0) := by omega
      have e2 : ¬ (0xE0 + n / 4096 = 0xED) := by omega
      have : 0x80 + n / 64 % 64 ≤ 0xBF := by omega
      simp [isCont, *]

theorem seq3a (n : Nat) (h1 : 0x800 ≤ n) (h2 : n < 0x10000) : utf8Seq [0xE0 + n / 4096] = .pending := by
  have : ¬ (0xE0 + n / 4096 < 0x80) := by omega
  have : 0xC2 ≤ 0xE0 + n / 4096 := by omega
  have : 0xE0 + n / 4096 ≤ 0xF4 := by omega
  simp [utf8Seq, *]

theorem seq3b (n : Nat) (h1 : 0x800 ≤ n) (h2 : n < 0x10000) (hs : n < 0xd800 ∨ 0xdfff < n) :
    utf8Seq [0xE0 + n / 4096, 0x80 + n / 64 % 64] = .pending := by
  have : ¬ (0xE0 + n / 4096 ≤ 0xDF) := by omega
  have : 0xE0 + n / 4096 ≤ 0xEF := by omega
  simp [utf8Seq, second3_enc n h1 h2 hs, *]

theorem seq3c (n : Nat) (h1 : 0x800 ≤ n) (h2 : n < 0x10000) (hs : n < 0xd800 ∨ 0xdfff < n) :
    utf8Seq [0xE0 + n / 4096, 0x80 + n / 64 % 64, 0x80 + n % 64] = .complete (Char.ofNat n) := by
  have : 0xE0 + n / 4096 ≤ 0xEF := by omega
  have : 0x80 + n % 64 ≤ 0xBF := by omega
  simp [utf8Seq, second3_enc n h1 h2 hs, isCont, *]
  congr 1; omega

theorem second4_enc (n : Nat) (h1 : 0x10000 ≤ n) (h2 : n < 0x110000) :
    second4 (0xF0 + n / 262144) (0x80 + n / 4096 % 64) = true := by
  unfold second4
  by_cases ha : n / 262144 = 0
  · have : 0x90 ≤ 0x80 + n / 4096 % 64 := by omega
    have : 0x80 + n / 4096 % 64 ≤ 0xBF := by omega
    simp [*]
  · by_cases hb : n / 262144 = 4
    · have : 0x80 + n / 4096 % 64 ≤ 0x8F := by omega
      simp [*]
    · have e1 : ¬ (0xF0 + n / 262144 = 0xF0) := by omega
      have e2 : ¬ (0xF0 + n / 262144 = 0xF4) := by omega
      have : 0x80 + n / 4096 % 64 ≤ 0xBF := by omega
      simp [isCont, *]

theorem seq4a (n : Nat) (h1 : 0x10000 ≤ n) (h2 : n < 0x110000) : utf8Seq [0xF0 + n / 262144] = .pending := by
  have : ¬ (0xF0 + n / 262144 < 0x80) := by omega
  have : 0xC2 ≤ 0xF0 + n / 262144 := by omega
  have : 0xF0 + n / 262144 ≤ 0xF4 := by omega
  simp [utf8Seq, *]

theorem seq4b (n : Nat) (h1 : 0x10000 ≤ n) (h2 : n < 0x110000) :
    utf8Seq [0xF0 + n / 262144, 0x80 + n / 4096 % 64] = .pending := by
  have : ¬ (0xF0 + n / 262144 ≤ 0xDF) := by omega
  have : ¬ (0xF0 + n / 262144 ≤ 0xEF) := by omega
  have : 0xF0 + n / 262144 ≤ 0xF4 := by omega
  simp [utf8Seq, second4_enc n h1 h2, *]

theorem seq4c (n : Nat) (h1 : 0x10000 ≤ n) (h2 : n < 0x110000) :
    utf8Seq [0xF0 + n / 262144, 0x80 + n / 4096 % 64, 0x80 + n / 64 % 64] = .pending := by
  have : ¬ (0xF0 + n / 262144 ≤ 0xEF) := by omega
  have : 0xF0 + n / 262144 ≤ 0xF4 := by omega
  have : 0x80 + n / 64 % 64 ≤ 0xBF := by omega
  simp [utf8Seq, second4_enc n h1 h2, isCont, *]

theorem seq4d (n : Nat) (h1 : 0x10000 ≤ n) (h2 : n < 0x110000) :
    utf8Seq [0xF0 + n / 262144, 0x80 + n / 4096 % 64, 0x80 + n / 64 % 64, 0x80 + n % 64]
      = .complete (Char.ofNat n) := by
  have : 0xF0 + n / 262144 ≤ 0xF4 := by omega
  have : 0x80 + n / 64 % 64 ≤ 0xBF := by omega
  have : 0x80 + n % 64 ≤ 0xBF := by omega
  simp [utf8Seq, second4_enc n h1 h2, isCont, *]
  congr 1; omega

theorem utf8Run_encodeChar (c : Char) (rest : List Byte) :
    utf8Run [] (utf8EncodeChar c ++ rest) = (utf8Run [] rest).map (fun r => (c :: r.1, r.2)) := by
  have hv := char_valid_nat c
  have hc : Char.ofNat c.toNat = c := Char.ofNat_toNat c
  unfold utf8EncodeChar
  simp only
  generalize c.toNat = n at hv hc
  have hfin : ∀ (o : Option (Str × List Byte)),
      (match o with | some (t, p) => some (c :: t, p) | none => none) = o.map (fun r => (c :: r.1, r.2)) := by
    intro o; cases o <;> rfl
  by_cases h1 : n < 0x80
  · simp only [h1, if_true, List.cons_append, List.nil_append, utf8Run, seq1 n h1, hc]
    exact hfin _
  · by_cases h2 : n < 0x800
    · simp only [h1, h2, if_true, if_false, List.cons_append, List.nil_append, utf8Run,
        seq2a n (by omega) h2, seq2b n (by omega) h2, hc]
      exact hfin _
    · by_cases h3 : n < 0x10000
      · have hs : n < 0xd800 ∨ 0xdfff < n := by omega
        simp only [h1, h2, h3, if_true, if_false, List.cons_append, List.nil_append, utf8Run,
          seq3a n (by omega) h3, seq3b n (by omega) h3 hs, seq3c n (by omega) h3 hs, hc]
        exact hfin _
      · have h4 : n < 0x110000 := by omega
        simp only [h1, h2, h3, if_false, List.cons_append, List.nil_append, utf8Run,
          seq4a n (by omega) h4, seq4b n (by omega) h4, seq4c n (by omega) h4, seq4d n (by omega) h4, hc]
        exact hfin _

theorem utf8Run_encode (s : Str) : utf8Run [] (utf8Encode s) = some (s, []) := by
  induction s with
  | nil => rfl
  | cons c cs ih => simp [utf8Encode, utf8Run_encodeChar, ih]

theorem utf8Decode_encode (s : Str) : utf8Decode (utf8Encode s) = some s := by
  simp [utf8Decode, utf8Run_encode]

/-- Any chunking of the UTF-8 encoding of `s` decodes to text chunks whose concatenation is `s`,
    with nothing left pending. -/
theorem utf8Chunks_encode (s : Str) (chs : List (List Byte)) (h : chs.flatten = utf8Encode s) :
    ∃ ts, utf8Chunks [] chs = some (ts, []) ∧ ts.flatten = s := by
  have h1 := utf8Chunks_flatten [] chs
  rw [h, utf8Run_encode] at h1
  cases hq : utf8Chunks [] chs with
  | none => rw [hq] at h1; simp at h1
  | some r =>
    obtain ⟨ts, p⟩ := r
    rw [hq] at h1
    simp at h1
    exact ⟨ts, by rw [h1.2], h1.1⟩

end Pog
