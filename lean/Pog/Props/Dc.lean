import Pog.Lemmas.Dc
/-
  Dc — `DataclassGenerator.generate`: which fields a model class gets, in which order, with which defaults.

  Model: `Pog/Model/Dc.lean` (`Pog.Dc.generate`, `fieldsData`, `objectFields`, `sortProps`, `fieldDefault`,
  `renderOrder`, `bodyLines`), re-using M-names (`sanMethod`, `enumMemberStr`), M-fresh (`fieldNames`), M-sinks
  (`renderDefaultStr`, `renderFieldLine`) and M-pylex (`evalStrLit`).  Every theorem quantifies over EVERY schema, every
  `required` list (names that are not properties included), every opaque type text and every CPython case table `u`;
  the only well-formedness ever assumed is "the property names are pairwise distinct" (keys of a python `dict`), and
  only where it is needed.

  `✗` marks full statements that are FALSE of the code; they appear as `_counterexample` (by `decide` on a concrete
  witness) + `_partial` / `_exact` (hypothesis = the excluded input class).

    1  rendered_defaults_last, render_order_defaults_last, render_order_is_identity, field_line_shape   full   (C01)
    1b no_field_named_field, field_property_keeps_wire_key, field_shadow_former_witness                 full   (C01; F5 repaired)
    2  one_field_per_property, one_field_per_property_generated, mappings_are_the_wire_keys             full   (C02)
    3  required_iff_no_default, required_iff_no_default_generated                                       full   (C02)
    4  default_array, default_plain_object, default_absent, default_nonscalar, default_bool,
       default_int, default_float, default_str, default_enum_expr                                       full
       str_default_evaluates  ✗  (astral characters come back as two lone surrogates: `json.dumps(ensure_ascii)`)
         str_default_is_one_literal (full), str_default_exact, str_default_partial, str_default_counterexample
    5  enum_default_member_exists  ✗  (finding F53: `N/A`, `2x`, `in progress!`, `if`, empty string, …)
         enum_default_member_counterexample, enum_default_expr_counterexample, enum_default_member_exact,
         enum_default_member_partial,
         enum_default_member_in_enum_partial, enum_default_wrong_member_counterexample,
         int_enum_default_never_identifier
    6  sorted_props_is_sorted, sorted_props_order_independent, sorted_props_required_order_independent,
       generate_order_independent                                                                       full   (C19)
    7  generate_never_diverges, generate_value_error_iff                                                full
       generate_never_raises_runtime_error  ✗  (NEW finding: a property called `defaultFactory` / `default_factory`,
         or that text in a description / type, makes `generate` raise RuntimeError when no field uses a factory)
         generate_default_factory_counterexample, generate_ok_partial
-/
namespace Pog.DcProps
open Pog Pog.Dc Pog.Diff

/-! ## witnesses used by the examples and counterexamples -/

private def sStr : Str := "str".toList
private def sStrOpt : Str := "str | None".toList

/-- `Thing`: colliding names (`userId`, `user_id`, `user-id`), a keyword, an array, a plain object, an enum reference
    with the default `N/A`, a string default with a quote and a backslash; `required` names `user_id`, `obj` and a name
    that is no property. -/
def thing : DcSchema :=
  { name := some "Thing".toList, ty := some sObject,
    props := [
      { key := "userId".toList, ty := some "string".toList, default := some (.str "a\"b\\".toList), pyType := sStrOpt },
      { key := "user_id".toList, ty := some "integer".toList, default := some (.int 3), pyType := "int".toList },
      { key := "user-id".toList, ty := some "boolean".toList, default := some (.bool true), pyType := "bool | None".toList },
      { key := "class".toList, ty := some sArray, pyType := "List[str] | None".toList },
      { key := "obj".toList, ty := some sObject, pyType := "dict[str, Any]".toList },
      { key := "lvl".toList, ty := some "string".toList, name := some "Level".toList,
        default := some (.str "N/A".toList), pyType := "Level | None".toList,
        enumVals := some ["N/A".toList, "ok".toList] },
      { key := "meta".toList, ty := some sObject, pyType := "dict[str, Any] | None".toList } ],
    required := ["user_id".toList, "zzz".toList, "obj".toList] }

/-- What the real generator emits for `thing` (checked by `corr_dc.py` on the same input). -/
example :
    (generate UInfo.ascii thing "Thing".toList).toOption.map (fun o => o.lines.map String.ofList)
      = some ["obj: dict[str, Any]",
              "user_id: int",
              "class_: List[str] | None = field(default_factory=list)  # Maps from 'class'",
              "lvl: Level | None = Level(\"N/A\")",
              "meta: dict[str, Any] | None = field(default_factory=dict)",
              "user_id_2: bool | None = True  # Maps from 'user-id'",
              "user_id_3: str | None = \"a\\\"b\\\\\"  # Maps from 'userId'"] := by decide

/-! ## 1. the class body is a valid dataclass body (C01) -/

/-- FULL: whatever the schema and the `required` list (unknown names, duplicates, nothing required, everything
    required), in the class body `generate` returns no field without a default follows a field with a default; the
    body lines are one `name: type` / `name: type = default` line per field, in that order. -/
theorem rendered_defaults_last (u : UInfo) (s : DcSchema) (b : Str) (out : DcOut) (h : generate u s b = .ok out) :
    out.body.Pairwise (fun f g => hasDefault f = true → hasDefault g = true)
      ∧ defaultsLast false out.body = true
      ∧ (shape s ≠ .wrapperJson → out.fields ≠ [] → out.lines = out.body.map fieldLine) := by
  obtain ⟨_, _, _, _, _, hbody, hlines, _⟩ := generate_ok_inv u s b out h
  refine ⟨hbody ▸ renderOrder_pairwise _, hbody ▸ renderOrder_defaultsLast _, ?_⟩
  intro hsh hne
  rw [hlines hsh, hbody]
  cases hf : out.fields with
  | nil => exact absurd hf hne
  | cons _ _ => rfl

/-- The renderer's partition, for ANY list of field tuples (not only those the generator builds). -/
theorem render_order_defaults_last (fs : List DcField) :
    (renderOrder fs).Pairwise (fun f g => hasDefault f = true → hasDefault g = true) ∧ (renderOrder fs).Perm fs :=
  ⟨renderOrder_pairwise fs, renderOrder_perm fs⟩

/-- FULL: on what the generator hands over, the renderer's re-ordering is the identity — `sorted_props` already puts
    the required properties (exactly the fields without a default) first. -/
theorem render_order_is_identity (u : UInfo) (s : DcSchema) (b : Str) (out : DcOut) (h : generate u s b = .ok out) :
    out.body = out.fields := by
  obtain ⟨_, _, _, hfs, _, hbody, _, _⟩ := generate_ok_inv u s b out h
  rw [hbody]
  unfold fieldsData at hfs
  split at hfs
  · rw [← Option.some.inj hfs]; rfl
  · rw [← Option.some.inj hfs]; rfl
  · exact objectFields_renderOrder u s _ hfs
  · rw [← Option.some.inj hfs]; rfl

/-- The text of one field line. -/
theorem field_line_shape (f : DcField) :
    fieldLine f = f.pyName ++ ": ".toList ++ f.pyType
      ++ (match f.default with | some d => " = ".toList ++ d | none => [])
      ++ (if (f.doc.getD []).isEmpty then [] else ' ' :: ' ' :: renderFieldComment (f.doc.getD [])) := rfl

/-! ## 1b. no field rebinds `field` (C01; F5 repaired) -/

/-- `Rec` (the former witness of F5): an optional property called `field` next to an array property. -/
def recField : DcSchema :=
  { name := some "Rec".toList, ty := some sObject,
    props := [
      { key := "field".toList, ty := some "string".toList, pyType := sStrOpt },
      { key := "tags".toList, ty := some sArray, pyType := "List[str] | None".toList } ] }

/-- FULL (F5 repaired): whatever the schema, no field of the class `generate` returns is called `field`.  The class body
    is executed top to bottom and `name: T = default` REBINDS `name` for the statements after it; `field` is the one
    lower-case name a later statement of the body calls (`field(default_factory=list)`), so an attribute of that name with
    a default made the next factory default call its value (`TypeError: 'NoneType' object is not callable`).  Since the
    repair the property asks for `field_` (`dcFieldBase`), and the collision loop only appends `_<n>`. -/
theorem no_field_named_field (u : UInfo) (s : DcSchema) (b : Str) (out : DcOut) (h : generate u s b = .ok out) :
    ∀ f ∈ out.fields, f.pyName ≠ "field".toList := by
  obtain ⟨_, _, _, hfs, _, _, _, _⟩ := generate_ok_inv u s b out h
  intro f hf
  unfold fieldsData at hfs
  split at hfs
  · rw [← Option.some.inj hfs] at hf; cases hf
  · rw [← Option.some.inj hfs] at hf
    rw [List.mem_singleton.mp hf]
    show sItems ≠ "field".toList
    decide
  · obtain ⟨names, hfn, _, hlen, hobj⟩ := objectFields_spec u s
    rw [hobj] at hfs
    have hnames := zipFields_pyName u s.required _ names hlen
    rw [Option.some.inj hfs] at hnames
    intro e
    have : f.pyName ∈ names := hnames ▸ List.mem_map.mpr ⟨f, hf, rfl⟩
    exact fieldNames_ne_field _ _ hfn (e ▸ this)
  · rw [← Option.some.inj hfs] at hf; cases hf

/-- The wire key is untouched: the renamed attribute is mapped from / to `field` in `Meta` (`field_mappings`), like every
    other renamed property. -/
theorem field_property_keeps_wire_key (p : Str) :
    dcFieldBase p = if sanMethod p = "field".toList then "field_".toList else sanMethod p :=
  dcFieldBase_eq p

/-- The former witness of F5: the attribute is `field_`, the array default still calls `dataclasses.field`, and the
    mapping keeps the wire key `field`. -/
theorem field_shadow_former_witness :
    (generate UInfo.ascii recField "Rec".toList).toOption.map
        (fun o => (o.lines.map String.ofList, o.mappings.map (fun kv => (String.ofList kv.1, String.ofList kv.2))))
      = some (["field_: str | None = None  # Maps from 'field'",
               "tags: List[str] | None = field(default_factory=list)"],
              [("field", "field_"), ("tags", "tags")]) := by decide

/-- A property that already is `field_` (or `Field`, `FIELD`, `-field-`: everything `sanitize_method_name` maps to `field`)
    asks for the same identifier; the collision loop separates them. -/
example : fieldNames ["Field".toList, "field".toList, "field_".toList, "fields".toList]
    = some ["field_".toList, "field__2".toList, "field__3".toList, "fields".toList] := by decide

/-! ## 2. one field per property (C02) -/

/-- FULL (property names pairwise distinct): the collision loop terminates; the class body is a permutation of
    `fields_data`; its wire keys are exactly the property names, each once; the python identifiers are pairwise
    distinct; every property has its field, with the type the type service gave, and `field_mappings` maps the
    property name to that field's identifier. -/
theorem one_field_per_property (u : UInfo) (s : DcSchema) (hnd : (s.props.map DcProp.key).Nodup) :
    ∃ fs, objectFields u s = some fs
      ∧ (renderOrder fs).Perm fs
      ∧ ((renderOrder fs).map DcField.wire).Perm (s.props.map (fun p => some p.key))
      ∧ ((renderOrder fs).map DcField.wire).Nodup
      ∧ ((renderOrder fs).map DcField.pyName).Nodup
      ∧ fs.length = s.props.length
      ∧ (∀ p ∈ s.props, ∃ f ∈ renderOrder fs,
            f.wire = some p.key ∧ f.pyType = p.pyType ∧ (p.key, f.pyName) ∈ mappingsOf fs) := by
  obtain ⟨names, _, hnn, hlen, hfs⟩ := objectFields_spec u s
  have hperm := sortProps_perm s.required s.props
  refine ⟨_, hfs, renderOrder_perm _, ?_, ?_, ?_, ?_, ?_⟩
  · refine ((renderOrder_perm _).map _).trans ?_
    rw [zipFields_wire u _ _ _ hlen]
    exact hperm.map _
  · refine (((renderOrder_perm _).map _).nodup_iff).2 ?_
    rw [zipFields_wire u _ _ _ hlen]
    have : ((sortProps s.required s.props).map DcProp.key).Nodup := (hperm.map _).nodup_iff.2 hnd
    have e : (sortProps s.required s.props).map (fun p => some p.key)
        = ((sortProps s.required s.props).map DcProp.key).map some := by simp [List.map_map]
    rw [e]
    exact nodup_map_some _ this
  · refine (((renderOrder_perm _).map _).nodup_iff).2 ?_
    rw [zipFields_pyName u _ _ _ hlen]
    exact hnn
  · rw [zipFields_length u _ _ _ hlen, hperm.length_eq]
  · intro p hp
    have hp' := hperm.mem_iff.2 hp
    have hw : some p.key ∈ (zipFields u s.required (sortProps s.required s.props) names).map DcField.wire := by
      rw [zipFields_wire u _ _ _ hlen]
      exact List.mem_map.2 ⟨p, hp', rfl⟩
    obtain ⟨f, hf, hfw⟩ := List.mem_map.1 hw
    obtain ⟨p', hp'', n, _, rfl⟩ := zipFields_mem u _ _ _ f hf
    have hkey : p'.key = p.key := by simpa [mkField] using hfw
    have hpp : p' = p :=
      eq_of_key_eq ((hperm.map _).nodup_iff.2 hnd) hp'' hp' hkey
    subst hpp
    refine ⟨_, (renderOrder_perm _).mem_iff.2 hf, rfl, rfl, ?_⟩
    exact List.mem_filterMap.2 ⟨_, hf, rfl⟩

/-- FULL: `field_mappings` lists the sorted property names against the identifiers: as a `dict` it has every property
    name as a key exactly once (given distinct names), and its values are the identifiers of `fields_data`, in order. -/
theorem mappings_are_the_wire_keys (u : UInfo) (s : DcSchema) (fs : List DcField) (h : objectFields u s = some fs) :
    (mappingsOf fs).map Prod.fst = (sortProps s.required s.props).map DcProp.key
      ∧ (mappingsOf fs).map Prod.snd = fs.map DcField.pyName
      ∧ fs.map DcField.wire = (mappingsOf fs).map (fun kv => some kv.1) := by
  obtain ⟨names, _, _, hlen, hfs⟩ := objectFields_spec u s
  rw [h] at hfs
  cases hfs
  have hl : ((sortProps s.required s.props).map DcProp.key).length = names.length := by simpa using hlen
  rw [mappingsOf_zipFields, zipFields_pyName u _ _ _ hlen, zipFields_wire u _ _ _ hlen]
  refine ⟨List.map_fst_zip (by omega), List.map_snd_zip (by omega), ?_⟩
  have := List.map_fst_zip (l₁ := (sortProps s.required s.props).map DcProp.key) (l₂ := names) (by omega)
  calc (sortProps s.required s.props).map (fun p => some p.key)
      = ((sortProps s.required s.props).map DcProp.key).map some := by simp [List.map_map]
    _ = ((((sortProps s.required s.props).map DcProp.key).zip names).map Prod.fst).map some := by rw [this]
    _ = _ := by simp [List.map_map]

/-- The same, read off the result of `generate` for an object schema. -/
theorem one_field_per_property_generated (u : UInfo) (s : DcSchema) (b : Str) (out : DcOut)
    (h : generate u s b = .ok out) (hsh : shape s = .object) (hnd : (s.props.map DcProp.key).Nodup) :
    out.body.Perm out.fields
      ∧ (out.body.map DcField.wire).Perm (s.props.map (fun p => some p.key))
      ∧ (out.body.map DcField.pyName).Nodup
      ∧ out.mappings.map Prod.fst = (sortProps s.required s.props).map DcProp.key
      ∧ out.mappings.map Prod.snd = out.fields.map DcField.pyName := by
  obtain ⟨_, _, _, hfs, hmap, hbody, _, _⟩ := generate_ok_inv u s b out h
  simp only [fieldsData, hsh] at hfs
  obtain ⟨fs, hfs', h1, h2, _, h4, _, _⟩ := one_field_per_property u s hnd
  rw [hfs] at hfs'
  cases hfs'
  obtain ⟨m1, m2, _⟩ := mappings_are_the_wire_keys u s _ hfs
  exact ⟨hbody ▸ h1, hbody ▸ h2, hbody ▸ h4, hmap ▸ m1, hmap ▸ m2⟩

example : (thing.props.map DcProp.key).Nodup ∧ shape thing = .object := by decide

/-! ## 3. required ⇔ no default (C02) -/

/-- FULL: a field of an object schema has no default expression iff the property it was built from is listed in
    `required`; otherwise its default is what `_get_field_default` returns. -/
theorem required_iff_no_default (u : UInfo) (s : DcSchema) (fs : List DcField) (h : objectFields u s = some fs)
    (f : DcField) (hf : f ∈ renderOrder fs) :
    ∃ p ∈ s.props, f.wire = some p.key
      ∧ (f.default = none ↔ p.key ∈ s.required)
      ∧ (p.key ∉ s.required → f.default = some (fieldDefault u p)) := by
  obtain ⟨names, _, _, _, hfs⟩ := objectFields_spec u s
  rw [h] at hfs
  cases hfs
  have hf' := (renderOrder_perm _).mem_iff.1 hf
  obtain ⟨p, hp, n, _, rfl⟩ := zipFields_mem u _ _ _ f hf'
  refine ⟨p, (sortProps_perm _ _).mem_iff.1 hp, rfl, ?_, ?_⟩
  · simp only [mkField]
    by_cases hc : p.key ∈ s.required <;> simp [hc]
  · intro hc
    simp [mkField, hc]

/-- The same, read off the result of `generate`. -/
theorem required_iff_no_default_generated (u : UInfo) (s : DcSchema) (b : Str) (out : DcOut)
    (h : generate u s b = .ok out) (hsh : shape s = .object) (f : DcField) (hf : f ∈ out.body) :
    ∃ p ∈ s.props, f.wire = some p.key ∧ (f.default = none ↔ p.key ∈ s.required) := by
  obtain ⟨_, _, _, hfs, _, hbody, _, _⟩ := generate_ok_inv u s b out h
  simp only [fieldsData, hsh] at hfs
  obtain ⟨p, hp, hw, hd, _⟩ := required_iff_no_default u s _ hfs f (hbody ▸ hf)
  exact ⟨p, hp, hw, hd⟩

/-! ## 4. what the default of an optional property is -/

theorem default_array (u : UInfo) (p : DcProp) (h : p.ty = some sArray) : fieldDefault u p = factoryList := by
  simp [fieldDefault, h]

theorem default_plain_object (u : UInfo) (p : DcProp) (h : p.ty = some sObject) (hn : p.name = none)
    (h1 : p.anyOf = false) (h2 : p.oneOf = false) (h3 : p.allOf = false) : fieldDefault u p = factoryDict := by
  have : sObject ≠ sArray := by decide
  simp [fieldDefault, h, hn, h1, h2, h3, this]

/-- No `default` (or JSON `null`): `None`. -/
theorem default_absent (u : UInfo) (p : DcProp) (h : usesFactory p = false) (hd : p.default = none) :
    fieldDefault u p = sNone := by
  rw [fieldDefault_of_not_factory u p h, hd]

/-- A list / dict default is dropped: `None` (the code logs a warning). -/
theorem default_nonscalar (u : UInfo) (p : DcProp) (h : usesFactory p = false) (he : refersToEnum p = false) (t : Str)
    (hd : p.default = some (.other t)) : fieldDefault u p = sNone := by
  rw [fieldDefault_of_not_factory u p h, hd]; simp [he, scalarDefault]

theorem default_bool (u : UInfo) (p : DcProp) (h : usesFactory p = false) (he : refersToEnum p = false) (v : Bool)
    (hd : p.default = some (.bool v)) : fieldDefault u p = if v then sTrue else sFalse := by
  rw [fieldDefault_of_not_factory u p h, hd]; simp [he, scalarDefault]

theorem default_int (u : UInfo) (p : DcProp) (h : usesFactory p = false) (he : refersToEnum p = false) (i : Int)
    (hd : p.default = some (.int i)) : fieldDefault u p = intStr i := by
  rw [fieldDefault_of_not_factory u p h, hd]; simp [he, scalarDefault]

/-- A float default is pasted as CPython's `str(x)` (so `inf` / `nan` become bare names — oracle class
    `dc-float-default-nonfinite`). -/
theorem default_float (u : UInfo) (p : DcProp) (h : usesFactory p = false) (he : refersToEnum p = false) (t : Str)
    (hd : p.default = some (.float t)) : fieldDefault u p = t := by
  rw [fieldDefault_of_not_factory u p h, hd]; simp [he, scalarDefault]

theorem default_str (u : UInfo) (p : DcProp) (h : usesFactory p = false) (he : refersToEnum p = false) (v : Str)
    (hd : p.default = some (.str v)) : fieldDefault u p = renderDefaultStr v := by
  rw [fieldDefault_of_not_factory u p h, hd]; simp [he, scalarDefault]

/-- A property that names an enum schema: the member is looked up BY VALUE (F53 repaired) - `Name("…")` with the literal of the plain
    string branch for a `str` default, `Name(<str(default)>)` otherwise. -/
theorem default_enum_expr (u : UInfo) (p : DcProp) (h : usesFactory p = false) (he : refersToEnum p = true)
    (d : DefaultVal) (hd : p.default = some d) :
    fieldDefault u p = enumDefaultExpr u p d := by
  rw [fieldDefault_of_not_factory u p h, hd]; simp [he]

/-- … and for a `str` default the argument of the lookup is exactly the string literal of `default_str`: by
    `str_default_exact` it evaluates to the default for every string inside the BMP - the lookup `Level("N/A")` finds the member
    whose VALUE is the default, whatever `EnumGenerator` named it. -/
theorem default_enum_str_expr (u : UInfo) (p : DcProp) (h : usesFactory p = false) (he : refersToEnum p = true)
    (v : Str) (hd : p.default = some (.str v)) :
    fieldDefault u p = p.name.getD [] ++ '(' :: renderDefaultStr v ++ [')'] := by
  rw [default_enum_expr u p h he _ hd]; rfl

example : usesFactory { key := "n".toList, ty := some "string".toList } = false
    ∧ refersToEnum { key := "n".toList, ty := some "string".toList } = false := by decide

/-- ✗ `str_default_evaluates`: "the emitted text is one string literal evaluating to the default" — for EVERY string
    the text is one `"…"` literal, and its value is the UTF-16 code units of the default. -/
theorem str_default_is_one_literal (v : Str) : evalStrLitCp (renderDefaultStr v) = some (utf16Cps v) := by
  simp only [renderDefaultStr, evalStrLitCp]
  exact litRun_json v

/-- EXACT: it evaluates to the default itself iff the default has no character outside the BMP. -/
theorem str_default_exact (u : UInfo) (p : DcProp) (h : usesFactory p = false) (he : refersToEnum p = false) (v : Str)
    (hd : p.default = some (.str v)) : evalStrLit (fieldDefault u p) = some v ↔ v.all isBmp = true := by
  rw [default_str u p h he v hd]
  simp only [evalStrLit, str_default_is_one_literal, Option.bind_some]
  constructor
  · intro hv
    by_cases hb : v.all isBmp = true
    · exact hb
    · have : v.all isBmp = false := by simpa using hb
      rw [cpsToStr_utf16_astral v this] at hv
      cases hv
  · intro hv
    rw [utf16Cps_bmp v hv, cpsToStr_strToCps]

/-- PARTIAL: quotes, backslashes, control characters, line ends, NUL, any BMP character: exact. -/
theorem str_default_partial (u : UInfo) (p : DcProp) (h : usesFactory p = false) (he : refersToEnum p = false) (v : Str)
    (hd : p.default = some (.str v)) (hv : v.all isBmp = true) : evalStrLit (fieldDefault u p) = some v :=
  (str_default_exact u p h he v hd).2 hv

example : ("a\"b\\n\n\r\x00 \"\"\" é漢 \\u0041".toList).all isBmp = true := by decide

/-- COUNTEREXAMPLE: the default `😀` is emitted as `"😀"`, which python reads as two lone surrogates. -/
theorem str_default_counterexample :
    fieldDefault UInfo.ascii { key := "e".toList, ty := some "string".toList, default := some (.str "😀".toList) }
        = "\"\\ud83d\\ude00\"".toList
      ∧ evalStrLitCp ("\"\\ud83d\\ude00\"".toList) = some [0xd83d, 0xde00]
      ∧ evalStrLit ("\"\\ud83d\\ude00\"".toList) = none := by decide

/-! ## 5. why an enum default is rendered as a lookup by value (F53, repaired): the member NAME cannot be derived by
       `upper().replace("-","_").replace(" ","_")` - that rule (`enumDefaultMember`, what the code did before) and `EnumGenerator`'s
       disagree on the values below, and de-duplication makes the name depend on the other values of the enum. -/

/- ✗ `enum_default_member_exists`: for every string enum value `v`,
       `enumMemberStr u v = some (enumDefaultMember u v)`
   (the member `_get_field_default` names is the member `EnumGenerator` creates for that value).  FALSE: -/

/-- COUNTEREXAMPLES: `N/A` ↦ `N/A` vs `NA`; `2x` ↦ `2X` vs `MEMBER_2X`; `in progress!` ↦ `IN_PROGRESS!` vs
    `IN_PROGRESS`; `if` ↦ `IF` vs `IF_`; the empty string ↦ nothing vs `MEMBER_EMPTY_STRING`. -/
theorem enum_default_member_counterexample :
    (enumDefaultMember UInfo.ascii "N/A".toList = "N/A".toList
        ∧ enumMemberStr UInfo.ascii "N/A".toList = some "NA".toList)
    ∧ (enumDefaultMember UInfo.ascii "2x".toList = "2X".toList
        ∧ enumMemberStr UInfo.ascii "2x".toList = some "MEMBER_2X".toList)
    ∧ (enumDefaultMember UInfo.ascii "in progress!".toList = "IN_PROGRESS!".toList
        ∧ enumMemberStr UInfo.ascii "in progress!".toList = some "IN_PROGRESS".toList)
    ∧ (enumDefaultMember UInfo.ascii "if".toList = "IF".toList
        ∧ enumMemberStr UInfo.ascii "if".toList = some "IF_".toList)
    ∧ (enumDefaultMember UInfo.ascii [] = []
        ∧ enumMemberStr UInfo.ascii [] = some "MEMBER_EMPTY_STRING".toList) := by decide

/-- The rendered default of the former witness property: `Level("N/A")` (was `Level.N/A`: python `Level.N / A`, an AttributeError
    at import). -/
theorem enum_default_expr_by_value :
    fieldDefault UInfo.ascii
        { key := "lvl".toList, ty := some "string".toList, name := some "Level".toList,
          default := some (.str "N/A".toList), enumVals := some ["N/A".toList, "ok".toList] }
      = "Level(\"N/A\")".toList ∧
    fieldDefault UInfo.ascii
        { key := "code".toList, ty := some "integer".toList, name := some "Code".toList,
          default := some (.int 1), enumVals := some ["1".toList, "2".toList] }
      = "Code(1)".toList := by decide

/-- EXACT: the two rules agree on a value iff the upper-cased, `-`/space-replaced value is already of the form
    `[A-Z_][A-Z0-9_]*` and is not a python keyword when lower-cased (`enumAgree`, decidable). -/
theorem enum_default_member_exact (u : UInfo) (v : Str) :
    enumMemberStr u v = some (enumDefaultMember u v) ↔ enumAgree (enumDefaultMember u v) = true :=
  enumMember_agree_iff u v

/-- PARTIAL: on the intended class `[A-Za-z][A-Za-z0-9 _-]*` (`enumPlain`), keywords excepted, the member exists under
    the name the default uses — for every case table `u`. -/
theorem enum_default_member_partial (u : UInfo) (v : Str) (hv : enumPlain v = true)
    (hk : isKeyword ((enumDefaultMember u v).map lowerA) = false) :
    enumMemberStr u v = some (enumDefaultMember u v) := by
  rw [enum_default_member_exact]
  simp [enumAgree, enumOK_of_plain u v hv, hk]

example : enumPlain "in-progress".toList = true
    ∧ isKeyword ((enumDefaultMember UInfo.ascii "in-progress".toList).map lowerA) = false
    ∧ enumDefaultMember UInfo.ascii "in-progress".toList = "IN_PROGRESS".toList := by decide

/-- PARTIAL, for the whole enum: when every value of the enum is in the agreeing class and the base names are pairwise
    distinct (so that the `_1, _2…` de-duplication of `EnumGenerator.generate` does nothing), the members of the
    generated enum are exactly the names the defaults use, value by value. -/
theorem enum_default_member_in_enum_partial (u : UInfo) (vals : List Str)
    (h : ∀ v ∈ vals, enumAgree (enumDefaultMember u v) = true)
    (hnd : (vals.map (enumDefaultMember u)).Nodup) :
    enumMembersOfValues u vals = some (vals.map (enumDefaultMember u)) :=
  enumMembersOfValues_of_agree u vals h hnd

example : (∀ v ∈ ["ok".toList, "in-progress".toList, "not_started".toList],
      enumAgree (enumDefaultMember UInfo.ascii v) = true)
    ∧ (["ok".toList, "in-progress".toList, "not_started".toList].map (enumDefaultMember UInfo.ascii)).Nodup := by
  decide

/-- COUNTEREXAMPLE (de-duplication): in the enum `["a-b", "a b"]` both values have the base name `A_B`; the second
    member is renamed `A_B_1`, and the default `a b` is rendered `X.A_B` — a member that exists but carries the
    OTHER value (oracle class `dc-enum-default-wrong-member`). -/
theorem enum_default_wrong_member_counterexample :
    enumMembersOfValues UInfo.ascii ["a-b".toList, "a b".toList] = some ["A_B".toList, "A_B_1".toList]
      ∧ enumDefaultMember UInfo.ascii "a b".toList = "A_B".toList := by decide

/-- An `int` default of an (integer) enum: the text after the dot starts with a digit, never an attribute name
    (`Code.1`) — oracle class `dc-enum-default-int-member-missing`. -/
theorem int_enum_default_never_identifier (u : UInfo) (n : Nat) :
    isPyIdent (enumDefaultMember u (DefaultVal.int (Int.ofNat n)).pyStr) = false := by
  show isPyIdent (enumDefaultMember u (natStr n)) = false
  have hd := natStr_digits n
  cases hs : natStr n with
  | nil => exact absurd hs (natStr_ne_nil n)
  | cons c cs =>
    have hc : isDigitA c = true := hd c (by rw [hs]; exact List.mem_cons_self)
    have hal : isAlnumA c = true := by char_arith
    have hup : upperA c = c := by
      unfold upperA
      rw [if_neg]
      char_arith
    rw [enumDefaultMember_cons, enumDefaultMember_alnum u hal, hup]
    have : isIdStart c = false := by char_arith
    simp [isPyIdent, this]

/-! ## 6. `sorted_props` (C19) -/

/-- FULL (distinct property names): `sorted_props` is a permutation of the properties; the required ones come first;
    each group is in strictly ascending python string order (code points). -/
theorem sorted_props_is_sorted (req : List Str) (ps : List DcProp) (hnd : (ps.map DcProp.key).Nodup) :
    (sortProps req ps).Perm ps
      ∧ ∃ rs os, sortProps req ps = rs ++ os
          ∧ (∀ p ∈ rs, p.key ∈ req) ∧ (∀ p ∈ os, p.key ∉ req)
          ∧ rs.Pairwise (fun a b => strLt a.key b.key = true)
          ∧ os.Pairwise (fun a b => strLt a.key b.key = true) := by
  refine ⟨sortProps_perm req ps, _, _, sortProps_split req ps, ?_, ?_, ?_, ?_⟩
  · intro p hp
    have := (List.mem_filter.1 hp).2
    simpa [isReq] using this
  · intro p hp
    have := (List.mem_filter.1 hp).2
    simpa [isReq] using this
  · have := sortProps_group_sorted req ps hnd true
    simpa using this
  · have := sortProps_group_sorted req ps hnd false
    have e : (fun p => isReq req p == false) = (fun p => !isReq req p) := by
      funext p; cases isReq req p <;> rfl
    rw [e] at this
    exact this

/-- FULL: the result does not depend on the order of the `properties` mapping. -/
theorem sorted_props_order_independent (req : List Str) (ps₁ ps₂ : List DcProp) (hp : ps₁.Perm ps₂)
    (hnd : (ps₁.map DcProp.key).Nodup) : sortProps req ps₁ = sortProps req ps₂ :=
  sortProps_of_perm req hp hnd

/-- FULL: … nor on the order or multiplicity of the entries of `required`. -/
theorem sorted_props_required_order_independent (r₁ r₂ : List Str) (h : ∀ k, k ∈ r₁ ↔ k ∈ r₂) (ps : List DcProp) :
    sortProps r₁ ps = sortProps r₂ ps :=
  sortProps_congr h ps

/-- FULL (C19): two schemas that differ only in the ORDER of `properties` and of `required` generate the same fields,
    the same class body, the same mappings — or raise the same exception. -/
theorem generate_order_independent (u : UInfo) (s : DcSchema) (b : Str) (ps₂ : List DcProp) (r₂ : List Str)
    (hp : s.props.Perm ps₂) (hr : ∀ k, k ∈ s.required ↔ k ∈ r₂) (hnd : (s.props.map DcProp.key).Nodup) :
    generate u { s with props := ps₂, required := r₂ } b = generate u s b := by
  have hempty : ps₂.isEmpty = s.props.isEmpty := by
    cases h1 : s.props with
    | nil => rw [h1] at hp; rw [hp.nil_eq.symm]
    | cons x xs =>
      cases h2 : ps₂ with
      | nil => rw [h1, h2] at hp; exact absurd hp.eq_nil (by simp)
      | cons _ _ => rfl
  have hshape : shape { s with props := ps₂, required := r₂ } = shape s := by
    simp only [shape, isArbitraryJson, hempty]
    rfl
  have hsort : sortProps r₂ ps₂ = sortProps s.required s.props := by
    rw [← sortProps_congr hr ps₂, ← sortProps_of_perm s.required hp hnd]
  have hobj : objectFields u { s with props := ps₂, required := r₂ } = objectFields u s := by
    simp only [objectFields, hsort]
    congr 1
    funext names
    exact (zipFields_congr u hr _ names).symm
  have hfd : fieldsData u { s with props := ps₂, required := r₂ } = fieldsData u s := by
    simp only [fieldsData, hshape, hobj, arrayWrapperField]
  simp only [generate, hshape, hfd, textMentionsFactory, wrapperValueType]
  rfl

/-! ## 7. when `generate` raises -/

/-- FULL: the collision loop always terminates. -/
theorem generate_never_diverges (u : UInfo) (s : DcSchema) (b : Str) : generate u s b ≠ .error .loopDiverges := by
  intro h
  have hsome := fieldsData_isSome u s
  unfold generate at h
  split at h
  · cases h
  split at h
  · cases h
  split at h
  · cases h
  · split at h
    · rename_i hnone
      rw [hnone] at hsome; cases hsome
    · split at h <;> cases h

/-- FULL: `ValueError` exactly for a schema without a name or an empty base name. -/
theorem generate_value_error_iff (u : UInfo) (s : DcSchema) (b : Str) :
    generate u s b = .error .valueError ↔ (s.name = none ∨ b = []) := by
  constructor
  · intro h
    unfold generate at h
    split at h
    · rename_i hn
      left
      cases hs : s.name with
      | none => rfl
      | some _ => simp [hs] at hn
    split at h
    · rename_i hb
      right
      cases b with
      | nil => rfl
      | cons _ _ => simp at hb
    split at h
    · cases h
    · split at h
      · cases h
      · split at h <;> cases h
  · rintro (h | h)
    · simp [generate, h]
    · subst h
      unfold generate
      split
      · rfl
      · rfl

/- ✗ `generate_never_raises_runtime_error`: for a named schema and a non-empty base name `generate` returns code.
   FALSE: the post-condition `"default_factory" in rendered_code` ⇒ `field` imported looks at the WHOLE text. -/

/-- COUNTEREXAMPLE (new finding): one required string property called `defaultFactory` (identifier `default_factory`)
    — `generate` raises `RuntimeError("'field' import from dataclasses missing when default_factory is used.")`. -/
theorem generate_default_factory_counterexample :
    generate UInfo.ascii
        { name := some "T".toList, ty := some sObject,
          props := [{ key := "defaultFactory".toList, ty := some "string".toList, pyType := "str".toList }],
          required := ["defaultFactory".toList] } "T".toList
      = .error .fieldImportMissing := eq_error_of_raised (by decide)

/-- PARTIAL: when the text `default_factory` occurs nowhere (docstring, class name, field lines, `Meta` entries) — or
    some field really uses a factory — a named schema with a non-empty base name always generates, and the result is
    `fields_data` in the renderer's order. -/
theorem generate_ok_partial (u : UInfo) (s : DcSchema) (b : Str) (hn : s.name ≠ none) (hb : b ≠ [])
    (hsh : shape s ≠ .wrapperJson)
    (hclean : ∀ fs, fieldsData u s = some fs → textMentionsFactory s b fs = false ∨ fieldImported fs = true) :
    ∃ fs, fieldsData u s = some fs
      ∧ generate u s b = .ok { shape := shape s, fields := fs, mappings := mappingsOf fs, body := renderOrder fs,
                               lines := bodyLines fs, valueType := none } := by
  have hsome := fieldsData_isSome u s
  cases hfs : fieldsData u s with
  | none => rw [hfs] at hsome; cases hsome
  | some fs =>
    refine ⟨fs, rfl, generate_ok_of u s b ?_ hb hsh fs hfs (hclean fs hfs)⟩
    cases hs : s.name with
    | none => exact absurd hs hn
    | some _ => rfl

example : thing.name ≠ none ∧ shape thing ≠ .wrapperJson
    ∧ (∀ fs, fieldsData UInfo.ascii thing = some fs →
        textMentionsFactory thing "Thing".toList fs = false ∨ fieldImported fs = true) := by
  refine ⟨by decide, by decide, ?_⟩
  intro fs h
  have : fieldsData UInfo.ascii thing = some ((fieldsData UInfo.ascii thing).getD []) := by decide
  rw [this] at h
  cases h
  right
  decide

end Pog.DcProps
