import Pog.Lemmas.Names
/-
  `NameSanitizer.sanitize_method_name` is idempotent.

  The emitted endpoint method sanitises a parameter name TWICE for the signature and the dict
  displays (`sanitize_method_name(p["name"])` where `p["name"]` is already sanitised) but only ONCE
  for the `{var}` substitution in the URL f-string; idempotence is what makes both spellings agree.
-/
namespace Pog

/-! ### characters of a sanitised name -/

/-- `[a-z0-9_]` -/
def lowId (c : Char) : Bool := isLowerA c || isDigitA c || c == '_'

theorem lowId_lowerA {c : Char} (h : isIdChar c = true) : lowId (lowerA c) = true := by
  unfold lowId; char_arith
theorem lowId_idChar {c : Char} (h : lowId c = true) : isIdChar c = true := by
  unfold lowId at h; char_arith
theorem lowId_not_upper {c : Char} (h : lowId c = true) : isUpperA c = false := by
  unfold lowId at h; char_arith
theorem lowId_lowerA_id {c : Char} (h : lowId c = true) : lowerA c = c := by
  unfold lowerA; rw [lowId_not_upper h]; rfl
theorem lowId_not_brace {c : Char} (h : lowId c = true) : (c == '{' || c == '}') = false := by
  have h1 : ('{' : Char).toNat = 123 := rfl
  have h2 : ('}' : Char).toNat = 125 := rfl
  have : c ≠ '{' ∧ c ≠ '}' := by
    constructor <;> (intro hc; subst hc; revert h; decide)
  simp [this.1, this.2]
theorem lowId_us : lowId '_' = true := by decide
theorem lowerA_eq_us {c : Char} (h : lowerA c = '_') : c = '_' := by
  have := congrArg Char.toNat h
  rw [lowerA_toNat] at this
  rw [eq_us_iff]
  have h95 : ('_' : Char).toNat = 95 := rfl
  rw [h95] at this
  split at this <;> omega

/-! ### the passes are the identity on `[a-z0-9_]*` -/

theorem dropBraces_id {s : Str} (h : s.all lowId = true) : dropBraces s = s := by
  unfold dropBraces
  rw [List.filter_eq_self]
  intro c hc
  simp [lowId_not_brace (List.all_eq_true.1 h c hc)]

theorem camelSplit1_id : ∀ (s : Str) (prev : Option Char), s.all lowId = true → camelSplit1 prev s = s := by
  intro s
  induction s with
  | nil => intro _ _; rfl
  | cons c cs ih =>
    intro prev h
    simp only [List.all_cons, Bool.and_eq_true] at h
    have hu := lowId_not_upper h.1
    unfold camelSplit1
    cases prev <;> simp [hu, ih _ h.2]

theorem camelSplit2_id : ∀ (s : Str) (b : Bool), s.all lowId = true → camelSplit2 b s = s := by
  intro s
  induction s with
  | nil => intro _ _; rfl
  | cons c cs ih =>
    intro b h
    simp only [List.all_cons, Bool.and_eq_true] at h
    have hu := lowId_not_upper h.1
    unfold camelSplit2
    simp [hu, ih _ h.2]

theorem nonId_id {s : Str} (h : s.all lowId = true) : nonIdToUnderscore s = s := by
  unfold nonIdToUnderscore
  induction s with
  | nil => rfl
  | cons c cs ih =>
    simp only [List.all_cons, Bool.and_eq_true] at h
    simp [lowId_idChar h.1, ih h.2]

theorem mapLower_id {s : Str} (h : s.all lowId = true) : s.map lowerA = s := by
  induction s with
  | nil => rfl
  | cons c cs ih =>
    simp only [List.all_cons, Bool.and_eq_true] at h
    simp [lowId_lowerA_id h.1, ih h.2]

/-! ### no two adjacent underscores -/

def us2 : Str := ['_', '_']

/-- `__` does not occur. -/
def NoDbl (s : Str) : Prop := ¬ us2 <:+: s

theorem NoDbl.of_infix {s t : Str} (h : NoDbl t) (hi : s <:+: t) : NoDbl s :=
  fun hs => h (hs.trans hi)

theorem noDbl_nil : NoDbl [] := by
  intro h
  have := List.eq_nil_of_infix_nil h
  cases this

theorem noDbl_single (c : Char) : NoDbl [c] := by
  rintro ⟨a, b, h⟩
  have := congrArg List.length h
  simp [us2] at this
  omega

theorem noDbl_cons {c : Char} {s : Str} (hs : NoDbl s) (hc : c ≠ '_' ∨ s.head? ≠ some '_') : NoDbl (c :: s) := by
  intro h
  rcases List.infix_cons_iff.mp h with hp | hi
  · -- prefix: c = '_' and head of s = '_'
    rcases List.prefix_cons_iff.mp hp with h0 | ⟨t, ht, htp⟩
    · cases h0
    · simp only [us2, List.cons.injEq] at ht
      obtain ⟨rfl, rfl⟩ := ht
      cases s with
      | nil => obtain ⟨u, hu⟩ := htp; simp at hu
      | cons d ds =>
        obtain ⟨u, hu⟩ := htp
        simp only [List.cons_append, List.nil_append, List.cons.injEq] at hu
        rcases hc with hc | hc
        · exact hc rfl
        · exact hc (by simp [← hu.1])
  · exact hs hi

theorem collapse_noDbl (s : Str) : NoDbl (collapseUnderscores s) := by
  fun_induction collapseUnderscores s with
  | case1 => exact noDbl_nil
  | case2 c => exact noDbl_single c
  | case3 c d rest h ih => exact ih
  | case4 c d rest h ih =>
    apply noDbl_cons ih
    simp only [Bool.and_eq_true, beq_iff_eq, not_and] at h
    by_cases hc : c = '_'
    · right
      have hd := h hc
      -- the head of `collapseUnderscores (d :: rest)` is `d`
      have : (collapseUnderscores (d :: rest)).head? = some d := by
        cases rest with
        | nil => rfl
        | cons e es =>
          unfold collapseUnderscores
          split
          · rename_i hde
            simp only [Bool.and_eq_true, beq_iff_eq] at hde
            exact absurd hde.1 hd
          · rfl
      rw [this]
      simpa using hd
    · exact Or.inl hc

theorem collapse_id {s : Str} (h : NoDbl s) : collapseUnderscores s = s := by
  fun_induction collapseUnderscores s with
  | case1 => rfl
  | case2 c => rfl
  | case3 c d rest hcd ih =>
    exfalso
    simp only [Bool.and_eq_true, beq_iff_eq] at hcd
    obtain ⟨rfl, rfl⟩ := hcd
    exact h ⟨[], rest, rfl⟩
  | case4 c d rest hcd ih =>
    rw [ih (h.of_infix (List.infix_cons (List.infix_refl _)))]

/-! ### stripping -/

theorem lstripC_suffix (ch : Char) (s : Str) : lstripC ch s <:+ s := by
  induction s with
  | nil => exact List.suffix_refl _
  | cons c cs ih =>
    unfold lstripC
    split
    · exact ih.trans (List.suffix_cons _ _)
    · exact List.suffix_refl _

theorem lstripC_head (ch : Char) (s : Str) : (lstripC ch s).head? ≠ some ch := by
  induction s with
  | nil => simp [lstripC]
  | cons c cs ih =>
    unfold lstripC
    split
    · exact ih
    · rename_i h
      simp only [List.head?_cons, ne_eq, Option.some.injEq]
      simpa using h

theorem lstripC_id_of_head {ch : Char} {s : Str} (h : s.head? ≠ some ch) : lstripC ch s = s := by
  cases s with
  | nil => rfl
  | cons c cs =>
    unfold lstripC
    have : ¬ (c == ch) = true := by
      simp only [List.head?_cons, ne_eq, Option.some.injEq] at h
      simpa using h
    simp [this]

theorem rstripC_prefix (ch : Char) (s : Str) : rstripC ch s <+: s := by
  unfold rstripC
  have := lstripC_suffix ch s.reverse
  rw [← List.reverse_prefix] at this
  simpa using this

theorem rstripC_last (ch : Char) (s : Str) : (rstripC ch s).getLast? ≠ some ch := by
  unfold rstripC
  rw [List.getLast?_reverse]
  exact lstripC_head ch _

theorem rstripC_id_of_last {ch : Char} {s : Str} (h : s.getLast? ≠ some ch) : rstripC ch s = s := by
  unfold rstripC
  rw [lstripC_id_of_head (by rw [List.head?_reverse]; exact h), List.reverse_reverse]

theorem prefix_head {p z : Str} (h : p <+: z) (hne : p ≠ []) : p.head? = z.head? := by
  obtain ⟨q, rfl⟩ := h
  cases p with
  | nil => exact absurd rfl hne
  | cons c cs => rfl

/-- What `methodCore` produces. -/
structure Clean (m : Str) : Prop where
  all : m.all lowId = true
  nd : NoDbl m
  lead : m.head? ≠ some '_'
  trail : m.getLast? ≠ some '_'

theorem stripC_lead (s : Str) : (stripC '_' s).head? ≠ some '_' := by
  unfold stripC
  by_cases hne : rstripC '_' (lstripC '_' s) = []
  · rw [hne]; simp
  · rw [prefix_head (rstripC_prefix _ _) hne]
    exact lstripC_head _ _

theorem stripC_infix (s : Str) : stripC '_' s <:+: s := by
  unfold stripC
  exact (rstripC_prefix _ _).isInfix.trans (lstripC_suffix _ _).isInfix

theorem noDbl_map_lower {s : Str} (h : NoDbl s) : NoDbl (s.map lowerA) := by
  rintro ⟨a, b, hab⟩
  have hab' : s.map lowerA = a ++ (us2 ++ b) := by rw [← hab]; simp
  obtain ⟨l₁, l₂, rfl, _, h2⟩ := List.map_eq_append_iff.mp hab'
  obtain ⟨m₁, m₂, rfl, h3, _⟩ := List.map_eq_append_iff.mp h2
  apply h
  refine ⟨l₁, m₂, ?_⟩
  have : m₁ = us2 := by
    match m₁, h3 with
    | [x, y], h3 =>
      simp only [List.map_cons, List.map_nil, us2, List.cons.injEq, and_true] at h3
      rw [lowerA_eq_us h3.1, lowerA_eq_us h3.2]; rfl
    | [], h3 => simp [us2] at h3
    | [_], h3 => simp [us2] at h3
    | _ :: _ :: _ :: _, h3 => simp [us2] at h3
  rw [this]
  simp

theorem methodCore_clean (s : Str) : Clean (methodCore s) := by
  rw [methodCore_eq]
  have hall : (stripC '_' (methodPre s)).all isIdChar = true := all_stripC '_' _ _ (methodPre_all s)
  have hnd : NoDbl (stripC '_' (methodPre s)) := by
    apply NoDbl.of_infix _ (stripC_infix _)
    unfold methodPre
    exact collapse_noDbl _
  refine ⟨?_, noDbl_map_lower hnd, ?_, ?_⟩
  · rw [List.all_map, List.all_eq_true]
    intro c hc
    exact lowId_lowerA (List.all_eq_true.1 hall c hc)
  · intro h
    have hl := stripC_lead (methodPre s)
    cases hz : stripC '_' (methodPre s) with
    | nil => rw [hz] at h; simp at h
    | cons c cs =>
      rw [hz] at h hl
      simp only [List.map_cons, List.head?_cons, Option.some.injEq] at h
      exact hl (by rw [List.head?_cons, lowerA_eq_us h])
  · intro h
    have hl : (stripC '_' (methodPre s)).getLast? ≠ some '_' := by unfold stripC; exact rstripC_last _ _
    rw [List.getLast?_map] at h
    cases hz : (stripC '_' (methodPre s)).getLast? with
    | none => rw [hz] at h; simp at h
    | some c =>
      rw [hz] at h hl
      simp only [Option.map_some, Option.some.injEq] at h
      exact hl (by rw [lowerA_eq_us h])

/-! ### `methodCore` undoes `methodPost` on a clean string -/

theorem methodCore_of_lowId {x : Str} (h : x.all lowId = true) (hnd : NoDbl x) :
    methodCore x = stripC '_' x := by
  rw [methodCore_eq]
  unfold methodPre
  rw [dropBraces_id h, camelSplit1_id _ _ h, camelSplit2_id _ _ h, nonId_id h, collapse_id hnd]
  exact mapLower_id (all_stripC '_' lowId x h)

theorem noDbl_append_us {m : Str} (h : NoDbl m) (ht : m.getLast? ≠ some '_') : NoDbl (m ++ ['_']) := by
  induction m with
  | nil => exact noDbl_single '_'
  | cons c cs ih =>
    have hcs : NoDbl cs := h.of_infix (List.infix_cons (List.infix_refl _))
    cases cs with
    | nil =>
      apply noDbl_cons (noDbl_single '_')
      left
      simpa using ht
    | cons d ds =>
      have ht' : (d :: ds).getLast? ≠ some '_' := by simpa [List.getLast?_cons_cons] using ht
      apply noDbl_cons (ih hcs ht')
      by_cases hc : c = '_'
      · right
        subst hc
        simp only [List.cons_append, List.head?_cons, ne_eq, Option.some.injEq]
        intro hd; subst hd
        exact h ⟨[], ds, rfl⟩
      · exact Or.inl hc

theorem rstripC_append_us (m : Str) : rstripC '_' (m ++ ['_']) = rstripC '_' m := by
  unfold rstripC
  simp [lstripC]

/-- For a clean non-empty `m`: whatever of the prefix `_` and the suffix `_` `methodPost` adds, stripping
    gives `m` back. -/
theorem methodCore_decorated {m : Str} (hm : Clean m) (pre suf : Bool) :
    methodCore ((if pre then ['_'] else []) ++ m ++ (if suf then ['_'] else [])) = m := by
  by_cases hne : m = []
  · subst hne; cases pre <;> cases suf <;> decide
  have hall : (((if pre then ['_'] else []) ++ m ++ (if suf then ['_'] else [])) : Str).all lowId = true := by
    simp only [List.all_append, Bool.and_eq_true]
    refine ⟨⟨?_, hm.all⟩, ?_⟩
    · cases pre <;> simp [lowId_us]
    · cases suf <;> simp [lowId_us]
  have hnd1 : NoDbl (m ++ (if suf then ['_'] else [])) := by
    cases suf
    · simpa using hm.nd
    · exact noDbl_append_us hm.nd hm.trail
  have hhead : (m ++ (if suf then ['_'] else [])).head? = m.head? := by
    cases m with
    | nil => exact absurd rfl hne
    | cons c cs => rfl
  have hnd : NoDbl ((if pre then ['_'] else []) ++ m ++ (if suf then ['_'] else [])) := by
    cases pre
    · simpa using hnd1
    · simp only [if_true, List.cons_append, List.nil_append]
      exact noDbl_cons hnd1 (Or.inr (by rw [hhead]; exact hm.lead))
  rw [methodCore_of_lowId hall hnd]
  unfold stripC
  have hl : lstripC '_' ((if pre then ['_'] else []) ++ m ++ (if suf then ['_'] else []))
      = m ++ (if suf then ['_'] else []) := by
    cases pre
    · simp only [Bool.false_eq_true, if_false, List.nil_append]
      exact lstripC_id_of_head (by rw [hhead]; exact hm.lead)
    · simp only [if_true, List.cons_append, List.nil_append]
      unfold lstripC
      simp only [beq_self_eq_true, if_true]
      exact lstripC_id_of_head (by rw [hhead]; exact hm.lead)
  rw [hl]
  cases suf
  · simp only [Bool.false_eq_true, if_false, List.append_nil]
    exact rstripC_id_of_last hm.trail
  · simp only [if_true]
    rw [rstripC_append_us]
    exact rstripC_id_of_last hm.trail

theorem methodPost_shape (m : Str) : ∃ pre suf : Bool,
    methodPost m = (if pre then ['_'] else []) ++ m ++ (if suf then ['_'] else []) := by
  unfold methodPost
  rcases digitGuard_cases m with hg | hg <;> rw [hg]
  · split
    · exact ⟨false, true, by simp⟩
    · exact ⟨false, false, by simp⟩
  · split
    · exact ⟨true, true, by simp⟩
    · exact ⟨true, false, by simp⟩

/-- `methodCore ∘ methodPost` is the identity on the image of `methodCore`. -/
theorem methodCore_methodPost {m : Str} (hm : Clean m) : methodCore (methodPost m) = m := by
  obtain ⟨pre, suf, h⟩ := methodPost_shape m
  rw [h]
  exact methodCore_decorated hm pre suf

/-- `NameSanitizer.sanitize_method_name` is idempotent — for every string. -/
theorem sanMethod_idempotent (s : Str) : sanMethod (sanMethod s) = sanMethod s := by
  rw [sanMethod_eq s, sanMethod_eq (methodPost (methodCore s)), methodCore_methodPost (methodCore_clean s)]

end Pog
