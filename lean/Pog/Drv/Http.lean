import Pog.Drv.Util
import Pog.Model.Http
/-
  JSON glue for M-http (C17).

    prepareHeaders    [cfg]        cfg = {"defaults": pairs|null, "headers": pairs|null, "auth": plugin|null,
                                          "bearer": str|null, "params": pairs|null, "cookies": pairs|null}
                                   → {"headers": pairs, "params": pairs|null, "cookies": pairs|null}   (what httpx gets: `sendArgs`)
                                   | {"raises": "ValueError", "msg": str}
    prepareHeadersSeq [cfg, n]     n consecutive requests through the same transport object → list of replies
    authenticate      [plugin, {"headers","params","cookies"}]  → the three dicts | raises
    wireLookup        [pairs, name] → [values]
    dictUpdate        [pairs, pairs] → pairs
    mergeHeaders      [pairs, pairs] → pairs      `merge_headers(d, e)` of core/auth/base.py (`dictUpdateCI`)

  plugin = {"t":"bearer","token":s} | {"t":"headers","headers":pairs} | {"t":"apikey","key":s,"location":s,"name":s}
         | {"t":"oauth2","token":s,"refresh": null | {"map": [[old,new],…], "default": s|null}}
         | {"t":"composite","plugins":[plugin,…]}
  pairs  = [[k,v],…] (ordered; a JSON object would lose the order)
-/
open Lean Pog
namespace Pog.Drv

def getPair (j : Json) : Except String (Str × Str) := do
  let a ← j.getArr?
  pure (← getStr (← argN a 0), ← getStr (← argN a 1))

def getDict (j : Json) : Except String Dict := getList getPair j

private def getOpt (f : Json → Except String α) (j : Json) : Except String (Option α) :=
  if j.isNull then pure none else some <$> f j

def fieldOpt (f : Json → Except String α) (j : Json) (k : String) : Except String (Option α) :=
  match j.getObjVal? k with
  | .ok v => getOpt f v
  | .error _ => pure none

def jdict (d : Dict) : Json := jlist (fun kv => Json.arr #[jstr kv.1, jstr kv.2]) d

/-- The refresh callback given as a finite table. -/
def tableCallback (tbl : Dict) (dflt : Option Str) (tok : Str) : Str :=
  match dictGet tbl tok with
  | some n => n
  | none => dflt.getD tok

def getRefresh (j : Json) : Except String (Str → Str) := do
  let tbl ← getDict (← j.getObjVal? "map")
  let d ← fieldOpt getStr j "default"
  pure (tableCallback tbl d)

/-- Fuelled (nesting depth) reader for plug-in descriptions. -/
def getPlugin : Nat → Json → Except String Plugin
  | 0, _ => throw "plugin nesting too deep"
  | fuel + 1, j => do
    let t ← j.getObjValAs? String "t"
    match t with
    | "bearer" => pure (.bearer (← getStr (← j.getObjVal? "token")))
    | "headers" => pure (.headers (← getDict (← j.getObjVal? "headers")))
    | "apikey" =>
      pure (.apiKey (← getStr (← j.getObjVal? "key")) (← getStr (← j.getObjVal? "location"))
        (← getStr (← j.getObjVal? "name")))
    | "oauth2" =>
      pure (.oauth2 (← getStr (← j.getObjVal? "token")) (← fieldOpt getRefresh j "refresh"))
    | "composite" =>
      let ps ← (← j.getObjVal? "plugins").getArr?
      pure (.composite (← ps.toList.mapM (getPlugin fuel)))
    | _ => throw s!"unknown plugin type {t}"

def jerr : Err → Json
  | .valueError m => Json.mkObj [("raises", Json.str "ValueError"), ("msg", jstr m)]

structure HttpCfg where
  t : Transport
  c : CallerArgs Unit

def getCfg (j : Json) : Except String HttpCfg := do
  let defaults ← fieldOpt getDict j "defaults"
  let headers ← fieldOpt getDict j "headers"
  let auth ← fieldOpt (getPlugin 64) j "auth"
  let bearer ← fieldOpt getStr j "bearer"
  let params ← fieldOpt getDict j "params"
  let cookies ← fieldOpt getDict j "cookies"
  pure { t := { auth := auth, bearerToken := bearer, defaultHeaders := defaults },
         c := { headers := headers, params := params, cookies := cookies, other := () } }

def jsend (r : Except Err (SendArgs Unit)) : Json :=
  match r with
  | .ok s => Json.mkObj [("headers", jdict s.headers), ("params", jopt jdict s.params),
      ("cookies", jopt jdict s.cookies)]
  | .error e => jerr e

def runSeq : Nat → Transport → CallerArgs Unit → List Json
  | 0, _, _ => []
  | n + 1, t, c => jsend (sendArgs t c) :: runSeq n t.after c

def httpFns : List String :=
  ["prepareHeaders", "prepareHeadersSeq", "authenticate", "wireLookup", "dictUpdate", "mergeHeaders"]

def httpRun (f : String) (a : Array Json) : Except String Json := do
  match f with
  | "prepareHeaders" =>
    let cfg ← getCfg (← argN a 0)
    pure (jsend (sendArgs cfg.t cfg.c))
  | "prepareHeadersSeq" =>
    let cfg ← getCfg (← argN a 0)
    let n ← getNat (← argN a 1)
    pure (Json.arr (runSeq n cfg.t cfg.c).toArray)
  | "authenticate" =>
    let p ← getPlugin 64 (← argN a 0)
    let j ← argN a 1
    let ra : RequestArgs := { headers := ← fieldOpt getDict j "headers", params := ← fieldOpt getDict j "params",
                              cookies := ← fieldOpt getDict j "cookies" }
    match authenticate p ra with
    | .ok r => pure (Json.mkObj [("headers", jopt jdict r.headers), ("params", jopt jdict r.params),
        ("cookies", jopt jdict r.cookies)])
    | .error e => pure (jerr e)
  | "wireLookup" => pure (jstrs (wireLookup (← getDict (← argN a 0)) (← getStr (← argN a 1))))
  | "dictUpdate" => pure (jdict (dictUpdate (← getDict (← argN a 0)) (← getDict (← argN a 1))))
  | "mergeHeaders" => pure (jdict (dictUpdateCI (← getDict (← argN a 0)) (← getDict (← argN a 1))))
  | _ => throw s!"unknown function {f}"

def dispatchHttp : Dispatch := fun f a _ =>
  if httpFns.contains f then some (httpRun f a) else none

end Pog.Drv
