"""C11 — clients sharing one core package keep working as more are generated."""
from __future__ import annotations

from .. import findings
from . import _generic as g

PROP = "C11"
CORR = "vf.corr.c11"
CLASSES = {"deep-shared-core-bypasses-registry": "F22"}


def check(run, ctx) -> None:
    known = findings.Known(run, PROP)
    g.run_corr(run, ctx, CORR, "Registry (ExceptionsEmitter histories, _is_shared_core layouts)")
    g.replay_witnesses(run, known, {"F22": CORR})
    g.run_oracle(run, ctx, known, CORR, "C11 end to end (generate histories, import every earlier client)", CLASSES, quick=0.6, thorough=4.0)
    known.report_unreplayed()


def search(run, ctx) -> None:
    check(run, ctx)


def replay(run, ctx, rec) -> bool:
    return g.replay_generic(rec)
