import Pog.Lemmas.Registry
/-
  C06 (table part) — status code → exception class.

  The behavioural half of C06 (what the transport / generated `match` raises) lives with the
  http / gencode models; here are the facts about the TABLES the generator reads:
  which base class an alias derives from, and that `get_exception_class_name` yields distinct,
  non-builtin, syntactically valid class names — for the table rows and for the `Error<code>`
  fallback.  Every table-level fact is re-checked by `decide`/`decide +kernel` against the
  regenerated `Pog/Gen/Status.lean`; the general statements are derived from those facts only.
-/
namespace Pog.C06
open Pog Pog.Reg

/-! ## base class by range -/

/-- The ranges the code uses are `[400,500)`, `[500,600)` and `[400,600)`. -/
theorem ranges_are :
    Gen.isClientErrorLo = 400 ∧ Gen.isClientErrorHi = 500 ∧
    Gen.isServerErrorLo = 500 ∧ Gen.isServerErrorHi = 600 ∧
    Gen.isErrorCodeLo = 400 ∧ Gen.isErrorCodeHi = 600 := bounds_gen

/-- `is_error_code` is the union of `is_client_error` and `is_server_error`: the defensive
    `else: continue` of the visitor is dead code. -/
theorem error_iff_client_or_server (code : Nat) :
    isErrorCode code = true ↔ (isClientError code = true ∨ isServerError code = true) :=
  isErrorCode_iff_client_or_server code

/-- Every alias of a 4xx code derives from `ClientError`, every alias of a 5xx code from
    `ServerError`, nothing else gets a class; stated on the generated bounds. -/
theorem alias_base_by_range (code : Nat) :
    (Gen.isClientErrorLo ≤ code ∧ code < Gen.isClientErrorHi → aliasBase code = some .clientError) ∧
    (Gen.isServerErrorLo ≤ code ∧ code < Gen.isServerErrorHi → aliasBase code = some .serverError) ∧
    (aliasBase code = none ↔ isErrorCode code = false) := by
  refine ⟨?_, ?_, ?_⟩
  · intro h
    exact aliasBase_client ((isClientError_iff code).mpr h)
  · intro h
    have hs := (isServerError_iff code).mpr h
    have hc : isClientError code = false := by
      cases hc : isClientError code with
      | false => rfl
      | true => exact absurd ⟨hc, hs⟩ (client_server_disjoint code)
    exact aliasBase_server hs hc
  · have := aliasBase_isSome_iff code
    cases h1 : aliasBase code <;> cases h2 : isErrorCode code <;> simp_all

/-- The same with the literal bounds. -/
theorem alias_base_by_range_literal (code : Nat) :
    (400 ≤ code ∧ code < 500 → aliasBase code = some .clientError) ∧
    (500 ≤ code ∧ code < 600 → aliasBase code = some .serverError) ∧
    (code < 400 ∨ 600 ≤ code → aliasBase code = none) := by
  obtain ⟨h1, h2, h3, h4, h5, h6⟩ := ranges_are
  have h := alias_base_by_range code
  rw [h1, h2, h3, h4] at h
  refine ⟨h.1, h.2.1, ?_⟩
  intro hc
  apply h.2.2.mpr
  cases he : isErrorCode code with
  | false => rfl
  | true =>
    have := (isErrorCode_iff code).mp he
    rw [h5, h6] at this
    omega

example : aliasBase 404 = some .clientError ∧ aliasBase 503 = some .serverError
    ∧ aliasBase 302 = none ∧ aliasBase 600 = none := by decide

/-! ## class names -/

/-- `get_exception_class_name` on the rows of `HTTP_EXCEPTION_NAMES` is duplicate-free (after the
    rename): no two statuses share an alias class. -/
theorem alias_names_distinct :
    (Gen.httpExceptionNames.map (fun r => aliasName r.1)).Nodup := table_names_nodup_gen

/-- No alias class shadows a Python builtin — this is what the rename of `NotImplementedError`
    (501) to `HttpNotImplementedError` achieves … -/
theorem alias_names_not_builtin :
    ∀ r ∈ Gen.httpExceptionNames, aliasName r.1 ∉ Gen.pyBuiltins := table_not_builtin_gen

/-- … and without the rename the raw table WOULD contain a builtin name. -/
theorem raw_table_has_builtin :
    ∃ r ∈ Gen.httpExceptionNames, r.2 ∈ Gen.pyBuiltins ∧ aliasName r.1 ≠ r.2 := by
  decide +kernel

/-- The fallback name `Error<code>` is no builtin either (it ends in a digit, builtins checked
    by shape on the generated list). -/
theorem fallback_not_builtin (code : Nat) :
    Gen.exceptionFallbackPrefix ++ natStr code ∉ Gen.pyBuiltins := by
  intro h
  have hb : ∀ b ∈ Gen.pyBuiltins, isFallbackShaped b = false := by decide +kernel
  have := hb _ h
  rw [fallback_isFallbackShaped] at this
  cases this

/-- Alias names are ASCII Python identifiers: table rows … -/
theorem alias_names_are_identifiers :
    ∀ r ∈ Gen.httpExceptionNames, isPyIdent (aliasName r.1) = true := table_ident_gen

/-- … the fallback for every code … -/
theorem fallback_is_identifier (code : Nat) :
    isPyIdent (Gen.exceptionFallbackPrefix ++ natStr code) = true := fallback_ident code

/-- … hence the result of `get_exception_class_name` for EVERY code. -/
theorem alias_name_is_identifier (code : Nat) : isPyIdent (aliasName code) = true :=
  aliasName_ident code

/-- For a code without a table row the name is the fallback, and it differs from every table
    alias (no table alias has the shape `Error<digits>`). -/
theorem fallback_distinct_from_table (code : Nat) (h : code ∉ Gen.httpExceptionNames.map (·.1)) :
    aliasName code = Gen.exceptionFallbackPrefix ++ natStr code ∧
    ∀ r ∈ Gen.httpExceptionNames, aliasName r.1 ≠ aliasName code := by
  have hl : Gen.httpExceptionNames.lookup code = none := by
    rcases inTable_cases code with ⟨n, hn⟩ | hn
    · exact absurd (List.mem_map_of_mem (f := (·.1)) hn) h
    · exact hn
  refine ⟨aliasName_fallback code hl, ?_⟩
  intro r hr heq
  have h1 := table_not_fallback_gen r hr
  rw [heq, aliasName_fallback code hl, fallback_isFallbackShaped] at h1
  cases h1

example : (999 : Nat) ∉ Gen.httpExceptionNames.map (·.1) ∧ aliasName 999 = "Error999".toList := by
  decide +kernel

/-- `get_exception_class_name` is injective on all natural numbers: two different statuses never
    get the same class name (table rows, fallbacks, and mixed). -/
theorem alias_name_injective (c c' : Nat) (h : aliasName c = aliasName c') : c = c' :=
  aliasName_injective c c' h

/-- Consequence used by C11's correspondence: a set of codes and the set of its class names
    determine each other. -/
theorem alias_names_nodup_of_codes (codes : List Nat) (h : codes.Nodup) :
    (codes.map aliasName).Nodup := by
  induction codes with
  | nil => simp
  | cons c cs ih =>
    rw [List.nodup_cons] at h
    rw [List.map_cons, List.nodup_cons]
    refine ⟨?_, ih h.2⟩
    intro hm
    obtain ⟨c', hc', he⟩ := List.mem_map.mp hm
    exact h.1 (aliasName_injective c' c he ▸ hc')

example : aliasName 404 = "NotFoundError".toList ∧ aliasName 501 = "HttpNotImplementedError".toList
    ∧ aliasName 599 = "Error599".toList := by decide +kernel

end Pog.C06
