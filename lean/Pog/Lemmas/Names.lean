import Pog.Model.Names
/-
  Lemmas about the name sanitisers of `Pog.Model.Names` used by `Pog.Props.C20`.
  Facts about the generated tables are proved by `decide` on table-level properties only.
-/
namespace Pog

/-! ### Character-range facts (everything is reduced to `Char.toNat` and `omega`) -/

theorem toNat_ofNat_small (n : Nat) (h : n < 0xd800) : (Char.ofNat n).toNat = n := by
  have hv : n.isValidChar := Or.inl h
  simp [Char.ofNat, hv, Char.ofNatAux, Char.toNat]

theorem isUpperA_iff (c : Char) : isUpperA c = true ↔ 65 ≤ c.toNat ∧ c.toNat ≤ 90 := by
  simp [isUpperA, Char.le_def, UInt32.le_iff_toNat_le]
theorem isLowerA_iff (c : Char) : isLowerA c = true ↔ 97 ≤ c.toNat ∧ c.toNat ≤ 122 := by
  simp [isLowerA, Char.le_def, UInt32.le_iff_toNat_le]
theorem isDigitA_iff (c : Char) : isDigitA c = true ↔ 48 ≤ c.toNat ∧ c.toNat ≤ 57 := by
  simp [isDigitA, Char.le_def, UInt32.le_iff_toNat_le]
theorem isDigit_iff (c : Char) : c.isDigit = true ↔ 48 ≤ c.toNat ∧ c.toNat ≤ 57 := by
  simp [Char.isDigit, UInt32.le_iff_toNat_le]
theorem eq_us_iff (c : Char) : c = '_' ↔ c.toNat = 95 := by
  constructor
  · rintro rfl; rfl
  · intro h
    rw [← Char.ofNat_toNat c, h]
theorem beq_us_iff (c : Char) : (c == '_') = true ↔ c.toNat = 95 := by
  simp [eq_us_iff]
theorem isAscii_iff (c : Char) : isAscii c = true ↔ c.toNat < 128 := by
  simp [isAscii]

theorem lowerA_toNat (c : Char) :
    (lowerA c).toNat = if 65 ≤ c.toNat ∧ c.toNat ≤ 90 then c.toNat + 32 else c.toNat := by
  unfold lowerA
  by_cases h : isUpperA c = true
  · have h' := (isUpperA_iff c).1 h
    rw [if_pos h, if_pos h', toNat_ofNat_small _ (by omega)]
  · have h' := mt (isUpperA_iff c).2 h
    rw [if_neg h, if_neg h']
theorem upperA_toNat (c : Char) :
    (upperA c).toNat = if 97 ≤ c.toNat ∧ c.toNat ≤ 122 then c.toNat - 32 else c.toNat := by
  unfold upperA
  by_cases h : isLowerA c = true
  · have h' := (isLowerA_iff c).1 h
    rw [if_pos h, if_pos h', toNat_ofNat_small _ (by omega)]
  · have h' := mt (isLowerA_iff c).2 h
    rw [if_neg h, if_neg h']

/-- Reduce every ASCII class predicate in the context to arithmetic on `Char.toNat`. -/
macro "char_arith" : tactic =>
  `(tactic| (
    simp only [isIdStart, isIdChar, isAlnumA, isAlphaA, Bool.or_eq_true, Bool.and_eq_true,
      Bool.not_eq_true', Bool.not_eq_true, ← Bool.not_eq_true, bne_iff_ne, ne_eq,
      beq_us_iff, eq_us_iff, isUpperA_iff, isLowerA_iff, isDigitA_iff, isDigit_iff, isAscii_iff,
      lowerA_toNat, upperA_toNat] at *
    <;> (try split) <;> omega))

theorem isAlnumA_lowerA {c : Char} (h : isAlnumA c = true) : isAlnumA (lowerA c) = true := by
  char_arith
theorem isAlnumA_upperA {c : Char} (h : isAlnumA c = true) : isAlnumA (upperA c) = true := by
  char_arith
theorem isIdChar_lowerA {c : Char} (h : isIdChar c = true) : isIdChar (lowerA c) = true := by
  char_arith
theorem isIdChar_of_isAlnumA {c : Char} (h : isAlnumA c = true) : isIdChar c = true := by
  char_arith
theorem isAscii_of_isAlnumA {c : Char} (h : isAlnumA c = true) : isAscii c = true := by
  char_arith
theorem isIdStart_of_not_digit {c : Char} (h : isIdChar c = true) (hd : isDigitA c = false) :
    isIdStart c = true := by
  char_arith
theorem isIdStart_of_alnum_not_digit {c : Char} (h : isAlnumA c = true) (hd : isDigitA c = false) :
    isIdStart c = true := by
  char_arith
theorem isAlnumA_us : isAlnumA '_' = false := by decide
theorem isIdChar_us : isIdChar '_' = true := by decide
theorem isIdStart_us : isIdStart '_' = true := by decide

/-! ### Table-level facts about the generated keyword table -/

def noTrailUs (k : Str) : Bool := k.getLast? != some '_'
def noTrailDigit (k : Str) : Bool := match k.getLast? with | some c => !isDigitA c | none => true
def noLeadUs (k : Str) : Bool := k.head? != some '_'

theorem kw_noTrailUs : Gen.pyKeywords.all noTrailUs = true := by decide
theorem kw_noTrailDigit : Gen.pyKeywords.all noTrailDigit = true := by decide
theorem kw_noLeadUs : Gen.pyKeywords.all noLeadUs = true := by decide
theorem kw_hasLower : Gen.pyKeywords.all (fun k => k.any isLowerA) = true := by decide
theorem kw_lower_or_special :
    Gen.pyKeywords.all (fun k => isKeyword (k.map lowerA) || k == "None".toList
      || k == "True".toList || k == "False".toList) = true := by decide +kernel

theorem isKeyword_iff (s : Str) : isKeyword s = true ↔ s ∈ Gen.pyKeywords := by
  simp [isKeyword]

theorem not_isKeyword_append_us (s : Str) : isKeyword (s ++ ['_']) = false := by
  cases h : isKeyword (s ++ ['_']) with
  | false => rfl
  | true =>
    have := List.all_eq_true.1 kw_noTrailUs _ ((isKeyword_iff _).1 h)
    simp [noTrailUs] at this

theorem not_isKeyword_us_cons (s : Str) : isKeyword ('_' :: s) = false := by
  cases h : isKeyword ('_' :: s) with
  | false => rfl
  | true =>
    have := List.all_eq_true.1 kw_noLeadUs _ ((isKeyword_iff _).1 h)
    simp [noLeadUs] at this

theorem not_isKeyword_of_no_lower (s : Str) (h : s.any isLowerA = false) : isKeyword s = false := by
  cases hk : isKeyword s with
  | false => rfl
  | true =>
    have : s.any isLowerA = true := List.all_eq_true.1 kw_hasLower _ ((isKeyword_iff _).1 hk)
    rw [h] at this; cases this

theorem not_isKeyword_of_trail_digit (s : Str) (c : Char) (hc : isDigitA c = true) :
    isKeyword (s ++ [c]) = false := by
  cases hk : isKeyword (s ++ [c]) with
  | false => rfl
  | true =>
    have := List.all_eq_true.1 kw_noTrailDigit _ ((isKeyword_iff _).1 hk)
    simp [noTrailDigit, hc] at this

/-! ### `isPyIdent` helpers -/

theorem isPyIdent_append_us {s : Str} (h : isPyIdent s = true) : isPyIdent (s ++ ['_']) = true := by
  cases s with
  | nil => cases h
  | cons c cs =>
    simp only [isPyIdent, List.cons_append, Bool.and_eq_true, List.all_append] at *
    exact ⟨h.1, h.2, by decide⟩

theorem isPyIdent_us_cons {s : Str} (h : s.all isIdChar = true) : isPyIdent ('_' :: s) = true := by
  simp [isPyIdent, h, isIdStart_us]

/-- The "prefix `_` when the name starts with a digit" step shared by the sanitisers. -/
def digitGuard (s : Str) : Str :=
  match s with
  | d :: _ => if isDigitA d then '_' :: s else s
  | [] => s

theorem digitGuard_cases (s : Str) : digitGuard s = s ∨ digitGuard s = '_' :: s := by
  cases s with
  | nil => exact .inl rfl
  | cons d ds =>
    simp only [digitGuard]
    split
    · exact .inr rfl
    · exact .inl rfl

theorem digitGuard_eq_nil_iff (s : Str) : digitGuard s = [] ↔ s = [] := by
  cases s with
  | nil => simp [digitGuard]
  | cons d ds => simp only [digitGuard]; split <;> simp

/-- A non-empty string of identifier characters, with `_` prefixed when it starts with a digit,
    is an identifier. -/
theorem isPyIdent_digitGuard (s : Str) (hne : s ≠ []) (hall : s.all isIdChar = true) :
    isPyIdent (digitGuard s) = true := by
  cases s with
  | nil => exact absurd rfl hne
  | cons d ds =>
    simp only [digitGuard]
    split
    · exact isPyIdent_us_cons hall
    · rename_i hd
      simp only [List.all_cons, Bool.and_eq_true] at hall
      simp only [isPyIdent, Bool.and_eq_true]
      exact ⟨isIdStart_of_not_digit hall.1 (by simpa using hd), hall.2⟩

/-! ### The tokenizer -/

def TokSt.Good (st : TokSt) : Prop :=
  (st.kind ≠ .none → st.cur ≠ []) ∧ st.cur.all isAlnumA = true ∧
    ∀ t ∈ st.out, t ≠ [] ∧ t.all isAlnumA = true

def GoodTok (t : Str) : Prop := t ≠ [] ∧ t.all isAlnumA = true

theorem TokSt.init_good : TokSt.init.Good := by
  simp [TokSt.Good, TokSt.init]

theorem isAlnumA_of_lower {c : Char} (h : isLowerA c = true) : isAlnumA c = true := by
  simp [isAlnumA, isAlphaA, h]
theorem isAlnumA_of_upper {c : Char} (h : isUpperA c = true) : isAlnumA c = true := by
  simp [isAlnumA, isAlphaA, h]
theorem isAlnumA_of_digit {c : Char} (h : isDigitA c = true) : isAlnumA c = true := by
  simp [isAlnumA, h]

theorem TokSt.flush_good {st : TokSt} (h : st.Good) : ∀ t ∈ st.flush, GoodTok t := by
  obtain ⟨k, cur, out⟩ := st
  obtain ⟨h1, h2, h3⟩ := h
  intro t ht
  cases k <;> simp only [TokSt.flush, List.mem_cons] at ht
  · exact h3 t ht
  all_goals
    rcases ht with rfl | ht
    · exact ⟨by simpa using h1 (by simp), by simpa using h2⟩
    · exact h3 t ht

theorem tokStep_good (st : TokSt) (c : Char) (h : st.Good) : (tokStep st c).Good := by
  have hfl := TokSt.flush_good h
  obtain ⟨k, cur, out⟩ := st
  obtain ⟨h1, h2, h3⟩ := h
  simp only at h1 h2 h3
  have hcur : k ≠ .none → GoodTok cur.reverse := fun hk =>
    ⟨by simpa using h1 hk, by simpa using h2⟩
  have hout : ∀ t, GoodTok t → ∀ t' ∈ t :: out, t' ≠ [] ∧ t'.all isAlnumA = true := by
    intro t ht t' ht'
    rcases List.mem_cons.1 ht' with rfl | ht'
    · exact ht
    · exact h3 _ ht'
  unfold tokStep
  split
  · rename_i hc
    have hc := isAlnumA_of_lower hc
    cases k
    · exact ⟨by simp, by simp [hc], h3⟩
    · simp only
      split
      · exact ⟨by simp, by simp [hc], h3⟩
      · simp only [List.all_cons, Bool.and_eq_true, List.all_nil] at h2
        exact ⟨by simp, by simp [hc, h2.1], h3⟩
      · rename_i u rest hne
        simp only [List.all_cons, Bool.and_eq_true] at h2
        refine ⟨by simp, by simp [hc, h2.1], hout _ ⟨?_, by simpa using h2.2⟩⟩
        intro hr
        have : rest = [] := by simpa using hr
        exact hne (by rw [this])
    · exact ⟨by simp, by simp [hc, h2], h3⟩
    · exact ⟨by simp, by simp [hc], hout _ (hcur (by simp))⟩
  · split
    · rename_i hc
      have hc := isAlnumA_of_upper hc
      cases k
      · exact ⟨by simp, by simp [hc], h3⟩
      · exact ⟨by simp, by simp [hc, h2], h3⟩
      · exact ⟨by simp, by simp [hc], hout _ (hcur (by simp))⟩
      · exact ⟨by simp, by simp [hc], hout _ (hcur (by simp))⟩
    · split
      · rename_i hc
        have hc := isAlnumA_of_digit hc
        cases k
        · exact ⟨by simp, by simp [hc], h3⟩
        · exact ⟨by simp, by simp [hc], hout _ (hcur (by simp))⟩
        · exact ⟨by simp, by simp [hc], hout _ (hcur (by simp))⟩
        · exact ⟨by simp, by simp [hc, h2], h3⟩
      · exact ⟨by simp, by simp, hfl⟩

theorem foldl_tokStep_good (s : Str) (st : TokSt) (h : st.Good) : (s.foldl tokStep st).Good := by
  induction s generalizing st with
  | nil => exact h
  | cons c cs ih => exact ih _ (tokStep_good st c h)

/-- Every token is a non-empty string of ASCII alphanumerics. -/
theorem tokenize_good (s : Str) : ∀ t ∈ tokenize s, GoodTok t := by
  intro t ht
  simp only [tokenize, List.mem_reverse] at ht
  exact TokSt.flush_good (foldl_tokStep_good s _ TokSt.init_good) t ht

def TokSt.NE (st : TokSt) : Prop := st.kind ≠ .none ∨ st.out ≠ []

theorem TokSt.flush_ne_nil {st : TokSt} (h : st.NE) : st.flush ≠ [] := by
  obtain ⟨k, cur, out⟩ := st
  cases k <;> simp [TokSt.flush, TokSt.NE] at *
  exact h

theorem isAlnumA_cases {c : Char} (h : isAlnumA c = true) :
    isLowerA c = true ∨ isUpperA c = true ∨ isDigitA c = true := by
  simp only [isAlnumA, isAlphaA, Bool.or_eq_true] at h
  rcases h with (h | h) | h
  · exact .inr (.inl h)
  · exact .inl h
  · exact .inr (.inr h)

theorem tokStep_NE (st : TokSt) (c : Char) (h : isAlnumA c = true ∨ st.NE) : (tokStep st c).NE := by
  obtain ⟨k, cur, out⟩ := st
  unfold tokStep
  split
  · cases k
    · simp [TokSt.NE]
    · simp only; split <;> simp [TokSt.NE]
    · simp [TokSt.NE]
    · simp [TokSt.NE]
  · split
    · cases k <;> simp [TokSt.NE]
    · split
      · cases k <;> simp [TokSt.NE]
      · rename_i h1 h2 h3
        rcases h with h | h
        · rcases isAlnumA_cases h with h | h | h <;> contradiction
        · exact .inr (TokSt.flush_ne_nil h)

theorem foldl_tokStep_NE (s : Str) (st : TokSt) (h : s.any isAlnumA = true ∨ st.NE) :
    (s.foldl tokStep st).NE := by
  induction s generalizing st with
  | nil => simpa using h
  | cons c cs ih =>
    simp only [List.any_cons, Bool.or_eq_true] at h
    simp only [List.foldl_cons]
    apply ih
    rcases h with (h | h) | h
    · exact .inr (tokStep_NE _ _ (.inl h))
    · exact .inl h
    · exact .inr (tokStep_NE _ _ (.inr h))

theorem foldl_tokStep_noalnum (s : Str) (h : s.any isAlnumA = false) :
    s.foldl tokStep TokSt.init = TokSt.init := by
  induction s with
  | nil => rfl
  | cons c cs ih =>
    simp only [List.any_cons, Bool.or_eq_false_iff] at h
    have hc := h.1
    simp only [isAlnumA, isAlphaA, Bool.or_eq_false_iff] at hc
    have : tokStep TokSt.init c = TokSt.init := by
      simp [tokStep, hc.1.1, hc.1.2, hc.2, TokSt.init, TokSt.flush]
    rw [List.foldl_cons, this, ih h.2]

theorem tokenize_eq_nil_iff (s : Str) : tokenize s = [] ↔ s.any isAlnumA = false := by
  constructor
  · intro h
    cases ha : s.any isAlnumA with
    | false => rfl
    | true =>
      have := TokSt.flush_ne_nil (foldl_tokStep_NE s TokSt.init (.inl ha))
      simp only [tokenize, List.reverse_eq_nil_iff] at h
      exact absurd h this
  · intro h
    rw [tokenize, foldl_tokStep_noalnum s h]; rfl

/-! ### Class names -/

theorem all_isIdChar_of_all_isAlnumA {s : Str} (h : s.all isAlnumA = true) :
    s.all isIdChar = true := by
  rw [List.all_eq_true] at *
  exact fun c hc => isIdChar_of_isAlnumA (h c hc)

theorem capitalizeA_good {t : Str} (h : GoodTok t) : GoodTok (capitalizeA t) := by
  cases t with
  | nil => exact absurd rfl h.1
  | cons c cs =>
    have h2 := h.2
    simp only [List.all_cons, Bool.and_eq_true, List.all_eq_true] at h2
    refine ⟨by simp [capitalizeA], ?_⟩
    simp only [capitalizeA, List.all_cons, Bool.and_eq_true, List.all_eq_true, List.mem_map]
    refine ⟨isAlnumA_upperA h2.1, ?_⟩
    rintro x ⟨y, hy, rfl⟩
    exact isAlnumA_lowerA (h2.2 y hy)

theorem flatMap_capitalizeA_good (ts : List Str) (h : ∀ t ∈ ts, GoodTok t) (hne : ts ≠ []) :
    GoodTok (ts.flatMap capitalizeA) := by
  constructor
  · cases ts with
    | nil => exact absurd rfl hne
    | cons t ts =>
      have := (capitalizeA_good (h t (by simp))).1
      simp [List.flatMap_cons, this]
  · rw [List.all_eq_true]
    intro c hc
    obtain ⟨t, ht, hct⟩ := List.mem_flatMap.1 hc
    exact List.all_eq_true.1 (capitalizeA_good (h t ht)).2 c hct

theorem sanClassCore_good (s : Str) : GoodTok (sanClassCore s) := by
  unfold sanClassCore
  simp only
  split
  · exact ⟨by decide, by decide⟩
  · rename_i hne
    apply flatMap_capitalizeA_good _ (tokenize_good s)
    intro h
    rw [h] at hne
    simp at hne

/-- The part of `sanClass` after `sanClassCore`. -/
def classPost (c : Str) : Str :=
  if isKeyword ((digitGuard c).map lowerA) || isKeyword (digitGuard c) || isReserved ((digitGuard c).map lowerA)
  then digitGuard c ++ ['_'] else digitGuard c

theorem sanClass_eq (s : Str) : sanClass s = classPost (sanClassCore s) := rfl

theorem classPost_isPyIdent (c : Str) (h : GoodTok c) : isPyIdent (classPost c) = true := by
  have hg := isPyIdent_digitGuard c h.1 (all_isIdChar_of_all_isAlnumA h.2)
  unfold classPost
  split
  · exact isPyIdent_append_us hg
  · exact hg

theorem sanClass_isPyIdent (s : Str) : isPyIdent (sanClass s) = true := by
  rw [sanClass_eq]
  exact classPost_isPyIdent _ (sanClassCore_good s)

/-- Since the repair of F28 the result is never a keyword: either the guard fired (a name ending in `_` is no keyword) or the
    name itself was tested. -/
theorem classPost_not_keyword (c : Str) : isKeyword (classPost c) = false := by
  unfold classPost
  split
  · exact not_isKeyword_append_us _
  · rename_i hcond
    simp only [Bool.or_eq_true, not_or, Bool.not_eq_true] at hcond
    exact hcond.1.2

theorem sanClass_not_keyword (s : Str) : isKeyword (sanClass s) = false := by
  rw [sanClass_eq]
  exact classPost_not_keyword _

/-! ### Method names -/

theorem any_alnum_dropBraces (s : Str) : (dropBraces s).any isAlnumA = s.any isAlnumA := by
  induction s with
  | nil => rfl
  | cons c cs ih =>
    unfold dropBraces at *
    rw [List.filter_cons]
    split
    · simp only [List.any_cons, ih]
    · rename_i h
      have hc : isAlnumA c = false := by
        simp only [Bool.not_eq_true', Bool.not_eq_false, Bool.or_eq_true, beq_iff_eq] at h
        rcases h with rfl | rfl <;> decide
      simp only [List.any_cons, ih, hc, Bool.false_or]

theorem any_alnum_camelSplit1 (prev : Option Char) (s : Str) :
    (camelSplit1 prev s).any isAlnumA = s.any isAlnumA := by
  induction s generalizing prev with
  | nil => rfl
  | cons c cs ih =>
    unfold camelSplit1
    simp only
    repeat' split
    all_goals simp [List.any_cons, ih, isAlnumA_us]

theorem any_alnum_camelSplit2 (b : Bool) (s : Str) :
    (camelSplit2 b s).any isAlnumA = s.any isAlnumA := by
  induction s generalizing b with
  | nil => rfl
  | cons c cs ih =>
    unfold camelSplit2
    simp only
    repeat' split
    all_goals simp [List.any_cons, ih, isAlnumA_us]

theorem any_alnum_nonId (s : Str) : (nonIdToUnderscore s).any isAlnumA = s.any isAlnumA := by
  unfold nonIdToUnderscore
  rw [List.any_map]
  congr 1
  funext c
  simp only [Function.comp]
  split
  · rfl
  · rename_i h
    rw [isAlnumA_us]
    cases ha : isAlnumA c with
    | false => rfl
    | true => exact absurd (isIdChar_of_isAlnumA ha) h

theorem all_idChar_nonId (s : Str) : (nonIdToUnderscore s).all isIdChar = true := by
  unfold nonIdToUnderscore
  rw [List.all_map, List.all_eq_true]
  intro c _
  simp only [Function.comp]
  split
  · assumption
  · rfl

theorem any_collapse (p : Char → Bool) (s : Str) : (collapseUnderscores s).any p = s.any p := by
  fun_induction collapseUnderscores s with
  | case1 => rfl
  | case2 => rfl
  | case3 c d rest h ih =>
    simp only [Bool.and_eq_true, beq_iff_eq] at h
    obtain ⟨rfl, rfl⟩ := h
    rw [ih]; simp [List.any_cons]
  | case4 c d rest h ih =>
    simp only [List.any_cons] at ih ⊢; rw [ih]

theorem all_collapse (p : Char → Bool) (s : Str) : (collapseUnderscores s).all p = s.all p := by
  fun_induction collapseUnderscores s with
  | case1 => rfl
  | case2 => rfl
  | case3 c d rest h ih =>
    simp only [Bool.and_eq_true, beq_iff_eq] at h
    obtain ⟨rfl, rfl⟩ := h
    rw [ih]; simp [List.all_cons]
  | case4 c d rest h ih =>
    simp only [List.all_cons] at ih ⊢; rw [ih]

theorem all_lstripC (ch : Char) (p : Char → Bool) (s : Str) (h : s.all p = true) :
    (lstripC ch s).all p = true := by
  induction s with
  | nil => rfl
  | cons c cs ih =>
    simp only [List.all_cons, Bool.and_eq_true] at h
    unfold lstripC
    split
    · exact ih h.2
    · simp [h.1, h.2]

theorem all_stripC (ch : Char) (p : Char → Bool) (s : Str) (h : s.all p = true) :
    (stripC ch s).all p = true := by
  unfold stripC rstripC
  rw [List.all_reverse]
  apply all_lstripC
  rw [List.all_reverse]
  exact all_lstripC ch p s h

theorem lstripC_eq_nil_iff (ch : Char) (s : Str) :
    lstripC ch s = [] ↔ s.all (· == ch) = true := by
  induction s with
  | nil => simp [lstripC]
  | cons c cs ih =>
    unfold lstripC
    split
    · rename_i h; simp [ih, h]
    · rename_i h; simp [h]

theorem all_eq_lstripC (ch : Char) (s : Str) :
    (lstripC ch s).all (· == ch) = s.all (· == ch) := by
  induction s with
  | nil => rfl
  | cons c cs ih =>
    unfold lstripC
    split
    · rename_i h; simp [ih, h]
    · rfl

theorem stripC_eq_nil_iff (ch : Char) (s : Str) :
    stripC ch s = [] ↔ s.all (· == ch) = true := by
  unfold stripC rstripC
  rw [List.reverse_eq_nil_iff, lstripC_eq_nil_iff, List.all_reverse, all_eq_lstripC]

theorem all_us_iff_no_alnum (t : Str) (h : t.all isIdChar = true) :
    t.all (· == '_') = true ↔ t.any isAlnumA = false := by
  induction t with
  | nil => simp
  | cons c cs ih =>
    simp only [List.all_cons, Bool.and_eq_true] at h
    have hc : (c == '_') = true ↔ isAlnumA c = false := by
      have := h.1
      constructor <;> intro h' <;> char_arith
    simp only [List.all_cons, Bool.and_eq_true, List.any_cons, Bool.or_eq_false_iff, ih h.2, hc]

/-- The string `methodCore` strips and lower-cases. -/
def methodPre (name : Str) : Str :=
  collapseUnderscores (nonIdToUnderscore (camelSplit2 false (camelSplit1 none (dropBraces name))))

theorem methodCore_eq (s : Str) : methodCore s = (stripC '_' (methodPre s)).map lowerA := rfl

theorem methodPre_all (s : Str) : (methodPre s).all isIdChar = true := by
  unfold methodPre
  rw [all_collapse]; exact all_idChar_nonId _

theorem methodPre_any (s : Str) : (methodPre s).any isAlnumA = s.any isAlnumA := by
  unfold methodPre
  rw [any_collapse, any_alnum_nonId, any_alnum_camelSplit2, any_alnum_camelSplit1,
    any_alnum_dropBraces]

theorem methodCore_all (s : Str) : (methodCore s).all isIdChar = true := by
  rw [methodCore_eq, List.all_map, List.all_eq_true]
  intro c hc
  exact isIdChar_lowerA (List.all_eq_true.1 (all_stripC '_' _ _ (methodPre_all s)) c hc)

theorem methodCore_eq_nil_iff (s : Str) : methodCore s = [] ↔ s.any isAlnumA = false := by
  rw [methodCore_eq, List.map_eq_nil_iff, stripC_eq_nil_iff,
    all_us_iff_no_alnum _ (methodPre_all s), methodPre_any]

/-- The part of `sanMethod` after `methodCore`. -/
def methodPost (m : Str) : Str :=
  if isKeyword (digitGuard m) || isReserved (digitGuard m) then digitGuard m ++ ['_']
  else digitGuard m

theorem sanMethod_eq (s : Str) : sanMethod s = methodPost (methodCore s) := rfl

theorem methodPost_eq_nil_iff (m : Str) : methodPost m = [] ↔ m = [] := by
  unfold methodPost
  split
  · simp only [List.append_eq_nil_iff, List.cons_ne_self, and_false, false_iff]
    intro h; subst h
    rename_i hc
    revert hc; decide
  · exact digitGuard_eq_nil_iff m

theorem methodPost_valid (m : Str) (hne : m ≠ []) (hall : m.all isIdChar = true) :
    isPyIdent (methodPost m) = true ∧ isKeyword (methodPost m) = false := by
  have hg := isPyIdent_digitGuard m hne hall
  unfold methodPost
  split
  · exact ⟨isPyIdent_append_us hg, not_isKeyword_append_us _⟩
  · rename_i hc
    simp only [Bool.or_eq_true, not_or, Bool.not_eq_true] at hc
    exact ⟨hg, hc.1⟩

theorem sanMethod_empty_iff (s : Str) : sanMethod s = [] ↔ s.any isAlnumA = false := by
  rw [sanMethod_eq, methodPost_eq_nil_iff, methodCore_eq_nil_iff]

theorem sanMethod_valid (s : Str) (h : s.any isAlnumA = true) :
    isPyIdent (sanMethod s) = true ∧ isKeyword (sanMethod s) = false := by
  rw [sanMethod_eq]
  apply methodPost_valid _ _ (methodCore_all s)
  intro h0
  rw [methodCore_eq_nil_iff, h] at h0
  cases h0

/-! ### Module names -/

theorem lowerS_good (u : UInfo) {t : Str} (h : GoodTok t) : GoodTok (u.lowerS t) := by
  obtain ⟨hne, hall⟩ := h
  rw [List.all_eq_true] at hall
  constructor
  · cases t with
    | nil => exact absurd rfl hne
    | cons c cs =>
      have := isAscii_of_isAlnumA (hall c (by simp))
      simp [UInfo.lowerS, List.flatMap_cons, this]
  · rw [List.all_eq_true]
    intro c hc
    obtain ⟨x, hx, hcx⟩ := List.mem_flatMap.1 hc
    rw [if_pos (isAscii_of_isAlnumA (hall x hx))] at hcx
    rw [List.mem_singleton.1 hcx]
    exact isAlnumA_lowerA (hall x hx)

theorem joinWith_good (ws : List Str) (hne : ws ≠ []) (h : ∀ w ∈ ws, GoodTok w) :
    (∃ c cs, joinWith ['_'] ws = c :: cs ∧ isAlnumA c = true) ∧
      (joinWith ['_'] ws).all isIdChar = true := by
  fun_induction joinWith ['_'] ws with
  | case1 => exact absurd rfl hne
  | case2 x =>
    obtain ⟨hx1, hx2⟩ := h x (by simp)
    refine ⟨?_, all_isIdChar_of_all_isAlnumA hx2⟩
    cases x with
    | nil => exact absurd rfl hx1
    | cons c cs =>
      simp only [List.all_cons, Bool.and_eq_true] at hx2
      exact ⟨c, cs, rfl, hx2.1⟩
  | case3 x y rest ih =>
    obtain ⟨hx1, hx2⟩ := h x (by simp)
    have ih := ih (by simp) (fun w hw => h w (List.mem_cons_of_mem _ hw))
    constructor
    · cases x with
      | nil => exact absurd rfl hx1
      | cons c cs =>
        simp only [List.all_cons, Bool.and_eq_true] at hx2
        exact ⟨c, _, rfl, hx2.1⟩
    · simp only [List.all_append, Bool.and_eq_true]
      exact ⟨⟨all_isIdChar_of_all_isAlnumA hx2, by decide⟩, ih.2⟩

theorem sanModule_eq (u : UInfo) (s : Str) (h : s.any isAlnumA = true) :
    sanModule u s = methodPost (joinWith ['_'] ((tokenize s).map u.lowerS)) := by
  have hne : tokenize s ≠ [] := by
    intro h0; rw [tokenize_eq_nil_iff, h] at h0; cases h0
  have hemp : (tokenize s).isEmpty = false := by simpa using hne
  obtain ⟨⟨c, cs, hj, hc⟩, _⟩ := joinWith_good ((tokenize s).map u.lowerS) (by simpa using hne)
    (by
      intro w hw
      obtain ⟨t, ht, rfl⟩ := List.mem_map.1 hw
      exact lowerS_good u (tokenize_good s t ht))
  have hd : startsWithDigit u (c :: cs) = isDigitA c := by
    simp [startsWithDigit, UInfo.isDigit, isAscii_of_isAlnumA hc]
  unfold sanModule methodPost
  simp only [hemp, Bool.false_eq_true, if_false, hj, hd, digitGuard]

theorem sanModule_valid (u : UInfo) (s : Str) (h : s.any isAlnumA = true) :
    isPyIdent (sanModule u s) = true ∧ isKeyword (sanModule u s) = false := by
  rw [sanModule_eq u s h]
  have hne : tokenize s ≠ [] := by
    intro h0; rw [tokenize_eq_nil_iff, h] at h0; cases h0
  obtain ⟨⟨c, cs, hj, hc⟩, hall⟩ := joinWith_good ((tokenize s).map u.lowerS) (by simpa using hne)
    (by
      intro w hw
      obtain ⟨t, ht, rfl⟩ := List.mem_map.1 hw
      exact lowerS_good u (tokenize_good s t ht))
  exact methodPost_valid _ (by rw [hj]; simp) hall

/-! ### Enum members -/

/-- `[A-Z0-9_]` -/
def EP (c : Char) : Bool := isUpperA c || isDigitA c || c == '_'

/-- `^[A-Z_][A-Z0-9_]*$` -/
def enumOK : Str → Bool
  | [] => false
  | c :: cs => (isUpperA c || c == '_') && cs.all EP

theorem EP_upperA_of_alnum {c : Char} (h : isAlnumA c = true) : EP (upperA c) = true := by
  unfold EP; char_arith
theorem upperA_of_EP {c : Char} (h : EP c = true) : upperA c = c := by
  unfold EP at h
  unfold upperA
  rw [if_neg]
  char_arith
theorem not_lower_of_EP {c : Char} (h : EP c = true) : isLowerA c = false := by
  unfold EP at h; char_arith
theorem isIdChar_of_EP {c : Char} (h : EP c = true) : isIdChar c = true := by
  unfold EP at h; char_arith
theorem start_of_EP_not_digit {c : Char} (h : EP c = true) (hd : isDigitA c = false) :
    (isUpperA c || c == '_') = true := by
  unfold EP at h; char_arith
theorem isIdStart_of_start {c : Char} (h : (isUpperA c || c == '_') = true) : isIdStart c = true := by
  char_arith
theorem EP_of_start {c : Char} (h : (isUpperA c || c == '_') = true) : EP c = true := by
  unfold EP; char_arith

theorem enumOK_all {s : Str} (h : enumOK s = true) : s.all EP = true := by
  cases s with
  | nil => cases h
  | cons c cs =>
    simp only [enumOK, Bool.and_eq_true] at h
    simp only [List.all_cons, Bool.and_eq_true]
    exact ⟨EP_of_start h.1, h.2⟩

theorem enumOK_member (x : Str) (h : x.all EP = true) : enumOK ("MEMBER_".toList ++ x) = true := by
  show enumOK ('M' :: 'E' :: 'M' :: 'B' :: 'E' :: 'R' :: '_' :: x) = true
  simp only [enumOK, List.all_cons, h]
  decide

theorem enumOK_append_us {s : Str} (h : enumOK s = true) : enumOK (s ++ ['_']) = true := by
  cases s with
  | nil => cases h
  | cons c cs =>
    simp only [enumOK, Bool.and_eq_true, List.cons_append, List.all_append] at *
    exact ⟨h.1, h.2, by decide⟩

theorem enumOK_valid {s : Str} (h : enumOK s = true) :
    isPyIdent s = true ∧ isKeyword s = false := by
  constructor
  · cases s with
    | nil => cases h
    | cons c cs =>
      simp only [enumOK, Bool.and_eq_true] at h
      simp only [isPyIdent, Bool.and_eq_true]
      refine ⟨isIdStart_of_start h.1, ?_⟩
      rw [List.all_eq_true]
      exact fun x hx => isIdChar_of_EP (List.all_eq_true.1 h.2 x hx)
  · apply not_isKeyword_of_no_lower
    have := enumOK_all h
    rw [List.all_eq_true] at this
    cases hl : s.any isLowerA with
    | false => rfl
    | true =>
      obtain ⟨x, hx, hx'⟩ := List.any_eq_true.1 hl
      rw [not_lower_of_EP (this x hx)] at hx'; cases hx'

def enumS1 (u : UInfo) (value : Str) : Str :=
  let s := enumFilter (replaceChar ' ' ['_'] (replaceChar '-' ['_'] (u.upperS value)))
  if s.isEmpty then
    let alnum := value.filter isAlnumA
    if alnum.isEmpty then "MEMBER_EMPTY_STRING".toList
    else
      let t := "MEMBER_".toList ++ alnum.map upperA
      if startsDigitA t then "MEMBER_".toList ++ t else t
  else if startsDigitA s then "MEMBER_".toList ++ s else s

def enumS2 (s : Str) : Str := if isKeyword (s.map lowerA) then s ++ ['_'] else s
def enumS3 (s : Str) : Str := if !startsUpperOrUnderscore s then "MEMBER_".toList ++ s else s
def enumFinal (s : Str) : Option Str :=
  match s with
  | [] => none
  | c :: cs =>
    let up := (c :: cs).map upperA
    match up with
    | [] => none
    | d :: ds => if (isUpperA d || d == '_') && ds.all (fun x => isUpperA x || isDigitA x || x == '_')
                 then some s else none

theorem enumMemberStr_eq (u : UInfo) (v : Str) :
    enumMemberStr u v = enumFinal (enumS3 (enumS2 (enumS1 u v))) := rfl

theorem all_EP_enumFilter (s : Str) : (enumFilter s).all EP = true := by
  rw [List.all_eq_true]
  intro c hc
  exact (List.mem_filter.1 hc).2

theorem enumOK_of_all_not_digit {s : Str} (hne : s ≠ []) (h : s.all EP = true)
    (hd : startsDigitA s = false) : enumOK s = true := by
  cases s with
  | nil => exact absurd rfl hne
  | cons c cs =>
    simp only [List.all_cons, Bool.and_eq_true] at h
    simp only [enumOK, Bool.and_eq_true]
    exact ⟨start_of_EP_not_digit h.1 hd, h.2⟩

theorem enumS1_ok (u : UInfo) (v : Str) : enumOK (enumS1 u v) = true := by
  unfold enumS1
  simp only
  split
  · split
    · decide
    · have hall : ((v.filter isAlnumA).map upperA).all EP = true := by
        rw [List.all_map, List.all_eq_true]
        intro c hc
        exact EP_upperA_of_alnum (List.mem_filter.1 hc).2
      split
      · exact enumOK_member _ (enumOK_all (enumOK_member _ hall))
      · exact enumOK_member _ hall
  · rename_i hne
    split
    · exact enumOK_member _ (all_EP_enumFilter _)
    · rename_i hd
      exact enumOK_of_all_not_digit (by simpa using hne) (all_EP_enumFilter _) (by simpa using hd)

theorem enumS2_ok {s : Str} (h : enumOK s = true) : enumOK (enumS2 s) = true := by
  unfold enumS2
  split
  · exact enumOK_append_us h
  · exact h

theorem enumS3_ok {s : Str} (h : enumOK s = true) : enumOK (enumS3 s) = true := by
  unfold enumS3
  split
  · exact enumOK_member _ (enumOK_all h)
  · exact h

theorem enumFinal_ok {s : Str} (h : enumOK s = true) : enumFinal s = some s := by
  cases s with
  | nil => cases h
  | cons c cs =>
    have hall := enumOK_all h
    have hmap : (c :: cs).map upperA = c :: cs := by
      rw [List.all_eq_true] at hall
      conv => rhs; rw [← List.map_id (c :: cs)]
      exact List.map_congr_left (fun x hx => upperA_of_EP (hall x hx))
    simp only [enumOK, Bool.and_eq_true] at h
    have h2 : cs.all (fun x => isUpperA x || isDigitA x || x == '_') = true := h.2
    simp only [enumFinal, hmap, h.1, h2, Bool.and_self, if_true]

theorem enumMemberStr_some (u : UInfo) (v : Str) :
    enumMemberStr u v = some (enumS3 (enumS2 (enumS1 u v))) := by
  rw [enumMemberStr_eq]
  exact enumFinal_ok (enumS3_ok (enumS2_ok (enumS1_ok u v)))

theorem enumMemberStr_isSome (u : UInfo) (v : Str) : (enumMemberStr u v).isSome = true := by
  rw [enumMemberStr_some]; rfl

theorem enumMemberStr_valid (u : UInfo) (v n : Str) (h : enumMemberStr u v = some n) :
    isPyIdent n = true ∧ isKeyword n = false := by
  rw [enumMemberStr_some] at h
  cases h
  exact enumOK_valid (enumS3_ok (enumS2_ok (enumS1_ok u v)))

end Pog
