import Pog.Drv.Util
import Pog.Model.Surface
open Lean Pog Pog.Drv
namespace Pog.Drv

def surfaceFns : List String := ["protoStub","toMock","toMockOp","toMockLines","sigOf","natureOf","wellFormed","bodyOf","mockErrClass",
  "groupEndpoints","groupEndpointsFused","groupMocks","groupMocksRaw","tagScore","tagMapEmitter","tagMapVisitor","clientProps",
  "mockClientProps","pyMaxTag","strLt","surfaceHasSub"]

private def jparam (p : SigParam) : Json :=
  Json.arr #[jstr p.name, jopt jstr p.ann, jopt jstr p.dflt, Json.bool p.kwOnly]

private def jsig (s : MethodSig) : Json :=
  Json.mkObj [("async", Json.bool s.isAsync), ("name", jstr s.name), ("params", jlist jparam s.params),
    ("ret", jopt jstr s.ret), ("multi", Json.bool s.multiLine)]

private def jnature : MethodNature → Json
  | .plain => Json.str "plain"
  | .coroutine => Json.str "coroutine"
  | .asyncGen => Json.str "asyncgen"
  | .generator => Json.str "generator"

private def getOp (j : Json) : Except String TagOp := do
  let a ← j.getArr?
  pure ⟨← getStr (← argN a 0), ← getStrs (← argN a 1)⟩

private def jgroup (g : TagGroup) : Json :=
  Json.arr #[jstr g.key, jstr g.canon, jstr g.module, jstr g.cls, jstrs g.ops]

private def jpair (p : Str × Str) : Json := Json.arr #[jstr p.1, jstr p.2]

def surfaceRun (f : String) (a : Array Json) (u : UInfo) : Except String Json := do
  match f with
  | "protoStub" => pure (jstrs (protoStub (← getStrs (← argN a 0))))
  | "toMock" => pure (jstr (toMockCode (← getStr (← argN a 0)) (← getStr (← argN a 1)) (← getStrs (← argN a 2))))
  | "toMockOp" =>
    -- [operation_id, [tags], [lines]] : class and method of the error message computed as the code does
    pure (jstr (toMockCode (mockErrClass (← getStrs (← argN a 1))) (sanMethod (← getStr (← argN a 0))) (← getStrs (← argN a 2))))
  | "toMockLines" => pure (jstrs (toMock (← getStr (← argN a 0)) (← getStr (← argN a 1)) (← getStrs (← argN a 2))))
  | "sigOf" => pure (jopt jsig (sigOf (← getStrs (← argN a 0))))
  | "natureOf" => pure (jopt jnature (natureOf (← getStrs (← argN a 0))))
  | "wellFormed" => pure (Json.bool (WellFormedMethod (← getStrs (← argN a 0))))
  | "bodyOf" => pure (jstrs (bodyOf (← getStrs (← argN a 0))))
  | "mockErrClass" => pure (jstr (mockErrClass (← getStrs (← argN a 0))))
  | "groupEndpoints" => pure (jopt (jlist jgroup) (groupEndpointsRaw u (← getList getOp (← argN a 0))))
  | "groupEndpointsFused" => pure (jlist jgroup (groupEndpoints u (← getList getOp (← argN a 0))))
  | "groupMocks" => pure (jlist jgroup (groupMocks u (← getList getOp (← argN a 0))))
  | "groupMocksRaw" => pure (jopt (jlist jgroup) (groupMocksRaw u (← getList getOp (← argN a 0))))
  | "tagScore" =>
    let s := tagScore u (← getStr (← argN a 0))
    pure (Json.arr #[Json.bool s.pascal, jnat s.words, jnat s.upper, jstr s.tag])
  | "tagMapEmitter" => pure (jlist jpair (tagMapEmitter u (← getList getOp (← argN a 0))))
  | "tagMapVisitor" => pure (jopt (jlist jpair) (tagMapVisitor u (← getList getOp (← argN a 0))))
  | "clientProps" => pure (jopt jstrs (clientProps u (← getList getOp (← argN a 0))))
  | "mockClientProps" => pure (jstrs (mockClientProps u (← getList getOp (← argN a 0))))
  | "pyMaxTag" => pure (jopt jstr (pyMaxTag u (← getStrs (← argN a 0))))
  | "strLt" => pure (Json.bool (pyStrLt (← getStr (← argN a 0)) (← getStr (← argN a 1))))
  | "surfaceHasSub" => pure (Json.bool (txtHasSub (← getStr (← argN a 0)) (← getStr (← argN a 1))))
  | _ => throw s!"unknown function {f}"

def dispatchSurface : Dispatch := fun f a u =>
  if surfaceFns.contains f then some (surfaceRun f a u) else none

end Pog.Drv
