import Pog.Model.Fresh
import Pog.Model.Sinks
import Pog.Model.Diff
/-
  M-dc — `DataclassGenerator.generate` (visit/model/dataclass_generator.py:392-553), `_is_arbitrary_json_object`
  (40-57), `_get_field_default` (334-390), the value-type decision of `_generate_json_wrapper_class` (91-102), and the
  part of `PythonConstructRenderer.render_dataclass` (core/writers/python_construct_renderer.py:228-340) that orders
  the fields and writes one line per field.

  Mirrored as the code IS:
    * three shapes + the empty class (`shape`): arbitrary-JSON wrapper / array wrapper with the single field `items` /
      object with properties / `pass`;
    * `sorted_props = sorted(schema.properties.items(), key=lambda item: (item[0] not in schema.required, item[0]))`
      (`sortProps`: stable insertion sort on the key `(bool, str)`; `str` compared by code point, `Pog.Diff.strLt`);
    * field identifier = `sanitize_method_name(prop)` (`field` ↦ `field_`: F5 repaired, `Pog.dcFieldBase`) + the `_2, _3, …` loop
      — REUSED: `Pog.fieldNames` (M-fresh);
    * `field_mappings[prop] = field`, `default_expr` only for non-required properties, the `(maps from '…')` doc suffix;
    * `_get_field_default` branch for branch, the enum-member rule `str(default).upper().replace("-","_").replace(" ","_")`
      (`enumDefaultMember`, which is literally the first line of `EnumGenerator._generate_member_name_for_string_enum`,
      `Pog.enumMemberStr`, WITHOUT the filter / `MEMBER_` prefix / keyword suffix / de-duplication that follow it there);
    * `str` defaults through `json.dumps` — REUSED: `Pog.renderDefaultStr` (M-sinks);
    * the renderer: `[f for f in fields if f[2] is None] + [f for f in fields if f[2] is not None]`, one line
      `name: type` / `name: type = default` (+ `  # comment`) per field — REUSED: `Pog.renderFieldLine` (M-sinks);
    * the ValueError pre-conditions (schema.name is None, empty base_name) and the post-condition
      `if "default_factory" in rendered_code: if "field" not in imports: raise RuntimeError` (lines 549-551), on a FRESH
      import collector (`RenderContext.set_current_file` resets it for every model file).

  Parameters (opaque text supplied by the harness / quantified over in the theorems):
    * `DcProp.pyType`  — what `type_service.resolve_schema_type(prop_schema, context, required=is_required)` returned;
    * `DcSchema.itemsFieldType`, `itemPyType` — the finalised `List[…]` annotation of an array wrapper and the item type;
    * `AddProps.schema pyType` — the resolved type of a schema-valued `additionalProperties`;
    * `DefaultVal.float text`, `DefaultVal.other text` — `str(default)` of a float / list / dict default (CPython's `repr`);
    * `DcProp.enumVals` — `some vals` iff `self.all_schemas` is non-empty, `ps.name` is truthy and
      `self.all_schemas.get(ps.name)` is a schema; `vals` = `[str(v) for v in (that schema).enum or []]`;
    * `DcSchema.docMentionsFactory` — whether the class DOCSTRING (built by `DocumentationWriter`, text wrapping, not
      modelled here) contains the text `default_factory`;
    * `UInfo` — CPython's `str.upper` on non-ASCII characters (M-names).
  The other post-conditions of `generate` (non-empty code, `@dataclass` present, `dataclass` imported) cannot fail:
  `render_dataclass` always writes the decorator and adds the import.
-/
namespace Pog.Dc
open Pog

/-! ## inputs -/

/-- `ps.default` by the `isinstance` tests of `_get_field_default` (`bool` before `int`). -/
inductive DefaultVal
  | str (s : Str)
  | bool (b : Bool)
  | int (i : Int)
  | float (text : Str)     -- `str(x)` of the float
  | other (text : Str)     -- list / dict …: `str(x)`
  deriving DecidableEq, Repr, Inhabited

/-- Python `str(i)` for an `int`. -/
def intStr : Int → Str
  | .ofNat n => natStr n
  | .negSucc n => '-' :: natStr (n + 1)

def sTrue : Str := "True".toList
def sFalse : Str := "False".toList
def sNone : Str := "None".toList

/-- `str(ps.default)`. -/
def DefaultVal.pyStr : DefaultVal → Str
  | .str s => s
  | .bool b => if b then sTrue else sFalse
  | .int i => intStr i
  | .float t => t
  | .other t => t

/-- One entry of `schema.properties` — exactly what `generate` and `_get_field_default` read of it. -/
structure DcProp where
  key : Str                          -- the property name (dict key)
  ty : Option Str := none            -- `ps.type`
  name : Option Str := none          -- `ps.name`
  anyOf : Bool := false              -- truthiness of `ps.any_of`
  oneOf : Bool := false
  allOf : Bool := false
  default : Option DefaultVal := none  -- `ps.default` (`None` = absent / JSON null)
  pyType : Str := []                 -- the type service's answer (opaque)
  enumVals : Option (List Str) := none -- see the header
  desc : Option Str := none          -- `ps.description`
  deriving Repr, Inhabited

/-- `schema.additional_properties`. -/
inductive AddProps
  | absent
  | bool (b : Bool)
  | schema (pyType : Str)
  deriving DecidableEq, Repr, Inhabited

structure DcSchema where
  name : Option Str := some []
  ty : Option Str := none
  props : List DcProp := []          -- dict order
  required : List Str := []
  hasItems : Bool := false           -- truthiness of `schema.items`
  itemsFieldType : Str := []         -- `TypeFinalizer(...).finalize("List[…]", schema, required=False)`
  itemPyType : Str := []             -- `list_item_py_type`
  desc : Option Str := none          -- `schema.description`
  addProps : AddProps := .absent
  docMentionsFactory : Bool := false
  deriving Repr, Inhabited

/-! ## outputs -/

/-- One tuple of `fields_data`: `(name, type_hint, default_expr, description)`.  `wire` is a GHOST component (not
    part of the python tuple): the property key the tuple was built from, `none` for the synthetic `items` field. -/
structure DcField where
  pyName : Str
  pyType : Str
  default : Option Str
  doc : Option Str
  wire : Option Str
  deriving DecidableEq, Repr, Inhabited

inductive Shape | wrapperJson | arrayWrapper | object | empty
  deriving DecidableEq, Repr, Inhabited

inductive DcErr
  | valueError            -- `schema.name is None` / `not base_name`
  | fieldImportMissing    -- RuntimeError "'field' import from dataclasses missing when default_factory is used."
  | loopDiverges          -- the `while field_name in seen_field_names` loop does not end (never: `objectFields_total`)
  deriving DecidableEq, Repr, Inhabited

structure DcOut where
  shape : Shape
  fields : List DcField            -- `fields_data` as handed to `render_dataclass`
  mappings : List (Str × Str)      -- `field_mappings` in dict order (`[]` = `None` is passed)
  body : List DcField              -- the fields in the order the renderer writes them
  lines : List Str                 -- the statements of the class body after the docstring, before `class Meta`
  valueType : Option Str           -- JSON wrapper only: `some t` = typed wrapper (`dict[str, t]`), `none` = `Any`
  deriving Repr, Inhabited

/-! ## small helpers -/

def sArray : Str := "array".toList
def sObject : Str := "object".toList
def sItems : Str := "items".toList
def sAny : Str := "Any".toList
def factoryList : Str := "field(default_factory=list)".toList
def factoryDict : Str := "field(default_factory=dict)".toList
def factoryPat : Str := "default_factory".toList

/-- Python `sub in s`. -/
def hasSubstr (sub : Str) : Str → Bool
  | [] => sub.isEmpty
  | c :: cs => sub.isPrefixOf (c :: cs) || hasSubstr sub cs

/-- Truthiness of an optional `str`. -/
def truthyStr : Option Str → Bool
  | some (_ :: _) => true
  | _ => false

/-! ## the shape decision -/

/-- `_is_arbitrary_json_object`. -/
def isArbitraryJson (s : DcSchema) : Bool :=
  s.ty == some sObject && s.props.isEmpty &&
    (match s.addProps with
     | .bool true => true
     | .schema _ => true
     | _ => false)

def shape (s : DcSchema) : Shape :=
  if isArbitraryJson s then .wrapperJson
  else if s.ty == some sArray && s.hasItems then .arrayWrapper
  else if !s.props.isEmpty then .object
  else .empty

/-- `_generate_json_wrapper_class`: the value type of the wrapper (`none` = untyped `Any` wrapper). -/
def wrapperValueType (s : DcSchema) : Option Str :=
  match s.addProps with
  | .schema t => if !t.isEmpty && t != sAny && !hasSubstr sAny t then some t else none
  | _ => none

/-! ## `sorted_props` -/

/-- `a_key <= b_key` for the keys `(name not in required, name)` (tuple comparison: `False < True`, then `str`). -/
def keyLe (req : List Str) (a b : Str) : Bool :=
  let ka := !req.contains a
  let kb := !req.contains b
  if ka == kb then !(Diff.strLt b a) else (!ka && kb)

/-- Stable insertion: in front of the first element whose key is not smaller. -/
def insertProp (req : List Str) (p : DcProp) : List DcProp → List DcProp
  | [] => [p]
  | q :: qs => if keyLe req p.key q.key then p :: q :: qs else q :: insertProp req p qs

/-- `sorted(schema.properties.items(), key=lambda item: (item[0] not in schema.required, item[0]))`. -/
def sortProps (req : List Str) : List DcProp → List DcProp
  | [] => []
  | p :: ps => insertProp req p (sortProps req ps)

/-! ## `_get_field_default` -/

/-- `str(ps.default).upper().replace("-", "_").replace(" ", "_")`. -/
def enumDefaultMember (u : UInfo) (v : Str) : Str :=
  replaceChar ' ' ['_'] (replaceChar '-' ['_'] (u.upperS v))

/-- `ps.name and self.all_schemas` … `enum_schema and enum_schema.enum`. -/
def refersToEnum (p : DcProp) : Bool :=
  truthyStr p.name &&
    (match p.enumVals with
     | some (_ :: _) => true
     | _ => false)

/-- F53 repaired: the member is looked up BY VALUE - `f'{ps.name}("…")'` for a `str` default (the literal of the plain string
    branch), `f"{ps.name}({ps.default})"` otherwise.  (`enumDefaultMember` above is the rule the code used before; the theorems about
    it say why a name cannot be derived that way.) -/
def enumDefaultExpr (_u : UInfo) (p : DcProp) (d : DefaultVal) : Str :=
  match d with
  | .str s => p.name.getD [] ++ '(' :: renderDefaultStr s ++ [')']
  | d => p.name.getD [] ++ '(' :: d.pyStr ++ [')']

/-- The scalar branch (`isinstance` chain); a complex default logs a warning and falls through to `"None"`. -/
def scalarDefault : DefaultVal → Str
  | .str s => renderDefaultStr s
  | .bool b => if b then sTrue else sFalse
  | .int i => intStr i
  | .float t => t
  | .other _ => sNone

def fieldDefault (u : UInfo) (p : DcProp) : Str :=
  if p.ty == some sArray then factoryList
  else if p.ty == some sObject && p.name.isNone && !p.anyOf && !p.oneOf && !p.allOf then factoryDict
  else
    match p.default with
    | none => sNone
    | some d => if refersToEnum p then enumDefaultExpr u p d else scalarDefault d

/-! ## `fields_data` -/

/-- `field_doc`: the description, with the mapping note when the identifier differs from the property name. -/
def fieldDoc (p : DcProp) (fieldName : Str) : Option Str :=
  if p.key != fieldName then
    (if truthyStr p.desc then some (p.desc.getD [] ++ " (maps from '".toList ++ p.key ++ "')".toList)
     else some ("Maps from '".toList ++ p.key ++ "'".toList))
  else p.desc

def mkField (u : UInfo) (req : List Str) (p : DcProp) (fieldName : Str) : DcField :=
  { pyName := fieldName
    pyType := p.pyType
    default := if req.contains p.key then none else some (fieldDefault u p)
    doc := fieldDoc p fieldName
    wire := some p.key }

def zipFields (u : UInfo) (req : List Str) : List DcProp → List Str → List DcField
  | p :: ps, n :: ns => mkField u req p n :: zipFields u req ps ns
  | _, _ => []

/-- The `elif schema.properties:` branch: `none` = the collision loop does not terminate (never happens). -/
def objectFields (u : UInfo) (s : DcSchema) : Option (List DcField) :=
  let sorted := sortProps s.required s.props
  (fieldNames (sorted.map DcProp.key)).map (zipFields u s.required sorted)

/-- The `if schema.type == "array" and schema.items:` branch: the synthetic property is an `array`, so its default is
    always the list factory. -/
def arrayWrapperField (s : DcSchema) : DcField :=
  { pyName := sItems
    pyType := s.itemsFieldType
    default := some factoryList
    doc := if truthyStr s.desc then s.desc
           else if s.itemPyType != sAny then some ("A list of ".toList ++ s.itemPyType ++ " items.".toList)
           else some "A list of items.".toList
    wire := none }

/-- `fields_data` at the call of `render_dataclass`. -/
def fieldsData (u : UInfo) (s : DcSchema) : Option (List DcField) :=
  match shape s with
  | .wrapperJson => some []
  | .arrayWrapper => some [arrayWrapperField s]
  | .object => objectFields u s
  | .empty => some []

/-- `field_mappings` (dict order = emission order; keys are distinct property names). -/
def mappingsOf (fs : List DcField) : List (Str × Str) :=
  fs.filterMap (fun f => f.wire.map (fun k => (k, f.pyName)))

/-! ## the renderer -/

def hasDefault (f : DcField) : Bool := f.default.isSome

/-- `required_fields + optional_fields` of `render_dataclass`. -/
def renderOrder (fs : List DcField) : List DcField :=
  fs.filter (fun f => !hasDefault f) ++ fs.filter hasDefault

def fieldLine (f : DcField) : Str := renderFieldLine f.pyName f.pyType f.default (f.doc.getD [])

/-- The statements of the class body. -/
def bodyLines (fs : List DcField) : List Str :=
  if fs.isEmpty then ["# No properties defined in schema".toList, "pass".toList]
  else (renderOrder fs).map fieldLine

/-- The class body is a valid dataclass body: scanning top to bottom, once a field has a default every later one
    has one too (`seen` = a default has been seen). -/
def defaultsLast : Bool → List DcField → Bool
  | _, [] => true
  | seen, f :: fs => if hasDefault f then defaultsLast true fs else (!seen && defaultsLast false fs)

/-! ## the `default_factory` post-condition -/

def mentionsFactory (t : Str) : Bool := hasSubstr factoryPat t

/-- `"default_factory" in rendered_code`, over the text this model knows verbatim (class name twice, the field lines,
    the `Meta` entries) plus the docstring flag. -/
def textMentionsFactory (s : DcSchema) (baseName : Str) (fs : List DcField) : Bool :=
  s.docMentionsFactory || mentionsFactory baseName
    || fs.any (fun f => mentionsFactory (fieldLine f))
    || (mappingsOf fs).any (fun (k, n) => mentionsFactory k || mentionsFactory n)

/-- `"field" in context.import_collector.imports.get("dataclasses", set())` on a fresh collector: added by
    `_get_field_default` (array / plain object) and by the renderer (`"default_factory" in default_expr`);
    the first implies the second. -/
def fieldImported (fs : List DcField) : Bool :=
  fs.any (fun f => match f.default with
    | some d => mentionsFactory d
    | none => false)

/-! ## `generate` -/

def generate (u : UInfo) (s : DcSchema) (baseName : Str) : Except DcErr DcOut :=
  if s.name.isNone then .error .valueError
  else if baseName.isEmpty then .error .valueError
  else
    match shape s with
    | .wrapperJson =>
      .ok { shape := .wrapperJson, fields := [], mappings := [], body := [], lines := [],
            valueType := wrapperValueType s }
    | sh =>
      match fieldsData u s with
      | none => .error .loopDiverges
      | some fs =>
        if textMentionsFactory s baseName fs && !fieldImported fs then .error .fieldImportMissing
        else .ok { shape := sh, fields := fs, mappings := mappingsOf fs, body := renderOrder fs,
                   lines := bodyLines fs, valueType := none }

/-- The exception `generate` raised, if any. -/
def raised (r : Except DcErr DcOut) : Option DcErr :=
  match r with
  | .error e => some e
  | .ok _ => none

end Pog.Dc
