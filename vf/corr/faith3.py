"""Correspondence for the work package "parse_faithful, third fragment" (Pog/Props/C02c.lean).

run(seed, scale, driver)   documents aimed at `Simple3` (allOf inheritance, inline object properties, enum properties /
                           schemas, nullable wrappers, on top of `Simple2`).  Membership is decided in Lean
                           (`parserInFragment3`, C02c.inFragment3_sound); for every accepted document
                             (1) the real load_ir_from_spec must not raise and must give every declared schema exactly the
                                 fields the document declares (the THEOREM C02c.parse_faithful_partial3 tied to the code),
                             (2) the full event / registry trace of the real loader equals the model's (`parseSpec`).
                           Rejected documents are only compared trace for trace (2).
oracle(seed, scale)        the property (every declared schema has the declared fields) on the real loader, on the same
                           generator; failures are classified (expected classes: see EXPECTED).
replay(case)               re-run one oracle case.

It re-uses the harness of the parser correspondence (`vf/corr/parser.py` of the verification tree: `py_parse`, the Node
JSON language, the independent reference resolver); the tree is found through VERIF_ROOT (default /verif).
"""
from __future__ import annotations

import json
import os
import random
import sys

PRIMS = ["string", "integer", "number", "boolean"]
EXPECTED = ["synthetic-name-collision", "synthetic-name-shadows-declared-schema", "depth-placeholder", "cyclic-or-dangling",
            "other-outside-fragment"]


def _harness():
    from . import parser as H

    return H


def R(t):
    return {"r": t}


def _core(n: dict) -> dict:
    while "n" in n:
        n = n["n"]
    return n


def gen_simple3_dag(rng: random.Random) -> list:
    """Aimed at `Simple3`; some of what is generated is deliberately outside (colliding context names, own properties of an
    allOf schema, nested inline objects)."""
    pool = ["Order", "Customer", "Address", "Item", "UserGroup", "User", "Tree", "Aa", "Bb", "OrderItem", "Tags", "Pet", "Dog",
            "Color", "OrderStatus"]
    names = rng.sample(pool, rng.randint(1, 7))
    keys_pool = ["id", "name", "owner", "group", "items", "user_group", "data", "meta", "labels", "kids", "tags", "status",
                 "kind", "itemKind", "shipTo", "ab", "Ab"]
    decls = []

    def nul(n):
        return {"n": n} if rng.random() < 0.2 else n

    for i, n in enumerate(names):
        def prim():
            return {"p": rng.choice(PRIMS), "e": False}

        def leaf():
            if rng.random() < 0.12:
                return nul({"p": rng.choice(PRIMS), "e": True})
            return nul(R(rng.choice(names[:i])) if i > 0 and rng.random() < 0.55 else prim())

        def inner():
            r = rng.random()
            return nul(leaf() if r < 0.7 else {"i": leaf()})

        def inline(maxk=3):
            ks = rng.sample(keys_pool, rng.randint(0, maxk))
            return {"o": [[k, inner()] for k in ks], "q": [k for k in ks if rng.random() < 0.4], "a": None}

        def prop():
            r = rng.random()
            if r < 0.25:
                return leaf()
            if r < 0.42:
                return nul({"i": leaf()})
            if r < 0.55:
                return nul({"o": None, "q": [], "a": leaf()})
            if r < 0.75:
                return nul({"p": rng.choice(PRIMS), "e": True})
            if r < 0.97:
                return nul(inline())
            return {"o": [["deep", inline(1)]], "q": [], "a": None}          # nested inline object: outside

        r0 = rng.random()
        if r0 < 0.08:
            decls.append([n, {"i": leaf()}])
            continue
        if r0 < 0.16:
            decls.append([n, {"p": rng.choice(PRIMS), "e": rng.random() < 0.6}])
            continue
        if r0 < 0.42 and i > 0:
            parts = []
            for _ in range(rng.randint(1, 3)):
                parts.append(R(rng.choice(names[:i])) if rng.random() < 0.6 else inline())
            own = [] if rng.random() < 0.93 else [["extra", prim()]]          # own properties: outside
            req = [k for k in rng.sample(keys_pool, rng.randint(0, 2))]
            decls.append([n, {"all": parts, "o": own, "q": req}])
            continue
        keys = rng.sample(keys_pool, rng.randint(0, 6))
        props = [[k, prop()] for k in keys]
        req = [k for k in keys if rng.random() < 0.4]
        decls.append([n, {"o": props, "q": req, "a": None}])
    rng.shuffle(decls)
    return decls


def ranks_of3(decls: list):
    """The least rank table satisfying `Simple3.cost` (`nodeCostOK3`), or None (cyclic / dangling references)."""
    nodes = dict((d[0], d[1]) for d in decls)
    memo: dict = {}

    def leaf_cost(nd, seen):
        nd = _core(nd)
        return rank(nd["r"], seen) + 2 if "r" in nd else 0

    def inner_cost(nd, seen):
        nd = _core(nd)
        if "r" in nd:
            return rank(nd["r"], seen) + 1
        if "i" in nd:
            return leaf_cost(nd["i"], seen) + 1
        return 0

    def is_inline(nd):
        return "o" in nd and "all" not in nd and nd.get("o") is not None and nd.get("a") is None

    def prop_cost(nd, seen):
        nd = _core(nd)
        if "r" in nd:
            return rank(nd["r"], seen) + 1
        if "i" in nd:
            return leaf_cost(nd["i"], seen) + 1
        if "p" in nd:
            return 1 if nd.get("e") else 0
        if "all" in nd or "one" in nd or "any" in nd:
            return 0
        if nd.get("o") is None and nd.get("a") is not None:
            return leaf_cost(nd["a"], seen) + 1
        if is_inline(nd):
            return max([1] + [inner_cost(p, seen) + 1 for _k, p in nd["o"]])
        return 0

    def rank(n, seen):
        if n in memo:
            return memo[n]
        if n in seen or n not in nodes:
            raise ValueError(n)
        nd = nodes[n]
        seen = seen | {n}
        r = 0
        if "i" in nd:
            r = leaf_cost(nd["i"], seen)
        elif "all" in nd:
            for part in nd["all"]:
                if "r" in part:
                    r = max(r, rank(part["r"], seen) + 2)
                elif is_inline(part):
                    r = max([r, 1] + [inner_cost(p, seen) + 1 for _k, p in part["o"]])
        elif "o" in nd and nd.get("o") is not None:
            for _k, p in nd["o"]:
                r = max(r, prop_cost(p, seen))
        memo[n] = r
        return r

    try:
        return [[n, rank(n, frozenset())] for n in nodes]
    except (ValueError, KeyError, TypeError, RecursionError):
        return None


def _features3(decls: list) -> list:
    f = set()
    txt = json.dumps(decls)
    for tag, pat in [("allOf", '"all"'), ("array", '"i"'), ("map", '"a": {'), ("nullable", '"n"'), ("enum", '"e": true')]:
        if pat in txt:
            f.add(tag)
    for _n, nd in decls:
        for _k, p in (nd.get("o") or []) if "all" not in nd else []:
            c = _core(p)
            if "o" in c and c.get("o") is not None and c.get("a") is None and "all" not in c:
                f.add("inline-object")
    return sorted(f)


def _gen_cases(rng: random.Random, n_cases: int) -> list:
    cases = []
    for _ in range(n_cases):
        decls = gen_simple3_dag(rng)
        rs = ranks_of3(decls)
        if rs is None:
            continue
        top = max([r for _n, r in rs] + [0])
        md = rng.choice([top + 1, top + 1, top, 10, 150])
        cases.append((md, 320, decls, rs))
    return cases


def run(seed: int, scale: float, driver: str) -> dict:
    H = _harness()
    rng = random.Random(seed)
    res = {"comparisons": 0, "disagreements": [], "nontrivial": 0, "samples": [], "distribution": {},
           "rule": "documents from gen_simple3_dag with the least rank table; non-trivial = accepted by the Lean decision "
                   "procedure inFragment3 AND using a node kind that is not in Simple2 (allOf / inline object / enum / nullable); "
                   "for those the real loader must be faithful on every declared schema; every document is also compared trace "
                   "for trace with the model (parseSpec)"}
    dist = res["distribution"]
    cases = _gen_cases(rng, int(700 * scale) + 5)
    if not cases:
        return res
    member = H._drive(driver, [{"f": "parserInFragment3", "a": [md, fuel, decls, rs]} for md, fuel, decls, rs in cases])
    model = H._drive(driver, [{"f": "parseSpec", "a": [md, 60, decls]} for md, _fuel, decls, _rs in cases])
    seen = set()
    for (md, fuel, decls, rs), m, mm in zip(cases, member, model):
        impl = H.py_parse(md, 60, decls)
        res["comparisons"] += 1
        if "error" in mm or not H._cmp_parser(mm, impl):
            if len(res["disagreements"]) < 50:
                res["disagreements"].append({"label": "parser trace", "request": [md, 60, decls], "model": mm, "impl": impl})
            continue
        if m is not True:
            key = "fragment3:outside" if m is False else "fragment3:driver-error"
            dist[key] = dist.get(key, 0) + 1
            if m is not False and len(res["disagreements"]) < 50:
                res["disagreements"].append({"label": "fragment3", "request": [md, fuel, decls, rs], "model": m, "impl": None})
            continue
        dist["fragment3:inside"] = dist.get("fragment3:inside", 0) + 1
        feats = _features3(decls)
        for t in feats:
            dist["fragment3:inside:" + t] = dist.get("fragment3:inside:" + t, 0) + 1
        if md == max([r for _n, r in rs] + [0]) + 1:
            dist["fragment3:inside:tight-depth"] = dist.get("fragment3:inside:tight-depth", 0) + 1
        spec = dict((n, f) for n, f in impl["spec"])
        bad = []
        if impl["oom"] or impl["raises"]:
            bad.append(["raises", impl["raises"] or "RecursionError"])
        else:
            for n, fs, kind in impl["fields"]:
                if fs is None or kind != "full" or not H._same_field_set(fs, spec[n]):
                    bad.append([n, kind, fs, spec[n]])
        if bad:
            if len(res["disagreements"]) < 50:
                res["disagreements"].append({
                    "label": "fragment3: C02c.parse_faithful_partial3 holds of the model on this document, the real loader is not faithful",
                    "request": [md, fuel, decls, rs], "model": "inFragment3 = true => Faithful for every declared name", "impl": bad})
            continue
        if any(t in feats for t in ("allOf", "inline-object", "enum", "nullable")):
            key = json.dumps([md, decls])
            if key not in seen:
                seen.add(key)
                res["nontrivial"] += 1
                if len(res["samples"]) < 5 and len(key) < 700 and "allOf" in feats:
                    res["samples"].append({"max_depth": md, "decls": decls, "ranks": rs})
    return res


def _ctx_names(H, decls: list) -> list:
    out = []
    for n, nd in decls:
        if "all" in nd or not isinstance(nd.get("o"), list):
            continue
        for k, p in nd["o"]:
            c = _core(p)
            ck = H._cls(k)
            promoted = n + ck
            ctx = ck if ck.lower().startswith(n.lower()) else n + ck
            if "p" in c and c.get("e"):
                out.append(ctx)
            elif "o" in c and "all" not in c and c.get("o") is None and c.get("a") is not None:
                out.append(ctx)
            elif "o" in c and "all" not in c and c.get("o") is not None:
                out.append(promoted)
    return out


def _collides(decls: list) -> bool:
    ctxs = _ctx_names(_harness(), decls)
    return len(set(ctxs)) < len(ctxs)


def oracle(seed: int, scale: float) -> dict:
    """C02 / C08 / C19 on the real loader over the Simple3-aimed generator, judged and classified by the parser oracle's own
    `_eval_case` (so the classes are the ones `vf/props/_parser.py` maps to findings).  One class is added: a faithfulness failure
    on a document in which two promoted properties get the SAME synthetic name (`Order.itemKind` / `OrderItem.kind` ->
    `OrderItemKind`; keys `ab` / `Ab` of one schema) is `synthetic-name-collision`."""
    H = _harness()
    rng = random.Random(seed + 17)
    out = {"evaluations": 0, "failures": [], "failures_per_class": {}}
    for md, _fuel, decls, _rs in _gen_cases(rng, int(400 * scale) + 5):
        perm = list(range(len(decls)))
        rng.shuffle(perm)
        case = {"max_depth": md, "decls": decls, "perm": perm}
        out["evaluations"] += 1
        for f in H._eval_case(case):
            if _collides(decls) and f["class"] in ("fields-differ-other", "field-kind-differs", "inline-prop-named-like-schema", "declaration-order-changes-models",
                                                   "synthetic-name-shadows-declared-schema", "ref-typed-as-unregistered-copy", "required-flag-differs"):
                f["class"] = "synthetic-name-collision"
                f["case"]["class"] = f["class"]
            out["failures_per_class"][f["class"]] = out["failures_per_class"].get(f["class"], 0) + 1
            if out["failures_per_class"][f["class"]] <= 4:
                out["failures"].append(f)
    return out


def replay(case) -> bool:
    H = _harness()
    cls = case.get("class")
    if cls == "synthetic-name-collision":
        c = {k: v for k, v in case.items() if k not in ("class", "name")}
        return _collides(c["decls"]) and bool(H._eval_case(c))
    return H.replay(case)


if __name__ == "__main__":
    drv = sys.argv[1] if len(sys.argv) > 1 else os.path.join(os.path.dirname(os.path.abspath(__file__)), ".lake/build/bin/driver")
    r = run(1, float(sys.argv[2]) if len(sys.argv) > 2 else 1.0, drv)
    print(json.dumps({k: r[k] for k in ("comparisons", "nontrivial", "distribution")}, indent=1))
    for d in r["disagreements"][:3]:
        print(json.dumps(d)[:1500])
    print(f"{len(r['disagreements'])} disagreements")
