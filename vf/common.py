"""Shared plumbing: paths, scratch hygiene, seeds, evidence, violations, known findings."""
from __future__ import annotations

import atexit
import hashlib
import json
import os
import random
import shutil
import sys
import tempfile
import time
from pathlib import Path

VERIF = Path(__file__).resolve().parent.parent
REPO = Path(os.environ.get("VERIF_REPO", "/repo")).resolve()
SRC = REPO / "src"
LEAN = VERIF / "lean"
OUT = Path(os.environ.get("VERIF_OUT_DIR", str(VERIF / "out")))
EVIDENCE = Path(os.environ.get("VERIF_EVIDENCE_DIR", str(VERIF / "evidence")))
PY = os.environ.get("VERIF_PYTHON", "/venv/bin/python")
GUARD = "PYOPENAPI_GEN_VERIF"

_scratch: Path | None = None


def scratch() -> Path:
    """Scratch directory outside /repo and /verif.  The top-level check process creates it, exports it as
    VERIF_SCRATCH_DIR (worker processes and probes reuse it) and removes it at exit.  TMPDIR is pointed at it
    because the generator appends to $TMPDIR/pyopenapi_gen_file_write_debug.log on every file write."""
    global _scratch
    if _scratch is None:
        inherited = os.environ.get("VERIF_SCRATCH_DIR")
        if inherited and Path(inherited).is_dir():
            _scratch = Path(inherited)
        else:
            base = Path(os.environ.get("VERIF_SCRATCH", "/tmp"))
            base.mkdir(parents=True, exist_ok=True)
            _scratch = Path(tempfile.mkdtemp(prefix="pogvf-", dir=str(base)))
            os.environ["VERIF_SCRATCH_DIR"] = str(_scratch)
            owner = os.getpid()

            def _cleanup(p=_scratch, owner=owner):
                if os.getpid() == owner:
                    shutil.rmtree(p, ignore_errors=True)
            atexit.register(_cleanup)
        os.environ["TMPDIR"] = str(_scratch)
        tempfile.tempdir = str(_scratch)
    return _scratch


def use_repo_src() -> None:
    """Make `import pyopenapi_gen` resolve to $VERIF_REPO/src (the working tree)."""
    p = str(SRC)
    if p in sys.path:
        sys.path.remove(p)
    sys.path.insert(0, p)
    os.environ[GUARD] = "1"


def seed() -> int:
    try:
        return int(os.environ.get("VERIF_SEED", "0"))
    except ValueError:
        return 0


def rng(tag: str = "") -> random.Random:
    return random.Random(f"{seed()}:{tag}")


def sha(s: str | bytes) -> str:
    if isinstance(s, str):
        s = s.encode("utf-8", "surrogatepass")
    return hashlib.sha256(s).hexdigest()


class Violation(Exception):
    pass


class Run:
    """One check run of one property: collects obligations, coverage, violations."""

    def __init__(self, prop: str, tier: str):
        self.prop = prop
        self.tier = tier
        self.seed = seed()
        self.t0 = time.time()
        self.cov: dict = {
            "evaluations": 0,
            "distinct_nontrivial": 0,
            "rule": "",
            "samples": [],
            "traces_validated_against_impl": 0,
            "obligations": 0,
            "discharged": 0,
            "checker_cmd": "",
            "trusted_base": [],
        }
        self.assumptions: list[str] = []
        self.violations: list[dict] = []
        self.known_hits: list[str] = []
        self.notes: list[str] = []
        self._distinct: set[str] = set()
        self.infra_errors: list[str] = []

    # ---- coverage accounting -------------------------------------------------
    def count(self, case, nontrivial: bool = True, n: int = 1) -> None:
        self.cov["evaluations"] += n
        if nontrivial:
            try:
                k = sha(json.dumps(case, sort_keys=True, default=str, ensure_ascii=True))
            except TypeError:   # mixed int/str keys (documents with integer status keys)
                k = sha(repr(case))
            if k not in self._distinct:
                self._distinct.add(k)
                self.cov["distinct_nontrivial"] += 1

    def sample(self, case, limit: int = 6) -> None:
        if len(self.cov["samples"]) < limit:
            self.cov["samples"].append(case)

    def dist(self, key: str, sub: str, n: int = 1) -> None:
        d = self.cov.setdefault("input_distribution", {}).setdefault(key, {})
        d[sub] = d.get(sub, 0) + n

    # ---- violations ----------------------------------------------------------
    def violation(self, kind: str, case, observed=None, expected=None, broken: str | None = None,
                  what: str = "") -> Path:
        OUT.mkdir(exist_ok=True)
        (OUT / "replays").mkdir(exist_ok=True)
        n = len(self.violations)
        path = OUT / "replays" / f"{self.prop}-{self.seed}-{n}.json"
        rec = {
            "property": self.prop,
            "kind": kind,
            "tier": self.tier,
            "seed": self.seed,
            "what": what,
            "case": case,
            "observed": observed,
            "expected": expected,
            "broken": broken,
            "reproduce": f"./check {self.prop} --replay {path}",
        }
        path.write_text(json.dumps(rec, indent=1, default=str, ensure_ascii=True))
        self.violations.append(rec)
        tail = " no-failing-input-found" if kind == "no-failing-input-found" else ""
        shown = path.relative_to(VERIF) if path.is_relative_to(VERIF) else path
        print(f"VIOLATION property={self.prop} replay={shown}{tail}", flush=True)
        if what:
            print(f"  ({what})", flush=True)
        return path

    def known(self, fid: str, what: str) -> None:
        line = f"KNOWN-FINDING: property={self.prop} {fid} {what}"
        if line not in self.known_hits:
            self.known_hits.append(line)
            print(line, flush=True)

    # ---- evidence ------------------------------------------------------------
    def write_evidence(self) -> None:
        EVIDENCE.mkdir(exist_ok=True)
        cov = dict(self.cov)
        if not cov.get("rule"):
            cov["rule"] = "see samples"
        ev = {
            "property_id": self.prop,
            "tier": self.tier,
            "seed": self.seed,
            "level": "proof",
            "coverage": cov,
            "assumptions": self.assumptions,
            "wall_s": round(time.time() - self.t0, 2),
            "violations": len(self.violations),
            "known_findings_reported": self.known_hits,
            "notes": self.notes,
            "infrastructure_errors": self.infra_errors,
        }
        (EVIDENCE / f"{self.prop}.json").write_text(json.dumps(ev, indent=1, default=str, ensure_ascii=True) + "\n")


def load_known_findings(prop: str) -> list[dict]:
    p = VERIF / "known_findings.json"
    if not p.exists():
        return []
    data = json.loads(p.read_text())
    return [f for f in data.get("findings", []) if f.get("property") == prop and f.get("status", "open") == "open"]
