import Pog.Model.Basic
/-
  M-http — what `HttpxTransport` (core/http_transport.py) and the auth plug-ins
  (core/auth/base.py, core/auth/plugins.py) do to ONE request before it is handed to
  `httpx.AsyncClient.request`.

  Python                                   model
  ---------------------------------------  -------------------------------------------
  dict[str, str]                           `Dict` = association list, insertion order kept
  d[k] = v                                 `dictSet`   (exact, case-SENSITIVE key; replace in place / append)
  d.update(e)                              `dictUpdate` (fold of `dictSet` in the order of `e`)
  merge_headers(d, e)  (core/auth/base.py) `dictUpdateCI` (fold of `dictSetCI`: entries whose name differs from
                                           the written one only in ASCII case are deleted, then `d[k] = v`)
  request_args (what a plug-in sees)       `RequestArgs` (absent key = `none`)
  BaseAuth.authenticate_request            `authenticate` (`ValueError` = `Except.error`)
  HttpxTransport._prepare_headers          `prepareRequest` (returned headers + the params / cookies it stores into kwargs);
                                           `prepareHeaders` = its return value for a caller without params / cookies
  kwargs of `self._client.request(...)`    `sendArgs`
  state of the plug-ins after the call     `pluginAfter` (only `OAuth2Auth.access_token` is mutable)

  ASSUMPTION: plug-ins are values — the members of a composite are distinct objects.  (The same
  `OAuth2Auth` instance listed twice in one composite would see its own refreshed token on the
  second visit; that aliasing is not modelled.)  The refresh callback is a pure function of the token.

  ASSUMPTION: header names are ASCII (httpx encodes them as ASCII and refuses anything else), so
  Python's `str.lower()` in `merge_headers` is the ASCII lower-casing `lowerA` of `ciEq`.

  TRUSTED (description of httpx 0.28.1, `_models.Headers` / `_client._merge_headers`): a header
  dict is sent entry by entry, two keys that differ only in case are two header lines; reading
  a header by name is ASCII-case-insensitive and yields all matching lines in order: `wireLookup`.
-/
namespace Pog

/-- A Python `dict[str, str]`: insertion-ordered association list.  Values built by the model
    (through `dictSet`/`dictUpdate` from `[]`) have pairwise distinct keys. -/
abbrev Dict := List (Str × Str)

/-- `d.get(k)` — exact string comparison. -/
def dictGet : Dict → Str → Option Str
  | [], _ => none
  | (k', v) :: d, k => if k' = k then some v else dictGet d k

/-- `d[k] = v` — an existing key keeps its position, a new key is appended. -/
def dictSet : Dict → Str → Str → Dict
  | [], k, v => [(k, v)]
  | (k', v') :: d, k, v => if k' = k then (k', v) :: d else (k', v') :: dictSet d k v

/-- `d.update(e)` (also `dict(pairs)` when `d = []`). -/
def dictUpdate (d : Dict) (e : Dict) : Dict := e.foldl (fun acc kv => dictSet acc kv.1 kv.2) d

def dictKeys (d : Dict) : List Str := d.map Prod.fst

/-- ASCII-case-insensitive equality of header names (`a.lower() == b.lower()`). -/
def ciEq (a b : Str) : Bool := a.map lowerA == b.map lowerA

/-- `k != name and k.lower() == name.lower()`: `k` is another spelling of the header name `name`. -/
def otherSpelling (name k : Str) : Bool := k != name && ciEq k name

/-- One entry of `merge_headers`:
    `for existing in [k for k in headers if k != name and k.lower() == name.lower()]: del headers[existing]`,
    then `headers[name] = value`. -/
def dictSetCI (d : Dict) (k v : Str) : Dict :=
  dictSet (d.filter (fun kv => !otherSpelling k kv.1)) k v

/-- `merge_headers(d, e)` (core/auth/base.py): `dictSetCI` for every entry of `e`, in the order of `e`. -/
def dictUpdateCI (d : Dict) (e : Dict) : Dict := e.foldl (fun acc kv => dictSetCI acc kv.1 kv.2) d

/-! ### the wire view (trusted description of httpx) -/

/-- All values sent under header name `name`, in order (`request.headers.get_list(name)`). -/
def wireLookup (d : Dict) (name : Str) : List Str :=
  (d.filter (fun kv => ciEq kv.1 name)).map Prod.snd

/-! ### auth plug-ins -/

inductive Err
  | valueError (msg : Str)
deriving DecidableEq, Repr

/-- `Except` has no `DecidableEq` in core; needed for the `decide` witnesses. -/
instance decEqExceptHttp {ε α : Type} [DecidableEq ε] [DecidableEq α] : DecidableEq (Except ε α)
  | .ok a, .ok b => if h : a = b then isTrue (by rw [h]) else isFalse (fun h' => h (Except.ok.inj h'))
  | .error a, .error b => if h : a = b then isTrue (by rw [h]) else isFalse (fun h' => h (Except.error.inj h'))
  | .ok _, .error _ => isFalse (fun h => by cases h)
  | .error _, .ok _ => isFalse (fun h => by cases h)

/-- The `request_args` dict as the plug-ins use it: only the keys `headers`, `params`, `cookies`
    are ever read or written. -/
structure RequestArgs where
  headers : Option Dict := none
  params : Option Dict := none
  cookies : Option Dict := none
deriving DecidableEq, Repr

inductive Plugin
  /-- `BearerAuth(token)` -/
  | bearer (tok : Str)
  /-- `HeadersAuth(headers)` -/
  | headers (h : Dict)
  /-- `ApiKeyAuth(key, location, name)` -/
  | apiKey (key location name : Str)
  /-- `OAuth2Auth(access_token, refresh_callback)`; the awaited callback is a pure function. -/
  | oauth2 (tok : Str) (refresh : Option (Str → Str))
  /-- `CompositeAuth(*plugins)` -/
  | composite (ps : List Plugin)

def hAuthorization : Str := "Authorization".toList
def bearerValue (tok : Str) : Str := "Bearer ".toList ++ tok
def locHeader : Str := "header".toList
def locQuery : Str := "query".toList
def locCookie : Str := "cookie".toList
def badLocationMsg (loc : Str) : Str := "Invalid API key location: ".toList ++ loc

/-- `OAuth2Auth`: `new = await cb(tok); if new and new != tok: tok = new` — the token used for
    this request (and stored for the next one). -/
def effToken (tok : Str) : Option (Str → Str) → Str
  | none => tok
  | some cb => if cb tok ≠ [] ∧ cb tok ≠ tok then cb tok else tok

/-- `headers = dict(request_args.get("headers", {})); merge_headers(headers, {k: v});
    request_args["headers"] = headers` -/
def RequestArgs.setHeader (a : RequestArgs) (k v : Str) : RequestArgs :=
  { a with headers := some (dictSetCI (a.headers.getD []) k v) }

mutual
/-- `plugin.authenticate_request(request_args)`. -/
def authenticate : Plugin → RequestArgs → Except Err RequestArgs
  | .bearer tok, a => .ok (a.setHeader hAuthorization (bearerValue tok))
  | .headers h, a => .ok { a with headers := some (dictUpdateCI (a.headers.getD []) h) }
  | .apiKey key loc name, a =>
    if loc = locHeader then .ok (a.setHeader name key)
    else if loc = locQuery then .ok { a with params := some (dictSet (a.params.getD []) name key) }
    else if loc = locCookie then .ok { a with cookies := some (dictSet (a.cookies.getD []) name key) }
    else .error (.valueError (badLocationMsg loc))
  | .oauth2 tok cb, a => .ok (a.setHeader hAuthorization (bearerValue (effToken tok cb)))
  | .composite ps, a => authenticateAll ps a
/-- The `for plugin in self.plugins:` loop of `CompositeAuth`. -/
def authenticateAll : List Plugin → RequestArgs → Except Err RequestArgs
  | [], a => .ok a
  | p :: ps, a =>
    match authenticate p a with
    | .ok a' => authenticateAll ps a'
    | .error e => .error e
end

mutual
/-- The exception a plug-in raises (it never depends on the request). -/
def firstErr : Plugin → Option Err
  | .apiKey _ loc _ =>
    if loc = locHeader ∨ loc = locQuery ∨ loc = locCookie then none else some (.valueError (badLocationMsg loc))
  | .composite ps => firstErrAll ps
  | _ => none
def firstErrAll : List Plugin → Option Err
  | [] => none
  | p :: ps => match firstErr p with
    | some e => some e
    | none => firstErrAll ps
end

mutual
/-- The plug-in objects after one `authenticate_request` call: `OAuth2Auth` stores the refreshed
    token; in a composite the plug-ins behind the first raising one are not reached. -/
def pluginAfter : Plugin → Plugin
  | .oauth2 tok cb => .oauth2 (effToken tok cb) cb
  | .composite ps => .composite (pluginAfterAll ps)
  | p => p
def pluginAfterAll : List Plugin → List Plugin
  | [] => []
  | p :: ps => match firstErr p with
    | some _ => pluginAfter p :: ps
    | none => pluginAfter p :: pluginAfterAll ps
end

mutual
/-- The header writes `(name, value)` a plug-in performs, in order (specification view used by
    the theorems; `authenticate` above is the model of the code). -/
def contrib : Plugin → Dict
  | .bearer tok => [(hAuthorization, bearerValue tok)]
  | .headers h => h
  | .apiKey key loc name => if loc = locHeader then [(name, key)] else []
  | .oauth2 tok cb => [(hAuthorization, bearerValue (effToken tok cb))]
  | .composite ps => contribAll ps
def contribAll : List Plugin → Dict
  | [] => []
  | p :: ps => contrib p ++ contribAll ps
end

mutual
/-- The query-parameter writes `(name, value)` a plug-in performs, in order (specification view). -/
def contribQ : Plugin → Dict
  | .apiKey key loc name => if loc = locQuery then [(name, key)] else []
  | .composite ps => contribQAll ps
  | _ => []
def contribQAll : List Plugin → Dict
  | [] => []
  | p :: ps => contribQ p ++ contribQAll ps
end

mutual
/-- The cookie writes `(name, value)` a plug-in performs, in order (specification view). -/
def contribC : Plugin → Dict
  | .apiKey key loc name => if loc = locCookie then [(name, key)] else []
  | .composite ps => contribCAll ps
  | _ => []
def contribCAll : List Plugin → Dict
  | [] => []
  | p :: ps => contribC p ++ contribCAll ps
end

/-- A `params` / `cookies` argument after a sequence of plug-in writes: untouched (even absent) without a
    write, otherwise a dict: the caller's entries updated — Python `dict` assignment, exact keys — in order. -/
def writeInto (base : Option Dict) (ws : Dict) : Option Dict :=
  if ws.isEmpty then base else some (dictUpdate (base.getD []) ws)

/-! ### the transport -/

/-- Steps 1 and 2 of `_prepare_headers`: `prepared = {}`, `if self._default_headers: merge_headers(prepared, …)`
    (`None` and `{}` are falsy), `if "headers" in kw and isinstance(kw["headers"], dict): merge_headers(prepared, …)`.
    `reqHeaders = none` covers `headers` absent, `headers=None` and any non-dict value. -/
def baseHeaders (defaults : Option Dict) (reqHeaders : Option Dict) : Dict :=
  let h0 : Dict := []
  let h1 := match defaults with
    | some d => if d.isEmpty then h0 else dictUpdateCI h0 d
    | none => h0
  match reqHeaders with
  | some r => dictUpdateCI h1 r
  | none => h1

/-- What `_prepare_headers(kwargs)` leaves behind: the headers it returns and `kwargs["params"]`,
    `kwargs["cookies"]` after the call (`none` = absent or `None`). -/
structure Prepared where
  headers : Dict
  params : Option Dict
  cookies : Option Dict
deriving DecidableEq, Repr

/-- `HttpxTransport._prepare_headers(kwargs)`; `params` / `cookies` are the caller's keyword arguments
    (`none` covers absent and `None`: `kwargs.get(key) is not None` fails for both). -/
def prepareRequest (defaults : Option Dict) (reqHeaders params cookies : Option Dict) (auth : Option Plugin)
    (bearerToken : Option Str) : Except Err Prepared :=
  let h2 := baseHeaders defaults reqHeaders
  match auth with
  | some p =>
    -- the plug-in gets `{"headers": prepared.copy()}` plus the caller's `params` / `cookies` unless they are `None` …
    match authenticate p { headers := some h2, params := params, cookies := cookies } with
    | .ok r => .ok {
        -- … `authenticated_args["headers"]` is taken back when present,
        headers := match r.headers with
          | some h => h
          | none => h2
        -- … and `if key in authenticated_args: kwargs[key] = authenticated_args[key]` for params and cookies
        params := match r.params with
          | some q => some q
          | none => params
        cookies := match r.cookies with
          | some q => some q
          | none => cookies }
    | .error e => .error e
  | none =>
    match bearerToken with
    | some t => .ok { headers := dictSetCI h2 hAuthorization (bearerValue t), params := params, cookies := cookies }
    | none => .ok { headers := h2, params := params, cookies := cookies }

/-- The return value of `_prepare_headers` for a caller that passes neither params nor cookies.  (It is the
    return value for EVERY caller: `Pog.prepareRequest_headers`.) -/
def prepareHeaders (defaults : Option Dict) (reqHeaders : Option Dict) (auth : Option Plugin)
    (bearerToken : Option Str) : Except Err Dict :=
  match prepareRequest defaults reqHeaders none none auth bearerToken with
  | .ok r => .ok r.headers
  | .error e => .error e

/-- Constructor arguments of `HttpxTransport` that matter here. -/
structure Transport where
  auth : Option Plugin := none
  bearerToken : Option Str := none
  defaultHeaders : Option Dict := none

/-- `**kwargs` of `HttpxTransport.request`; `other` stands for every remaining keyword
    (`json`, `data`, `files`, `content`, `timeout`, …) — the code never inspects them. -/
structure CallerArgs (β : Type) where
  headers : Option Dict := none
  params : Option Dict := none
  cookies : Option Dict := none
  other : β

/-- Keyword arguments of `self._client.request(method, url, **request_args)`. -/
structure SendArgs (β : Type) where
  headers : Dict
  params : Option Dict
  cookies : Option Dict
  other : β

/-- `prepared_headers = await self._prepare_headers(kwargs)` (which may store params / cookies into `kwargs`);
    `request_args = {k: v for k, v in kwargs.items() if k != "headers"}; request_args["headers"] = prepared_headers`. -/
def sendArgs {β : Type} (t : Transport) (c : CallerArgs β) : Except Err (SendArgs β) :=
  match prepareRequest t.defaultHeaders c.headers c.params c.cookies t.auth t.bearerToken with
  | .ok r => .ok { headers := r.headers, params := r.params, cookies := r.cookies, other := c.other }
  | .error e => .error e

/-- The transport after one `request` call (plug-in state). -/
def Transport.after (t : Transport) : Transport := { t with auth := t.auth.map pluginAfter }

/-! ### specification helpers -/

/-- Value of the last write to exactly the key `k` in a sequence of writes. -/
def lastWrite : Dict → Str → Option Str
  | [], _ => none
  | (k', v) :: ws, k => (lastWrite ws k).or (if k' = k then some v else none)

/-- Value of the last write to a key equal to `name` ignoring ASCII case. -/
def lastWriteCI : Dict → Str → Option Str
  | [], _ => none
  | (k', v) :: ws, name => (lastWriteCI ws name).or (if ciEq k' name then some v else none)

/-- The last write to a key equal to `name` ignoring ASCII case: the spelling it used and its value. -/
def lastWriterCI : Dict → Str → Option (Str × Str)
  | [], _ => none
  | (k', v) :: ws, name => (lastWriterCI ws name).or (if ciEq k' name then some (k', v) else none)

/-- What the transport itself contributes after defaults and per-request headers. -/
def authWrites (auth : Option Plugin) (bearerToken : Option Str) : Dict :=
  match auth with
  | some p => contrib p
  | none => match bearerToken with
    | some t => [(hAuthorization, bearerValue t)]
    | none => []

/-- The query-parameter writes of the configured plug-in (`bearer_token` writes none). -/
def queryWrites : Option Plugin → Dict
  | some p => contribQ p
  | none => []

/-- The cookie writes of the configured plug-in. -/
def cookieWrites : Option Plugin → Dict
  | some p => contribC p
  | none => []

/-- All header writes of one request, in the order they happen. -/
def allWrites (defaults reqHeaders : Option Dict) (auth : Option Plugin) (bearerToken : Option Str) : Dict :=
  defaults.getD [] ++ reqHeaders.getD [] ++ authWrites auth bearerToken

end Pog
