import Pog.Props.C02
import Pog.Props.Loader
import Pog.Props.Dc
import Pog.Lemmas.GenCode
/-
  C19 (re-ordering part) — reordering `components.schemas` (or an object's properties) changes at
  most the order of the emitted declarations: the set of models and their fields stay the same.

  FULL STATEMENT ✗:   decls ~ decls' → ∀ n, modelFields (build decls) n ≈ modelFields (build decls') n

    spec_perm_invariant                     full   the document's meaning is order-independent
    ✗ parse_perm_invariant_counterexample          User/UserGroup in the two orders
    ✗ parse_perm_invariant_depth_counterexample    A→B→C at depth limit 2 in the two orders
    ✗ parse_property_order_counterexample          swapping two properties of ONE object changes the fields
    parse_perm_invariant_of_faithful        partial  where both orders are faithful they agree
    parse_perm_invariant_partial            partial  on the DAG fragment of `C02.parse_faithful_partial` every
                                                     re-ordering of the declarations gives the same set of
                                                     models with the same fields

  C19 (key order of the `responses` mapping) — the response an operation's return type is taken from (and the arm
  that returns through it) must not depend on the order in which the keys of `responses` are written:

    primary_response_key_order_invariant    full   both copies of `_get_primary_response` (as repaired, F57) select
                                                   the same response for every permutation of the mapping's entries
    primary_response_key_order_nonvacuous   (example) two orders of 206/203/default/404
-/
/-
  C19, order of an object's `properties` and of its `required` list (Pog/Model/Dc.lean; claimed from Pog/Props/Dc.lean):
    generate_order_independent             schemas that differ only in the order of `properties` / the order or multiplicity of `required`
                                           generate the same fields, the same class body and the same key maps (or raise the same exception)
    sorted_props_is_sorted                 required properties first, each group in ascending code-point order, a permutation of the properties
-/
-- MODULE Pog.Props.C02b
-- MODULE Pog.Props.C02c
-- MODULE Pog.Props.C02d
-- INDEX Pog.C02d: model_invariant_under_permutation3
-- INDEX Pog.C02c: parse_perm_invariant_partial3
-- INDEX Pog.C02b: parse_perm_invariant_partial2
-- INDEX Pog.DcProps: sorted_props_is_sorted, sorted_props_order_independent, sorted_props_required_order_independent, generate_order_independent
/-
  C19 at the loader (Pog/Model/Loader.lean; claimed from Pog/Props/Loader.lean):
    parse_is_local                         what one operation is parsed into depends on its own node, the path-level parameters, ITS operation id
                                           and the component tables as lookup functions only: permuting the entries of
                                           components.parameters / responses / requestBodies changes nothing
    promotion_name_*                       the names requested for promoted inline schemas are functions of (operation id, code / parameter name)
-/
-- INDEX Pog.LoaderProps: parse_is_local, parse_depends_on_lookups_only, promotion_name_media, promotion_name_response, promotion_name_parameter, promotion_name_body
namespace Pog.C19
open Pog Pog.Prs Pog.Trk Pog.C02

theorem spec_perm_invariant (d d' : Decls) (hp : d.Perm d') (hn : (d.map (·.1)).Nodup) (n : Str) :
    specFields d n = specFields d' n :=
  specFields_perm hp hn n

/-- ✗ The same two schemas, declared in the two possible orders: with `User` first it is a cycle
    placeholder without fields, with `UserGroup` first it is a full model with its field. -/
theorem parse_perm_invariant_counterexample :
    userDecls.Perm userDecls.reverse ∧
    modelFields userDecls (buildSchemas 150 30 userDecls) "User".toList = some [] ∧
    modelFields userDecls.reverse (buildSchemas 150 30 userDecls.reverse) "User".toList
      = some [⟨"group".toList, false, .ref "UserGroup".toList⟩] ∧
    (∀ n ∈ userDecls.map (·.1), Faithful userDecls.reverse (buildSchemas 150 30 userDecls.reverse) n) :=
  ⟨(List.reverse_perm _).symm, by decide +kernel, by decide +kernel, by decide +kernel⟩

theorem parse_perm_invariant_depth_counterexample :
    chainDecls.Perm chainDecls.reverse ∧
    modelFields chainDecls (buildSchemas 2 30 chainDecls) "C".toList = some [] ∧
    modelFields chainDecls.reverse (buildSchemas 2 30 chainDecls.reverse) "C".toList
      = some [⟨"x".toList, false, .prim .string⟩] :=
  ⟨(List.reverse_perm _).symm, by decide +kernel, by decide +kernel⟩

/-- ✗ Reordering the PROPERTIES of one object.  `Aa = {p: Aa, q: Bb}`, `Bb = {p: Aa, q: Aa}`.  With `p`
    first everything is faithful; with `q` first, `Bb` is entered before the self reference of `Aa` has
    been seen, `Bb.p → Aa` is a two-step cycle whose balancing exit marks `Aa` COMPLETED, `Bb.q → Aa`
    then re-parses `Aa` (RETURN_EXISTING fall-through) and the copies end up in the fields: `Aa.p` and
    `Bb.q` are typed as anonymous objects instead of `Aa`. -/
theorem parse_property_order_counterexample :
    let bb : Node := cObj [("p", cRef "Aa"), ("q", cRef "Aa")]
    let d1 : Decls := [("Aa".toList, cObj [("p", cRef "Aa"), ("q", cRef "Bb")]), ("Bb".toList, bb)]
    let d2 : Decls := [("Aa".toList, cObj [("q", cRef "Bb"), ("p", cRef "Aa")]), ("Bb".toList, bb)]
    (∀ n ∈ d1.map (·.1), Faithful d1 (buildSchemas 150 30 d1) n) ∧
    modelFields d2 (buildSchemas 150 30 d2) "Aa".toList
      = some [⟨"q".toList, false, .ref "Bb".toList⟩, ⟨"p".toList, false, .obj⟩] ∧
    modelFields d2 (buildSchemas 150 30 d2) "Bb".toList
      = some [⟨"p".toList, false, .ref "Aa".toList⟩, ⟨"q".toList, false, .obj⟩] ∧
    ¬ Faithful d2 (buildSchemas 150 30 d2) "Aa".toList := by
  decide +kernel

/-- Order independence is a corollary of faithfulness: whenever the results for two orders of the
    same declarations are both faithful for `n`, they have the same fields (as sets).  So every
    fragment on which C02 holds is a fragment on which this part of C19 holds. -/
theorem parse_perm_invariant_of_faithful (d d' : Decls) (hp : d.Perm d') (hn : (d.map (·.1)).Nodup)
    (s s' : Prs.PSt) (n : Str) (h : Faithful d s n) (h' : Faithful d' s' n) :
    ∃ fs fs', modelFields d s n = some fs ∧ modelFields d' s' n = some fs' ∧ ∀ f, f ∈ fs ↔ f ∈ fs' := by
  obtain ⟨fs, h1, _, h3⟩ := h
  obtain ⟨fs', h1', _, h3'⟩ := h'
  refine ⟨fs, fs', h1, h1', fun f => ?_⟩
  rw [h3 f, h3' f, specFields_perm hp hn n]

example : Faithful userDecls.reverse (buildSchemas 150 30 userDecls.reverse) "User".toList := by
  decide +kernel

/-- `parse_perm_invariant_partial`: on the fragment `Simple` (see `C02.parse_faithful_partial`) the
    declaration order is irrelevant — both orders load without error and every name has the same set
    of fields. -/
theorem parse_perm_invariant_partial (d d' : Decls) (rank : Str → Nat) (hp : d.Perm d') (hS : Simple d rank)
    (maxDepth F : Nat) (hF : ∀ x ∈ d, rank x.1 < F) (hD : ∀ x ∈ d, rank x.1 + 1 ≤ maxDepth) :
    missing d (buildSchemas maxDepth (F + 1) d) = [] ∧ missing d' (buildSchemas maxDepth (F + 1) d') = [] ∧
    ∀ x ∈ d, ∃ fs fs', modelFields d (buildSchemas maxDepth (F + 1) d) x.1 = some fs ∧
      modelFields d' (buildSchemas maxDepth (F + 1) d') x.1 = some fs' ∧ ∀ f, f ∈ fs ↔ f ∈ fs' := by
  have h1 := parse_faithful_partial d rank hS maxDepth F hF hD
  have h2 := parse_faithful_partial d' rank (hS.perm hp) maxDepth F
    (fun x hx => hF x (hp.mem_iff.mpr hx)) (fun x hx => hD x (hp.mem_iff.mpr hx))
  refine ⟨h1.2.1, h2.2.1, fun x hx => ?_⟩
  exact parse_perm_invariant_of_faithful d d' hp hS.nodup _ _ x.1 (h1.2.2 x hx) (h2.2.2 x (hp.mem_iff.mp hx))

example : orderDecls.Perm orderDecls.reverse := (List.reverse_perm _).symm

/-! ## key order of one operation's `responses` mapping -/

open Pog.GenCode in
/-- For every list of responses with pairwise distinct status keys (they are the keys of one mapping) and every
    re-ordering of it, `ResponseStrategyResolver._get_primary_response` (return type) and
    `endpoint_utils._get_primary_response` (the `match` arm that returns) select the same response as before.
    Before the repair of F57 the steps "other 2xx" and "first response" returned the first LISTED candidate. -/
theorem primary_response_key_order_invariant (rs rs' : List Resp) (hp : rs.Perm rs')
    (hk : (rs.map (·.key.str)).Nodup) :
    primaryA rs = primaryA rs' ∧ primaryB rs = primaryB rs' := by
  have h := primaryA_perm hp hk
  exact ⟨h, by rw [← primaryA_eq_primaryB, ← primaryA_eq_primaryB, h]⟩

open Pog.GenCode in
/-- Non-vacuity + the shape that used to fail: 206 listed before 203. -/
theorem primary_response_key_order_nonvacuous :
    let a : List Resp := [⟨.num 206, []⟩, ⟨.num 203, []⟩, ⟨.default, []⟩, ⟨.num 404, []⟩]
    let b : List Resp := [⟨.num 404, []⟩, ⟨.default, []⟩, ⟨.num 203, []⟩, ⟨.num 206, []⟩]
    (a.map (·.key.str)).Nodup ∧ (primaryA a).map (·.key) = some (.num 203) ∧ (primaryA b).map (·.key) = some (.num 203) ∧
    (primaryA [⟨.num 500, []⟩, ⟨.num 404, []⟩]).map (·.key) = some (.num 404) := by
  decide +kernel

end Pog.C19
