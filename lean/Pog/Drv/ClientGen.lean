import Pog.Drv.Util
import Pog.Model.ClientGen
open Lean Pog Pog.Drv Pog.ClientGen
namespace Pog.Drv

def clientGenFns : List String := ["cgTagTuples", "cgTagTuplesTotal", "cgMockTuples", "cgVisit", "cgMock", "cgCanonical", "cgTagAttr"]

private def jtupleCG (t : TagTuple) : Json := Json.arr #[jstr t.tag, jstr t.cls, jstr t.module]

private def getTupleCG (j : Json) : Except String TagTuple := do
  let a ← j.getArr?
  pure (← getStr (← argN a 0), ← getStr (← argN a 1), ← getStr (← argN a 2))

private def jpairCG (p : Str × Str) : Json := Json.arr #[jstr p.1, jstr p.2]

private def jskelCG (s : ClassSkel) : Json :=
  Json.mkObj [("name", jstr s.name), ("bases", jstrs s.bases), ("hasInit", Json.bool s.hasInit),
    ("initParams", jstrs s.initParams), ("attrs", jstrs s.attrs), ("initBodyEmpty", Json.bool s.initBodyEmpty),
    ("props", jlist jpairCG s.props), ("methods", jstrs s.methods),
    ("survives", jlist Json.bool ((List.range s.props.length).map (propSurvives s)))]

private def jreqCG : ImportReq → Json
  | .relative m n => Json.arr #[Json.str "relative", jstr m, jstr n]
  | .logical m n => Json.arr #[Json.str "logical", jstr m, jstr n]
  | .typing t => Json.arr #[Json.str "typing", jstr t]

private def getOptStrCG (j : Json) : Except String (Option Str) :=
  if j.isNull then pure none else do pure (some (← getStr j))

def clientGenRun (f : String) (a : Array Json) (u : UInfo) : Except String Json := do
  match f with
  | "cgTagTuples" => pure (jopt (jlist jtupleCG) (tagTuplesRaw u (← getList getStrs (← argN a 0))))
  | "cgTagTuplesTotal" => pure (jlist jtupleCG (tagTuples u (← getList getStrs (← argN a 0))))
  | "cgMockTuples" => pure (jlist jtupleCG (mockTuples u (← getList getStrs (← argN a 0))))
  | "cgTagAttr" => pure (jstr (tagAttr (← getStr (← argN a 0))))   -- `ClientVisitor._tag_attr_name`
  | "cgCanonical" => pure (jstr (canonicalTag u (← getList getStrs (← argN a 0)) (← getStr (← argN a 1))))
  | "cgVisit" =>
    -- [tags of every operation, core package name, generated package name | null]
    let tagss ← getList getStrs (← argN a 0)
    let core ← getStr (← argN a 1)
    let pkg ← getOptStrCG (← argN a 2)
    match tagTuplesRaw u tagss with
    | none => pure Json.null
    | some tt =>
      pure (Json.mkObj [("tuples", jlist jtupleCG tt), ("protocol", jskelCG (protocolSkel tt)),
        ("api", jskelCG (apiClientSkel tt)), ("reqs", jlist jreqCG (visitImportReqs core pkg tt)),
        ("endpointImports", jlist jpairCG (endpointImports tt)), ("syntaxOk", Json.bool (visitSyntaxOk tt))])
  | "cgMock" =>
    let tt ← getList getTupleCG (← argN a 0)
    pure (Json.mkObj [("mock", jskelCG (mockClientSkel tt)), ("defaults", jstrs (mockDefaults tt)),
      ("reqs", jlist jreqCG mockImportReqs),
      ("textImports", jlist (fun (e : Bool × Str × Str) => Json.arr #[Json.bool e.1, jstr e.2.1, jstr e.2.2]) (mockTextImports tt)),
      ("syntaxOk", Json.bool (mockSyntaxOk tt))])
  | _ => throw s!"unknown function {f}"

def dispatchClientGen : Dispatch := fun f a u =>
  if clientGenFns.contains f then some (clientGenRun f a u) else none

end Pog.Drv
