"""C01 — every accepted spec yields a package that compiles and imports.

proof    : Pog.Props.C01 (relative-import resolution, de-collision Nodup, alias coverage, annotation evaluability)
tie      : correspondence of make_relative_import / alias sets against the Lean driver; status tables regenerated
oracle   : generate -> compile() every .py -> import every module in a fresh interpreter with the generator
           blocked -> resolve every __all__ name.
"""
from __future__ import annotations

import json
import re

from .. import e2e, findings
from ..common import Run, rng
from ..gen import spec as gs

PROP = "C01"

LAYOUTS = [
    ("client", None), ("pkg.client", None), ("a.b.client", None),
    ("client", "core"), ("pkg.client", "pkg.core"), ("a.b.client", "a.b.core"), ("a.client", "shared.core"),
]
STRATEGIES = ["operationId", "clean", "path"]


def case_fn(case: dict, d):
    root = d / "proj"
    # C01 quantifies over every generation that returns normally, whatever this process and this output directory have seen before:
    # `history` = documents generated first, in this process, into the same place (the last generation is the one that is judged)
    for k, prev in enumerate(case.get("history", [])):
        e2e.generate(prev, root, package=case["package"], core=case.get("core"), strategy=case.get("strategy", "operationId"),
                     spec_path=None, force=True, fmt="json")
        if case.get("wipe_between") and k == len(case["history"]) - 1:
            import shutil
            shutil.rmtree(root, ignore_errors=True)
    g = e2e.generate(case["doc"], root, package=case["package"], core=case.get("core"), strategy=case.get("strategy", "operationId"))
    if not g["ok"]:
        return {"gen_ok": False, "gen_error": g["error"]}
    import os
    missing = sorted({os.path.relpath(f, root) for f in g["files"] if not os.path.exists(f)})
    syn = e2e.syntax_errors(root)
    pr = e2e.probe(root, case["package"], case.get("core"), ["import_all"])
    return {"gen_ok": True, "syntax": syn, "probe": pr, "nfiles": len(g["files"]), "missing_files": missing}


# ------------------------------------------------------------------------------------------------ classification
def doc_features(doc: dict) -> dict:
    """Decidable input features used to attribute a failure to a recorded finding."""
    schemas = doc.get("components", {}).get("schemas", {})
    refs: dict[str, set] = {n: set() for n in schemas}
    direct_opt_self = set()

    inline_self = set()

    def walk(n, s, path_kinds, top_props_required=None):
        if not isinstance(s, dict):
            return
        if "$ref" in s:
            t = s["$ref"].rsplit("/", 1)[-1]
            refs[n].add(t)
            if t == n and path_kinds not in (["prop"], ["prop", "items"]):
                inline_self.add(n)      # self reference from inside a promoted inline object: a module cycle
            return
        for k in ("items", "additionalProperties"):
            if isinstance(s.get(k), dict):
                walk(n, s[k], path_kinds + [k])
        for k in ("allOf", "oneOf", "anyOf"):
            for m in s.get(k, []) or []:
                walk(n, m, path_kinds + [k])
        for pn, ps in (s.get("properties") or {}).items():
            if isinstance(ps, dict) and ps.get("$ref", "").endswith("/" + n) and pn not in (s.get("required") or []):
                direct_opt_self.add(n)
            if isinstance(ps, dict) and ps.get("nullable") and isinstance(ps.get("allOf"), list):
                pass
            walk(n, ps, path_kinds + ["prop"])

    for n, s in schemas.items():
        walk(n, s, [])
    # mutual references (cycle of length >= 2 through any edge kind)
    def reach(a, seen=None):
        seen = seen or set()
        for b in refs.get(a, ()):  # noqa
            if b not in seen and b in refs:
                seen.add(b)
                reach(b, seen)
        return seen
    mutual = any(a in reach(b) for a in refs for b in refs[a] if b != a and b in refs) or bool(inline_self)
    self_direct = {n for n in refs if n in refs[n]}
    statuses = set()
    nops = 0
    dup_params = False
    for p, item in (doc.get("paths") or {}).items():
        plevel = item.get("parameters", []) if isinstance(item, dict) else []
        for m, op in item.items():
            if m == "parameters" or not isinstance(op, dict):
                continue
            nops += 1
            for c in (op.get("responses") or {}):
                statuses.add(str(c))
            names = [re.sub(r"[^a-z0-9]+", "_", re.sub(r"([a-z0-9])([A-Z])", r"\1_\2", q.get("name", "")).lower()).strip("_")
                     for q in list(plevel) + list(op.get("parameters", []))]
            if len(set(names)) != len(names):
                dup_params = True
    from ..gen.spec import is_stream_content
    stream_other = False
    tagsets: dict[str, set] = {}
    for p, item in (doc.get("paths") or {}).items():
        for m, op in (item.items() if isinstance(item, dict) else []):
            if m == "parameters" or not isinstance(op, dict):
                continue
            rs = op.get("responses") or {}
            has_stream = any(isinstance(v, dict) and is_stream_content(v.get("content")) for v in rs.values())
            n_ret = sum(1 for c, v in rs.items() if (str(c).isdigit() and 200 <= int(c) < 300) or str(c) == "default")
            if has_stream and n_ret >= 2:
                stream_other = True
            for t in op.get("tags") or []:
                tagsets.setdefault(re.sub(r"[\W_]+", "", t).lower(), set()).add(t)
    prop_names = set()
    for s in schemas.values():
        for part in [s] + list(s.get("allOf", []) if isinstance(s, dict) else []):
            if isinstance(part, dict):
                prop_names |= set((part.get("properties") or {}).keys())
    return {
        "optional_self_ref": bool(direct_opt_self),
        "self_ref_direct": bool(self_direct),
        "mutual_refs": mutual,
        "non_error_non_2xx_status": any(c.isdigit() and not (200 <= int(c) < 300) and not (400 <= int(c) < 600) for c in statuses),
        "zero_operations": nops == 0,
        "enum_default_unsafe": any(isinstance(sc, dict) and "enum" in sc and isinstance(sc.get("default"), str)
                                   and not re.fullmatch(r"[A-Za-z][A-Za-z0-9 _-]*", sc["default"]) for sc in _all_schemas(doc)),
        "stream_with_other_2xx": stream_other,
        "tag_spelling_variants": any(len(v) > 1 for v in tagsets.values()),
        "dup_params": dup_params,
        "prop_named_like_temporal_type": bool(prop_names & {"date", "datetime"}),
        "shadowing_props": bool(prop_names & {"field", "date", "datetime", "dataclass", "List", "Any", "Dict"}),
    }


def _all_schemas(doc):
    out = []

    def walk(x):
        if isinstance(x, dict):
            out.append(x)
            for v in x.values():
                walk(v)
        elif isinstance(x, list):
            for v in x:
                walk(v)
    walk(doc.get("components", {}))
    walk(doc.get("paths", {}))
    return out


def classify(case: dict, res: dict) -> list[tuple[str | None, str, dict]]:
    """-> list of (finding id or None, description, detail) for every failure observed on this case."""
    out = []
    if not res.get("gen_ok"):
        return out
    feats = doc_features(case["doc"])
    probs = []
    for s in res.get("syntax", []):
        probs.append(("syntax", s["file"], s["error"] + " | " + s.get("line", "")))
    if res.get("missing_files"):
        probs.append(("missing-file", res["missing_files"][0], f"generate_client reported {len(res['missing_files'])} file(s) that do not exist afterwards: "
                      + ", ".join(res["missing_files"][:4])))
    pr = res.get("probe", {})
    if "probe_error" in pr:
        probs.append(("probe", "probe", json.dumps(pr)[:300]))
    ia = pr.get("import_all", {}) if isinstance(pr, dict) else {}
    if "fatal" in ia:
        probs.append(("probe", "import_all", json.dumps(ia)[:300]))
    for e in ia.get("errors", []):
        probs.append(("import", e["module"], f"{e['type']}: {e['msg']}"))
    for u in ia.get("unresolved_all", []):
        probs.append(("all", u["module"], u["name"]))
    for f in ia.get("foreign", []):
        probs.append(("foreign", f, "imports a module outside stdlib/httpx/cattrs/the package"))
    for kind, where, msg in probs:
        fid = None
        # (F53 enum defaults, F31 zero operations, F3 non-error statuses, F35 streamed response next to another 2xx, F23 tag spelling
        #  variants are repaired: no attribution - a branch for a repaired finding would only shadow the attribution of a listed one)
        if False:
            pass
        elif kind == "import" and feats["mutual_refs"] and ("partially initialized module" in msg or "circular import" in msg
                                                               or "No module named" in msg or "cannot import name" in msg):
            fid = "F2"
        elif kind == "import" and feats.get("prop_named_like_temporal_type") and "unsupported operand type(s) for |" in msg:
            fid = "F67"
        # F4 (a parameter declared at path level and again at operation level -> duplicate argument), F5 (a property `field` shadowing
        # dataclasses.field), F35 (a streamed response next to another 2xx response -> 'return' with value in async generator) and F23 (two
        # spellings of a tag -> duplicate argument of MockAPIClient.__init__) are repaired: `dup_params` / `shadowing_props` /
        # `stream_with_other_2xx` / `tag_spelling_variants` stay in the features for the record, a recurrence is a violation
        out.append((fid, f"{kind} {where}: {msg}", {"kind": kind, "where": where, "msg": msg, "features": feats}))
    return out


def make_cases(ctx, r) -> list[dict]:
    cases = []
    n_main = ctx.budget(48, 480)
    for i in range(n_main):
        o = gs.Opts(mainstream=True, defaults=(i % 2 == 0), colliding_names=(i % 3 == 2), unions=(i % 4 == 0), streaming=(i % 5 == 0), tag_variants=False, multi_tags=(i % 3 == 0),
                    multi_content=(i % 6 == 0), cookie_params=(i % 7 == 0), array_params=(i % 4 == 1))
        rr = rng(f"C01:main:{i}")
        pkg, core = LAYOUTS[i % len(LAYOUTS)]
        cases.append({"id": f"main-{i}", "stream": "mainstream", "doc": gs.gen_spec(rr, o), "package": pkg, "core": core,
                      "strategy": STRATEGIES[i % 3]})
    n_wide = ctx.budget(32, 320)
    for i in range(n_wide):
        o = gs.Opts(mainstream=False, cycles=(i % 2 == 0), prefix_names=(i % 3 == 0), unions=True, redirects=(i % 4 == 0), defaults=(i % 2 == 1),
                    no_ops=(i % 8 == 0), streaming=(i % 4 == 1), multi_content=True, cookie_params=True, multi_tags=True, tag_variants=True,
                    dup_opids=True, formats=("date-time", "date", "byte", "uuid", "time"))
        rr = rng(f"C01:wide:{i}")
        pkg, core = LAYOUTS[(i * 3) % len(LAYOUTS)]
        cases.append({"id": f"wide-{i}", "stream": "wide", "doc": gs.gen_spec(rr, o), "package": pkg, "core": core,
                      "strategy": STRATEGIES[i % 3]})
    # histories: the judged generation is the second (or third) one of this process into the same output directory
    n_hist = ctx.budget(16, 120)
    for i in range(n_hist):
        o = gs.Opts(mainstream=True, defaults=(i % 2 == 0), unions=(i % 4 == 0), streaming=(i % 5 == 0), multi_tags=(i % 3 == 0))
        rr = rng(f"C01:hist:{i}")
        pkg, core = LAYOUTS[i % len(LAYOUTS)]
        doc = gs.gen_spec(rr, o)
        prev = doc if i % 3 == 0 else gs.gen_spec(rng(f"C01:hist-prev:{i}"), o)      # the same document again, or an earlier version of the API
        hist = [prev] if i % 4 else [prev, doc]
        cases.append({"id": f"hist-{i}", "stream": "history", "doc": doc, "history": hist, "wipe_between": (i % 5 == 4), "package": pkg, "core": core,
                      "strategy": STRATEGIES[i % 3]})
    # the former witnesses of repaired findings (F4: a parameter declared at path level AND at operation level; F5: an optional property
    # `field` before an array property) and the same features injected into generated documents: always run, a failure is a violation
    for fid in FORMER:
        cases.append({"id": f"former-{fid}", "stream": "former-witness", "doc": witness_doc(fid), "package": "pkg.client", "core": None,
                      "strategy": "operationId"})
    n_inj = ctx.budget(8, 60)
    for i in range(n_inj):
        rr = rng(f"C01:inject:{i}")
        o = gs.Opts(mainstream=True, defaults=(i % 2 == 0), path_level_params=True, cookie_params=(i % 3 == 0), array_params=(i % 4 == 1))
        doc = gs.gen_spec(rr, o)
        kinds = []
        if i % 2 == 0 and inject_param_override(doc, rr):
            kinds.append("override")
        if i % 2 == 1 or i % 4 == 0:
            if inject_field_property(doc, rr):
                kinds.append("field")
        if not kinds:
            continue
        pkg, core = LAYOUTS[i % len(LAYOUTS)]
        cases.append({"id": f"inject-{i}-{'+'.join(kinds)}", "stream": "former-witness", "doc": doc, "package": pkg, "core": core,
                      "strategy": STRATEGIES[i % 3]})
    return cases


FORMER = ("F4", "F5", "F35", "F23")       # repaired findings whose witnesses stay in the case list


def inject_param_override(doc: dict, rr) -> bool:
    """Declare one parameter of an operation at path level too (same name, same `in`; the path-level copy with another schema or
    `required`): OpenAPI's override.  -> False when no operation of the document has an inline parameter."""
    import copy
    cands = []
    for p, item in doc.get("paths", {}).items():
        if not isinstance(item, dict):
            continue
        for m, op in item.items():
            if m == "parameters" or not isinstance(op, dict):
                continue
            for q in op.get("parameters", []):
                if isinstance(q, dict) and "$ref" not in q and "name" in q:
                    cands.append((item, q))
    if not cands:
        return False
    item, q = rr.choice(cands)
    c = copy.deepcopy(q)
    if rr.random() < 0.5 and c.get("in") != "path":
        c["schema"] = {"type": "integer"}
        c["required"] = not c.get("required", False)
    pl = item.setdefault("parameters", [])
    if any(isinstance(x, dict) and x.get("name") == c["name"] and x.get("in") == c.get("in") for x in pl):
        return True
    pl.append(c)
    return True


def inject_field_property(doc: dict, rr) -> bool:
    """Give one object schema an OPTIONAL property `field` (or a spelling that sanitises to it) and an array property after it."""
    objs = [s for s in doc.get("components", {}).get("schemas", {}).values()
            if isinstance(s, dict) and s.get("type") == "object" and isinstance(s.get("properties"), dict) and "allOf" not in s]
    if not objs:
        return False
    s = rr.choice(objs)
    s["properties"][rr.choice(["field", "field", "Field", "FIELD"])] = rr.choice([{"type": "string"}, {"type": "integer", "default": 3}, {"type": "boolean"}])
    s["properties"]["labels"] = {"type": "array", "items": {"type": "string"}}
    if "required" in s:
        s["required"] = [k for k in s["required"] if k not in ("field", "Field", "FIELD", "labels")]
    return True


WITNESSES = {
    "F1": {"components": {"schemas": {"Node": {"type": "object", "properties": {"next": {"$ref": "#/components/schemas/Node"}, "v": {"type": "integer"}}}}}},
    "F2": {"components": {"schemas": {"Pet": {"type": "object", "properties": {"owner": {"$ref": "#/components/schemas/Owner"}}},
                                       "Owner": {"type": "object", "properties": {"pets": {"type": "array", "items": {"$ref": "#/components/schemas/Pet"}}}}}}},
}


def former_witness_cases() -> list[dict]:
    """Inputs that used to trigger a finding that is repaired by now (no attribution: a recurrence is a violation).
    F1: an optional self reference - one, two beside a required field, next to required / array self references."""
    ref = {"$ref": "#/components/schemas/Node"}
    variants = {
        "F1-direct": WITNESSES["F1"]["components"]["schemas"]["Node"],
        "F1-two-optional": {"type": "object", "required": ["v"], "properties": {"left": ref, "right": ref, "v": {"type": "integer"}}},
        "F1-mixed": {"type": "object", "required": ["head"],
                     "properties": {"head": ref, "parent": ref, "children": {"type": "array", "items": ref}, "v": {"type": "string"}}},
    }
    out = []
    for i, (vid, node) in enumerate(variants.items()):
        doc = witness_doc("F1")
        doc["components"] = {"schemas": {"Node": node}}
        pkg, core = LAYOUTS[(2 * i + 1) % len(LAYOUTS)]
        out.append({"id": f"former-{vid}", "stream": "former-witness", "doc": doc, "package": pkg, "core": core, "strategy": STRATEGIES[i % 3]})
    return out


def witness_doc(fid: str) -> dict:
    base = {"openapi": "3.0.3", "info": {"title": "W", "version": "1"}, "paths": {"/x": {"get": {"operationId": "getX", "responses": {"200": {"description": "ok"}}}}},
            "components": {"schemas": {}}}
    if fid in WITNESSES:
        base["components"] = WITNESSES[fid]["components"]
        n = next(iter(base["components"]["schemas"]))
        base["paths"]["/x"]["get"]["responses"]["200"]["content"] = {"application/json": {"schema": {"$ref": f"#/components/schemas/{n}"}}}
    if fid == "F3":
        base["paths"]["/x"]["get"]["responses"]["302"] = {"description": "moved"}
    if fid == "F31":
        base["paths"] = {}
    if fid == "F4":
        base["paths"] = {"/x/{id}": {"parameters": [{"name": "id", "in": "path", "required": True, "schema": {"type": "string"}}],
                                     "get": {"operationId": "getX", "parameters": [{"name": "id", "in": "path", "required": True, "schema": {"type": "string"}}],
                                             "responses": {"200": {"description": "ok"}}}}}
    if fid == "F35":
        base["paths"]["/x"]["get"]["responses"] = {"200": {"description": "s", "content": {"text/event-stream": {"schema": {"type": "object"}}}},
                                                   "204": {"description": "nothing"}}
    if fid == "F23":
        base["paths"]["/x"]["get"]["tags"] = ["Data Sources"]
        base["paths"]["/y"] = {"get": {"operationId": "getY", "tags": ["data_sources"], "responses": {"200": {"description": "ok"}}}}
    if fid == "F53":
        base["components"]["schemas"] = {"Level": {"type": "string", "enum": ["N/A", "low"], "default": "N/A"},
                                         "Rec": {"type": "object", "properties": {"level": {"$ref": "#/components/schemas/Level"}}}}
        base["paths"]["/x"]["get"]["responses"]["200"]["content"] = {"application/json": {"schema": {"$ref": "#/components/schemas/Rec"}}}
    if fid == "F67":
        base["components"]["schemas"] = {"Event": {"type": "object", "required": ["start"], "properties": {
            "start": {"type": "string", "format": "date"}, "date": {"type": "string", "format": "date"}, "end": {"type": "string", "format": "date"}}}}
        base["paths"]["/x"]["get"]["responses"]["200"]["content"] = {"application/json": {"schema": {"$ref": "#/components/schemas/Event"}}}
    if fid == "F5":
        base["components"]["schemas"] = {"Rec": {"type": "object", "properties": {"field": {"type": "string"}, "tags": {"type": "array", "items": {"type": "string"}}}}}
        base["paths"]["/x"]["get"]["responses"]["200"]["content"] = {"application/json": {"schema": {"$ref": "#/components/schemas/Rec"}}}
    return base


def check(run: Run, ctx) -> None:
    r = rng("C01")
    known = findings.Known(run, PROP)
    run.cov["rule"] = ("oracle: seeded structured documents (schema graphs, operations with parameters in every location, bodies, "
                       "several responses) x 7 package/core layouts x 3 naming strategies; each generated package is compiled file "
                       "by file and every module imported in a fresh interpreter with the generator blocked; a case is distinct by "
                       "its document+layout hash and non-trivial when generation succeeded and produced at least one model or endpoint module")
    corr(run, ctx)
    cases = former_witness_cases() + make_cases(ctx, r)
    # witnesses of recorded findings are replayed first
    wcases = [{"id": f"witness-{fid}", "stream": "witness", "doc": witness_doc(fid), "package": "pkg.client", "core": None, "strategy": "operationId", "fid": fid}
              for fid in known.entries]
    results = e2e.run_cases("vf.props.C01:case_fn", wcases + cases)
    replayed = {}
    for case, res in zip(wcases + cases, results):
        if "infra_error" in res:
            run.infra_errors.append(res["infra_error"])
            continue
        run.dist("stream", case["stream"])
        run.dist("layout", f"{case['package']}|{case.get('core')}")
        if not res.get("gen_ok"):
            run.dist("generation", "rejected")
            run.count({"doc": case["doc"], "pkg": case["package"]}, nontrivial=False)
            continue
        run.dist("generation", "accepted")
        nmods = len(res.get("probe", {}).get("import_all", {}).get("modules", [])) if isinstance(res.get("probe"), dict) else 0
        run.count({"doc": case["doc"], "pkg": case["package"], "core": case.get("core")}, nontrivial=nmods > 12)
        run.cov["traces_validated_against_impl"] += 1
        fails = classify(case, res)
        if case["stream"] == "witness":
            replayed[case["fid"]] = bool(fails)
            if fails:
                run.known(case["fid"], known.entries[case["fid"]]["what"])
            continue
        if not fails:
            run.sample({"id": case["id"], "package": case["package"], "core": case.get("core"), "strategy": case["strategy"],
                        "paths": list(case["doc"]["paths"])[:4], "schemas": list(case["doc"]["components"]["schemas"]), "modules_imported": nmods}, limit=5)
        for fid, desc, detail in fails:
            if fid and known.listed(fid):
                known.hit(fid, {"id": case["id"], "desc": desc})
            else:
                run.violation("input", {"doc": case["doc"], "package": case["package"], "core": case.get("core"), "strategy": case["strategy"],
                                        **({"history": case["history"], "wipe_between": case.get("wipe_between", False)} if case.get("history") else {})},
                              observed=desc, expected="every emitted module compiles and imports", what=desc[:300])
                break
    run.cov["known_findings_replayed"] = replayed
    known.report_unreplayed()


def corr(run: Run, ctx) -> None:
    """Correspondence of the modelled mechanisms: relative imports (refereed by importlib.util.resolve_name), annotation
    formatting (refereed by eval), alias coverage."""
    from . import _generic as g
    g.run_corr(run, ctx, "vf.corr.c01", "Imports/Annot/AliasCover", quick=0.5, thorough=4.0)
    # the schema type resolver: annotation text, flags and the ordered add_import requests of the REAL OpenAPISchemaResolver on random
    # IRSchema trees vs Pog.Resolve; oracle = names of the annotation (ast) are builtins or were requested.  The two bare-return hazards
    # proved as counterexamples are function-level (no document was ever shown to reach them): informational.
    # the dataclass body: field order / defaults / names of the REAL DataclassGenerator vs Pog.Dc; the enum-default classes are F53
    g.run_corr(run, ctx, "vf.corr.dc", "Dc (DataclassGenerator.generate vs Pog.Dc)", quick=0.25, thorough=2.5)
    g.run_oracle(run, ctx, g.Informational(findings.Known(run, PROP)), "vf.corr.dc", "dataclass body on the real generator (defaults last, one field per property, defaults evaluate)",
                 {"dc-enum-default-member-missing": "F53", "dc-enum-default-wrong-member": "F53", "dc-enum-default-int-member-missing": "F53", "dc-str-default-astral": "-F25-cell", "dc-float-default-nonfinite": "-hazard", "dc-default-factory-text-crash": "-hazard"}, quick=0.2, thorough=2.0)
    g.run_corr(run, ctx, "vf.corr.resolve", "Resolve (OpenAPISchemaResolver vs Pog.Resolve)", quick=0.3, thorough=3.0)
    g.run_oracle(run, ctx, g.Informational(findings.Known(run, PROP)), "vf.corr.resolve", "annotation names are imported (real resolver)",
                 {"resolve.named_no_stem_no_import": "-hazard", "resolve.string_enum_no_import": "-hazard"}, quick=0.3, thorough=3.0)


def search(run: Run, ctx) -> None:
    check(run, ctx)


def replay(run: Run, ctx, rec) -> bool:
    case = rec["case"]
    res = e2e.run_cases("vf.props.C01:case_fn", [case], workers=1)[0]
    return bool(res.get("gen_ok") and classify(case, res))
