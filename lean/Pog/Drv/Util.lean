import Lean.Data.Json
import Pog.Model.Names
/-
  Shared JSON helpers for the line-protocol driver.
-/
open Lean
namespace Pog.Drv

def jstr (s : Str) : Json := Json.str (String.ofList s)
def jstrs (xs : List Str) : Json := Json.arr (xs.map jstr).toArray
def jopt (f : α → Json) : Option α → Json
  | some a => f a
  | none => Json.null
def jlist (f : α → Json) (xs : List α) : Json := Json.arr (xs.map f).toArray
def jnat (n : Nat) : Json := Json.num (JsonNumber.fromNat n)
def jint (n : Int) : Json := Json.num (JsonNumber.fromInt n)

def getStr (j : Json) : Except String Str := do
  let s ← j.getStr?
  pure s.toList

def getStrs (j : Json) : Except String (List Str) := do
  let a ← j.getArr?
  a.toList.mapM getStr

def getList (f : Json → Except String α) (j : Json) : Except String (List α) := do
  let a ← j.getArr?
  a.toList.mapM f

def getNat (j : Json) : Except String Nat := j.getNat?
def getInt (j : Json) : Except String Int := j.getInt?
def getBool (j : Json) : Except String Bool := j.getBool?

def argN (args : Array Json) (i : Nat) : Except String Json :=
  match args[i]? with
  | some j => pure j
  | none => throw s!"missing arg {i}"

/-- Build a `UInfo` from the harness-provided table for the non-ASCII characters of the input. -/
def mkUInfo (j : Option Json) : UInfo :=
  match j with
  | none => UInfo.ascii
  | some tbl =>
    let look (c : Char) : Option Json := (tbl.getObjVal? (toString c.toNat)).toOption
    { word := fun c => match look c with
        | some e => (e.getObjValAs? Bool "w").toOption.getD false
        | none => false
      digit := fun c => match look c with
        | some e => (e.getObjValAs? Bool "d").toOption.getD false
        | none => false
      lower := fun c => match look c with
        | some e => ((e.getObjValAs? String "l").toOption.map String.toList).getD [c]
        | none => [c]
      upper := fun c => match look c with
        | some e => ((e.getObjValAs? String "U").toOption.map String.toList).getD [c]
        | none => [c]
      isupper := fun c => match look c with
        | some e => (e.getObjValAs? Bool "iu").toOption.getD false
        | none => false }

/-- A per-model dispatcher: `none` = "not my function". -/
abbrev Dispatch := String → Array Json → UInfo → Option (Except String Json)

end Pog.Drv
