"""C08 — parsing cyclic and deep schema graphs terminates with balanced state."""
from __future__ import annotations

from .. import findings
from . import _generic as g, _parser

PROP = "C08"


def check(run, ctx) -> None:
    known = findings.Known(run, PROP)
    _parser.run(run, ctx, PROP, known)
    known.report_unreplayed()


def search(run, ctx) -> None:
    check(run, ctx)


def replay(run, ctx, rec) -> bool:
    return g.replay_generic(rec)
