#!/venv/bin/python
"""C15 — "spec text can never alter the structure of generated code".

run()    correspondence of the Lean models with the real code:
           (a) M-pylex (Pog/Model/PyLex.lean) against CPython as referee (ast.parse / tokenize / literal_eval);
           (b) every sink renderer of Pog/Model/Sinks.lean against the REAL renderer of pyopenapi_gen
               (PythonConstructRenderer.render_enum / render_dataclass / render_alias, DataclassGenerator.
               _get_field_default, json.dumps, EndpointUrlArgsGenerator, DocumentationWriter, ClientVisitor …):
               the rendered TEXT is compared.  textwrap.TextWrapper.wrap / textwrap.dedent are recorded while the
               real code runs and handed to the model as tables (they are parameters of the model).
oracle() the property itself on the whole generator: position x payload matrix.
replay() one oracle case again.
"""
from __future__ import annotations

import ast
import io
import json
import os
import random
import shutil
import subprocess
import sys
import tempfile
import tokenize
import warnings

HERE = os.path.dirname(os.path.abspath(__file__))
DEFAULT_DRIVER = os.path.join(HERE, ".lake", "build", "bin", "driver")

# ------------------------------------------------------------------------------------------------ payloads
LONG = "lorem-ipsum dolor sit amet " * 9
HOSTILE = [
    '"', "'", "\\", "\\\\", "\n", "\\n", "\r", "\r\n", "\\r", '"""', "'''", '""', "{", "}", "{x}", "#", "\x00", "\x0c",
    "\x0b", "\u2028", "\u0085", "\x1c", "é", "漢", "😀", "\\N{DASH}", "\\N{EN DASH}", "\\u0041", "\\x41", "\\x4", "\\u12",
    "\\U0001F600", "\\U00110000", "\\ud83d", "\\101", "\\777", "\\0", "\\8", "\\d", "\\'", '\\"', "\\\n", "\\\r", "\t", " ",
    "  ", "-", "--", "a-b", "\x7f", "\xa0", "\ufeff", "\\x", "\\u", "\\U", "\\N", "\\N{", "$", "%s", "`",
]
WORDS = ["a", "b", "id", "name", "the", "value", "of", "x1", "User", "list", "pets", "Z", "0", "foo_bar", "is", "ok"]


def rand_unicode(rng: random.Random) -> str:
    while True:
        r = rng.random()
        if r < 0.3:
            n = rng.randrange(0x20, 0x7F)
        elif r < 0.5:
            n = rng.randrange(0x80, 0x800)
        elif r < 0.8:
            n = rng.randrange(0x800, 0x10000)
        else:
            n = rng.randrange(0x10000, 0x110000)
        if 0xD800 <= n <= 0xDFFF:
            continue
        return chr(n)


def rand_text(rng: random.Random, hostile: float = 0.5, maxparts: int = 6) -> str:
    parts = []
    for _ in range(rng.randrange(0, maxparts + 1)):
        r = rng.random()
        if r < hostile:
            parts.append(rng.choice(HOSTILE))
        elif r < hostile + 0.1:
            parts.append(rand_unicode(rng))
        elif r < hostile + 0.13:
            parts.append(LONG[: rng.randrange(20, len(LONG))])
        else:
            parts.append(rng.choice(WORDS))
        if rng.random() < 0.25:
            parts.append(" ")
    return "".join(parts)


# ------------------------------------------------------------------------------------------------ driver
def drv_batch(driver: str, reqs: list[dict]) -> list:
    if not reqs:
        return []
    data = "".join(json.dumps(r, ensure_ascii=True) + "\n" for r in reqs)
    p = subprocess.run([driver], input=data, capture_output=True, text=True, timeout=900)
    if p.returncode != 0:
        raise RuntimeError(f"driver exited {p.returncode}: {p.stderr[-2000:]}")
    lines = p.stdout.split("\n")
    if lines and lines[-1] == "":
        lines.pop()
    if len(lines) != len(reqs):
        raise RuntimeError(f"driver answered {len(lines)} lines for {len(reqs)} requests")
    return [json.loads(l) for l in lines]


# ------------------------------------------------------------------------------------------------ CPython as referee
def _parse(src: str):
    with warnings.catch_warnings():
        warnings.simplefilter("ignore")
        return ast.parse(src)


def _norm_nl(src: str) -> str:
    # what the compiler's reader does before tokenizing: \r\n and lone \r are line ends
    return src.replace("\r\n", "\n").replace("\r", "\n")


def _tokens(src: str):
    # the `tokenize` MODULE reads lines with a readline that only knows \n: give it the normalised text
    with warnings.catch_warnings():
        warnings.simplefilter("ignore")
        return list(tokenize.tokenize(io.BytesIO(_norm_nl(src).encode("utf-8")).readline))


def _phys_lines(src: str) -> list[str]:
    # physical lines as CPython sees them: \r\n and lone \r are line ends
    return _norm_nl(src).split("\n")


def ref_one_string(T: str, triple: bool):
    """(True, value) iff the source text T is exactly ONE non-prefixed double-quoted literal of the wanted kind
    (single-line `"…"` or `\"\"\"…\"\"\"`), judged by CPython; else (False, None)."""
    if triple:
        if not T.startswith('"""'):
            return (False, None)
    else:
        if not T.startswith('"') or T.startswith('"""'):
            return (False, None)
    try:
        m = _parse(T)
    except (SyntaxError, ValueError):
        return (False, None)
    if len(m.body) != 1 or not isinstance(m.body[0], ast.Expr):
        return (False, None)
    node = m.body[0].value
    if not isinstance(node, ast.Constant) or not isinstance(node.value, str):
        return (False, None)
    lines = _phys_lines(T)
    if node.lineno != 1 or node.col_offset != 0:
        return (False, None)
    if node.end_lineno != len(lines) or node.end_col_offset != len(lines[-1].encode("utf-8")):
        return (False, None)  # something (blank, comment, newline) after the literal
    try:
        toks = _tokens(T)
    except (tokenize.TokenError, SyntaxError, ValueError):
        return (False, None)
    if sum(1 for t in toks if t.type == tokenize.STRING) != 1:
        return (False, None)  # implicit concatenation "a" "b"
    return (True, node.value)


def ref_eval_cps(T: str):
    ok, v = ref_one_string(T, triple=False)
    return [ord(c) for c in v] if ok else None


def ref_eval_str(T: str):
    cps = ref_eval_cps(T)
    if cps is None or any(0xD800 <= n <= 0xDFFF for n in cps):
        return None
    return "".join(map(chr, cps))


def ref_triple(T: str) -> bool:
    return ref_one_string(T, triple=True)[0]


def ref_comment(T: str) -> bool:
    if not T.startswith("#"):
        return False
    try:
        m = _parse(T)
        toks = _tokens(T)
    except (SyntaxError, ValueError, tokenize.TokenError):
        return False
    if m.body:
        return False
    com = [t for t in toks if t.type == tokenize.COMMENT]
    return len(com) == 1 and com[0].string == _norm_nl(T) == T


def has_named_escape(T: str) -> bool:
    return "\\N{" in T


# ------------------------------------------------------------------------------------------------ recording textwrap
class Recorder:
    """Records the real textwrap calls made by the code under test (they are parameters of the model)."""

    def __init__(self):
        self.wraps = []
        self.dedents = []
        self.unsafe = []

    def __enter__(self):
        import textwrap

        self._tw = textwrap
        self._orig_wrap = textwrap.TextWrapper.wrap
        self._orig_dedent = textwrap.dedent
        rec = self

        def wrap(wself, text):
            out = rec._orig_wrap(wself, text)
            if (wself.initial_indent == "" and wself.break_long_words and wself.break_on_hyphens
                    and set(wself.subsequent_indent) <= {" "}):
                rec.wraps.append([wself.width, len(wself.subsequent_indent), text, list(out)])
                for l in out:  # the hypothesis `WrapSafe` of the theorems
                    if any((c not in text) and c != " " for c in l):
                        rec.unsafe.append((text, out))
            return out

        def dedent(text):
            out = rec._orig_dedent(text)
            rec.dedents.append([text, out])
            if any(c not in text for c in out):
                rec.unsafe.append((text, out))
            return out

        textwrap.TextWrapper.wrap = wrap
        textwrap.dedent = dedent
        return self

    def __exit__(self, *exc):
        self._tw.TextWrapper.wrap = self._orig_wrap
        self._tw.dedent = self._orig_dedent
        return False

    def wtable(self):
        seen, out = set(), []
        for w, k, t, ls in self.wraps:
            if (w, k, t) not in seen:
                seen.add((w, k, t))
                out.append([w, k, t, ls])
        return out

    def dtable(self):
        seen, out = set(), []
        for t, o in self.dedents:
            if t not in seen:
                seen.add(t)
                out.append([t, o])
        return out


def sendable(*strings) -> bool:
    """The line protocol carries Unicode scalar values only."""
    return not any(0xD800 <= ord(c) <= 0xDFFF for s in strings for c in s)


# ------------------------------------------------------------------------------------------------ run(): correspondence
def lex_texts(rng: random.Random, n: int) -> list[tuple[str, str]]:
    """(kind, text) with kind in dq / tq / cm."""
    out = []
    esc = [p for p in HOSTILE if p.startswith("\\")] + ["\\t", "\\a", "\\b", "\\f", "\\v", "\\1", "\\12", "\\1234", "\\08",
                                                         "\\xAf", "\\uABcd", "\\U0010ffff", "\\x4g", "\\U0000004", "\\udc00"]
    for _ in range(n):
        body = []
        for _ in range(rng.randrange(0, 6)):
            r = rng.random()
            if r < 0.35:
                body.append(rng.choice(esc))
            elif r < 0.6:
                body.append(rng.choice(HOSTILE))
            elif r < 0.7:
                body.append(rand_unicode(rng))
            else:
                body.append(rng.choice(WORDS))
        b = "".join(body)
        r = rng.random()
        if r < 0.45:
            t = '"' + b + '"'
            if rng.random() < 0.12:
                t += rng.choice([" ", "\n", '"', ' "x"', "#c", "\\", "\t", "\x0c", '""'])
            if rng.random() < 0.05:
                t = rng.choice([" ", "r", "f", "b", "u", "'", "\ufeff"]) + t
            out.append(("dq", t))
        elif r < 0.8:
            t = '"""' + b + '"""'
            if rng.random() < 0.12:
                t += rng.choice([" ", "\n", '"', '""', ' "x"', "#c", "\\"])
            if rng.random() < 0.05:
                t = rng.choice([" ", "r", "f", "'"]) + t
            out.append(("tq", t))
        else:
            t = "#" + b
            if rng.random() < 0.1:
                t = rng.choice([" ", "x", ""]) + t
            out.append(("cm", t))
    return out


FIXED_LEX = [
    ("dq", t) for t in ['""', '"a"', '"a\\x41"', '"\\ud83d"', '"\\ud83d\\ude00"', '"a', 'a"', '"a"b"', '"a\\"', '"a\\\\"', '"\\\n"',
                        '"\\\r\n"', '"\\\r"', '"\\\rx"', '"a\rb"', '"a\nb"', '"\x00"', '"\\\x00"', '"\\777"', '"\\400"', '"\\8"',
                        '"\\08"', '"\\1234"', '"\\N{DASH}"', '"\\U00110000"', '"\\U0010FFFF"', '"""', '""""""', '"" ""', '"é漢😀"',
                        '"\\', '"\\1', '"\\x4', '"\\1"', '"\\12"', '"\\x41\\', '"\\u00e9"', '"\\1\\2"', '"\\1\n"', '"\\1\x00"']
] + [
    ("tq", t) for t in ['""""""', '"""a"""', '"""a""""', '"""a"""""', '"""a\\"""', '"""a\\\\"""', '"""a""b"""', '"""\n"""',
                        '"""a\rb"""', '"""\x00"""', '"""\\x4"""', '"""\\N{DASH}"""', '"""a""" ', '"""a"""\n', '"""a"', '"""\\"""',
                        '"""\\""""', '"""\\1"""', '"""\\1""""', '"""\\1\\"""', '"""a\n    b\n    """', '"""\\\r"""', '"""\\\r\n"""',
                        '"""\\U00110000"""', '"""é漢😀"""', '"""""', '""""', '"""', '""', '"', ""]
] + [("cm", t) for t in ["#", "# a", "#\n", "# a\rb", "# a\r", "# \x00", "# \x0c b", "# \u2028 b", "# \x0b", " # a", "a # b", "",
                         "# \"\"\"", "# \\", "#\x85b", "#\x1cb", "## a # b"]]


def run(seed: int = 1515, scale: float = 1.0, driver: str = DEFAULT_DRIVER) -> dict:
    rng = random.Random(seed)
    # a case = (label, [requests], assemble(answers) -> model value, expected, nontrivial)
    cases = []

    def want(label, reqs, expected, nontrivial, assemble=None):
        if isinstance(reqs, tuple):
            reqs = [reqs]
        cases.append((label, [{"f": f, "a": list(a)} for f, a in reqs], assemble or (lambda ans: ans[0]), expected, nontrivial))

    dist: dict[str, int] = {}

    def bump(k, n=1):
        dist[k] = dist.get(k, 0) + n

    named_outside = 0
    # ---------------------------------------------------------------- (a) M-pylex vs CPython
    texts = list(FIXED_LEX) + lex_texts(rng, int(16000 * scale))
    # … and the texts the sinks produce (what the theorems talk about), judged by CPython
    sink_texts = []
    for _ in range(int(7000 * scale)):
        s = rand_text(rng, hostile=0.55, maxparts=4)
        sink_texts.append(("dq", '"' + s + '"'))
        sink_texts.append(("dq", json.dumps(s)))
        sink_texts.append(("tq", '"""Alias for ' + s.replace("\\", "\\\\").replace('"""', '\\"\\"\\"') + '"""'))
        sink_texts.append(("tq", '"""Client for \'' + s + '\' endpoints."""'))
        sink_texts.append(("cm", "# " + s.replace("\n", " ")))
    for kind, t in texts + sink_texts:
        if not sendable(t):
            continue
        if kind == "dq":
            cps = ref_eval_cps(t)
            if has_named_escape(t) and cps is not None:
                named_outside += 1  # \N{VALID NAME}: outside the model (needs the Unicode name database)
                continue
            want("pylex/evalStrLitCp", ("evalStrLitCp", [t]), cps, cps is not None)
            want("pylex/evalStrLit", ("evalStrLit", [t]), ref_eval_str(t), ref_eval_str(t) is not None)
            bump("dq:" + ("value" if cps is not None else "rejected"))
            if cps is not None and any(0xD800 <= n <= 0xDFFF for n in cps):
                bump("dq:surrogate-value")
        elif kind == "tq":
            ok = ref_triple(t)
            if has_named_escape(t) and ok:
                named_outside += 1
                continue
            want("pylex/isOneTripleQuoted", ("isOneTripleQuoted", [t]), ok, ok)
            bump("tq:" + ("one-literal" if ok else "not"))
        else:
            ok = ref_comment(t)
            want("pylex/isOneCommentLine", ("isOneCommentLine", [t]), ok, ok)
            bump("cm:" + ("one-comment" if ok else "not"))
    dist["named-escape-outside-model"] = named_outside

    # ---------------------------------------------------------------- (b) sinks vs the real renderers
    scratch = tempfile.mkdtemp(prefix="c15run_", dir=os.environ.get("VERIF_SCRATCH_DIR", "/tmp"))
    old_tmp = os.environ.get("TMPDIR")
    os.environ["TMPDIR"] = scratch
    tempfile.tempdir = None
    unsafe_wraps = []
    try:
        sink_cases(rng, scale, want, bump, unsafe_wraps)
    finally:
        if old_tmp is None:
            os.environ.pop("TMPDIR", None)
        else:
            os.environ["TMPDIR"] = old_tmp
        tempfile.tempdir = None
        shutil.rmtree(scratch, ignore_errors=True)

    # ---------------------------------------------------------------- ask the model
    flat = [r for c in cases for r in c[1]]
    answers = drv_batch(driver, flat)
    disagreements = []
    n_dis = 0
    nontrivial = set()
    pos = 0
    for label, reqs, assemble, exp, nt in cases:
        ans = answers[pos:pos + len(reqs)]
        pos += len(reqs)
        try:
            got = assemble(ans)
        except Exception as e:  # a driver error object etc.
            got = {"assemble-error": repr(e), "answers": ans}
        if got != exp:
            n_dis += 1
            if len(disagreements) < 50:
                disagreements.append({"label": label, "request": reqs, "model": got, "impl": exp})
        if nt:
            nontrivial.add(label + json.dumps(reqs, sort_keys=True))
        bump("label:" + label)
    # the hypothesis of the docstring theorems, observed on every recorded textwrap call
    for text, out in unsafe_wraps:
        n_dis += 1
        if len(disagreements) < 50:
            disagreements.append({"label": "textwrap/WrapSafe", "request": text, "model": "only rearranges characters", "impl": out})
    samples = []
    for c in rng.sample(cases, min(5, len(cases))):
        samples.append({"label": c[0], "request": c[1][0] if len(c[1]) == 1 else c[1], "impl": c[3]})
    return {
        "comparisons": len(cases),
        "disagreements": disagreements,
        "n_disagreements": n_dis,
        "nontrivial": len(nontrivial),
        "rule": ("(a) texts = opening quote(s)/# + random mix of escape sequences, hostile dictionary, random Unicode, words "
                 "(+ junk before/after), and the texts produced by the real sink formulas; CPython (ast.parse+tokenize+"
                 "literal_eval) is the referee; non-trivial = CPython accepts the text as exactly one literal/comment. "
                 "(b) hostile/random strings through the real renderers, rendered text compared with the model's; "
                 "non-trivial = the payload contains at least one character outside [A-Za-z0-9_ ]"),
        "samples": samples,
        "distribution": dist,
    }


# ---------------------------------------------------------------- (b) details
def hostile_strings(rng: random.Random, n: int) -> list[str]:
    out = list(HOSTILE) + ['a"b', "a\\nb", "a\\", 'end"', 'end""', 'end"""', '""""', '"""""', '""""""', "C:\\users\\new",
                           "it's", LONG, LONG + '"""' + LONG, "x" * 100 + '"""', ("w" * 85 + '"' * 3) * 2, "a\nb", "a\r\nb",
                           "tab\there", "  lead", "trail  ", "  a\n    b\n  c", "''" + '"""', '"\\""']
    while len(out) < n:
        out.append(rand_text(rng))
    return out


def _nontriv(*ss) -> bool:
    ok = set("abcdefghijklmnopqrstuvwxyzABCDEFGHIJKLMNOPQRSTUVWXYZ0123456789_ ")
    return any(c not in ok for s in ss if s for c in s)


def block_json(summary, description, args, returns, raises):
    return {"summary": summary or "", "description": description or "",
            "args": [[a[0], a[1], a[2]] if len(a) == 3 else [a[0], None, a[1]] for a in (args or [])],
            "returns": list(returns) if returns else None, "raises": [list(r) for r in (raises or [])]}


def sink_cases(rng, scale, want, bump, unsafe_wraps):
    import logging
    import textwrap

    prev = logging.root.manager.disable
    logging.disable(logging.CRITICAL)
    try:
        _sink_cases(rng, scale, want, bump, unsafe_wraps)
    finally:
        logging.disable(prev)


def _sink_cases(rng, scale, want, bump, unsafe_wraps):
    import textwrap

    from pyopenapi_gen import IRSchema
    from pyopenapi_gen.context.render_context import RenderContext
    from pyopenapi_gen.core.utils import NameSanitizer
    from pyopenapi_gen.core.writers.code_writer import CodeWriter
    from pyopenapi_gen.core.writers.documentation_writer import DocumentationBlock, DocumentationWriter
    from pyopenapi_gen.core.writers.python_construct_renderer import PythonConstructRenderer
    from pyopenapi_gen.helpers.endpoint_utils import get_param_type, get_request_body_type
    from pyopenapi_gen.http_types import HTTPMethod
    from pyopenapi_gen.ir import IROperation, IRParameter, IRRequestBody, IRResponse, IRSpec
    from pyopenapi_gen.visit.client_visitor import ClientVisitor
    from pyopenapi_gen.visit.endpoint.endpoint_visitor import EndpointVisitor
    from pyopenapi_gen.visit.endpoint.generators.docstring_generator import EndpointDocstringGenerator
    from pyopenapi_gen.visit.endpoint.generators.overload_generator import OverloadMethodGenerator
    from pyopenapi_gen.visit.endpoint.generators.url_args_generator import EndpointUrlArgsGenerator
    from pyopenapi_gen.visit.model.dataclass_generator import DataclassGenerator

    R = PythonConstructRenderer()
    N = max(80, int(1200 * scale))
    strs = [s for s in hostile_strings(rng, N) if sendable(s)]

    def pick(p_hostile=0.8):
        return rng.choice(strs) if rng.random() < p_hostile else rng.choice(WORDS)

    # ---- plain per-line sinks
    DG = DataclassGenerator(R, {})
    for s in strs:
        nt = _nontriv(s)
        # json.dumps default
        real = DG._get_field_default(IRSchema(name=None, type="string", default=s), RenderContext())
        want("sink/default(_get_field_default)", ("renderDefaultStr", [s]), real, nt)
        want("sink/default(json.dumps)", ("renderDefaultStr", [s]), json.dumps(s), nt)
        bump("default:" + ("astral" if any(ord(c) > 0xFFFF for c in s) else "bmp"))
        u16 = s.encode("utf-16-be", "surrogatepass")
        want("sink/utf16Cps", ("utf16Cps", [s]), [int.from_bytes(u16[i:i + 2], "big") for i in range(0, len(u16), 2)], nt)
        # query / header dict keys
        for required in (True, False):
            for where, meth in (("query", "_write_query_params"), ("header", "_write_header_params")):
                w = CodeWriter()
                p = {"name": "p_" + rng.choice(WORDS), "original_name": s, "param_in": where, "required": required}
                getattr(EndpointUrlArgsGenerator({}), meth)(w, None, [p], RenderContext())
                var = NameSanitizer.sanitize_method_name(p["name"])
                want(f"sink/dict-key({where},{'req' if required else 'opt'})",
                     ("renderDictKey" if required else "renderDictKeyOpt", [s, var]), w.get_code(), nt)
        # Literal["media/type"]
        op = IROperation(operation_id="op", method=HTTPMethod.POST, path="/x", summary=None, description=None)

        class RS0:
            return_type = "None"

        real = OverloadMethodGenerator({})._generate_single_overload(op, s, IRSchema(name=None, type="string"), RenderContext(), RS0())
        want("sink/Literal[content_type]", ("renderLiteralCt", [s]), real, nt,
             lambda ans: "@overload\nasync def op(\n    self,\n    *,\n    body: Any,\n    " + ans[0] + "\n) -> None: ...")
        # one-line tag class docstring
        real = EndpointVisitor({})._generate_endpoint_implementation(s, [], RenderContext())
        cname = NameSanitizer.sanitize_class_name(s) + "Client"
        h = f"class {cname}({cname}Protocol):\n    "
        t = "\n    \n    def __init__(self, transport: HttpTransport, base_url: str) -> None:"
        want("sink/tag-class-doc", ("renderTagClassDoc", [s]), real, nt,
             lambda ans, h=h, t=t, real=real: (h + ans[0] + real[real.index(t):]) if t in real else "<<tail not found>>")

    # ---- CodeWriter.write_block as used by EndpointVisitor._generate_endpoint_implementation: finished method code
    #      (with the literal sinks' lines inside) is re-emitted through splitlines()
    for _ in range(N):
        names = [pick() for _ in range(rng.randrange(1, 3))]
        code_lines = ["async def m(self) -> None:", "    params: dict[str, Any] = {"]
        for nm in names:
            w = CodeWriter()
            EndpointUrlArgsGenerator({})._write_query_params(
                w, None, [{"name": "v", "original_name": nm, "param_in": "query", "required": rng.random() < 0.5}], RenderContext())
            code_lines.append(w.get_code())
        code_lines.append("    }")
        code = "\n".join(code_lines)
        real = EndpointVisitor({})._generate_endpoint_implementation("pets", [code], RenderContext())
        head = ('class PetsClient(PetsClientProtocol):\n    """Client for pets endpoints. Uses HttpTransport for all HTTP and header '
                'management."""\n    \n    def __init__(self, transport: HttpTransport, base_url: str) -> None:\n'
                "        self._transport = transport\n        self.base_url: str = base_url\n    \n")
        want("sink/write_block(method code)", ("writeBlock", [1, code]), real, _nontriv(*names),
             lambda ans, head=head: (head + ans[0]).rstrip("\n"))
        bump("write_block:unicode-line-break-in-literal", int(any(c in nm for nm in names for c in "\x0b\x0c\x1c\x1d\x1e\x85\u2028\u2029")))

    # ---- render_enum: whole output = header + model docstring region + model member lines
    for _ in range(N):
        members = [("M%d" % k, pick()) for k in range(rng.randrange(1, 4))]
        desc = pick() if rng.random() < 0.7 else ""
        with Recorder() as rec:
            real = R.render_enum("Color", "str", members, desc or None, RenderContext())
        unsafe_wraps.extend(rec.unsafe)
        reqs = [("renderEnumDoc", [rec.wtable(), "Color", desc, "str", [[m, v] for m, v in members]])]
        reqs += [("renderEnumMember", [m, v]) for m, v in members]
        want("sink/render_enum", reqs, real, _nontriv(desc, *[v for _, v in members]),
             lambda ans: '__all__ = ["Color"]\n\n@unique\nclass Color(str, Enum):\n' + ans[0] + "".join("\n    " + l for l in ans[1:]))
        bump("enum:members", len(members))

    # ---- render_dataclass: whole output
    for _ in range(N):
        nf = rng.randrange(0, 4)
        fields = []
        for k in range(nf):
            default = None
            if rng.random() < 0.5:
                default = json.dumps(pick()) if rng.random() < 0.6 else rng.choice(["None", "field(default_factory=list)", "3"])
            fields.append(("f%d" % k, rng.choice(["str", "int | None", "List[str]"]), default, pick() if rng.random() < 0.8 else None))
        desc = pick() if rng.random() < 0.7 else ""
        mapping = {}
        for k in range(rng.randrange(0, 3)):
            mapping[pick()] = "f%d" % k
        with Recorder() as rec:
            real = R.render_dataclass("User", fields, desc or None, RenderContext(), mapping or None)
        unsafe_wraps.extend(rec.unsafe)
        reqs = [("renderDataclassDoc", [rec.wtable(), "User", desc, [[n, t, d or ""] for n, t, _, d in fields]])]
        order = [f for f in fields if f[2] is None] + [f for f in fields if f[2] is not None]
        reqs += [("renderFieldLine", [n, t, de, d or ""]) for n, t, de, d in order]
        load = sorted(mapping.items())
        dump = sorted(mapping.items(), key=lambda x: x[1])
        reqs += [("renderMetaEntry", [a, p]) for a, p in load] + [("renderMetaEntry", [p, a]) for a, p in dump]

        def asm(ans, nfl=len(order), nm=len(load)):
            out = '__all__ = ["User"]\n\n@dataclass\nclass User:\n' + ans[0]
            if nfl == 0:
                out += "\n    # No properties defined in schema\n    pass"
            out += "".join("\n    " + l for l in ans[1:1 + nfl])
            if nm:
                out += '\n    \n    class Meta:\n        """Configure field name mapping for JSON conversion."""\n        key_transform_with_load = {'
                out += "".join("\n            " + l for l in ans[1 + nfl:1 + nfl + nm])
                out += "\n        }\n        key_transform_with_dump = {"
                out += "".join("\n            " + l for l in ans[1 + nfl + nm:1 + nfl + 2 * nm])
                out += "\n        }"
            return out

        want("sink/render_dataclass", reqs, real, _nontriv(desc, *mapping.keys(), *[f[3] for f in fields]), asm)
        bump("dataclass:fields", nf)
        bump("dataclass:meta-entries", len(mapping))

    # ---- render_alias (with and without discriminator)
    for _ in range(N):
        desc = pick() if rng.random() < 0.85 else ""
        want("sink/render_alias", ("renderAliasDoc", [desc]), R.render_alias("Uid", "str", desc or None, RenderContext()),
             _nontriv(desc), lambda ans, desc=desc: "__all__ = ['Uid']\n\nUid: TypeAlias = str" + ("\n" + ans[0] if desc else ""))
    for _ in range(N // 2):
        class Disc:
            pass

        d = Disc()
        d.property_name = pick()
        d.mapping = {pick(): "#/components/schemas/" + rng.choice(["Cat", "Dog", "Bird"]) for _ in range(rng.randrange(0, 3))}
        real = R.render_alias("Pet", "Union[Cat, Dog]", "pets", RenderContext(), discriminator=d)
        items = [(k, v.split("/")[-1]) for k, v in d.mapping.items()]
        reqs = [("renderDiscProp", [d.property_name])] + [("renderDiscPair", [k, v]) for k, v in items] \
            + [("renderDiscEntry", [k, v]) for k, v in items]

        def asm2(ans, items=items):
            n = len(items)
            out = ("__all__ = ['Pet', 'PetDiscriminator']\n\n@dataclass(frozen=True)\nclass PetDiscriminator:\n"
                   '    """Discriminator metadata for Pet union."""\n\n' + ans[0] + '\n    """The discriminator property name"""\n\n')
            if n:
                out += ("    # Mapping stored as tuple for frozen dataclass compatibility\n"
                        "    _mapping_data: tuple[tuple[str, str], ...] = (\n")
                out += "".join(l + "\n" for l in ans[1:1 + n])
                out += ('    )\n\n    def get_mapping(self) -> dict[str, type]:\n'
                        '        """Get discriminator mapping with actual type references."""\n')
                out += "".join(f"        from .{R._to_module_name(v)} import {v}\n" for _, v in items)
                out += "        return {\n" + "".join(l + "\n" for l in ans[1 + n:1 + 2 * n]) + "        }\n"
            else:
                out += ("    _mapping_data: tuple[tuple[str, str], ...] | None = None\n\n"
                        "    def get_mapping(self) -> dict[str, type] | None:\n"
                        '        """Get discriminator mapping."""\n        return None\n')
            out += '\n\nPet: TypeAlias = Annotated[\n    Union[Cat, Dog],\n    PetDiscriminator()\n]\n"""Alias for pets"""'
            return out

        want("sink/render_alias(discriminator)", reqs, real, _nontriv(d.property_name, *d.mapping.keys()), asm2)

    # ---- DocumentationWriter.render_docstring on random blocks
    def rand_block():
        summary = pick() if rng.random() < 0.8 else None
        description = pick() if rng.random() < 0.6 else None
        args = []
        for _ in range(rng.randrange(0, 4)):
            if rng.random() < 0.85:
                args.append((pick(0.5), rng.choice(["str", "int | None", "dict[str, Any]", "x" * 30]), pick() if rng.random() < 0.8 else ""))
            else:
                args.append((pick(0.5), pick()))
        returns = (rng.choice(["str", "None", "AsyncIterator[dict[str, Any]]"]), pick()) if rng.random() < 0.6 else None
        raises = [("HTTPError", pick() if rng.random() < 0.8 else rng.choice(["", " ", "\n"])) for _ in range(rng.randrange(0, 3))]
        return summary, description, args, returns, raises

    for _ in range(2 * N):
        b = rand_block()
        with Recorder() as rec:
            real = DocumentationWriter(width=88).render_docstring(DocumentationBlock(*b), indent=0)
        unsafe_wraps.extend(rec.unsafe)
        want("sink/render_docstring", ("renderDocstring", [rec.wtable(), block_json(*b)]), real,
             _nontriv(b[0], b[1], *[x for a in b[2] for x in a], *(b[3] or ()), *[r[1] for r in b[4]]))
        bump("docblock:wrap-calls", len(rec.wraps))
        bump("docblock:multi-line-wraps", sum(1 for w in rec.wraps if len(w[3]) > 1))

    # ---- EndpointDocstringGenerator.generate_docstring (method docstrings)
    for _ in range(N):
        params = [IRParameter(name=pick(0.5), param_in=rng.choice(["query", "header", "path"]), required=rng.random() < 0.5,
                              schema=IRSchema(name=None, type=rng.choice(["string", "integer"])),
                              description=pick() if rng.random() < 0.7 else None) for _ in range(rng.randrange(0, 3))]
        responses = [IRResponse(status_code=rng.choice(["200", "201", "default", "404", "500"]),
                                description=pick() if rng.random() < 0.8 else None, content={}) for _ in range(rng.randrange(0, 3))]
        ct = rng.choice([None, "application/json", "multipart/form-data", "application/x-www-form-urlencoded", pick()])
        body = IRRequestBody(required=True, content={}, description=pick() if rng.random() < 0.6 else None) if ct else None
        op = IROperation(operation_id="op", method=HTTPMethod.POST, path="/x", summary=pick() if rng.random() < 0.8 else None,
                         description=pick() if rng.random() < 0.6 else None, parameters=params, request_body=body, responses=responses)
        rt = rng.choice(["None", "str", "User"])

        class RS:
            return_type = rt

        w = CodeWriter()
        w.indent()
        w.indent()
        ctx = RenderContext()
        with Recorder() as rec:
            EndpointDocstringGenerator({}).generate_docstring(w, op, ctx, ct, RS())
        unsafe_wraps.extend(rec.unsafe)
        # the (text-independent) assembly of the block, as in generate_docstring
        args = [(p.name, get_param_type(p, ctx, {}), p.description or "") for p in params]
        if body and ct:
            bd = body.description or "Request body."
            if ct == "multipart/form-data":
                args.append(("files", "dict[str, IO[Any]]", bd + " (multipart/form-data)"))
            elif ct == "application/x-www-form-urlencoded":
                args.append(("form_data", "dict[str, Any]", bd + " (x-www-form-urlencoded)"))
            elif ct == "application/json":
                args.append(("body", get_request_body_type(body, ctx, {}), bd + " (json)"))
            else:
                args.append(("bytes_content", "bytes", bd + f" ({ct})"))
        rdesc = None
        for code in ("200", "201", "202", "default"):
            r = next((r for r in responses if r.status_code == code), None)
            if r and r.description:
                rdesc = r.description.strip()
                break
        if not rdesc:
            for r in responses:
                if r.description:
                    rdesc = r.description.strip()
                    break
        returns = (rt, rdesc or "Response object.") if rt != "None" else None
        errs = [r for r in responses if r.status_code.isdigit() and int(r.status_code) >= 400]
        raises = [("HTTPError", f"{r.status_code}: {r.description.strip() if r.description else 'HTTP error.'}") for r in errs] \
            or [("HTTPError", "If the server returns a non-2xx HTTP response.")]
        want("sink/method-docstring", ("renderMethodDoc", [rec.wtable(), 2, block_json(op.summary, op.description, args, returns, raises)]),
             w.get_code(), _nontriv(op.summary, op.description, *[a[2] for a in args], rdesc))

    # ---- APIClient docstring + tag property docstrings
    CV = ClientVisitor()
    for _ in range(N):
        title, version = pick(), rng.choice(["1.0.0", pick()])
        desc = pick() if rng.random() < 0.8 else None
        tags = []
        for k in range(rng.randrange(0, 3)):
            tags.append((pick(), "T%dClient" % k, "t%d" % k))
        spec = IRSpec(title=title, version=version, description=desc)
        with Recorder() as rec:
            real = CV._generate_client_implementation(spec, RenderContext(), tags)
        unsafe_wraps.extend(rec.unsafe)
        a, b = "class APIClient(APIClientProtocol):\n", "\n    def __init__(self, config: ClientConfig"
        region = real[real.index(a) + len(a):real.index(b)]
        want("sink/client-docstring", ("renderClientDoc", [rec.wtable(), rec.dtable(), title, version, desc or "", [list(t) for t in tags]]),
             region, _nontriv(title, version, desc, *[t[0] for t in tags]))
        if desc:
            want("sink/cleanClientDesc", ("cleanClientDesc", [rec.dtable(), desc]),
                 textwrap.dedent(desc.replace('"""', "'").replace("'''", "'").replace("\\", "\\\\").strip()), _nontriv(desc))
        for tag, cls, mod in tags:
            h = f"    def {mod}(self) -> {cls}:\n        "
            t = f"\n        if self._{mod} is None:"
            i = real.index(h) + len(h)
            want("sink/tag-property-doc", ("renderTagPropDoc", [tag]), real[i:real.index(t, i)], _nontriv(tag))

    # ---- str.replace models
    for s in strs:
        want("util/replace3", ("replace3", ['"', "'", s]), s.replace('"""', "'"), '"""' in s)
        want("util/replace1", ("replace1", ["\\", "\\\\", s]), s.replace("\\", "\\\\"), "\\" in s)
        want("util/aliasEscape", ("aliasEscape", [s]), s.replace("\\", "\\\\").replace('"""', '\\"\\"\\"'), _nontriv(s))


# ------------------------------------------------------------------------------------------------ ORACLE-BEGIN
# The property itself, on the whole generator: position x payload matrix.
#
# One base document with one text-bearing POSITION per generated file where possible (so that one generation can
# carry the same payload at many positions and a failure is still attributable to its position by file); positions
# that share a file (client.py: title / description / tag names) and everything that fails unattributably are run
# one position per generation.

BENIGN = "ok"

PAYLOADS = [  # (payload class id, text)
    ("dquote", 'a"b'),
    ("triple-dquote", 'a"""b'),
    ("trailing-dquote", 'ab"'),
    ("squotes", "a'''b'"),
    ("backslash-n", "a\\nb"),
    ("trailing-backslash", "ab\\"),
    ("bad-escape", "C:\\users\\new"),
    ("named-escape", "a\\N{DASH}b"),
    ("escaped-A", "a\\u0041b"),
    ("newline", "a\nb"),
    ("cr", "a\rb"),
    ("nul", "a\x00b"),
    ("formfeed", "a\x0cb"),
    ("u2028", "a\u2028b"),
    ("bmp", "é漢"),
    ("astral", "a😀b"),
    ("braces", "a{b}c"),
    ("hash", "a # b"),
    ("long", "lorem-ipsum dolor sit amet " * 8 + "end"),
] + [
    # python-looking prose with nothing "dangerous" in it: after re-wrapping (docstrings wrap at ~88 columns) the snippet lands at the
    # beginning of a line for SOME amount of text in front of it; whatever scans generated method text for signatures must not see it
    (f"code-prose-{k}", " ".join(["lorem"] * k + ["async def main(client): return await client.ping()"])) for k in (0, 8, 9, 13, 14, 15, 16, 17, 21, 22)
]

# position id -> (kind, owner file(s) relative to the package, or None when the position shares a file)
#   kind "text": pure text (AST skeleton incl. identifiers must equal the baseline's)
#   kind "name": the text also feeds identifier derivation (skeleton compared with identifiers stripped)
POSITIONS = {
    "info.title": ("text", None),
    "info.description": ("text", None),
    "tag.name": ("name", None),
    "tag.description": ("text", None),
    "schema.description": ("text", ["models/pet_desc.py"]),
    "alias.description": ("text", ["models/uid_alias.py"]),
    "property.description": ("text", ["models/pet_prop_desc.py"]),
    "property.name": ("name", ["models/pet_prop_name.py"]),
    "enum.value": ("name", ["models/status_enum.py"]),
    "enum.description": ("text", ["models/kind_enum.py"]),
    "default.string": ("text", ["models/pet_default.py"]),
    "discriminator.mapping-key": ("name", ["models/animal_union.py", "models/animal_union_kind_enum.py"]),
    "operation.summary": ("text", ["endpoints/op_summary.py"]),
    "operation.description": ("text", ["endpoints/op_description.py"]),
    "parameter.name(query)": ("name", ["endpoints/op_query.py", "mocks/endpoints/mock_op_query.py"]),
    "parameter.name(header)": ("name", ["endpoints/op_header.py", "mocks/endpoints/mock_op_header.py"]),
    "parameter.description": ("text", ["endpoints/op_param_desc.py"]),
    "response.description": ("text", ["endpoints/op_resp_desc.py"]),
    "requestBody.description": ("text", ["endpoints/op_body_desc.py"]),
    "media-type": ("name", ["endpoints/op_media.py", "mocks/endpoints/mock_op_media.py"]),
}


def base_document(texts: dict) -> dict:
    """The base document; texts[position] replaces the benign text of that position."""
    t = lambda pos, benign=BENIGN: texts.get(pos, benign)

    def op(tag, opid, **kw):
        o = {"operationId": opid, "tags": [tag], "summary": "ok summary", "description": "ok description",
             "responses": {"200": {"description": "ok response", "content": {"application/json": {"schema": {"type": "string"}}}}}}
        o.update(kw)
        return o

    prop_name = "ok-" + t("property.name", "name")
    q_name = "ok-" + t("parameter.name(query)", "q")
    h_name = "X-Ok-" + t("parameter.name(header)", "h")
    enum_val = "ok-" + t("enum.value", "value")
    map_key = "ok-" + t("discriminator.mapping-key", "cat")
    media = t("media-type", "application/xml")
    tag_extra = t("tag.name", "tag")
    doc = {
        "openapi": "3.0.3",
        "info": {"title": t("info.title", "Ok API"), "version": "1.0.0", "description": t("info.description", "ok description")},
        "tags": [{"name": "ok " + tag_extra, "description": t("tag.description", "ok tag description")}],
        "paths": {
            "/summary": {"get": op("op_summary", "getSummary", summary=t("operation.summary", "ok summary"))},
            "/description": {"get": op("op_description", "getDescription", description=t("operation.description", "ok description"))},
            "/query": {"get": op("op_query", "getQuery", parameters=[
                {"name": q_name, "in": "query", "required": True, "schema": {"type": "string"}},
                {"name": q_name + "2", "in": "query", "required": False, "schema": {"type": "string"}}])},
            "/header": {"get": op("op_header", "getHeader", parameters=[
                {"name": h_name, "in": "header", "required": True, "schema": {"type": "string"}},
                {"name": h_name + "2", "in": "header", "required": False, "schema": {"type": "string"}}])},
            "/paramdesc": {"get": op("op_param_desc", "getParamDesc", parameters=[
                {"name": "limit", "in": "query", "required": False, "schema": {"type": "integer"},
                 "description": t("parameter.description", "ok parameter")}])},
            "/respdesc": {"get": op("op_resp_desc", "getRespDesc", responses={
                "200": {"description": t("response.description", "ok response"),
                        "content": {"application/json": {"schema": {"type": "string"}}}},
                "404": {"description": t("response.description", "ok response")}})},
            "/bodydesc": {"post": op("op_body_desc", "postBodyDesc", requestBody={
                "required": True, "description": t("requestBody.description", "ok body"),
                "content": {"application/json": {"schema": {"$ref": "#/components/schemas/PetDesc"}}}})},
            "/media": {"post": op("op_media", "postMedia", requestBody={
                "required": True, "content": {"application/json": {"schema": {"type": "object"}},
                                              media: {"schema": {"type": "string"}}}})},
            "/tagged": {"get": op("ok " + tag_extra, "getTagged")},
        },
        "components": {"schemas": {
            "PetDesc": {"type": "object", "description": t("schema.description", "ok schema"),
                        "properties": {"id": {"type": "string"}}, "required": ["id"]},
            "UidAlias": {"type": "string", "description": t("alias.description", "ok alias")},
            "PetPropDesc": {"type": "object", "properties": {
                "id": {"type": "string", "description": t("property.description", "ok property")},
                "age": {"type": "integer", "description": t("property.description", "ok property")}}, "required": ["id"]},
            "PetPropName": {"type": "object", "properties": {prop_name: {"type": "string"}, "id": {"type": "string"}},
                            "required": [prop_name]},
            "StatusEnum": {"type": "string", "enum": ["ok-first", enum_val]},
            "KindEnum": {"type": "string", "enum": ["a", "b"], "description": t("enum.description", "ok enum")},
            "PetDefault": {"type": "object", "properties": {"nick": {"type": "string", "default": t("default.string", "ok default")}}},
            "Cat": {"type": "object", "properties": {"kind": {"type": "string"}, "lives": {"type": "integer"}}, "required": ["kind"]},
            "Dog": {"type": "object", "properties": {"kind": {"type": "string"}, "bark": {"type": "boolean"}}, "required": ["kind"]},
            "AnimalUnion": {"oneOf": [{"$ref": "#/components/schemas/Cat"}, {"$ref": "#/components/schemas/Dog"}],
                            "discriminator": {"propertyName": "kind",
                                              "mapping": {map_key: "#/components/schemas/Cat", "ok-dog": "#/components/schemas/Dog"}}},
        }},
    }
    return doc


def _generate(doc: dict, scratch: str, tag: str) -> dict:
    """Real generator, in process. -> {"ok": bool, "error": str|None, "files": {relpath: bytes}}"""
    import contextlib
    import logging

    from pyopenapi_gen import generate_client

    root = os.path.join(scratch, tag)
    os.makedirs(root, exist_ok=True)
    spec = os.path.join(scratch, tag + "-spec.json")
    with open(spec, "w", encoding="utf-8") as f:
        json.dump(doc, f, ensure_ascii=True)
    prev = logging.root.manager.disable
    logging.disable(logging.CRITICAL)
    buf = io.StringIO()
    try:
        with warnings.catch_warnings(), contextlib.redirect_stdout(buf), contextlib.redirect_stderr(buf):
            warnings.simplefilter("ignore")
            generate_client(spec, root, "client", force=True, no_postprocess=True)
    except BaseException as e:  # the generator REJECTED the document (or crashed): not a C15 failure
        shutil.rmtree(root, ignore_errors=True)
        return {"ok": False, "error": f"{type(e).__name__}: {str(e)[:300]}", "files": {}}
    finally:
        logging.disable(prev)
    files = {}
    pkg = os.path.join(root, "client")
    for dp, _, fns in os.walk(pkg):
        if os.sep + "core" in dp[len(pkg):] or dp.endswith("__pycache__"):
            continue
        for fn in fns:
            if fn.endswith(".py"):
                p = os.path.join(dp, fn)
                with open(p, "rb") as fh:
                    files[os.path.relpath(p, pkg)] = fh.read()
    shutil.rmtree(root, ignore_errors=True)
    os.remove(spec)
    return {"ok": True, "error": None, "files": files}


def _skeleton(tree: ast.AST, names: bool) -> list:
    """Node types in traversal order; with identifiers (def/class/arg/attribute/name ids) when names=True;
    constants contribute only their node type."""
    out = []
    for n in ast.walk(tree):
        item = type(n).__name__
        if names:
            for attr in ("name", "id", "arg", "attr", "module"):
                v = getattr(n, attr, None)
                if isinstance(v, str):
                    item += ":" + v
            if isinstance(n, ast.alias):
                item += ":" + n.name
        out.append(item)
    return out


def _parse_bytes(b: bytes):
    with warnings.catch_warnings():
        warnings.simplefilter("ignore")
        try:
            return ast.parse(b), None
        except (SyntaxError, ValueError) as e:
            return None, f"{type(e).__name__}: {str(e)[:120]}"


def _const_strings(tree, pred) -> list[str]:
    out = []
    for n in ast.walk(tree):
        out.extend(pred(n))
    return out


def _literals_for(position: str, tree) -> list[str] | None:
    """The string constants at the places where the position's text carries MEANING (None: position has none)."""
    def strs(nodes):
        return [k.value for k in nodes if isinstance(k, ast.Constant) and isinstance(k.value, str)]

    if position == "enum.value":
        return _const_strings(tree, lambda n: strs([s.value for s in n.body if isinstance(s, ast.Assign)])
                              if isinstance(n, ast.ClassDef) and any(getattr(b, "id", "") == "Enum" for b in n.bases) else [])
    if position == "property.name":
        return _const_strings(tree, lambda n: strs(n.keys) + strs(n.values) if isinstance(n, ast.Dict) else [])
    if position in ("parameter.name(query)", "parameter.name(header)"):
        return _const_strings(tree, lambda n: strs([k for k in n.keys if k is not None]) if isinstance(n, ast.Dict) else [])
    if position == "default.string":
        return _const_strings(tree, lambda n: strs([n.value]) if isinstance(n, ast.AnnAssign) and n.value is not None else [])
    if position == "discriminator.mapping-key":
        return _const_strings(tree, lambda n: (strs([k for k in n.keys if k is not None]) if isinstance(n, ast.Dict) else
                                               strs(n.elts) if isinstance(n, ast.Tuple) else []))
    if position == "media-type":
        return _const_strings(tree, lambda n: strs([n.slice]) if isinstance(n, ast.Subscript) and getattr(n.value, "id", "") == "Literal" else [])
    return None


def _meaning(position: str, payload: str) -> str | None:
    return {"enum.value": "ok-" + payload, "property.name": "ok-" + payload, "parameter.name(query)": "ok-" + payload,
            "parameter.name(header)": "X-Ok-" + payload, "default.string": payload,
            "discriminator.mapping-key": "ok-" + payload, "media-type": payload}.get(position)


LITERAL_CLASS = {"enum.value": "enum-value-unescaped", "property.name": "meta-key-unescaped",
                 "parameter.name(query)": "param-name-unescaped", "parameter.name(header)": "header-name-unescaped",
                 "discriminator.mapping-key": "discriminator-key-unescaped", "media-type": "media-type-unescaped"}


SPLITLINES_ONLY = ("formfeed", "u2028")  # line boundaries for str.splitlines(), not for Python


def classify(position: str, pclass: str, symptom: str, where: str) -> str:
    """Stable id of the defect class."""
    if pclass == "nul":
        return "nul-byte-in-source"
    if position == "default.string":
        return "default-astral-surrogates" if pclass == "astral" else f"default-{pclass}"
    if position in LITERAL_CLASS:
        if pclass in SPLITLINES_ONLY:
            return "literal-split-by-splitlines"
        return LITERAL_CLASS[position]
    if position == "property.description" and pclass == "cr":
        return "comment-cr"
    if position == "info.title" and pclass in ("triple-dquote", "bad-escape", "named-escape"):
        return "title-in-docstring"
    if pclass == "triple-dquote":
        return "docstring-triple-quote"
    if pclass == "trailing-dquote":
        return "docstring-trailing-quote"
    if pclass in ("bad-escape", "named-escape"):
        return "docstring-bad-escape"
    return f"unclassified:{position}:{pclass}:{symptom}"


def _judge(position: str, pclass: str, payload: str, base_files: dict, files: dict, only_owned: bool) -> list[dict]:
    """Failures of the property for ONE position: on the files the position owns (combined run) or on all files."""
    kind, own = POSITIONS[position]
    fails = []
    case = {"position": position, "payload_class": pclass, "payload": payload}

    def fail(symptom, where, observed, expected):
        fails.append({"class": classify(position, pclass, symptom, where), "case": case, "observed": observed, "expected": expected})

    if kind == "name" and own is None:
        # file names may legitimately change (tag -> module name): compare the multiset of identifier-free shapes
        shapes = []
        for f, b in sorted(files.items()):
            tree, err = _parse_bytes(b)
            if tree is None:
                fail("syntax", f, f"{f}: {err}", "file parses")
            else:
                shapes.append(_skeleton(tree, False))
        if not fails:
            bshapes = [_skeleton(_parse_bytes(b)[0], False) for _, b in sorted(base_files.items())]
            if sorted(shapes) != sorted(bshapes):
                fail("structure", "*", "set of file skeletons differs from the benign baseline", "same statements")
        return fails
    check = list(own) if only_owned else sorted(set(files) | set(base_files))
    for f in check:
        if f not in files:
            fail("missing-file", f, f"{f} not generated", "same files as baseline")
            continue
        tree, err = _parse_bytes(files[f])
        if tree is None:
            fail("syntax", f, f"{f}: {err}", "file parses")
            continue
        if f not in base_files:
            fail("extra-file", f, f"{f} only with payload", "same files as baseline")
            continue
        with_names = kind == "text" or own is None or f not in own
        if _skeleton(tree, with_names) != _skeleton(_parse_bytes(base_files[f])[0], with_names):
            fail("structure", f, f"{f}: AST skeleton differs from the benign baseline", "same statements")
            continue
        want = _meaning(position, payload)
        if want is not None and own is not None and f == own[0]:  # the first owned file is where the literal lives
            got = _literals_for(position, tree)
            if got is not None and want not in got:
                fail("value", f, f"{f}: literals {sorted(set(got))[:8]!r}", f"a literal evaluating to {want!r}")
    return fails


def _oracle_env():
    scratch = tempfile.mkdtemp(prefix="c15orc_", dir=os.environ.get("VERIF_SCRATCH_DIR", "/tmp"))
    old = os.environ.get("TMPDIR")
    os.environ["TMPDIR"] = scratch
    tempfile.tempdir = None
    return scratch, old


def _oracle_env_done(scratch, old):
    if old is None:
        os.environ.pop("TMPDIR", None)
    else:
        os.environ["TMPDIR"] = old
    tempfile.tempdir = None
    shutil.rmtree(scratch, ignore_errors=True)


def _eval_single(position: str, pclass: str, payload: str, base_files: dict, scratch: str) -> tuple[str, list[dict]]:
    """One position, one payload, one generation. -> (outcome, failures); outcome in ok / rejected / FAIL:<classes>"""
    g = _generate(base_document({position: payload}), scratch, "single")
    if not g["ok"]:
        return "rejected", []
    fails = _judge(position, pclass, payload, base_files, g["files"], only_owned=False)  # judged on ALL files
    return ("ok" if not fails else "FAIL:" + ",".join(sorted({f["class"] for f in fails}))), fails


def oracle(seed: int = 1515, scale: float = 1.0) -> dict:
    rng = random.Random(seed)
    scratch, old = _oracle_env()
    evaluations = 0
    failures: list[dict] = []
    table: dict[str, dict[str, str]] = {p: {} for p in POSITIONS}
    try:
        base = _generate(base_document({}), scratch, "base")
        if not base["ok"]:
            return {"evaluations": 0, "failures": [{"class": "oracle-broken", "case": None, "observed": base["error"],
                                                     "expected": "baseline document generates"}]}
        base_files = base["files"]
        for f, b in base_files.items():
            if _parse_bytes(b)[0] is None:
                return {"evaluations": 0, "failures": [{"class": "oracle-broken", "case": f, "observed": "baseline does not parse",
                                                         "expected": "baseline parses"}]}
        payloads = list(PAYLOADS)
        if scale < 1.0:
            payloads = payloads[: max(3, int(len(payloads) * scale))]
        extra = int(max(0, scale - 1.0) * 10)
        for i in range(extra):  # more payloads at higher scale: random hostile mixes
            payloads.append((f"random{i}", rand_text(rng, hostile=0.6, maxparts=4) or "x"))
        owned_positions = [p for p, (_, own) in POSITIONS.items() if own is not None]
        shared_positions = [p for p, (_, own) in POSITIONS.items() if own is None]
        for pclass, payload in payloads:
            if any(0xD800 <= ord(c) <= 0xDFFF for c in payload):
                continue
            # (1) one generation with the payload at every position that owns its file(s)
            combined = _generate(base_document({p: payload for p in owned_positions}), scratch, "combined")
            singles = list(shared_positions)
            if combined["ok"]:
                unowned_trouble = False
                owned_files = {f for p in owned_positions for f in POSITIONS[p][1]}
                for f in set(combined["files"]) | set(base_files):
                    if f in owned_files:
                        continue
                    a, b = combined["files"].get(f), base_files.get(f)
                    if a is None or b is None or _parse_bytes(a)[0] is None or \
                            _skeleton(_parse_bytes(a)[0], True) != _skeleton(_parse_bytes(b)[0], True):
                        unowned_trouble = True
                if unowned_trouble:
                    singles = list(POSITIONS)
                else:
                    for p in owned_positions:
                        fails = _judge(p, pclass, payload, base_files, combined["files"], only_owned=True)
                        evaluations += 1
                        failures.extend(fails)
                        table[p][pclass] = "ok" if not fails else "FAIL:" + ",".join(sorted({f["class"] for f in fails}))
            else:
                singles = list(POSITIONS)  # something rejected the combined document: find out what, one by one
            # (2) one generation per remaining position
            for p in singles:
                outcome, fails = _eval_single(p, pclass, payload, base_files, scratch)
                evaluations += 1
                failures.extend(fails)
                table[p][pclass] = outcome
    finally:
        _oracle_env_done(scratch, old)
    return {"evaluations": evaluations, "failures": failures, "table": table,
            "classes": sorted({f["class"] for f in failures})}


def replay(case) -> bool:
    """Re-run one oracle case ({"position","payload_class","payload"}); True iff it still violates the property."""
    if not isinstance(case, dict) or "position" not in case:
        return False
    scratch, old = _oracle_env()
    try:
        base = _generate(base_document({}), scratch, "base")
        if not base["ok"]:
            return True
        outcome, fails = _eval_single(case["position"], case.get("payload_class", "replay"), case["payload"], base["files"], scratch)
        return bool(fails)
    finally:
        _oracle_env_done(scratch, old)
# ------------------------------------------------------------------------------------------------ ORACLE-END


if __name__ == "__main__":
    r = run(1515, float(os.environ.get("C15_SCALE", "1.0")), DEFAULT_DRIVER)
    for d in r["disagreements"][:15]:
        print("DISAGREE", d["label"], json.dumps(d["request"], ensure_ascii=True)[:600])
        print("    model:", repr(d["model"])[:700])
        print("    impl :", repr(d["impl"])[:700])
    print(json.dumps({k: r[k] for k in ("comparisons", "nontrivial")}), json.dumps(r["distribution"], sort_keys=True))
    print(f"{r['n_disagreements']} disagreements")
