import Pog.Model.Parser
import Pog.Lemmas.Tracker
/-
  Lemmas about M-parser, part 2: frame reasoning.

  `Frame R`: a reflexive, transitive relation on parser states that is closed under every PRIMITIVE
  state change of the model (allocation, mutation, registration, the three tracker events, the
  book-keeping counters).  Every function of the model is a composition of primitive changes and
  callback calls, so `R` relates the state before and after any call (`parse_frame`).
  Instances: the registry only grows (`RegMono`), names whose tracker state is a placeholder are
  registered (`PhReg`).
-/
namespace Pog.Prs
open Pog Pog.Trk

structure Frame (R : PSt → PSt → Prop) : Prop where
  refl : ∀ s, R s s
  trans : ∀ {a b c}, R a b → R b c → R a c
  alloc : ∀ s o, R s (s.alloc o).2
  modify : ∀ s i f, R s (s.modify i f)
  regSet : ∀ s k i, R s (s.regSet k i)
  enter : ∀ s name allow, R s (s.doEnter name allow).2.2
  exit : ∀ s name, R s (s.doExit name)
  reset : ∀ s n, R s (s.doReset n)
  misc : ∀ (s : PSt) (n m : Nat) (b : Bool), R s { s with nest := n, maxNest := m, oom := b }

def FrameP (R : PSt → PSt → Prop) (P : PFn) : Prop := ∀ name node allow s, R s (P name node allow s).2

variable {R : PSt → PSt → Prop}

theorem fr_ite (_hR : Frame R) {c : Prop} [Decidable c] {s : PSt} {a b : Nat × PSt} (ha : R s a.2) (hb : R s b.2) :
    R s (if c then a else b).2 := by
  split <;> assumption

theorem fr_ite_st (_hR : Frame R) {c : Prop} [Decidable c] {s a b : PSt} (ha : R s a) (hb : R s b) :
    R s (if c then a else b) := by
  split <;> assumption

theorem resolveRef_frame (hR : Frame R) (decls : Decls) (P : PFn) (hP : FrameP R P) (t : Str) (allow : Bool)
    (s : PSt) : R s (resolveRef decls P t allow s).2 := by
  unfold resolveRef
  simp only []
  split
  · exact hR.alloc _ _
  · split
    · split
      · exact hR.refl s
      · split
        · exact hR.alloc _ _
        · exact hP _ _ _ _
    · split
      · exact hR.alloc _ _
      · exact hP _ _ _ _

theorem parseList_frame (hR : Frame R) (P : PFn) (hP : FrameP R P) (allow : Bool) (ns : List Node) :
    ∀ s, R s (parseList P allow ns s).2 := by
  induction ns with
  | nil => intro s; exact hR.refl s
  | cons n rest ih =>
    intro s
    simp only [parseList]
    exact hR.trans (hP none n allow s) (ih _)

theorem parseOwn_frame (hR : Frame R) (P : PFn) (hP : FrameP R P) (name : Option Str) (allow : Bool)
    (ps : List (Str × Node)) : ∀ mp s, R s (parseOwn P name allow ps mp s).2 := by
  induction ps with
  | nil => intro mp s; exact hR.refl s
  | cons kv rest ih =>
    intro mp s
    obtain ⟨k, p⟩ := kv
    simp only [parseOwn]
    exact hR.trans (hP _ p allow s) (ih _ _)

theorem parseItems_frame (hR : Frame R) (P : PFn) (hP : FrameP R P) (name : Option Str) (items : Node)
    (allow : Bool) (s : PSt) : R s (parseItems P name items allow s).2 := by
  unfold parseItems
  simp only []
  split
  · exact hR.trans (hP _ _ _ _) (hR.alloc _ _)
  · exact hP _ _ _ _

theorem finishReg_frame (hR : Frame R) (decls : Decls) (n : Str) (id : Nat) (s : PSt) :
    R s (finish.finishReg decls n id s).2 := by
  unfold finish.finishReg
  simp only []
  refine fr_ite_st hR (hR.trans ?_ (hR.modify _ _ _)) ?_
  · exact fr_ite_st hR (hR.regSet _ _ _) (hR.refl _)
  · exact fr_ite_st hR (hR.regSet _ _ _) (hR.refl _)

theorem finish_frame (hR : Frame R) (decls : Decls) (name : Option Str) (id : Nat) (s : PSt) :
    R s (finish decls name id s).2 := by
  unfold finish
  split
  · split
    · exact hR.refl s
    · split
      · split
        · exact hR.refl s
        · exact finishReg_frame hR _ _ _ _
      · exact finishReg_frame hR _ _ _ _
  · exact hR.refl s

theorem propInline_frame (hR : Frame R) (P : PFn) (hP : FrameP R P) (parent : Option Str) (allow : Bool)
    (k : Str) (p : Node) (s : PSt) : R s (propInline P parent allow k p s).2 := by
  unfold propInline
  simp only []
  refine hR.trans (hP (some (parent.getD [] ++ sanClass k)) p allow s) ?_
  refine fr_ite_st hR (hR.trans (hR.alloc _ _) (hR.regSet _ _ _)) (hR.alloc _ _)

theorem propOther_frame (hR : Frame R) (P : PFn) (hP : FrameP R P) (parent : Option Str) (allow : Bool)
    (k : Str) (p : Node) (s : PSt) : R s (propOther P parent allow k p s).2 := by
  unfold propOther
  simp only []
  have h := hP (propCtxName parent k p) p allow s
  refine fr_ite hR ?_ (fr_ite hR ?_ ?_)
  · exact hR.trans h (hR.alloc _ _)
  · exact hR.trans h (hR.alloc _ _)
  · exact hR.trans h (hR.modify _ _ _)

theorem propStep_frame (hR : Frame R) (decls : Decls) (P : PFn) (hP : FrameP R P) (parent : Option Str)
    (allow : Bool) (k : Str) (p : Node) (s : PSt) : R s (propStep decls P parent allow k p s).2 := by
  unfold propStep
  split
  · exact resolveRef_frame hR decls P hP _ allow s
  · exact fr_ite hR (propInline_frame hR P hP parent allow k p s) (propOther_frame hR P hP parent allow k p s)

theorem parseProps_frame (hR : Frame R) (decls : Decls) (P : PFn) (hP : FrameP R P) (parent : Option Str)
    (allow : Bool) (ps : List (Str × Node)) :
    ∀ acc s, R s (parseProps decls P parent allow ps acc s).2 := by
  induction ps with
  | nil => intro acc s; exact hR.refl s
  | cons kv rest ih =>
    intro acc s
    obtain ⟨k, p⟩ := kv
    simp only [parseProps]
    split
    · exact ih _ _
    · exact hR.trans (propStep_frame hR decls P hP parent allow k p s) (ih _ _)

theorem body_frame (hR : Frame R) (decls : Decls) (P : PFn) (hP : FrameP R P) (name : Option Str)
    (node : Node) (allow : Bool) (s : PSt) : R s (body decls P name node allow s).2 := by
  unfold body
  simp only []
  split
  · have h := resolveRef_frame hR decls P hP ‹Str› allow s
    split
    · split
      · exact h
      · split
        · exact h
        · split
          · exact hR.trans h (hR.regSet _ _ _)
          · exact h
    · exact h
  · exact hR.trans (hR.alloc _ _) (finish_frame hR _ _ _ _)
  · rename_i props req ap _
    have h1 : R s (match props with
        | some ps => parseProps decls P (if truthy name = true then Option.map sanClass name else none)
                      allow ps [] s
        | none => ([], s)).2 := by
      split
      · exact parseProps_frame hR decls P hP _ allow _ _ _
      · exact hR.refl s
    refine hR.trans h1 ?_
    have h2 : ∀ s0 : PSt, R s0 (match ap with
        | some a => (match P none a allow s0 with | (i, s) => (some i, s))
        | none => ((none : Option Nat), s0)).2 := by
      intro s0
      split
      · exact hP none _ allow s0
      · exact hR.refl s0
    refine hR.trans (h2 _) ?_
    exact hR.trans (hR.alloc _ _) (finish_frame hR _ _ _ _)
  · refine hR.trans ?_ (finish_frame hR _ _ _ _)
    refine hR.trans ?_ (hR.modify _ _ _)
    refine hR.trans ?_ (parseItems_frame hR P hP name _ allow _)
    refine hR.trans ?_ (hR.alloc _ _)
    exact parseItems_frame hR P hP name _ allow s
  · refine hR.trans ?_ (finish_frame hR _ _ _ _)
    refine hR.trans ?_ (hR.alloc _ _)
    refine hR.trans ?_ (parseOwn_frame hR P hP name allow _ _ _)
    exact parseList_frame hR P hP allow _ s
  · refine hR.trans ?_ (finish_frame hR _ _ _ _)
    refine hR.trans ?_ (hR.alloc _ _)
    exact parseList_frame hR P hP allow _ s
  · refine hR.trans ?_ (finish_frame hR _ _ _ _)
    refine hR.trans ?_ (hR.alloc _ _)
    exact parseList_frame hR P hP allow _ s
  · exact hR.refl s

theorem bodyAndExit_frame (hR : Frame R) (decls : Decls) (P : PFn) (hP : FrameP R P) (name : Option Str)
    (node : Node) (allow : Bool) (s : PSt) : R s (bodyAndExit decls P name node allow s).2 := by
  unfold bodyAndExit
  exact hR.trans (body_frame hR decls P hP name node allow s) (hR.exit _ _)

theorem parseCore_frame (hR : Frame R) (decls : Decls) (P : PFn) (hP : FrameP R P) (name : Option Str)
    (node : Node) (allow : Bool) (s : PSt) : R s (parseCore decls P name node allow s).2 := by
  unfold parseCore
  simp only []
  have he := hR.enter s name allow
  have hx := hR.trans he (hR.exit (s.doEnter name allow).2.2 name)
  split
  · exact hx
  · split
    · split
      · split
        · exact hx
        · exact hR.trans hx (hR.alloc _ _)
      · exact hR.trans hx (hR.alloc _ _)
    · exact hR.trans hx (hR.alloc _ _)
  · split
    · split
      · split
        · exact hx
        · exact hR.trans (hR.trans hx (hR.reset _ _)) (bodyAndExit_frame hR decls P hP _ _ _ _)
      · exact hR.trans hx (bodyAndExit_frame hR decls P hP _ _ _ _)
    · exact hR.trans hx (bodyAndExit_frame hR decls P hP _ _ _ _)
  · exact hR.trans he (bodyAndExit_frame hR decls P hP _ _ _ _)

theorem parseStep_frame (hR : Frame R) (decls : Decls) (P : PFn) (hP : FrameP R P) :
    FrameP R (parseStep decls P) := by
  intro name node allow s
  unfold parseStep
  simp only []
  refine hR.trans (hR.misc s (s.nest + 1) (max s.maxNest (s.nest + 1)) s.oom) ?_
  refine hR.trans (parseCore_frame hR decls P hP name node allow _) ?_
  exact hR.misc _ _ _ _

theorem parse_frame (hR : Frame R) (decls : Decls) (fuel : Nat) : FrameP R (parse decls fuel) := by
  induction fuel with
  | zero =>
    intro name node allow s
    exact hR.misc s s.nest s.maxNest true
  | succ n ih => exact parseStep_frame hR decls _ ih

theorem buildLoop_frame (hR : Frame R) (decls : Decls) (fuel : Nat) (ds : List (Str × Node)) :
    ∀ s, R s (buildLoop decls fuel ds s) := by
  induction ds with
  | nil => intro s; exact hR.refl s
  | cons d rest ih =>
    intro s
    obtain ⟨n, nd⟩ := d
    simp only [buildLoop]
    split
    · exact hR.trans (parse_frame hR decls fuel _ _ _ _) (ih _)
    · exact ih _

end Pog.Prs
