#!/usr/bin/env python3
"""usage: tools/record_detect.py <seeded-id> <how> <history>   — fills meta.json's detected_by"""
import json, sys
i, how, hist = sys.argv[1:4]
p = f"/verif/seeded/{i}/meta.json"
d = json.load(open(p))
d["detected_by"] = {"check": d["breaks_property"], "how": how, "history": hist}
json.dump(d, open(p, "w"), indent=1)
