"""C13 — endpoint clients, their Protocols and their mocks have identical surfaces."""
from __future__ import annotations

from .. import findings
from . import _generic as g

PROP = "C13"
CORR = "vf.corr.c13"
CLASSES = {"mock-groups-by-first-raw-tag": "F23", "mock-tag-case-variants-collide": "F23", "mock-asyncgen-nature": "F47", "protocol-async-dropped": "F47"}


def check(run, ctx) -> None:
    known = findings.Known(run, PROP)
    g.run_corr(run, ctx, CORR, "Surface (protoStub, toMock, grouping on real generated method texts)", quick=0.8, thorough=6.0)
    g.run_oracle(run, ctx, known, CORR, "C13 by introspection of the imported package (client vs Protocol vs mock)", CLASSES, quick=0.8, thorough=6.0)
    known.report_unreplayed()


def search(run, ctx) -> None:
    check(run, ctx)


def replay(run, ctx, rec) -> bool:
    return g.replay_generic(rec)
