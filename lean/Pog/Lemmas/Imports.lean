import Pog.Model.Imports
/-
  Lemmas about dotted names, CPython's relative-name resolution, `make_relative_import` and
  `calculate_relative_path_for_internal_module`.
-/
namespace Pog.Imp
open Pog

/-- a well-formed component: non-empty, no dot -/
def CompOK (p : Str) : Prop := p ≠ [] ∧ '.' ∉ p

instance (p : Str) : Decidable (CompOK p) := by unfold CompOK; infer_instance

/-! ## `split(".")` / `".".join` -/

theorem splitDot_ne_nil (s : Str) : splitDot s ≠ [] := by
  induction s with
  | nil => simp [splitDot]
  | cons c cs ih =>
    unfold splitDot
    split
    · simp
    · split <;> simp

theorem splitDot_nodot (p : Str) (h : '.' ∉ p) : splitDot p = [p] := by
  induction p with
  | nil => simp [splitDot]
  | cons c cs ih =>
    have hc : c ≠ '.' := by intro e; exact h (by simp [e])
    have hcs : '.' ∉ cs := by intro e; exact h (by simp [e])
    unfold splitDot
    rw [if_neg hc, ih hcs]

theorem splitDot_cons_dot (cs : Str) : splitDot ('.' :: cs) = [] :: splitDot cs := by
  rw [splitDot]; simp

theorem splitDot_cons_ne (c : Char) (cs : Str) (hc : c ≠ '.') :
    splitDot (c :: cs) = ((splitDot cs).headD [] |>.cons c) :: (splitDot cs).tail := by
  rw [splitDot, if_neg hc]
  cases hs : splitDot cs with
  | nil => exact absurd hs (splitDot_ne_nil cs)
  | cons h t => simp

theorem splitDot_append_dot (a b : Str) : splitDot (a ++ '.' :: b) = splitDot a ++ splitDot b := by
  induction a with
  | nil => simp [splitDot_cons_dot, splitDot]
  | cons c cs ih =>
    by_cases hc : c = '.'
    · subst hc
      rw [List.cons_append, splitDot_cons_dot, splitDot_cons_dot, ih]; rfl
    · rw [List.cons_append, splitDot_cons_ne c _ hc, splitDot_cons_ne c _ hc, ih]
      cases hs : splitDot cs with
      | nil => exact absurd hs (splitDot_ne_nil cs)
      | cons h t => simp

theorem joinDots_cons_cons (p q : Str) (r : List Str) :
    joinDots (p :: q :: r) = p ++ '.' :: joinDots (q :: r) := by
  simp [joinDots, joinWith]

theorem joinDots_singleton (p : Str) : joinDots [p] = p := by simp [joinDots, joinWith]
theorem joinDots_nil : joinDots [] = [] := by simp [joinDots, joinWith]

theorem splitDot_joinDots (ps : List Str) (hne : ps ≠ []) (h : ∀ p ∈ ps, '.' ∉ p) :
    splitDot (joinDots ps) = ps := by
  induction ps with
  | nil => exact absurd rfl hne
  | cons p rest ih =>
    cases rest with
    | nil => rw [joinDots_singleton]; exact splitDot_nodot p (h p (by simp))
    | cons q r =>
      rw [joinDots_cons_cons, splitDot_append_dot, splitDot_nodot p (h p (by simp)),
        ih (by simp) (fun x hx => h x (by simp [hx]))]
      rfl

theorem joinDots_append (a b : List Str) (ha : a ≠ []) (hb : b ≠ []) :
    joinDots (a ++ b) = joinDots a ++ '.' :: joinDots b := by
  induction a with
  | nil => exact absurd rfl ha
  | cons p rest ih =>
    cases rest with
    | nil =>
      cases b with
      | nil => exact absurd rfl hb
      | cons q r => simp [joinDots_cons_cons, joinDots_singleton]
    | cons q r =>
      rw [List.cons_append, List.cons_append, joinDots_cons_cons, joinDots_cons_cons, ← List.cons_append,
        ih (by simp)]
      simp

/-- the first character of a joined name of well-formed components is no dot -/
theorem joinDots_head_ne_dot (ps : List Str) (h : ∀ p ∈ ps, CompOK p) :
    ∀ c rest, joinDots ps = c :: rest → c ≠ '.' := by
  intro c rest he hc
  cases ps with
  | nil => simp [joinDots_nil] at he
  | cons p r =>
    obtain ⟨hne, hnd⟩ := h p (by simp)
    cases p with
    | nil => exact hne rfl
    | cons x xs =>
      have : c = x := by
        cases r with
        | nil => rw [joinDots_singleton] at he; simp at he; exact he.1.symm
        | cons q r' => rw [joinDots_cons_cons] at he; simp at he; exact he.1.symm
      subst this
      exact hnd (by simp [hc])

/-! ## CPython resolution -/

theorem countDots_replicate (n : Nat) (s : Str) (hs : ∀ c rest, s = c :: rest → c ≠ '.') :
    countDots (List.replicate n '.' ++ s) = (n, s) := by
  induction n with
  | zero =>
    cases s with
    | nil => simp [countDots]
    | cons c rest => simp [countDots, hs c rest rfl]
  | succ k ih =>
    rw [List.replicate_succ, List.cons_append]
    simp only [countDots, if_true, ih]

/-- `n + 1` dots followed by the joined well-formed components `parts` resolve, inside package `pkg`,
    to `pkg` minus its last `n` components plus `parts`. -/
theorem pyResolveRel_render (pkg parts : List Str) (n : Nat) (hn : n + 1 ≤ pkg.length)
    (hp : ∀ p ∈ parts, CompOK p) :
    pyResolveRel pkg (List.replicate (n + 1) '.' ++ joinDots parts)
      = some (pkg.take (pkg.length - n) ++ parts) := by
  unfold pyResolveRel
  rw [countDots_replicate (n + 1) _ (joinDots_head_ne_dot parts hp)]
  have hne : pkg ≠ [] := by intro e; simp [e] at hn
  simp only [hne, if_false]
  rw [if_neg (by omega)]
  cases parts with
  | nil => simp [joinDots_nil]
  | cons p r =>
    have hj : joinDots (p :: r) ≠ [] := by
      obtain ⟨hpne, _⟩ := hp p (by simp)
      cases r with
      | nil => rw [joinDots_singleton]; exact hpne
      | cons q r' => rw [joinDots_cons_cons]; cases p <;> simp_all
    rw [if_neg hj, splitDot_joinDots (p :: r) (by simp) (fun x hx => (hp x hx).2)]

/-! ## common prefixes -/

theorem commonLen_le_left (a b : List Str) : commonLen a b ≤ a.length := by
  induction a generalizing b with
  | nil => simp [commonLen]
  | cons x xs ih =>
    cases b with
    | nil => simp [commonLen]
    | cons y ys =>
      unfold commonLen
      split
      · have := ih ys; simp; omega
      · simp

theorem commonLen_le_right (a b : List Str) : commonLen a b ≤ b.length := by
  induction a generalizing b with
  | nil => simp [commonLen]
  | cons x xs ih =>
    cases b with
    | nil => simp [commonLen]
    | cons y ys =>
      unfold commonLen
      split
      · have := ih ys; simp; omega
      · simp

theorem take_commonLen (a b : List Str) : a.take (commonLen a b) = b.take (commonLen a b) := by
  induction a generalizing b with
  | nil => simp [commonLen]
  | cons x xs ih =>
    cases b with
    | nil => simp [commonLen]
    | cons y ys =>
      unfold commonLen
      split
      · rename_i h; subst h; simp [ih ys]
      · simp

theorem commonLen_append_left (p a b : List Str) :
    commonLen (p ++ a) (p ++ b) = p.length + commonLen a b := by
  induction p with
  | nil => simp
  | cons x xs ih => simp only [List.cons_append, commonLen, if_true, ih, List.length_cons]; omega

theorem commonLen_prefix (a b : List Str) : commonLen a (a ++ b) = a.length := by
  have := commonLen_append_left a [] b
  simpa [commonLen] using this

/-- the scan stops at a component of `b` that does not occur in `a` -/
theorem commonLen_lt_of_not_mem (a b1 b2 : List Str) (y : Str) (hy : y ∉ a) :
    commonLen a (b1 ++ y :: b2) ≤ b1.length := by
  induction a generalizing b1 with
  | nil => simp [commonLen]
  | cons x xs ih =>
    cases b1 with
    | nil =>
      have : x ≠ y := by intro e; exact hy (by simp [e])
      simp [commonLen, this]
    | cons z zs =>
      rw [List.cons_append]
      unfold commonLen
      split
      · have := ih zs (by intro e; exact hy (by simp [e])); simp; omega
      · simp

theorem commonLen_eq_of_take (a b b' : List Str) (k : Nat) (h : commonLen a b ≤ k) (hk : b.take (k+1) = b'.take (k+1)) :
    commonLen a b' = commonLen a b := by
  induction a generalizing b b' k with
  | nil => simp [commonLen]
  | cons x xs ih =>
    cases b with
    | nil =>
      cases b' with
      | nil => rfl
      | cons y' ys' => simp at hk
    | cons y ys =>
      cases b' with
      | nil => simp at hk
      | cons y' ys' =>
        simp only [List.take_succ_cons, List.cons.injEq] at hk
        obtain ⟨h1, h2⟩ := hk
        subst h1
        unfold commonLen at h ⊢
        split
        · rename_i hxy
          rw [if_pos hxy] at h
          cases k with
          | zero => omega
          | succ k' =>
            rw [ih ys ys' k' (by omega) h2]
        · rfl

/-! ## `make_relative_import` -/

/-- a well-formed dotted path: at least one component, every component non-empty and dot-free -/
def PathOK (ps : List Str) : Prop := ps ≠ [] ∧ ∀ p ∈ ps, CompOK p

instance (ps : List Str) : Decidable (PathOK ps) := by unfold PathOK; infer_instance

theorem PathOK.split {ps : List Str} (h : PathOK ps) : splitDot (joinDots ps) = ps :=
  splitDot_joinDots ps h.1 (fun p hp => (h.2 p hp).2)

/-- `target.startswith(current + ".")` on well-formed paths: the target lies strictly below the current module. -/
theorem startsWith_joinDots_iff (cp tp : List Str) (hc : PathOK cp) (ht : PathOK tp) :
    startsWith (joinDots tp) (joinDots cp ++ ['.']) = true ↔ ∃ r, r ≠ [] ∧ tp = cp ++ r := by
  unfold startsWith
  rw [List.isPrefixOf_iff_prefix]
  constructor
  · rintro ⟨rest, hrest⟩
    have h1 : splitDot (joinDots tp) = splitDot (joinDots cp ++ '.' :: rest) := by
      rw [← hrest]; simp
    rw [ht.split, splitDot_append_dot, hc.split] at h1
    exact ⟨splitDot rest, splitDot_ne_nil rest, h1⟩
  · rintro ⟨r, hr, rfl⟩
    rw [joinDots_append cp r hc.1 hr]
    exact ⟨joinDots r, by simp⟩

theorem relImport_not_direct (cp tp : List Str) (hc : PathOK cp) (ht : PathOK tp)
    (hnd : ¬ ∃ r, r ≠ [] ∧ tp = cp ++ r) :
    relImport (joinDots cp) (joinDots tp) =
      List.replicate (cp.dropLast.length - commonLen cp.dropLast tp + 1) '.'
        ++ joinDots (tp.drop (commonLen cp.dropLast tp)) := by
  unfold relImport
  simp only [hc.split, ht.split]
  have hd : startsWith (joinDots tp) (joinDots cp ++ ['.']) = false := by
    cases h : startsWith (joinDots tp) (joinDots cp ++ ['.']) with
    | false => rfl
    | true => exact absurd ((startsWith_joinDots_iff cp tp hc ht).mp h) hnd
  split
  · rename_i h0
    rw [h0]
    simp [hd, List.replicate]
  · rfl

/-- The importing file is a REGULAR MODULE (its `__package__` is its directory): the relative name
    resolves to the target whenever the directory is non-empty, shares its first component with the target,
    and the target is not a strict descendant of the current module. -/
theorem relImport_resolves_parts (cp tp : List Str) (hc : PathOK cp) (ht : PathOK tp)
    (htop : 1 ≤ commonLen cp.dropLast tp) (hnd : ¬ ∃ r, r ≠ [] ∧ tp = cp ++ r) :
    pyResolveRel cp.dropLast (relImport (joinDots cp) (joinDots tp)) = some tp := by
  rw [relImport_not_direct cp tp hc ht hnd]
  have hL := commonLen_le_left cp.dropLast tp
  have hdrop : ∀ p ∈ tp.drop (commonLen cp.dropLast tp), CompOK p :=
    fun p hp => ht.2 p (List.mem_of_mem_drop hp)
  rw [pyResolveRel_render cp.dropLast _ _ (by omega) hdrop]
  have h1 : cp.dropLast.length - (cp.dropLast.length - commonLen cp.dropLast tp) = commonLen cp.dropLast tp := by
    omega
  rw [h1, take_commonLen, List.take_append_drop]

/-- The importing file is a PACKAGE `__init__` (its `__package__` is the module path itself): the
    `is_direct_package_import` special case is right for every strict descendant. -/
theorem relImport_init_descendant (cp r : List Str) (hc : PathOK cp) (hr : PathOK r) :
    pyResolveRel cp (relImport (joinDots cp) (joinDots (cp ++ r))) = some (cp ++ r) := by
  have ht : PathOK (cp ++ r) := ⟨by simp [hc.1], fun p hp => by
    rcases List.mem_append.mp hp with h | h
    · exact hc.2 p h
    · exact hr.2 p h⟩
  have hcl : commonLen cp.dropLast (cp ++ r) = cp.dropLast.length := by
    conv => lhs; arg 2; rw [← List.dropLast_concat_getLast hc.1, List.append_assoc]
    exact commonLen_prefix _ _
  unfold relImport
  simp only [hc.split, ht.split, hcl, Nat.sub_self, if_true]
  have hd : startsWith (joinDots (cp ++ r)) (joinDots cp ++ ['.']) = true :=
    (startsWith_joinDots_iff cp (cp ++ r) hc ht).mpr ⟨r, hr.1, rfl⟩
  have hlen : cp.length < (cp ++ r).length := by
    have : r.length ≠ 0 := by intro e; exact hr.1 (List.length_eq_zero_iff.mp e)
    simp; omega
  simp only [hd, hlen, decide_true, Bool.and_self, if_true, List.drop_left']
  have := pyResolveRel_render cp ((cp ++ r).drop cp.length) 0 (by
    have : cp.length ≠ 0 := by intro e; exact hc.1 (List.length_eq_zero_iff.mp e)
    omega) (by simp; exact hr.2)
  simpa [List.replicate] using this

/-! ## `calculate_relative_path_for_internal_module` -/

theorem CompOK.ne_dotdot {p : Str} (h : CompOK p) : p ≠ dotdot := by
  intro e; exact h.2 (by rw [e]; decide)
theorem CompOK.ne_dot1 {p : Str} (h : CompOK p) : p ≠ dot1 := by
  intro e; exact h.2 (by rw [e]; decide)

theorem fold_dotdots (first : Str) (k n : Nat) (ps : List Str) :
    (List.replicate n dotdot).foldl (relLoopStep first) ⟨k, ps, false⟩ = ⟨k + n, ps, false⟩ := by
  induction n generalizing k with
  | zero => rfl
  | succ m ih =>
    rw [List.replicate_succ, List.foldl_cons]
    have : relLoopStep first ⟨k, ps, false⟩ dotdot = ⟨k + 1, ps, false⟩ := by simp [relLoopStep]
    rw [this, ih]; congr 1; omega

theorem fold_real (first : Str) (k : Nat) (ps qs : List Str) (f : Bool) (hq : ∀ q ∈ qs, CompOK q) :
    qs.foldl (relLoopStep first) ⟨k, ps, f⟩ = ⟨k, ps ++ qs, f || !qs.isEmpty⟩ := by
  induction qs generalizing ps f with
  | nil => simp
  | cons q rest ih =>
    have hq1 := hq q (by simp)
    have : relLoopStep first ⟨k, ps, f⟩ q = ⟨k, ps ++ [q], true⟩ := by
      simp [relLoopStep, hq1.ne_dotdot, hq1.ne_dot1]
    rw [List.foldl_cons, this, ih _ _ (fun x hx => hq x (by simp [hx]))]
    simp

theorem filter_nonempty_of_ok (qs : List Str) (hq : ∀ q ∈ qs, CompOK q) :
    qs.filter (fun p => !(decide (p = []))) = qs := by
  rw [List.filter_eq_self]
  intro a ha; simp [(hq a ha).1]

/-- the shape of a normalised `relpath` result and what the second half of the function makes of it -/
theorem relToDotted_std (n : Nat) (qs : List Str) (hq : ∀ q ∈ qs, CompOK q) :
    relToDotted (if n = 0 ∧ qs = [] then [dot1] else List.replicate n dotdot ++ qs)
      = List.replicate (n + 1) '.' ++ joinDots qs := by
  by_cases h0 : n = 0 ∧ qs = []
  · obtain ⟨rfl, rfl⟩ := h0
    simp [relToDotted, joinDots_nil]
  · rw [if_neg h0]
    unfold relToDotted
    rw [List.foldl_append, fold_dotdots, fold_real _ _ _ _ _ hq]
    have hne1 : List.replicate n dotdot ++ qs ≠ [dot1] := by
      intro e
      cases n with
      | zero =>
        simp at e; subst e
        exact (hq dot1 (by simp)).ne_dot1 rfl
      | succ m =>
        rw [List.replicate_succ, List.cons_append] at e
        have := (List.cons.inj e).1
        exact absurd this (by decide)
    simp only [hne1, if_false, Nat.zero_add, List.nil_append]
    have hc : (n = 0 && (decide (qs = []) || decide (qs = [dot1]))) = false := by
      by_cases hn : n = 0
      · subst hn
        have hqs : qs ≠ [] := fun e => h0 ⟨rfl, e⟩
        have hqd : qs ≠ [dot1] := by
          intro e; subst e; exact (hq dot1 (by simp)).ne_dot1 rfl
        simp [hqs, hqd]
      · simp [hn]
    rw [hc]
    simp only [Bool.false_eq_true, if_false]
    rw [filter_nonempty_of_ok qs hq]

theorem endsWith_append (y suf : Str) : endsWith (y ++ suf) suf = true := by
  unfold endsWith
  rw [List.reverse_append, List.isPrefixOf_iff_prefix]
  exact List.prefix_append _ _

theorem stripPyLast_snoc (xs : List Str) (y : Str) : stripPyLast (xs ++ [y ++ pySuffix]) = xs ++ [y] := by
  induction xs with
  | nil =>
    simp only [List.nil_append, stripPyLast, endsWith_append, if_true]
    simp [pySuffix]
  | cons x rest ih =>
    cases rest with
    | nil =>
      simp only [List.cons_append, List.nil_append, stripPyLast] at ih ⊢
      rw [ih]
    | cons z zs =>
      simp only [List.cons_append, stripPyLast] at ih ⊢
      rw [ih]

theorem getLastD_snoc (xs : List Str) (y d : Str) : (xs ++ [y]).getLastD d = y := by
  induction xs with
  | nil => rfl
  | cons x r ih => cases r <;> simp_all [List.getLastD]

theorem relpathC_eq (P C T' : List Str) :
    relpathC (P ++ C) (P ++ T') =
      (if C.length - commonLen C T' = 0 ∧ T'.drop (commonLen C T') = [] then [dot1]
       else List.replicate (C.length - commonLen C T') dotdot ++ T'.drop (commonLen C T')) := by
  unfold relpathC
  simp only [commonLen_append_left, List.drop_length_add_append, List.length_append]
  have h : P.length + C.length - (P.length + commonLen C T') = C.length - commonLen C T' := by omega
  rw [h]
  by_cases h0 : C.length - commonLen C T' = 0 ∧ T'.drop (commonLen C T') = []
  · rw [if_pos h0, h0.1, h0.2]; simp
  · rw [if_neg h0, if_neg]
    intro e
    rw [List.append_eq_nil_iff, List.replicate_eq_nil_iff] at e
    exact h0 e

/-- The `relpath` components of `calculate_relative_path_for_internal_module` when the current file
    `P/rootc/sub/fname` lies inside the package `P/rootc` and the target is `rootc.tparts`. -/
theorem relComponents_std (P rootc sub tparts : List Str) (fname : Str) (isDir : Bool)
    (ht : PathOK tparts) (hC : ∀ c ∈ rootc ++ sub, CompOK c) :
    ∃ l, rootc.length ≤ l ∧ l ≤ (rootc ++ sub).length ∧
      (rootc ++ sub).take l = (rootc ++ tparts).take l ∧
      relComponents (P ++ rootc ++ sub ++ [fname]) (P ++ rootc) tparts isDir =
        (if (rootc ++ sub).length - l = 0 ∧ (rootc ++ tparts).drop l = [] then [dot1]
         else List.replicate ((rootc ++ sub).length - l) dotdot ++ (rootc ++ tparts).drop l) := by
  have hcur : (P ++ rootc ++ sub ++ [fname]).dropLast = P ++ (rootc ++ sub) := by
    rw [List.dropLast_concat, List.append_assoc]
  cases isDir with
  | true =>
    refine ⟨commonLen (rootc ++ sub) (rootc ++ tparts), ?_, commonLen_le_left _ _, take_commonLen _ _, ?_⟩
    · rw [commonLen_append_left]; omega
    · unfold relComponents targetAbs
      simp only [if_true, Bool.not_true, Bool.false_eq_true, if_false, hcur]
      rw [List.append_assoc P rootc tparts, relpathC_eq]
  | false =>
    have hsplit : tparts = tparts.dropLast ++ [tparts.getLast ht.1] := (List.dropLast_concat_getLast ht.1).symm
    generalize hi : tparts.dropLast = init at hsplit
    generalize hy : tparts.getLast ht.1 = y at hsplit
    have hT' : targetAbs (P ++ rootc) tparts false = P ++ ((rootc ++ init) ++ [y ++ pySuffix]) := by
      unfold targetAbs
      simp only [Bool.false_eq_true, if_false]
      rw [hi]
      conv => lhs; rw [hsplit, getLastD_snoc]
      simp [List.append_assoc]
    have hnm : y ++ pySuffix ∉ rootc ++ sub := by
      intro hm
      exact (hC _ hm).2 (by simp [pySuffix])
    have hle : commonLen (rootc ++ sub) ((rootc ++ init) ++ [y ++ pySuffix]) ≤ (rootc ++ init).length :=
      commonLen_lt_of_not_mem _ _ [] _ hnm
    refine ⟨commonLen (rootc ++ sub) ((rootc ++ init) ++ [y ++ pySuffix]), ?_, commonLen_le_left _ _, ?_, ?_⟩
    · rw [List.append_assoc rootc, commonLen_append_left]; omega
    · rw [take_commonLen, List.take_append_of_le_length hle, hsplit, ← List.append_assoc,
        List.take_append_of_le_length hle]
    · unfold relComponents
      simp only [Bool.not_false, if_true, hcur, hT']
      rw [relpathC_eq, List.drop_append_of_le_length hle]
      have hTd : (rootc ++ tparts).drop (commonLen (rootc ++ sub) ((rootc ++ init) ++ [y ++ pySuffix]))
          = (rootc ++ init).drop (commonLen (rootc ++ sub) ((rootc ++ init) ++ [y ++ pySuffix])) ++ [y] := by
        rw [hsplit, ← List.append_assoc, List.drop_append_of_le_length hle]
      rw [hTd, if_neg (by simp), if_neg (by simp), ← List.append_assoc, stripPyLast_snoc, List.append_assoc]

/-- **`calculate_relative_path_for_internal_module` is right**: for a current file inside the generated package
    (regular module or `__init__.py` alike — its `__package__` is its directory `rootc.sub`) every answer
    resolves, by CPython's rules, to the requested module `rootc.tparts`. -/
theorem calcRel_resolves_parts (P rootc sub tparts : List Str) (fname : Str) (isDir : Bool)
    (hroot : rootc ≠ []) (ht : PathOK tparts) (hC : ∀ c ∈ rootc ++ sub, CompOK c) (rel : Str)
    (h : calcRel (P ++ rootc ++ sub ++ [fname]) (P ++ rootc) tparts isDir = some rel) :
    pyResolveRel (rootc ++ sub) rel = some (rootc ++ tparts) := by
  unfold calcRel at h
  split at h
  · cases h
  · obtain ⟨l, hl1, hl2, htake, hrc⟩ := relComponents_std P rootc sub tparts fname isDir ht hC
    have hq : ∀ q ∈ (rootc ++ tparts).drop l, CompOK q := by
      intro q hq
      have := List.mem_of_mem_drop hq
      rcases List.mem_append.mp this with h1 | h1
      · exact hC q (List.mem_append.mpr (Or.inl h1))
      · exact ht.2 q h1
    rw [hrc, relToDotted_std _ _ hq] at h
    cases h
    have hr : rootc.length ≠ 0 := fun e => hroot (List.length_eq_zero_iff.mp e)
    rw [pyResolveRel_render (rootc ++ sub) _ _ (by omega) hq]
    have : (rootc ++ sub).length - ((rootc ++ sub).length - l) = l := by omega
    rw [this, htake, List.take_append_drop]

/-- `None` is returned exactly for the self-import. -/
theorem calcRel_none_iff (curFile root tparts : List Str) (isDir : Bool) :
    calcRel curFile root tparts isDir = none ↔ curFile = targetAbs root tparts isDir := by
  unfold calcRel; split <;> simp_all

/-- every answer starts with a dot -/
theorem relToDotted_head (rel : List Str) : ∃ rest, relToDotted rel = '.' :: rest := by
  unfold relToDotted
  split
  · exact ⟨_, by simp only [List.replicate_succ, List.cons_append]; rfl⟩
  · simp only []
    by_cases hc : ((rel.foldl (relLoopStep (rel.headD [])) ⟨0, [], false⟩).level = 0 &&
        ((rel.foldl (relLoopStep (rel.headD [])) ⟨0, [], false⟩).parts = [] ||
         (rel.foldl (relLoopStep (rel.headD [])) ⟨0, [], false⟩).parts = [dot1])) = true
    · rw [if_pos hc]
      exact ⟨_, by simp only [List.replicate_succ, List.cons_append]; rfl⟩
    · rw [if_neg hc]
      exact ⟨_, by simp only [List.replicate_succ, List.cons_append]; rfl⟩

/-! ## `RenderContext.add_import` -/

theorem collAdd_module (m n : Str) : (collAdd m n).module? = some m := by
  unfold collAdd; split <;> rfl

theorem absOut_module (m : Str) (name : Option Str) : (absOut m name).module? = some m := by
  unfold absOut; split
  · exact collAdd_module _ _
  · rfl

theorem calcRel_head (curFile root tparts : List Str) (isDir : Bool) (r : Str)
    (h : calcRel curFile root tparts isDir = some r) : ∃ rest, r = '.' :: rest := by
  unfold calcRel at h
  split at h
  · cases h
  · cases h; exact relToDotted_head _

theorem internalOut_module (c : ImpCtx) (lm pkg : Str) (name : Option Str) (m : Str)
    (h : (internalOut c lm pkg name).module? = some m) : m = lm ∨ ∃ rest, m = '.' :: rest := by
  unfold internalOut at h
  split at h
  · cases h
  · split at h
    · rename_i d ds hrel
      split at h
      · cases h
      · right
        cases h
        unfold internalRel at hrel
        split at hrel
        · exact calcRel_head _ _ _ _ _ hrel
        · cases hrel
    · rw [absOut_module] at h; left; cases h; rfl

/-- The module text that `add_import` hands to the collector is the requested one (after the
    "incomplete path" prefix fix) or a relative name. -/
theorem classify_module_cases (c : ImpCtx) (lm : Str) (name : Option Str) (isTyping : Bool) (m : Str)
    (h : (classifyImport c lm name isTyping).module? = some m) :
    m = fixModule c lm ∨ ∃ rest, m = '.' :: rest := by
  unfold classifyImport at h
  split at h
  · cases h
  · simp only [] at h
    split at h
    · rename_i h1
      rw [collAdd_module] at h
      simp only [Bool.and_eq_true, decide_eq_true_eq] at h1
      left; cases h; exact h1.1.2.symm
    · split at h
      · rw [absOut_module] at h; left; cases h; rfl
      · split at h
        · rw [absOut_module] at h; left; cases h; rfl
        · split at h
          · rw [absOut_module] at h; left; cases h; rfl
          · split at h
            · split at h
              · exact internalOut_module _ _ _ _ _ h
              · rw [absOut_module] at h; left; cases h; rfl
            · rw [absOut_module] at h; left; cases h; rfl

theorem splitDot_head_nodot (s : Str) : '.' ∉ (splitDot s).headD [] := by
  induction s with
  | nil => simp [splitDot]
  | cons c cs ih =>
    by_cases hc : c = '.'
    · subst hc; rw [splitDot_cons_dot]; simp
    · rw [splitDot_cons_ne c cs hc]
      simp only [List.headD_cons, List.mem_cons, not_or]
      exact ⟨fun e => hc e.symm, ih⟩

theorem topLevel_prefix (a lm : Str) (ha : '.' ∉ a) : topLevel (a ++ '.' :: lm) = a := by
  unfold topLevel
  rw [splitDot_append_dot, splitDot_nodot a ha]; rfl

theorem topLevel_fixModule (c : ImpCtx) (lm : Str) :
    topLevel (fixModule c lm) = topLevel lm ∨
      ∃ o, c.outputPkg = some o ∧ topLevel (fixModule c lm) = topLevel o := by
  unfold fixModule
  split
  · rename_i o os ho
    split
    · simp only []
      split
      · right
        refine ⟨o :: os, ho, ?_⟩
        rw [List.append_assoc, List.singleton_append]
        exact topLevel_prefix _ _ (splitDot_head_nodot _)
      · left; rfl
    · left; rfl
  · left; rfl

theorem topLevel_dot (rest : Str) : topLevel ('.' :: rest) = [] := by
  unfold topLevel; rw [splitDot_cons_dot]; rfl

end Pog.Imp
