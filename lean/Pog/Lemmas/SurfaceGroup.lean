import Pog.Model.Surface
import Pog.Lemmas.Names
/-
  Lemmas about the grouping part of `Pog.Model.Surface` (insertion-ordered multi-dicts, `tag_score`, `max`).
-/
namespace Pog

/-! ## `d.setdefault(k, []).append(v)` -/

/-- Fold of `setdefault/append` over a list with key and value projections. -/
def gfold {β α : Type} (kf : β → Str) (vf : β → α) (xs : List β) (d : List (Str × List α)) : List (Str × List α) :=
  xs.foldl (fun d x => tagAddMulti d (kf x) (vf x)) d

theorem gfold_cons {β α : Type} (kf : β → Str) (vf : β → α) (x : β) (xs : List β) (d : List (Str × List α)) :
    gfold kf vf (x :: xs) d = gfold kf vf xs (tagAddMulti d (kf x) (vf x)) := rfl

theorem gfold_nil {β α : Type} (kf : β → Str) (vf : β → α) (d : List (Str × List α)) : gfold kf vf [] d = d := rfl

/-- map the value lists -/
def mapVals {α γ : Type} (f : α → γ) (d : List (Str × List α)) : List (Str × List γ) :=
  d.map (fun e => (e.1, e.2.map f))

theorem addMulti_mapVals {α γ : Type} (f : α → γ) (d : List (Str × List α)) (k : Str) (v : α) :
    mapVals f (tagAddMulti d k v) = tagAddMulti (mapVals f d) k (f v) := by
  induction d with
  | nil => simp [mapVals, tagAddMulti]
  | cons e d ih =>
    obtain ⟨k', vs⟩ := e
    by_cases h : (k' == k) = true
    · simp [mapVals, tagAddMulti, h]
    · simp only [mapVals] at ih
      simp [mapVals, tagAddMulti, h, ih]

theorem gfold_mapVals {β α γ : Type} (f : α → γ) (kf : β → Str) (vf : β → α) (xs : List β) (d : List (Str × List α)) :
    mapVals f (gfold kf vf xs d) = gfold kf (fun x => f (vf x)) xs (mapVals f d) := by
  induction xs generalizing d with
  | nil => rfl
  | cons x xs ih => rw [gfold_cons, gfold_cons, ih, addMulti_mapVals]

theorem addMulti_keys {α : Type} (d : List (Str × List α)) (k : Str) (v : α) :
    (tagAddMulti d k v).map (·.1) = if k ∈ d.map (·.1) then d.map (·.1) else d.map (·.1) ++ [k] := by
  induction d with
  | nil => simp [tagAddMulti]
  | cons e d ih =>
    obtain ⟨k', vs⟩ := e
    by_cases h : k' = k
    · subst h; simp [tagAddMulti]
    · have h' : (k' == k) = false := by simpa using h
      have h'' : ¬ k = k' := fun e => h e.symm
      simp only [tagAddMulti, h', Bool.false_eq_true, if_false, List.map_cons, ih, List.mem_cons, h'', false_or]
      split <;> simp

theorem addMulti_keys_nodup {α : Type} (d : List (Str × List α)) (k : Str) (v : α)
    (h : (d.map (·.1)).Nodup) : ((tagAddMulti d k v).map (·.1)).Nodup := by
  rw [addMulti_keys]
  split
  · exact h
  · rename_i hk
    rw [List.nodup_append]
    exact ⟨h, by simp, by intro a ha b hb; simp only [List.mem_singleton] at hb; subst hb; exact fun e => hk (e ▸ ha)⟩

theorem gfold_keys_nodup {β α : Type} (kf : β → Str) (vf : β → α) (xs : List β) (d : List (Str × List α))
    (h : (d.map (·.1)).Nodup) : ((gfold kf vf xs d).map (·.1)).Nodup := by
  induction xs generalizing d with
  | nil => exact h
  | cons x xs ih => rw [gfold_cons]; exact ih _ (addMulti_keys_nodup d _ _ h)

theorem addMulti_mem_key {α : Type} (d : List (Str × List α)) (k : Str) (v : α) (a : Str)
    (h : a ∈ (tagAddMulti d k v).map (·.1)) : a ∈ d.map (·.1) ∨ a = k := by
  rw [addMulti_keys] at h
  split at h
  · exact .inl h
  · rcases List.mem_append.1 h with h | h
    · exact .inl h
    · exact .inr (by simpa using h)

theorem dictGet_addMulti {α : Type} (d : List (Str × List α)) (k : Str) (v : α) (k' : Str) :
    tagDictGet (tagAddMulti d k v) k' =
      if k' = k then some ((tagDictGet d k).getD [] ++ [v]) else tagDictGet d k' := by
  induction d with
  | nil =>
    by_cases h : k' = k
    · subst h; simp [tagAddMulti, tagDictGet]
    · have : (k == k') = false := by simpa using fun e => h e.symm
      simp [tagAddMulti, tagDictGet, h, this]
  | cons e d ih =>
    obtain ⟨k0, vs⟩ := e
    by_cases h0 : k0 = k
    · subst h0
      by_cases h : k' = k0
      · subst h; simp [tagAddMulti, tagDictGet]
      · have : (k0 == k') = false := by simpa using fun e => h e.symm
        simp [tagAddMulti, tagDictGet, h, this]
    · have h0' : (k0 == k) = false := by simpa using h0
      simp only [tagAddMulti, h0', Bool.false_eq_true, if_false]
      by_cases h1 : k0 = k'
      · subst h1
        simp [tagDictGet, h0]
      · have h1' : (k0 == k') = false := by simpa using h1
        have ih' := ih
        simp only [tagDictGet] at ih' ⊢
        simp only [List.find?_cons, h1', h0']
        exact ih'

/-- extend an optional value list -/
def extOpt {α : Type} (o : Option (List α)) (vs : List α) : Option (List α) :=
  if vs = [] then o else some (o.getD [] ++ vs)

theorem dictGet_gfold {β α : Type} (kf : β → Str) (vf : β → α) (xs : List β) (d : List (Str × List α)) (k : Str) :
    tagDictGet (gfold kf vf xs d) k = extOpt (tagDictGet d k) ((xs.filter (fun x => kf x == k)).map vf) := by
  induction xs generalizing d with
  | nil => simp [gfold_nil, extOpt]
  | cons x xs ih =>
    rw [gfold_cons, ih, dictGet_addMulti]
    by_cases h : kf x = k
    · subst h
      simp only [if_true, List.filter_cons, beq_self_eq_true, List.map_cons]
      unfold extOpt
      by_cases hv : (List.filter (fun y => kf y == kf x) xs).map vf = []
      · simp [hv]
      · simp [hv]
    · have h' : (kf x == k) = false := by simpa using h
      have h'' : ¬ k = kf x := fun e => h e.symm
      simp [h', h'']

theorem dictGet_of_mem {α : Type} (d : List (Str × α)) (h : (d.map (·.1)).Nodup) (e : Str × α) (he : e ∈ d) :
    tagDictGet d e.1 = some e.2 := by
  induction d with
  | nil => cases he
  | cons a d ih =>
    simp only [List.map_cons, List.nodup_cons] at h
    rcases List.mem_cons.1 he with rfl | he
    · simp [tagDictGet]
    · have hne : ¬ a.1 = e.1 := by
        intro heq
        exact h.1 (heq ▸ List.mem_map_of_mem (f := (·.1)) he)
      have : (a.1 == e.1) = false := by simpa using hne
      have ih' := ih h.2 he
      simp only [tagDictGet] at ih' ⊢
      simp only [List.find?_cons, this]
      exact ih'

theorem mem_of_dictGet {α : Type} (d : List (Str × α)) (k : Str) (v : α) (h : tagDictGet d k = some v) :
    (k, v) ∈ d := by
  unfold tagDictGet at h
  cases hf : d.find? (fun e => e.1 == k) with
  | none => rw [hf] at h; simp at h
  | some e =>
    rw [hf] at h
    simp only [Option.map_some, Option.some.injEq] at h
    have h1 := List.find?_some hf
    have h2 := List.mem_of_find?_eq_some hf
    simp only [beq_iff_eq] at h1
    obtain ⟨a, b⟩ := e
    simp only at h h1
    subst h; subst h1
    exact h2

/-- Full characterisation of the groups: the entry of key `k` holds the values of the items with key `k`,
    in order; it exists iff there is such an item. -/
theorem gfold_entry {β α : Type} (kf : β → Str) (vf : β → α) (xs : List β) (e : Str × List α)
    (he : e ∈ gfold kf vf xs []) :
    e.2 = (xs.filter (fun x => kf x == e.1)).map vf ∧ e.2 ≠ [] := by
  have hn := gfold_keys_nodup kf vf xs [] (by simp)
  have h1 := dictGet_of_mem _ hn e he
  rw [dictGet_gfold] at h1
  simp only [tagDictGet, List.find?_nil, Option.map_none, extOpt] at h1
  split at h1
  · cases h1
  · rename_i hne
    simp only [Option.getD_none, List.nil_append, Option.some.injEq] at h1
    exact ⟨h1.symm, h1 ▸ hne⟩

theorem gfold_has_entry {β α : Type} (kf : β → Str) (vf : β → α) (xs : List β) (x : β) (hx : x ∈ xs) :
    (kf x, (xs.filter (fun y => kf y == kf x)).map vf) ∈ gfold kf vf xs [] := by
  apply mem_of_dictGet
  rw [dictGet_gfold]
  have hne : (xs.filter (fun y => kf y == kf x)).map vf ≠ [] := by
    intro h
    have : x ∈ xs.filter (fun y => kf y == kf x) := List.mem_filter.2 ⟨hx, by simp⟩
    simp only [List.map_eq_nil_iff] at h
    rw [h] at this; cases this
  simp [extOpt, hne, tagDictGet]

/-! ### re-keying with a function injective on the keys that occur -/

def reKey {α : Type} (g : Str → Str) (d : List (Str × List α)) : List (Str × List α) :=
  d.map (fun e => (g e.1, e.2))

theorem addMulti_reKey {α : Type} (g : Str → Str) (d : List (Str × List α)) (k : Str) (v : α)
    (hinj : ∀ a ∈ d.map (·.1), g a = g k → a = k) :
    reKey g (tagAddMulti d k v) = tagAddMulti (reKey g d) (g k) v := by
  induction d with
  | nil => simp [reKey, tagAddMulti]
  | cons e d ih =>
    obtain ⟨k', vs⟩ := e
    by_cases h : k' = k
    · subst h; simp [reKey, tagAddMulti]
    · have h' : (k' == k) = false := by simpa using h
      have hg : (g k' == g k) = false := by
        simpa using fun e => h (hinj k' (by simp) e)
      have ih' := ih (fun a ha => hinj a (by simp only [List.map_cons, List.mem_cons]; exact .inr ha))
      simp only [reKey] at ih'
      simp [reKey, tagAddMulti, h', hg, ih']

theorem gfold_reKey {β α : Type} (g : Str → Str) (kf : β → Str) (vf : β → α) (xs : List β) (d : List (Str × List α))
    (hinj : ∀ a ∈ d.map (·.1) ++ xs.map kf, ∀ b ∈ d.map (·.1) ++ xs.map kf, g a = g b → a = b) :
    reKey g (gfold kf vf xs d) = gfold (fun x => g (kf x)) vf xs (reKey g d) := by
  induction xs generalizing d with
  | nil => rfl
  | cons x xs ih =>
    rw [gfold_cons, gfold_cons, ih, addMulti_reKey]
    · intro a ha heq
      exact hinj a (List.mem_append_left _ ha) (kf x) (by simp) heq
    · intro a ha b hb heq
      have conv : ∀ c, c ∈ (tagAddMulti d (kf x) (vf x)).map (·.1) ++ xs.map kf →
          c ∈ d.map (·.1) ++ (x :: xs).map kf := by
        intro c hc
        rcases List.mem_append.1 hc with hc | hc
        · rcases addMulti_mem_key d _ _ c hc with hc | hc
          · exact List.mem_append_left _ hc
          · subst hc; simp
        · exact List.mem_append_right _ (by simp only [List.map_cons, List.mem_cons]; exact .inr hc)
      exact hinj a (conv a ha) b (conv b hb) heq

/-! ## `mapM` in `Option` -/

theorem mapM_option_of_forall {α β : Type} (f : α → Option β) (g : α → β) (l : List α)
    (h : ∀ a ∈ l, f a = some (g a)) : l.mapM f = some (l.map g) := by
  induction l with
  | nil => rfl
  | cons a l ih =>
    rw [List.mapM_cons, h a (by simp), ih (fun b hb => h b (List.mem_cons_of_mem _ hb))]
    rfl

/-! ## The three dicts of the emitters as `gfold`s -/

theorem keyToCands_eq (u : UInfo) (ops : List TagOp) :
    keyToCands u ops = gfold (·.1) (·.2.1) (tagPairs u ops) [] := rfl
theorem keyToPairs_eq (u : UInfo) (ops : List TagOp) :
    keyToPairs u ops = gfold (·.1) (·.2) (tagPairs u ops) [] := rfl

theorem keyToCands_fused (u : UInfo) (ops : List TagOp) : keyToCands u ops = mapVals (·.1) (keyToPairs u ops) := by
  rw [keyToCands_eq, keyToPairs_eq, gfold_mapVals]; rfl

/-! ### `tag_key_to_ops` (appended once per operation and key) inside the fused dict -/

/-- keep the operation ids of the incidences at which the operation was appended -/
def projOps (d : List (Str × List (Str × Option Str))) : List (Str × List Str) :=
  d.map (fun e => (e.1, e.2.filterMap (·.2)))

/-- one step of the `tag_key_to_ops` loop -/
def stepOps (d : List (Str × List Str)) (p : Str × Str × Option Str) : List (Str × List Str) :=
  match p.2.2 with
  | some id => tagAddMulti d p.1 id
  | none => d

theorem keyToOps_eq (u : UInfo) (ops : List TagOp) : keyToOps u ops = (tagPairs u ops).foldl stepOps [] := rfl

theorem projOps_addMulti_some (d : List (Str × List (Str × Option Str))) (k t id : Str) :
    projOps (tagAddMulti d k (t, some id)) = tagAddMulti (projOps d) k id := by
  induction d with
  | nil => simp [projOps, tagAddMulti]
  | cons e d ih =>
    obtain ⟨k', vs⟩ := e
    by_cases h : (k' == k) = true
    · simp [projOps, tagAddMulti, h]
    · simp only [projOps] at ih
      simp [projOps, tagAddMulti, h, ih]

theorem projOps_addMulti_none (d : List (Str × List (Str × Option Str))) (k t : Str) (hk : k ∈ d.map (·.1)) :
    projOps (tagAddMulti d k (t, none)) = projOps d := by
  induction d with
  | nil => simp at hk
  | cons e d ih =>
    obtain ⟨k', vs⟩ := e
    by_cases h : k' = k
    · subst h; simp [projOps, tagAddMulti]
    · have h' : (k' == k) = false := by simpa using h
      have hk' : k ∈ d.map (·.1) := by
        rcases List.mem_cons.1 hk with e | hk
        · exact absurd e.symm h
        · exact hk
      have := ih hk'
      simp only [projOps] at this
      simp [projOps, tagAddMulti, h', this]

theorem addMulti_key_mem {α : Type} (d : List (Str × List α)) (k : Str) (v : α) : k ∈ (tagAddMulti d k v).map (·.1) := by
  rw [addMulti_keys]; split <;> simp [*]

theorem addMulti_keys_mono {α : Type} (d : List (Str × List α)) (k : Str) (v : α) (a : Str) (ha : a ∈ d.map (·.1)) :
    a ∈ (tagAddMulti d k v).map (·.1) := by
  rw [addMulti_keys]; split
  · exact ha
  · exact List.mem_append_left _ ha

/-- One operation: a tag whose key is already in `keys_of_op` finds that key in the dict. -/
theorem projOps_fold_op (u : UInfo) (id : Str) : ∀ (ts seen : List Str) (d : List (Str × List (Str × Option Str))),
    (∀ k ∈ seen, k ∈ d.map (·.1)) →
    projOps ((opTagPairs u id seen ts).foldl (fun d p => tagAddMulti d p.1 p.2) d)
      = (opTagPairs u id seen ts).foldl stepOps (projOps d) := by
  intro ts
  induction ts with
  | nil => intro _ _ _; rfl
  | cons t ts ih =>
    intro seen d hseen
    simp only [opTagPairs]
    split
    · rename_i hc
      have hk : normTagKey u t ∈ d.map (·.1) := hseen _ (List.contains_iff_mem.1 hc)
      simp only [List.foldl_cons, stepOps]
      rw [ih seen _ (fun k hk' => addMulti_keys_mono d _ _ k (hseen k hk')), projOps_addMulti_none d _ _ hk]
    · simp only [List.foldl_cons, stepOps]
      rw [ih _ _ (fun k hk' => by
        rcases List.mem_cons.1 hk' with rfl | hk'
        · exact addMulti_key_mem d _ _
        · exact addMulti_keys_mono d _ _ k (hseen k hk')), projOps_addMulti_some]

theorem projOps_fold (u : UInfo) : ∀ (ops : List TagOp) (d : List (Str × List (Str × Option Str))),
    projOps ((tagPairs u ops).foldl (fun d p => tagAddMulti d p.1 p.2) d) = (tagPairs u ops).foldl stepOps (projOps d) := by
  intro ops
  induction ops with
  | nil => intro _; rfl
  | cons op ops ih =>
    intro d
    unfold tagPairs at ih ⊢
    simp only [List.flatMap_cons, List.foldl_append]
    rw [ih, projOps_fold_op u op.id _ [] d (by simp)]

/-- `tag_key_to_ops` is the fused dict with the ids of the appended incidences. -/
theorem keyToOps_fused (u : UInfo) (ops : List TagOp) : keyToOps u ops = projOps (keyToPairs u ops) := by
  rw [keyToOps_eq]
  exact (projOps_fold u ops []).symm

theorem keyToPairs_nodup (u : UInfo) (ops : List TagOp) : ((keyToPairs u ops).map (·.1)).Nodup :=
  gfold_keys_nodup _ _ _ [] (by simp)

theorem keyToCands_nonempty (u : UInfo) (ops : List TagOp) : ∀ e ∈ keyToCands u ops, e.2 ≠ [] := by
  intro e he
  rw [keyToCands_eq] at he
  exact (gfold_entry _ _ _ e he).2

theorem pyMaxTag_of_ne (u : UInfo) (l : List Str) (h : l ≠ []) :
    pyMaxTag u l = some ((pyMaxTag u l).getD kDefaultTag) := by
  cases l with
  | nil => exact absurd rfl h
  | cons x xs => rfl

/-- C07: the `tag_map` recomputed by `ClientVisitor.visit` never raises and equals the emitter's. -/
theorem tagMapVisitor_eq (u : UInfo) (ops : List TagOp) :
    tagMapVisitor u ops = some (tagMapEmitter u ops) := by
  unfold tagMapVisitor tagMapEmitter
  apply mapM_option_of_forall
  intro e he
  rw [pyMaxTag_of_ne u e.2 (keyToCands_nonempty u ops e he)]
  rfl

theorem dictGet_map_of_mem {α γ : Type} (d : List (Str × α)) (h : (d.map (·.1)).Nodup) (f : Str × α → γ)
    (e : Str × α) (he : e ∈ d) : tagDictGet (d.map (fun e => (e.1, f e))) e.1 = some (f e) := by
  have hn : ((d.map (fun e => (e.1, f e))).map (·.1)).Nodup := by
    rw [List.map_map]; exact h
  exact dictGet_of_mem _ hn (e.1, f e) (List.mem_map.2 ⟨e, he, rfl⟩)

/-- The loop over `tag_key_to_ops.items()` with the look-up `tag_map[key]` never raises `KeyError`,
    and is the fused one-dict formulation. -/
theorem groupEndpointsRaw_eq (u : UInfo) (ops : List TagOp) :
    groupEndpointsRaw u ops = some (groupEndpoints u ops) := by
  unfold groupEndpointsRaw groupEndpoints tagMapEmitter
  rw [keyToOps_fused, keyToCands_fused]
  simp only [mapVals, projOps, List.map_map, List.mapM_map]
  apply mapM_option_of_forall
  intro e he
  have := dictGet_map_of_mem (keyToPairs u ops) (keyToPairs_nodup u ops)
    (fun e => (pyMaxTag u (e.2.map (·.1))).getD kDefaultTag) e he
  simp only [Function.comp_def] at this ⊢
  rw [this]
  rfl

/-! ## Every operation is in the group of each of its tags -/

theorem opTagPairs_mem (u : UInfo) (id : Str) : ∀ (ts seen : List Str) (p : Str × Str × Option Str),
    p ∈ opTagPairs u id seen ts → p.1 = normTagKey u p.2.1 ∧ p.2.1 ∈ ts := by
  intro ts
  induction ts with
  | nil => intro _ p hp; cases hp
  | cons t ts ih =>
    intro seen p hp
    simp only [opTagPairs] at hp
    split at hp
    · rcases List.mem_cons.1 hp with rfl | hp
      · exact ⟨rfl, by simp⟩
      · exact ⟨(ih _ p hp).1, List.mem_cons_of_mem _ (ih _ p hp).2⟩
    · rcases List.mem_cons.1 hp with rfl | hp
      · exact ⟨rfl, by simp⟩
      · exact ⟨(ih _ p hp).1, List.mem_cons_of_mem _ (ih _ p hp).2⟩

/-- every tag of the operation is an incidence (appended or not) -/
theorem opTagPairs_has (u : UInfo) (id : Str) : ∀ (ts seen : List Str) (t : Str), t ∈ ts →
    ∃ o, (normTagKey u t, t, o) ∈ opTagPairs u id seen ts := by
  intro ts
  induction ts with
  | nil => intro _ t ht; cases ht
  | cons x ts ih =>
    intro seen t ht
    simp only [opTagPairs]
    split
    · rcases List.mem_cons.1 ht with rfl | ht
      · exact ⟨none, by simp⟩
      · obtain ⟨o, ho⟩ := ih seen t ht
        exact ⟨o, List.mem_cons_of_mem _ ho⟩
    · rcases List.mem_cons.1 ht with rfl | ht
      · exact ⟨some id, by simp⟩
      · obtain ⟨o, ho⟩ := ih _ t ht
        exact ⟨o, List.mem_cons_of_mem _ ho⟩

theorem mem_tagPairs (u : UInfo) (ops : List TagOp) (op : TagOp) (t : Str) (hop : op ∈ ops)
    (ht : t ∈ tagsOrDefault op) : ∃ o, (normTagKey u t, t, o) ∈ tagPairs u ops := by
  unfold tagPairs
  obtain ⟨o, ho⟩ := opTagPairs_has u op.id _ [] t ht
  exact ⟨o, List.mem_flatMap.2 ⟨op, hop, ho⟩⟩

/-- The ids one operation contributes to the entry of `key`: its id ONCE when one of its tags has that key and the key was not
    in `keys_of_op` at the start, nothing otherwise. -/
theorem opTagPairs_ids (u : UInfo) (id key : Str) : ∀ (ts seen : List Str),
    ((opTagPairs u id seen ts).filter (fun p => p.1 == key)).filterMap (·.2.2)
      = if (ts.map (normTagKey u)).contains key && !seen.contains key then [id] else [] := by
  intro ts
  induction ts with
  | nil => intro _; rfl
  | cons t ts ih =>
    intro seen
    simp only [opTagPairs]
    split
    · rename_i hc
      rw [List.filter_cons]
      by_cases hk : normTagKey u t = key
      · subst hk
        simp only [beq_self_eq_true, if_true, List.filterMap_cons, ih, hc, Bool.not_true, Bool.and_false]
      · have hk' : (normTagKey u t == key) = false := by simpa using hk
        have hk'' : (key == normTagKey u t) = false := by simpa using fun e => hk e.symm
        simp only [hk', Bool.false_eq_true, if_false, ih, List.map_cons, List.contains_cons, hk'', Bool.false_or]
    · rename_i hc
      rw [List.filter_cons]
      by_cases hk : normTagKey u t = key
      · subst hk
        have hc' : seen.contains (normTagKey u t) = false := by simpa using hc
        simp only [beq_self_eq_true, if_true, List.filterMap_cons, ih, List.contains_cons, Bool.true_or, Bool.not_true,
          Bool.and_false, List.map_cons, hc', Bool.not_false, Bool.and_true]
        simp
      · have hk' : (normTagKey u t == key) = false := by simpa using hk
        have hk'' : (key == normTagKey u t) = false := by simpa using fun e => hk e.symm
        simp only [hk', Bool.false_eq_true, if_false, ih, List.map_cons, List.contains_cons, hk'', Bool.false_or]

/-- Does the operation carry a tag (or `default`) that normalises to `key`? -/
def hasKey (u : UInfo) (key : Str) (op : TagOp) : Bool := ((tagsOrDefault op).map (normTagKey u)).contains key

theorem tagPairs_ids (u : UInfo) (key : Str) (ops : List TagOp) :
    ((tagPairs u ops).filter (fun p => p.1 == key)).filterMap (·.2.2) = (ops.filter (hasKey u key)).map (·.id) := by
  unfold tagPairs
  induction ops with
  | nil => rfl
  | cons op ops ih =>
    simp only [List.flatMap_cons, List.filter_append, List.filterMap_append, ih, opTagPairs_ids, List.filter_cons]
    unfold hasKey
    cases ((tagsOrDefault op).map (normTagKey u)).contains key <;> simp

theorem groupEndpoints_keys (u : UInfo) (ops : List TagOp) :
    (groupEndpoints u ops).map (·.key) = (keyToPairs u ops).map (·.1) := by
  simp [groupEndpoints, mkGroup, Function.comp_def]

theorem groupEndpoints_keys_nodup (u : UInfo) (ops : List TagOp) : ((groupEndpoints u ops).map (·.key)).Nodup := by
  rw [groupEndpoints_keys]; exact keyToPairs_nodup u ops

/-- The operation ids of the group of key `k`: the ids of the operations that carry a tag with that key, each ONCE, in order. -/
theorem groupEndpoints_ops (u : UInfo) (ops : List TagOp) (g : TagGroup) (hg : g ∈ groupEndpoints u ops) :
    g.ops = (ops.filter (hasKey u g.key)).map (·.id) := by
  unfold groupEndpoints at hg
  obtain ⟨e, he, rfl⟩ := List.mem_map.1 hg
  rw [keyToPairs_eq] at he
  have := (gfold_entry _ _ _ e he).1
  simp only [mkGroup]
  rw [this, List.filterMap_map]
  exact tagPairs_ids u e.1 ops

theorem every_op_present (u : UInfo) (ops : List TagOp) (op : TagOp) (t : Str) (hop : op ∈ ops)
    (ht : t ∈ tagsOrDefault op) :
    ∃ g ∈ groupEndpoints u ops, g.key = normTagKey u t ∧ op.id ∈ g.ops := by
  obtain ⟨o, hp⟩ := mem_tagPairs u ops op t hop ht
  have he := gfold_has_entry (·.1) (·.2) (tagPairs u ops) _ hp
  rw [← keyToPairs_eq] at he
  have hg : mkGroup u (normTagKey u t) ((pyMaxTag u ((((tagPairs u ops).filter (fun y => y.1 == normTagKey u t)).map (·.2)).map
      (·.1))).getD kDefaultTag) ((((tagPairs u ops).filter (fun y => y.1 == normTagKey u t)).map (·.2)).filterMap (·.2))
      ∈ groupEndpoints u ops := List.mem_map.2 ⟨_, he, rfl⟩
  refine ⟨_, hg, rfl, ?_⟩
  rw [groupEndpoints_ops u ops _ hg]
  simp only [mkGroup]
  refine List.mem_map.2 ⟨op, List.mem_filter.2 ⟨hop, ?_⟩, rfl⟩
  unfold hasKey
  exact List.contains_iff_mem.2 (List.mem_map_of_mem ht)

theorem nodup_of_nodup_map {α β : Type} (f : α → β) (l : List α) (h : (l.map f).Nodup) : l.Nodup :=
  List.Pairwise.of_map f (fun _ _ hab e => hab (e ▸ rfl)) h

theorem inj_of_nodup_map {α β : Type} (f : α → β) (l : List α) (h : (l.map f).Nodup) (a b : α)
    (ha : a ∈ l) (hb : b ∈ l) (hab : f a = f b) : a = b := by
  induction l with
  | nil => cases ha
  | cons x l ih =>
    simp only [List.map_cons, List.nodup_cons] at h
    rcases List.mem_cons.1 ha with rfl | ha'
    · rcases List.mem_cons.1 hb with rfl | hb'
      · rfl
      · exact absurd (hab ▸ List.mem_map_of_mem (f := f) hb') h.1
    · rcases List.mem_cons.1 hb with rfl | hb'
      · exact absurd (hab ▸ List.mem_map_of_mem (f := f) ha') h.1
      · exact ih h.2 ha' hb'

theorem count_eq_one_of_nodup_mem (l : List Str) (a : Str) (hn : l.Nodup) (ha : a ∈ l) : l.count a = 1 := by
  induction l with
  | nil => cases ha
  | cons x l ih =>
    simp only [List.nodup_cons] at hn
    rcases List.mem_cons.1 ha with rfl | ha
    · simp [List.count_eq_zero.2 hn.1]
    · have : (x == a) = false := by simpa using fun (e : x = a) => hn.1 (e ▸ ha)
      simp [List.count_cons, this, ih hn.2 ha]

theorem sum_zero_of_forall (l : List Nat) (h : ∀ n ∈ l, n = 0) : l.sum = 0 := by
  induction l with
  | nil => rfl
  | cons x l ih =>
    simp only [List.sum_cons]
    rw [h x (by simp), ih (fun n hn => h n (List.mem_cons_of_mem _ hn))]

theorem sum_map_single {α : Type} (l : List α) (f : α → Nat) (a : α) (hn : l.Nodup) (ha : a ∈ l)
    (h0 : ∀ b ∈ l, b ≠ a → f b = 0) : (l.map f).sum = f a := by
  induction l with
  | nil => cases ha
  | cons x l ih =>
    simp only [List.nodup_cons] at hn
    simp only [List.map_cons, List.sum_cons]
    rcases List.mem_cons.1 ha with rfl | ha
    · have : (l.map f).sum = 0 := by
        apply sum_zero_of_forall
        intro n hn'
        obtain ⟨b, hb, rfl⟩ := List.mem_map.1 hn'
        exact h0 b (List.mem_cons_of_mem _ hb) (fun e => hn.1 (e ▸ hb))
      omega
    · have hx : f x = 0 := h0 x (by simp) (fun e => hn.1 (e ▸ ha))
      rw [hx, ih hn.2 ha (fun b hb => h0 b (List.mem_cons_of_mem _ hb))]
      omega

/-- Exactly once, however many spellings of the tag the operation carries (operation ids identify the operations). -/
theorem every_op_once (u : UInfo) (ops : List TagOp) (op : TagOp) (t : Str) (hop : op ∈ ops)
    (ht : t ∈ tagsOrDefault op) (hids : (ops.map (·.id)).Nodup)
    (g : TagGroup) (hg : g ∈ groupEndpoints u ops) (hk : g.key = normTagKey u t) :
    g.ops.count op.id = 1 := by
  rw [groupEndpoints_ops u ops g hg, hk]
  have hsub : ((ops.filter (hasKey u (normTagKey u t))).map (·.id)).Nodup :=
    (List.filter_sublist.map _).nodup hids
  apply count_eq_one_of_nodup_mem _ _ hsub
  refine List.mem_map.2 ⟨op, List.mem_filter.2 ⟨hop, ?_⟩, rfl⟩
  unfold hasKey
  exact List.contains_iff_mem.2 (List.mem_map_of_mem ht)

/-- … and never in the client of a key none of its tags normalises to. -/
theorem op_absent_elsewhere (u : UInfo) (ops : List TagOp) (op : TagOp) (hop : op ∈ ops) (hids : (ops.map (·.id)).Nodup)
    (g : TagGroup) (hg : g ∈ groupEndpoints u ops) (hk : g.key ∉ (tagsOrDefault op).map (normTagKey u)) :
    op.id ∉ g.ops := by
  rw [groupEndpoints_ops u ops g hg]
  intro hm
  obtain ⟨op', hop', hid⟩ := List.mem_map.1 hm
  obtain ⟨h1, h2⟩ := List.mem_filter.1 hop'
  have : op' = op := inj_of_nodup_map _ _ hids op' op h1 hop hid
  subst this
  exact hk (List.contains_iff_mem.1 h2)

/-! ## `tag_score`, `max` -/

theorem pyStrLt_irrefl (a : Str) : pyStrLt a a = false := by
  induction a with
  | nil => rfl
  | cons c cs ih => simp [pyStrLt, ih]

theorem scoreLt_irrefl (a : TagScore) : scoreLt a a = false := by
  simp [scoreLt, pyStrLt_irrefl]

theorem maxGo_all_eq (u : UInfo) (t : Str) (xs : List Str) (h : ∀ x ∈ xs, x = t) : maxGo u t xs = t := by
  induction xs with
  | nil => rfl
  | cons x xs ih =>
    have hx : x = t := h x (by simp)
    subst hx
    simp only [maxGo, scoreLt_irrefl, Bool.false_eq_true, if_false]
    exact ih (fun y hy => h y (List.mem_cons_of_mem _ hy))

theorem pyMaxTag_all_eq (u : UInfo) (t : Str) (l : List Str) (hne : l ≠ []) (h : ∀ x ∈ l, x = t) :
    pyMaxTag u l = some t := by
  cases l with
  | nil => exact absurd rfl hne
  | cons x xs =>
    have hx : x = t := h x (by simp)
    subst hx
    simp only [pyMaxTag]
    rw [maxGo_all_eq u x xs (fun y hy => h y (List.mem_cons_of_mem _ hy))]

/-- `max` returns one of its arguments. -/
theorem maxGo_mem (u : UInfo) (b : Str) (xs : List Str) : maxGo u b xs = b ∨ maxGo u b xs ∈ xs := by
  induction xs generalizing b with
  | nil => exact .inl rfl
  | cons x xs ih =>
    simp only [maxGo]
    split
    · rcases ih x with h | h
      · exact .inr (by rw [h]; simp)
      · exact .inr (List.mem_cons_of_mem _ h)
    · rcases ih b with h | h
      · exact .inl h
      · exact .inr (List.mem_cons_of_mem _ h)

theorem pyMaxTag_mem (u : UInfo) (l : List Str) (t : Str) (h : pyMaxTag u l = some t) : t ∈ l := by
  cases l with
  | nil => simp [pyMaxTag] at h
  | cons x xs =>
    simp only [pyMaxTag, Option.some.injEq] at h
    rcases maxGo_mem u x xs with h' | h'
    · rw [← h, h']; simp
    · rw [← h]; exact List.mem_cons_of_mem _ h'

/-! ## Generic helpers -/

theorem gfold_map {γ β α : Type} (F : γ → β) (kf : β → Str) (vf : β → α) (xs : List γ) (d : List (Str × List α)) :
    gfold kf vf (xs.map F) d = gfold (fun x => kf (F x)) (fun x => vf (F x)) xs d := by
  unfold gfold
  rw [List.foldl_map]

theorem projOps_gfold_some {β : Type} (kf : β → Str) (a b : β → Str) (xs : List β) :
    ∀ d, projOps (gfold kf (fun x => (a x, some (b x))) xs d) = gfold kf b xs (projOps d) := by
  induction xs with
  | nil => intro _; rfl
  | cons x xs ih => intro d; rw [gfold_cons, gfold_cons, ih, projOps_addMulti_some]

theorem kDefaultTag_ne_nil : kDefaultTag ≠ [] := by decide

/-! ## Property names of `APIClient` vs the tag clients -/

theorem filterMap_congr_mem {α β : Type} (l : List α) (f g : α → Option β) (h : ∀ a ∈ l, f a = g a) :
    l.filterMap f = l.filterMap g := by
  induction l with
  | nil => rfl
  | cons a l ih =>
    simp only [List.filterMap_cons, h a (by simp), ih (fun b hb => h b (List.mem_cons_of_mem _ hb))]

theorem tagMapEmitter_fused (u : UInfo) (ops : List TagOp) :
    tagMapEmitter u ops =
      (keyToPairs u ops).map (fun e => (e.1, (pyMaxTag u (e.2.map (·.1))).getD kDefaultTag)) := by
  unfold tagMapEmitter
  rw [keyToCands_fused]
  simp [mapVals, List.map_map, Function.comp_def]

theorem insertKey_perm (k : Str) (l : List Str) : (insertKey k l).Perm (k :: l) := by
  induction l with
  | nil => exact List.Perm.refl _
  | cons x xs ih =>
    simp only [insertKey]
    split
    · exact List.Perm.refl _
    · exact (List.Perm.cons x ih).trans (List.Perm.swap k x xs)

theorem sortKeys_perm (l : List Str) : (sortKeys l).Perm l := by
  induction l with
  | nil => exact List.Perm.refl _
  | cons x xs ih =>
    simp only [sortKeys, List.foldr_cons]
    exact (insertKey_perm x _).trans (List.Perm.cons x ih)

theorem clientProps_perm (u : UInfo) (ops : List TagOp) :
    ∃ L, clientProps u ops = some L ∧ L.Perm ((groupEndpoints u ops).map (·.module)) := by
  unfold clientProps
  rw [tagMapVisitor_eq]
  refine ⟨_, rfl, ?_⟩
  have hn : ((tagMapEmitter u ops).map (·.1)).Nodup := by
    rw [tagMapEmitter_fused, List.map_map]; exact keyToPairs_nodup u ops
  refine (List.Perm.filterMap _ (sortKeys_perm _)).trans ?_
  rw [List.filterMap_map]
  have : (tagMapEmitter u ops).filterMap ((fun k => (tagDictGet (tagMapEmitter u ops) k).map (sanModule u)) ∘ (·.1)) =
      (tagMapEmitter u ops).map (fun e => sanModule u e.2) := by
    rw [← List.filterMap_eq_map]
    apply filterMap_congr_mem
    intro e he
    simp only [Function.comp_def]
    rw [dictGet_of_mem _ hn e he]; rfl
  rw [this, tagMapEmitter_fused]
  simp [groupEndpoints, mkGroup, List.map_map, Function.comp_def]

/-! ## The mocks emitter groups like the endpoints emitter (F23 repaired) -/

theorem mapM_some_filterMap {α β : Type} (f : α → Option β) (l : List α) (h : ∀ a ∈ l, (f a).isSome = true) :
    l.mapM f = some (l.filterMap f) := by
  induction l with
  | nil => rfl
  | cons a l ih =>
    have ha := h a (by simp)
    obtain ⟨b, hb⟩ := Option.isSome_iff_exists.1 ha
    rw [List.mapM_cons, hb, ih (fun x hx => h x (List.mem_cons_of_mem _ hx))]
    simp [hb]

theorem filterMap_id_of_some {α : Type} (l : List α) (f : α → Option α) (h : ∀ a ∈ l, f a = some a) :
    l.filterMap f = l := by
  induction l with
  | nil => rfl
  | cons a l ih =>
    rw [List.filterMap_cons, h a (by simp), ih (fun x hx => h x (List.mem_cons_of_mem _ hx))]

theorem find_group_of_mem (gs : List TagGroup) (hn : (gs.map (·.key)).Nodup) (g : TagGroup) (hg : g ∈ gs) :
    gs.find? (fun x => x.key == g.key) = some g := by
  induction gs with
  | nil => cases hg
  | cons a gs ih =>
    simp only [List.map_cons, List.nodup_cons] at hn
    rcases List.mem_cons.1 hg with rfl | hg
    · simp
    · have hne : ¬ a.key = g.key := fun heq => hn.1 (heq ▸ List.mem_map_of_mem (f := (·.key)) hg)
      have : (a.key == g.key) = false := by simpa using hne
      simp only [List.find?_cons, this]
      exact ih hn.2 hg

theorem keyToOps_keys (u : UInfo) (ops : List TagOp) :
    (keyToOps u ops).map (·.1) = (groupEndpoints u ops).map (·.key) := by
  rw [keyToOps_fused]
  simp [projOps, groupEndpoints, mkGroup, List.map_map, Function.comp_def]

theorem tagMapEmitter_keys (u : UInfo) (ops : List TagOp) :
    (tagMapEmitter u ops).map (·.1) = (groupEndpoints u ops).map (·.key) := by
  rw [tagMapEmitter_fused]
  simp [groupEndpoints, mkGroup, List.map_map, Function.comp_def]

theorem keyToPairs_nonempty (u : UInfo) (ops : List TagOp) : ∀ e ∈ keyToPairs u ops, e.2 ≠ [] := by
  intro e he
  rw [keyToPairs_eq] at he
  exact (gfold_entry _ _ _ e he).2

/-- The list comprehension of `MocksEmitter._group_operations_by_tag` never raises (`candidates_by_key[key]`, `max`), and its
    groups are the groups of the endpoints emitter taken in the order of their keys. -/
theorem groupMocksRaw_eq (u : UInfo) (ops : List TagOp) : groupMocksRaw u ops = some (groupMocks u ops) := by
  unfold groupMocksRaw groupMocks
  simp only
  rw [keyToOps_keys]
  have hpt : ∀ k ∈ sortKeys ((groupEndpoints u ops).map (·.key)),
      ((tagDictGet (keyToCands u ops) k).bind fun cands => (pyMaxTag u cands).bind fun c =>
        (tagDictGet (keyToOps u ops) k).map fun os => mkGroup u k c os) =
      (groupEndpoints u ops).find? (fun g => g.key == k) := by
    intro k hk
    have hk' : k ∈ (groupEndpoints u ops).map (·.key) := (sortKeys_perm _).mem_iff.1 hk
    obtain ⟨g, hg, rfl⟩ := List.mem_map.1 hk'
    rw [find_group_of_mem _ (groupEndpoints_keys_nodup u ops) g hg]
    unfold groupEndpoints at hg
    obtain ⟨e, he, rfl⟩ := List.mem_map.1 hg
    rw [keyToCands_fused, keyToOps_fused]
    have h1 := dictGet_map_of_mem (keyToPairs u ops) (keyToPairs_nodup u ops) (fun e => e.2.map (·.1)) e he
    have h2 := dictGet_map_of_mem (keyToPairs u ops) (keyToPairs_nodup u ops) (fun e => e.2.filterMap (·.2)) e he
    have hne : e.2.map (·.1) ≠ [] := by
      have := keyToPairs_nonempty u ops e he
      simpa using this
    simp only [mapVals, projOps, mkGroup] at h1 h2 ⊢
    rw [h1, h2, Option.bind_some, pyMaxTag_of_ne u _ hne]
    rfl
  rw [mapM_some_filterMap _ _ (fun k hk => by
    rw [hpt k hk]
    have hk' : k ∈ (groupEndpoints u ops).map (·.key) := (sortKeys_perm _).mem_iff.1 hk
    obtain ⟨g, hg, rfl⟩ := List.mem_map.1 hk'
    rw [find_group_of_mem _ (groupEndpoints_keys_nodup u ops) g hg]; rfl)]
  exact congrArg some (filterMap_congr_mem _ _ _ hpt)

/-- Same groups (module, class, operations), possibly in another order. -/
theorem groupMocks_perm (u : UInfo) (ops : List TagOp) : (groupMocks u ops).Perm (groupEndpoints u ops) := by
  unfold groupMocks
  simp only
  refine (List.Perm.filterMap _ (sortKeys_perm _)).trans ?_
  rw [List.filterMap_map]
  rw [filterMap_id_of_some]
  intro g hg
  exact find_group_of_mem _ (groupEndpoints_keys_nodup u ops) g hg

/-- … namely in the order `sorted(keys)`. -/
theorem groupMocks_keys (u : UInfo) (ops : List TagOp) :
    (groupMocks u ops).map (·.key) = sortKeys ((groupEndpoints u ops).map (·.key)) := by
  unfold groupMocks
  simp only
  rw [List.map_filterMap]
  apply filterMap_id_of_some
  intro k hk
  have hk' : k ∈ (groupEndpoints u ops).map (·.key) := (sortKeys_perm _).mem_iff.1 hk
  obtain ⟨g, hg, rfl⟩ := List.mem_map.1 hk'
  rw [find_group_of_mem _ (groupEndpoints_keys_nodup u ops) g hg]
  rfl

/-- Anything computed from the canonical tag of the mock groups is what `ClientVisitor.visit` computes from its `tag_map` in the
    order `sorted(tag_map)`. -/
theorem groupMocks_map_canon {γ : Type} (u : UInfo) (ops : List TagOp) (G : Str → γ) :
    (groupMocks u ops).map (fun g => G g.canon) =
      (sortKeys ((tagMapEmitter u ops).map (·.1))).filterMap fun k => (tagDictGet (tagMapEmitter u ops) k).map G := by
  unfold groupMocks
  simp only
  rw [tagMapEmitter_keys, List.map_filterMap]
  apply filterMap_congr_mem
  intro k hk
  have hk' : k ∈ (groupEndpoints u ops).map (·.key) := (sortKeys_perm _).mem_iff.1 hk
  obtain ⟨g, hg, rfl⟩ := List.mem_map.1 hk'
  rw [find_group_of_mem _ (groupEndpoints_keys_nodup u ops) g hg]
  unfold groupEndpoints at hg
  obtain ⟨e, he, rfl⟩ := List.mem_map.1 hg
  rw [tagMapEmitter_fused]
  have h1 := dictGet_map_of_mem (keyToPairs u ops) (keyToPairs_nodup u ops)
    (fun e => (pyMaxTag u (e.2.map (·.1))).getD kDefaultTag) e he
  simp only [mkGroup] at h1 ⊢
  rw [h1]
  rfl

theorem groupMocks_mk (u : UInfo) (ops : List TagOp) (g : TagGroup) (hg : g ∈ groupMocks u ops) :
    g = mkGroup u g.key g.canon g.ops := by
  have hg' := (groupMocks_perm u ops).mem_iff.1 hg
  unfold groupEndpoints at hg'
  obtain ⟨e, _, rfl⟩ := List.mem_map.1 hg'
  rfl

/-- `MockAPIClient` has the properties of `APIClient`, in the same order. -/
theorem clientProps_eq_mock (u : UInfo) (ops : List TagOp) : clientProps u ops = some (mockClientProps u ops) := by
  unfold clientProps mockClientProps
  rw [tagMapVisitor_eq, Option.map_some, ← groupMocks_map_canon u ops (sanModule u)]
  congr 1
  apply List.map_congr_left
  intro g hg
  rw [groupMocks_mk u ops g hg]
  rfl

end Pog
