import Pog.Model.Plan
/-
  Lemmas about the C10 model: component-list paths, the `relpath`/`normpath` round trip, the
  `__init__.py` loops, which paths the emitter stages name, and that primitives that stay away from a
  directory leave it unchanged.
-/
namespace Pog.Plan
open Pog Pog.Diff

/-! ## prefixes -/

theorem mem_pathPrefixes {q p : Path} : q ∈ pathPrefixes p ↔ q <+: p := by
  induction p generalizing q with
  | nil => simp [pathPrefixes]
  | cons c cs ih =>
    simp only [pathPrefixes, List.mem_cons, List.mem_map]
    constructor
    · rintro (rfl | ⟨r, hr, rfl⟩)
      · exact List.nil_prefix
      · exact (List.cons_prefix_cons).mpr ⟨rfl, ih.mp hr⟩
    · intro h
      cases q with
      | nil => exact Or.inl rfl
      | cons d ds =>
        obtain ⟨rfl, h'⟩ := List.cons_prefix_cons.mp h
        exact Or.inr ⟨ds, ih.mpr h', rfl⟩

theorem parentDir_concat (a : Path) (x : Str) : parentDir (a ++ [x]) = a := by
  simp [parentDir]

theorem parentDir_prefix (p : Path) : parentDir p <+: p := List.dropLast_prefix p

/-- two directories below which a common path lies are comparable -/
theorem comparable_of_common {a b p : Path} (ha : a <+: p) (hb : b <+: p) : a <+: b ∨ b <+: a :=
  List.prefix_or_prefix_of_prefix ha hb

/-! ## `relpath` then `normpath` gives the core directory back -/

theorem commonLen_le_left (a b : Path) : commonLen a b ≤ a.length := by
  induction a generalizing b with
  | nil => simp [commonLen]
  | cons x xs ih =>
    cases b with
    | nil => simp [commonLen]
    | cons y ys =>
      simp only [commonLen]
      split
      · have := ih ys; simp; omega
      · simp

theorem commonLen_le_right (a b : Path) : commonLen a b ≤ b.length := by
  induction a generalizing b with
  | nil => simp [commonLen]
  | cons x xs ih =>
    cases b with
    | nil => simp [commonLen]
    | cons y ys =>
      simp only [commonLen]
      split
      · have := ih ys; simp; omega
      · simp

theorem take_commonLen (a b : Path) : a.take (commonLen a b) = b.take (commonLen a b) := by
  induction a generalizing b with
  | nil => simp [commonLen]
  | cons x xs ih =>
    cases b with
    | nil => simp [commonLen]
    | cons y ys =>
      simp only [commonLen]
      split
      · rename_i h; subst h; simp [ih ys]
      · simp

theorem cleanPath_iff {p : Path} : cleanPath p = true ↔ ∀ c ∈ p, c ≠ pDot ∧ c ≠ pDotDot ∧ c ≠ [] := by
  simp [cleanPath, List.all_eq_true, and_assoc]

theorem cleanPath_append {p q : Path} : cleanPath (p ++ q) = true ↔ cleanPath p = true ∧ cleanPath q = true := by
  simp [cleanPath, List.all_append]

theorem cleanPath_drop {p : Path} (h : cleanPath p = true) (n : Nat) : cleanPath (p.drop n) = true := by
  rw [cleanPath_iff] at h ⊢
  intro c hc
  exact h c (List.mem_of_mem_drop hc)

theorem normGo_clean (acc cs : Path) (h : cleanPath cs = true) : normGo acc cs = acc ++ cs := by
  induction cs generalizing acc with
  | nil => simp [normGo]
  | cons c cs ih =>
    have hc := (cleanPath_iff.mp h) c List.mem_cons_self
    have hcs : cleanPath cs = true := by
      rw [cleanPath_iff] at h ⊢
      intro d hd; exact h d (List.mem_cons_of_mem _ hd)
    simp only [normGo, hc.1, hc.2.2, or_self, if_false, hc.2.1]
    rw [ih _ hcs]
    simp

theorem normGo_append (acc xs ys : Path) : normGo acc (xs ++ ys) = normGo (normGo acc xs) ys := by
  induction xs generalizing acc with
  | nil => simp [normGo]
  | cons c cs ih =>
    simp only [List.cons_append, normGo]
    split
    · exact ih _
    · split
      · exact ih _
      · exact ih _

theorem normGo_dotdots (acc : Path) (k : Nat) :
    normGo acc (List.replicate k pDotDot) = acc.take (acc.length - k) := by
  induction k generalizing acc with
  | zero => simp [normGo]
  | succ k ih =>
    have h1 : pDotDot ≠ pDot := by decide
    have h2 : pDotDot ≠ [] := by decide
    simp only [List.replicate_succ, normGo, h1, h2, or_self, if_false, if_true]
    rw [ih, List.dropLast_eq_take, List.take_take, List.length_take]
    congr 1
    omega

theorem normGo_dot (acc : Path) : normGo acc [pDot] = acc := by
  simp [normGo]

/-- `os.path.normpath(os.path.join(out, os.path.relpath(core, out))) == core` for resolved paths. -/
theorem coreTarget_eq (out core : Path) (ho : cleanPath out = true) (hc : cleanPath core = true) :
    coreTarget out core = core := by
  unfold coreTarget normalise relpath
  simp only []
  have hi1 := commonLen_le_left out core
  have hi2 := commonLen_le_right out core
  have ht := take_commonLen out core
  rw [normGo_append, normGo_clean [] out ho, List.nil_append]
  split
  · rename_i hemp
    have hemp : List.replicate (out.length - commonLen out core) pDotDot ++ core.drop (commonLen out core) = [] := by
      simpa using hemp
    have h1 : out.length - commonLen out core = 0 := by
      have := congrArg List.length hemp
      simp at this
      omega
    have h2 : core.length ≤ commonLen out core := by
      have := congrArg List.length hemp
      simp at this
      omega
    rw [normGo_dot]
    have : out.take (commonLen out core) = out := List.take_of_length_le (by omega)
    rw [this] at ht
    rw [ht]
    exact List.take_of_length_le h2
  · rw [normGo_append, normGo_dotdots, normGo_clean _ _ (cleanPath_drop hc _)]
    have : out.length - (out.length - commonLen out core) = commonLen out core := by omega
    rw [this, ht, List.take_append_drop]


/-! ## package paths are clean -/

theorem splitOnC_no_sep (ch : Char) (s : Str) : ∀ seg ∈ splitOnC ch s, ch ∉ seg := by
  induction s with
  | nil => simp [splitOnC]
  | cons c cs ih =>
    intro seg hseg
    simp only [splitOnC] at hseg
    split at hseg
    · rcases List.mem_cons.mp hseg with rfl | h
      · simp
      · exact ih seg h
    · rename_i hne
      cases hr : splitOnC ch cs with
      | nil =>
        rw [hr] at hseg
        simp only [List.mem_singleton] at hseg
        subst hseg
        simp only [List.mem_singleton]
        exact fun h => hne h.symm
      | cons h t =>
        rw [hr] at hseg ih
        rcases List.mem_cons.mp hseg with rfl | hm
        · simp only [List.mem_cons, not_or]
          exact ⟨fun h' => hne h'.symm, ih h List.mem_cons_self⟩
        · exact ih seg (List.mem_cons_of_mem _ hm)

theorem cleanPath_pkgSegs (pkg : Str) :
    cleanPath ((splitOnC '.' pkg).filter (fun s => !s.isEmpty)) = true := by
  rw [cleanPath_iff]
  intro c hc
  obtain ⟨hm, hne⟩ := List.mem_filter.mp hc
  have hdot := splitOnC_no_sep '.' pkg c hm
  refine ⟨?_, ?_, ?_⟩
  · rintro rfl; exact hdot (by simp [pDot])
  · rintro rfl; exact hdot (by simp [pDotDot])
  · rintro rfl; simp at hne

theorem cleanPath_pkgToPath {root : Path} (h : cleanPath root = true) (pkg : Str) :
    cleanPath (pkgToPath root pkg) = true := by
  unfold pkgToPath
  exact cleanPath_append.mpr ⟨h, cleanPath_pkgSegs pkg⟩

theorem root_prefix_pkgToPath (root : Path) (pkg : Str) : root <+: pkgToPath root pkg :=
  List.prefix_append _ _

/-! ## the `while current != project_root` loops -/

theorem mem_upChain_prefix {root : Path} {n : Nat} {cur d : Path} (h : d ∈ upChain root n cur) : d <+: cur := by
  induction n generalizing cur with
  | zero => simp [upChain] at h
  | succ n ih =>
    simp only [upChain] at h
    split at h
    · cases h
    · rcases List.mem_cons.mp h with rfl | h
      · exact List.prefix_rfl
      · split at h
        · cases h
        · exact (ih h).trans (List.dropLast_prefix _)

theorem mem_upChain_root {root : Path} {n : Nat} {cur d : Path} (hr : root <+: cur)
    (h : d ∈ upChain root n cur) : root <+: d ∧ d ≠ root := by
  induction n generalizing cur with
  | zero => simp [upChain] at h
  | succ n ih =>
    simp only [upChain] at h
    split at h
    · cases h
    · rename_i hne
      rcases List.mem_cons.mp h with rfl | h
      · exact ⟨hr, hne⟩
      · split at h
        · cases h
        · refine ih ?_ h
          obtain ⟨t, rfl⟩ := hr
          have ht : t ≠ [] := by
            intro ht; subst ht; simp at hne
          rw [List.dropLast_append_of_ne_nil ht]
          exact List.prefix_append _ _

theorem mem_ancestorsTo {root d a : Path} (hr : root <+: d) (h : a ∈ ancestorsTo root d) :
    root <+: a ∧ a <+: d ∧ a ≠ root :=
  ⟨(mem_upChain_root hr h).1, mem_upChain_prefix h, (mem_upChain_root hr h).2⟩


/-! ## which paths the emitter stages name -/

/-- Every path the primitive names satisfies `P`, except that appends go to `log`; no `rmtree`. -/
def ActIn (P : Path → Prop) (log : Path) : Act → Prop
  | .mkdirs p => P p
  | .write p _ => P p
  | .append p _ => p = log
  | .rename s d => P s ∧ P d
  | .rmtree _ => False
  | .rewrite p => P p

def OpsIn (P : Path → Prop) (log : Path) (ops : List Op) : Prop := ∀ o ∈ ops, ActIn P log o.act

theorem ActIn.mono {P Q : Path → Prop} {log : Path} (h : ∀ p, P p → Q p) {a : Act} (ha : ActIn P log a) :
    ActIn Q log a := by
  cases a <;> simp only [ActIn] at ha ⊢
  · exact h _ ha
  · exact h _ ha
  · exact ha
  · exact ⟨h _ ha.1, h _ ha.2⟩
  · exact h _ ha

theorem OpsIn.mono {P Q : Path → Prop} {log : Path} (h : ∀ p, P p → Q p) {ops : List Op} (ho : OpsIn P log ops) :
    OpsIn Q log ops := fun o hm => (ho o hm).mono h

theorem opsIn_nil (P : Path → Prop) (log : Path) : OpsIn P log [] := by intro o h; cases h

theorem opsIn_append {P : Path → Prop} {log : Path} {a b : List Op} :
    OpsIn P log (a ++ b) ↔ OpsIn P log a ∧ OpsIn P log b := by
  simp only [OpsIn, List.mem_append]
  constructor
  · intro h; exact ⟨fun o ho => h o (Or.inl ho), fun o ho => h o (Or.inr ho)⟩
  · rintro ⟨h1, h2⟩ o (ho | ho)
    · exact h1 o ho
    · exact h2 o ho

theorem opsIn_cons {P : Path → Prop} {log : Path} {o : Op} {b : List Op} :
    OpsIn P log (o :: b) ↔ ActIn P log o.act ∧ OpsIn P log b := by
  simp [OpsIn]

theorem opsIn_flatMap {α : Type} {P : Path → Prop} {log : Path} {l : List α} {f : α → List Op}
    (h : ∀ e ∈ l, OpsIn P log (f e)) : OpsIn P log (l.flatMap f) := by
  intro o ho
  obtain ⟨e, he, hoe⟩ := List.mem_flatMap.mp ho
  exact h e he o hoe

theorem opsIn_ite {P : Path → Prop} {log : Path} {c : Prop} [Decidable c] {a b : List Op}
    (ha : OpsIn P log a) (hb : OpsIn P log b) : OpsIn P log (if c then a else b) := by
  split <;> assumption

theorem opsIn_reguard {P : Path → Prop} {log : Path} {ops : List Op} (g : Guard) (h : OpsIn P log ops) :
    OpsIn P log (ops.map (fun o => (⟨g, o.act⟩ : Op))) := by
  intro o ho
  obtain ⟨o', ho', rfl⟩ := List.mem_map.mp ho
  exact h o' ho'

theorem opsIn_fmWrite {P : Path → Prop} {log : Path} (g : Guard) (d : Path) (x : Str) (c : Str)
    (hd : P d) (hp : P (d ++ [x])) : OpsIn P log (fmWrite g log (d ++ [x]) c) := by
  intro o ho
  simp only [fmWrite, List.mem_cons, List.not_mem_nil, or_false] at ho
  rcases ho with rfl | rfl | rfl
  · simpa [ActIn, parentDir_concat] using hd
  · simp [ActIn]
  · simpa [ActIn] using hp

/-- "at or below `a`, or at or below `b`" -/
def Under2 (a b : Path) (p : Path) : Prop := a <+: p ∨ b <+: p

theorem under2_left (a b x : Path) : Under2 a b (a ++ x) := Or.inl (List.prefix_append _ _)
theorem under2_right (a b x : Path) : Under2 a b (b ++ x) := Or.inr (List.prefix_append _ _)
theorem under2_left' (a b : Path) : Under2 a b a := Or.inl List.prefix_rfl
theorem under2_right' (a b : Path) : Under2 a b b := Or.inr List.prefix_rfl

theorem excOps_in (sp : PlanSpec) (root core other : Path) (client : Str) (log : Path) :
    OpsIn (Under2 other core) log (excOps sp root core client) := by
  unfold excOps
  refine opsIn_append.mpr ⟨opsIn_ite ?_ (opsIn_nil _ _), ?_⟩
  · refine opsIn_cons.mpr ⟨?_, opsIn_nil _ _⟩
    exact under2_right _ _ _
  · refine opsIn_cons.mpr ⟨?_, opsIn_nil _ _⟩
    exact under2_right _ _ _

theorem coreOps_in (sp : PlanSpec) (log out core : Path) :
    OpsIn (Under2 out (coreTarget out core)) log (coreOps sp log out core) := by
  unfold coreOps
  simp only []
  refine opsIn_append.mpr ⟨opsIn_append.mpr ⟨opsIn_append.mpr ⟨opsIn_append.mpr ⟨opsIn_append.mpr
    ⟨opsIn_append.mpr ⟨?_, ?_⟩, ?_⟩, ?_⟩, ?_⟩, ?_⟩, ?_⟩
  · exact opsIn_cons.mpr ⟨under2_right' _ _, opsIn_nil _ _⟩
  · refine opsIn_flatMap ?_
    intro e _
    refine opsIn_cons.mpr ⟨under2_right _ _ _, ?_⟩
    exact opsIn_fmWrite _ _ _ _ (under2_right _ _ _) (by rw [List.append_assoc]; exact under2_right _ _ _)
  · exact opsIn_fmWrite _ _ _ _ (under2_right' _ _) (under2_right _ _ _)
  · refine opsIn_reguard _ ?_
    refine opsIn_cons.mpr ⟨under2_right _ _ _, ?_⟩
    have : coreTarget out core ++ ["auth".toList, fInit] = (coreTarget out core ++ ["auth".toList]) ++ [fInit] := by simp
    rw [this]
    exact opsIn_fmWrite _ _ _ _ (under2_right _ _ _) (by rw [List.append_assoc]; exact under2_right _ _ _)
  · exact opsIn_fmWrite _ _ _ _ (under2_right' _ _) (under2_right _ _ _)
  · exact opsIn_fmWrite _ _ _ _ (under2_right' _ _) (under2_right _ _ _)
  · exact opsIn_fmWrite _ _ _ _ (under2_right' _ _) (under2_right _ _ _)

theorem modelOps_in (sp : PlanSpec) (out other log : Path) : OpsIn (Under2 out other) log (modelOps sp out) := by
  unfold modelOps
  simp only []
  refine opsIn_append.mpr ⟨opsIn_append.mpr ⟨?_, ?_⟩, ?_⟩
  · refine opsIn_cons.mpr ⟨under2_left _ _ _, opsIn_cons.mpr ⟨?_, opsIn_nil _ _⟩⟩
    simp only [ActIn, List.append_assoc]; exact under2_left _ _ _
  · refine opsIn_flatMap ?_
    intro e _
    refine opsIn_cons.mpr ⟨under2_left _ _ _, opsIn_cons.mpr ⟨?_, opsIn_cons.mpr ⟨?_, opsIn_nil _ _⟩⟩⟩
    · simp only [ActIn, always, List.append_assoc]; exact under2_left _ _ _
    · simp only [ActIn, always, List.append_assoc]; exact ⟨under2_left _ _ _, under2_left _ _ _⟩
  · refine opsIn_cons.mpr ⟨?_, opsIn_cons.mpr ⟨?_, opsIn_nil _ _⟩⟩
    · simp only [ActIn, always, List.append_assoc]; exact under2_left _ _ _
    · simp only [ActIn, always, List.append_assoc]; exact under2_left _ _ _

theorem endpointOps_in (sp : PlanSpec) (log out other : Path) (k : Nat) :
    OpsIn (Under2 out other) log (endpointOps sp log out k) := by
  unfold endpointOps
  simp only []
  refine opsIn_append.mpr ⟨opsIn_append.mpr ⟨opsIn_append.mpr ⟨opsIn_append.mpr ⟨opsIn_append.mpr ⟨?_, ?_⟩, ?_⟩, ?_⟩, ?_⟩, ?_⟩
  · exact opsIn_cons.mpr ⟨under2_left _ _ _, opsIn_nil _ _⟩
  · exact opsIn_fmWrite _ _ _ _ (under2_left _ _ _) (by rw [List.append_assoc]; exact under2_left _ _ _)
  · exact opsIn_fmWrite _ _ _ _ (under2_left' _ _) (under2_left _ _ _)
  · exact opsIn_fmWrite _ _ _ _ (under2_left _ _ _) (by rw [List.append_assoc]; exact under2_left _ _ _)
  · refine opsIn_flatMap ?_
    intro f _
    exact opsIn_fmWrite _ _ _ _ (under2_left _ _ _) (by rw [List.append_assoc]; exact under2_left _ _ _)
  · exact opsIn_fmWrite _ _ _ _ (under2_left _ _ _) (by rw [List.append_assoc]; exact under2_left _ _ _)

theorem clientOps_in (sp : PlanSpec) (log out other : Path) : OpsIn (Under2 out other) log (clientOps sp log out) := by
  unfold clientOps
  refine opsIn_append.mpr ⟨opsIn_append.mpr ⟨?_, ?_⟩, ?_⟩
  · exact opsIn_cons.mpr ⟨under2_left' _ _, opsIn_nil _ _⟩
  · exact opsIn_fmWrite _ _ _ _ (under2_left' _ _) (under2_left _ _ _)
  · exact opsIn_fmWrite _ _ _ _ (under2_left' _ _) (under2_left _ _ _)

theorem mockOps_in (sp : PlanSpec) (log out other : Path) (k : Nat) :
    OpsIn (Under2 out other) log (mockOps sp log out k) := by
  unfold mockOps
  simp only []
  refine opsIn_append.mpr ⟨opsIn_append.mpr ⟨opsIn_append.mpr ⟨opsIn_append.mpr ⟨?_, ?_⟩, ?_⟩, ?_⟩, ?_⟩
  · refine opsIn_cons.mpr ⟨under2_left _ _ _, opsIn_cons.mpr ⟨?_, opsIn_nil _ _⟩⟩
    simp only [ActIn, always, List.append_assoc]; exact under2_left _ _ _
  · refine opsIn_flatMap ?_
    intro f _
    exact opsIn_fmWrite _ _ _ _ (by rw [List.append_assoc]; exact under2_left _ _ _)
      (by rw [List.append_assoc, List.append_assoc]; exact under2_left _ _ _)
  · exact opsIn_fmWrite _ _ _ _ (by rw [List.append_assoc]; exact under2_left _ _ _)
      (by rw [List.append_assoc, List.append_assoc]; exact under2_left _ _ _)
  · exact opsIn_fmWrite _ _ _ _ (under2_left _ _ _) (by rw [List.append_assoc]; exact under2_left _ _ _)
  · exact opsIn_fmWrite _ _ _ _ (under2_left _ _ _) (by rw [List.append_assoc]; exact under2_left _ _ _)


theorem postOps_in {P : Path → Prop} {log : Path} {files : List Path} (h : ∀ p ∈ files, P p) :
    OpsIn P log (postOps files) := by
  intro o ho
  obtain ⟨p, hp, rfl⟩ := List.mem_map.mp ho
  exact h p hp

theorem generatedPy_under (sp : PlanSpec) (out core : Path) (k : Nat) (rich : Bool) :
    ∀ p ∈ generatedPy sp out core k rich, Under2 out core p ∨ Under2 out (coreTarget out core) p := by
  intro p hp
  unfold generatedPy at hp
  simp only [List.mem_append, List.mem_cons, List.mem_map, List.mem_filter, List.not_mem_nil, or_false] at hp
  rcases hp with ((((((hp | hp) | hp) | hp) | hp) | hp) | hp) | hp
  · subst hp; exact Or.inl (under2_right _ _ _)
  · obtain ⟨hp, _⟩ := hp
    rcases hp with ⟨e, _, rfl⟩ | rfl | rfl | rfl
    · exact Or.inr (by rw [List.append_assoc]; exact under2_right _ _ _)
    · exact Or.inr (under2_right _ _ _)
    · exact Or.inr (under2_right _ _ _)
    · exact Or.inr (under2_right _ _ _)
  · obtain ⟨e, _, rfl⟩ := hp; exact Or.inl (under2_left _ _ _)
  · obtain ⟨e, _, rfl⟩ := hp; exact Or.inl (under2_left _ _ _)
  · rcases hp with rfl | rfl <;> exact Or.inl (under2_left _ _ _)
  · obtain ⟨e, _, rfl⟩ := hp; exact Or.inl (under2_left _ _ _)
  · rcases hp with rfl | rfl | rfl <;> exact Or.inl (under2_left _ _ _)
  · split at hp
    · simp only [List.mem_singleton] at hp; subst hp; exact Or.inl (under2_left _ _ _)
    · cases hp


/-! ## the diff path names only paths below the temporary root (and the debug log) -/

theorem diffPlan_in (c : PlanCfg) (sp : PlanSpec) (hclean : cleanPath c.tmpRoot = true) :
    OpsIn (fun p => c.tmpRoot <+: p) c.debugLog ((diffPlan c sp).flatMap (·.2)) := by
  have ht : coreTarget c.tmpOut c.tmpCore = c.tmpCore :=
    coreTarget_eq _ _ (cleanPath_pkgToPath hclean _) (cleanPath_pkgToPath hclean _)
  have hO : c.tmpRoot <+: c.tmpOut := root_prefix_pkgToPath _ _
  have hC : c.tmpRoot <+: c.tmpCore := root_prefix_pkgToPath _ _
  have mono : ∀ p, Under2 c.tmpOut c.tmpCore p → c.tmpRoot <+: p := by
    rintro p (h | h)
    · exact hO.trans h
    · exact hC.trans h
  simp only [diffPlan, List.flatMap_cons, List.flatMap_nil, List.append_nil]
  refine opsIn_append.mpr ⟨?_, opsIn_append.mpr ⟨?_, opsIn_append.mpr ⟨?_, opsIn_append.mpr ⟨?_,
    opsIn_append.mpr ⟨?_, opsIn_append.mpr ⟨?_, opsIn_append.mpr ⟨?_, ?_⟩⟩⟩⟩⟩⟩⟩
  · exact opsIn_cons.mpr ⟨hO, opsIn_cons.mpr ⟨hC, opsIn_nil _ _⟩⟩
  · exact (excOps_in sp c.tmpRoot c.tmpCore c.tmpOut c.outputPackage c.debugLog).mono mono
  · have := coreOps_in sp c.debugLog c.tmpOut c.tmpCore
    rw [ht] at this
    exact this.mono mono
  · exact (modelOps_in sp c.tmpOut c.tmpCore c.debugLog).mono mono
  · exact (endpointOps_in sp c.debugLog c.tmpOut c.tmpCore 0).mono mono
  · exact (clientOps_in sp c.debugLog c.tmpOut c.tmpCore).mono mono
  · exact (mockOps_in sp c.debugLog c.tmpOut c.tmpCore 1).mono mono
  · split
    · exact opsIn_nil _ _
    · refine postOps_in ?_
      intro p hp
      rcases generatedPy_under sp c.tmpOut c.tmpCore 1 false p hp with h | h
      · exact mono p h
      · rw [ht] at h; exact mono p h

/-! ## primitives that stay away from `root` leave everything below `root` unchanged -/

theorem filter_setFile_of_not (f : Path → Bool) (p : Path) (c : Str) (hp : f p = false)
    (l : List (Path × Str)) :
    (setFile p c l).filter (fun e => f e.1) = l.filter (fun e => f e.1) := by
  induction l with
  | nil => simp [setFile, hp]
  | cons e es ih =>
    obtain ⟨q, d⟩ := e
    simp only [setFile]
    split
    · rename_i hq
      subst hq
      simp [hp]
    · simp [List.filter_cons, ih]

theorem filter_append_of_none {α : Type} (f : α → Bool) (l extra : List α) (h : ∀ x ∈ extra, f x = false) :
    (l ++ extra).filter f = l.filter f := by
  rw [List.filter_append]
  have : extra.filter f = [] := List.filter_eq_nil_iff.mpr (by intro x hx; simp [h x hx])
  rw [this, List.append_nil]

theorem filter_filter_of_imp {α : Type} (f g : α → Bool) (l : List α) (h : ∀ x ∈ l, f x = true → g x = true) :
    (l.filter g).filter f = l.filter f := by
  rw [List.filter_filter]
  apply List.filter_congr
  intro x hx
  cases hf : f x with
  | false => simp
  | true => simp [h x hx hf]

/-- the hypotheses of the preservation lemma: `tmp` and `root` are not nested, the log is outside `root` -/
structure Apart (root tmp log : Path) : Prop where
  notIn : ¬ root <+: tmp
  notOver : ¬ tmp <+: root
  logOut : ¬ root <+: log

theorem Apart.not_under {root tmp log : Path} (h : Apart root tmp log) {p : Path} (hp : tmp <+: p) :
    root.isPrefixOf p = false := by
  cases hb : root.isPrefixOf p with
  | false => rfl
  | true =>
    rcases comparable_of_common (List.isPrefixOf_iff_prefix.mp hb) hp with h' | h'
    · exact absurd h' h.notIn
    · exact absurd h' h.notOver

theorem Apart.log_not_under {root tmp log : Path} (h : Apart root tmp log) : root.isPrefixOf log = false := by
  cases hb : root.isPrefixOf log with
  | false => rfl
  | true => exact absurd (List.isPrefixOf_iff_prefix.mp hb) h.logOut

theorem applyAct_under {root tmp log : Path} (hap : Apart root tmp log) (post : Str → Str) (fs fs' : FS)
    (a : Act) (ha : ActIn (fun p => tmp <+: p) log a) (h : applyAct post fs a = some fs') :
    fs'.under root = fs.under root := by
  cases a with
  | mkdirs p =>
    simp only [ActIn] at ha
    simp only [applyAct] at h
    split at h
    · cases h
    · cases h
      simp only [FS.under, FS.mk.injEq, true_and]
      apply filter_append_of_none
      intro q hq
      have hq' : q <+: p := mem_pathPrefixes.mp (List.mem_filter.mp hq).1
      cases hb : root.isPrefixOf q with
      | false => rfl
      | true =>
        have : root.isPrefixOf p = true :=
          List.isPrefixOf_iff_prefix.mpr ((List.isPrefixOf_iff_prefix.mp hb).trans hq')
        rw [hap.not_under ha] at this
        cases this
  | write p c =>
    simp only [ActIn] at ha
    simp only [applyAct] at h
    split at h
    · cases h
      simp only [FS.under, FS.mk.injEq, and_true]
      exact filter_setFile_of_not (fun q => root.isPrefixOf q) p c (hap.not_under ha) _
    · cases h
  | append p c =>
    simp only [ActIn] at ha
    subst ha
    simp only [applyAct] at h
    split at h
    · cases h
      simp only [FS.under, FS.mk.injEq, and_true]
      exact filter_setFile_of_not (fun q => root.isPrefixOf q) p _ hap.log_not_under _
    · cases h
  | rename s d =>
    simp only [ActIn] at ha
    simp only [applyAct] at h
    split at h
    · split at h
      · cases h
        simp only [FS.under, FS.mk.injEq, and_true]
        rw [filter_setFile_of_not (fun q => root.isPrefixOf q) d _ (hap.not_under ha.2)]
        apply filter_filter_of_imp (fun e : Path × Str => root.isPrefixOf e.1)
        intro e _ he
        have hs := hap.not_under ha.1
        simp only [bne_iff_ne, ne_eq]
        intro heq
        rw [heq, hs] at he
        cases he
      · cases h
    · cases h
  | rmtree p => exact absurd ha (by simp [ActIn])
  | rewrite p =>
    simp only [ActIn] at ha
    simp only [applyAct] at h
    split at h
    · cases h
      simp only [FS.under, FS.mk.injEq, and_true]
      exact filter_setFile_of_not (fun q => root.isPrefixOf q) p _ (hap.not_under ha) _
    · cases h

theorem execOps_under {root tmp log : Path} (hap : Apart root tmp log) (post : Str → Str)
    (ops : List Op) (hops : OpsIn (fun p => tmp <+: p) log ops) (fs : FS) (fault : Nat) :
    ((execOps post ops fs fault).1).under root = fs.under root := by
  induction ops generalizing fs fault with
  | nil => simp [execOps]
  | cons o os ih =>
    cases fault with
    | zero => simp [execOps]
    | succ k =>
      simp only [execOps]
      have ho := (opsIn_cons.mp hops)
      cases hr : applyOp post fs o with
      | none => simp
      | some fs' =>
        simp only []
        rw [ih ho.2]
        unfold applyOp at hr
        split at hr
        · exact applyAct_under hap post fs fs' o.act ho.1 hr
        · cases hr; rfl


/-! ## helpers of the C10 theorems -/

theorem cleanup_under {root tmp log : Path} (hap : Apart root tmp log) (fs : FS) :
    (cleanupTmp fs tmp).under root = fs.under root := by
  simp only [cleanupTmp, FS.under, FS.mk.injEq]
  constructor
  · apply filter_filter_of_imp (fun e : Path × Str => root.isPrefixOf e.1)
    intro e _ he
    cases ht : tmp.isPrefixOf e.1 with
    | false => rfl
    | true =>
      rw [hap.not_under (List.isPrefixOf_iff_prefix.mp ht)] at he
      cases he
  · apply filter_filter_of_imp (fun d : Path => root.isPrefixOf d)
    intro d _ hd
    cases ht : tmp.isPrefixOf d with
    | false => rfl
    | true =>
      rw [hap.not_under (List.isPrefixOf_iff_prefix.mp ht)] at hd
      cases hd

theorem execOps_fault_lt (post : Str → Str) (ops : List Op) (fs : FS) (fault : Nat) (h : fault < ops.length) :
    (execOps post ops fs fault).2 ≠ none := by
  induction ops generalizing fs fault with
  | nil => simp at h
  | cons o os ih =>
    cases fault with
    | zero => simp [execOps]
    | succ k =>
      simp only [execOps]
      cases applyOp post fs o with
      | none => simp
      | some fs' => exact ih fs' k (by simpa using h)

/-- what C10 allows to be touched below the project root -/
def Allowed (c : PlanCfg) (p : Path) : Prop :=
  c.outDir <+: p ∨ c.coreDir <+: p ∨
  (∃ d, c.root <+: d ∧ (d <+: c.outDir ∨ d <+: c.coreDir) ∧ (p = d ∨ p = d ++ [fInit]))

theorem initLoop_allowed (c : PlanCfg) (d : Path) (hd : d = c.outDir ∨ d = c.coreDir) :
    ∀ o ∈ initLoop c.root d, ∀ p ∈ o.act.targets, Allowed c p := by
  intro o ho p hp
  obtain ⟨a, ha, rfl⟩ := List.mem_map.mp ho
  simp only [Act.targets, List.mem_singleton] at hp
  subst hp
  have hroot : c.root <+: d := by
    rcases hd with rfl | rfl <;> exact root_prefix_pkgToPath _ _
  obtain ⟨h1, h2, _⟩ := mem_ancestorsTo hroot ha
  refine Or.inr (Or.inr ⟨a, h1, ?_, Or.inr rfl⟩)
  rcases hd with rfl | rfl
  · exact Or.inl h2
  · exact Or.inr h2

theorem targets_of_actIn {P : Path → Prop} {log : Path} {a : Act} (h : ActIn P log a) :
    ∀ p ∈ a.targets, P p ∨ p = log := by
  intro p hp
  cases a with
  | mkdirs q => simp only [Act.targets, List.mem_singleton] at hp; subst hp; exact Or.inl h
  | write q _ => simp only [Act.targets, List.mem_singleton] at hp; subst hp; exact Or.inl h
  | append q _ => simp only [Act.targets, List.mem_singleton] at hp; subst hp; exact Or.inr h
  | rename s d =>
    simp only [Act.targets, List.mem_cons, List.not_mem_nil, or_false] at hp
    rcases hp with rfl | rfl
    · exact Or.inl h.1
    · exact Or.inl h.2
  | rmtree q => exact absurd h (by simp [ActIn])
  | rewrite q => simp only [Act.targets, List.mem_singleton] at hp; subst hp; exact Or.inl h

theorem pathStr_append_ne_nil (a : Path) {b : Path} (ha : a ≠ []) :
    pathStr (a ++ b) = pathStr a ++ b.flatMap (fun c => '/' :: c) := by
  cases a with
  | nil => exact absurd rfl ha
  | cons x xs => simp [pathStr, List.flatMap_append]

end Pog.Plan
