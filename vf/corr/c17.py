#!/venv/bin/python
"""C17 — transport applies defaults, per-request headers and auth: correspondence + direct oracle.

Importable module (nothing happens at import time; `pyopenapi_gen` and `httpx` are imported inside functions).

    run(seed, scale, driver) -> dict     real HttpxTransport / auth plug-ins vs the Lean model M-http
    oracle(seed, scale)      -> dict     C17's statement evaluated directly on the real transport
    replay(case)             -> bool     re-run one oracle case; True iff it still violates the property

run():  for every configuration the REAL classes are driven (httpx.MockTransport behind the transport's
AsyncClient, `t._client.request` wrapped to record the keyword arguments that reach httpx) and the compiled Lean
driver is asked the same question (batched).  Compared:
  * the headers dict handed to httpx, as ordered (key, value) pairs;
  * the `params` / `cookies` / other keyword arguments handed to httpx;
  * exceptions (type and message);
  * the same for a SECOND request through the same transport object (plug-in state);
  * the wire view: `request.headers.get_list(name)` of the request httpx built vs `wireLookup`;
  * the plug-ins alone on request_args with/without "headers"/"params"/"cookies" keys;
  * `merge_headers` (core/auth/base.py) alone on dicts with case-variant names vs `dictUpdateCI`.
Assumption shared with the model: the plug-in objects inside a composite are distinct objects.

oracle(): no defect class is expected any more; every class must stay empty:
  header-case-variant-not-overridden   F27a, repaired: Pog.C17.header_precedence holds for every input, the former
                                       witnesses are Pog.C17.header_precedence_former_witness(_auth)
  apikey-query-dropped                 F27b, repaired: Pog.C17.apikey_query_cookie_placed(_in_composite), the former
  apikey-cookie-dropped                witness is Pog.C17.apikey_query_placed_former_witness
  header-last-writer-wrong, apikey-header-missing, apikey-bad-location-no-error, passthrough-changed (the caller's
  params / cookies reach httpx as the same object unless a plug-in places an API key there: then a new dict with the
  caller's entries and the plug-ins' writes in order; the caller's own dicts are never mutated), unexpected-exception.
"""
from __future__ import annotations

import asyncio
import itertools
import json
import random
import subprocess
import sys
import warnings

DEFAULT_DRIVER = "/verif/lean/.lake/build/bin/driver"

NAMES = ["X-B", "x-b", "X-b", "Authorization", "authorization", "AUTHORIZATION", "X-API-Key", "x-api-key",
         "X-Trace", "Accept-Language"]
VALUES = ["", "a", "b", "d", "r", "tok", "Bearer x", "v1", "v 2", "k-9"]
TOKENS = ["", "a", "b", "c", "tok", "T0"]
LOCATIONS = ["header", "query", "cookie", "header", "query", "cookie", "Header", "body", "", "headers"]
PNAMES = ["q", "api_key", "X-API-Key", "page", "sid"]


def _impl():
    """The classes under test — imported late so the harness can point sys.path at another checkout first."""
    import httpx
    from pyopenapi_gen.core.auth.base import CompositeAuth
    from pyopenapi_gen.core.auth.plugins import ApiKeyAuth, BearerAuth, HeadersAuth, OAuth2Auth
    from pyopenapi_gen.core.http_transport import HttpxTransport

    return httpx, HttpxTransport, CompositeAuth, BearerAuth, HeadersAuth, ApiKeyAuth, OAuth2Auth


def drive(driver: str, reqs: list[dict]) -> list:
    """One batch through the compiled Lean driver (it answers at EOF)."""
    if not reqs:
        return []
    inp = "".join(json.dumps(r) + "\n" for r in reqs)
    p = subprocess.run([str(driver)], input=inp, capture_output=True, text=True, timeout=600)
    lines = p.stdout.splitlines()
    if len(lines) != len(reqs):
        raise RuntimeError(f"driver answered {len(lines)} of {len(reqs)} requests: {p.stderr[-2000:]}")
    return [json.loads(x) for x in lines]


# ---------------------------------------------------------------- configurations (correspondence)

def rnd_pairs(rng: random.Random, names, maxn=4, values=VALUES) -> list[list[str]]:
    n = rng.randint(0, maxn)
    out: list[list[str]] = []
    for _ in range(n):
        k = rng.choice(names)
        if any(k == p[0] for p in out):
            continue
        out.append([k, rng.choice(values)])
    return out


def rnd_plugin(rng: random.Random, depth: int = 0) -> dict:
    kinds = ["bearer", "headers", "apikey", "apikey", "oauth2", "composite"]
    if depth >= 3:
        kinds.remove("composite")
    t = rng.choice(kinds)
    if t == "bearer":
        return {"t": t, "token": rng.choice(TOKENS)}
    if t == "headers":
        return {"t": t, "headers": rnd_pairs(rng, NAMES)}
    if t == "apikey":
        return {"t": t, "key": rng.choice(VALUES), "location": rng.choice(LOCATIONS),
                "name": rng.choice(NAMES + PNAMES)}
    if t == "oauth2":
        if rng.random() < 0.3:
            refresh = None
        else:
            refresh = {"map": [[a, rng.choice(TOKENS)] for a in rng.sample(TOKENS, rng.randint(0, 4))],
                       "default": rng.choice([None, None, "", "z"])}
        return {"t": t, "token": rng.choice(TOKENS), "refresh": refresh}
    return {"t": "composite", "plugins": [rnd_plugin(rng, depth + 1) for _ in range(rng.randint(0, 4))]}


def all_orders_cfgs() -> list[dict]:
    """Every subset and order of the five plug-in kinds (one representative each) in one composite."""
    reps = [
        {"t": "bearer", "token": "tok"},
        {"t": "headers", "headers": [["X-B", "h"], ["authorization", "low"]]},
        {"t": "apikey", "key": "k-9", "location": "header", "name": "X-API-Key"},
        {"t": "oauth2", "token": "a", "refresh": {"map": [["a", "b"]], "default": None}},
        {"t": "composite", "plugins": [{"t": "apikey", "key": "qk", "location": "query", "name": "api_key"},
                                       {"t": "headers", "headers": [["x-b", "inner"]]}]},
    ]
    out = []
    for r in range(0, 6):
        for combo in itertools.permutations(reps, r):
            out.append({"defaults": [["x-b", "d"], ["X-Trace", "1"]], "headers": [["X-B", "r"]],
                        "auth": {"t": "composite", "plugins": list(combo)}, "bearer": "ignored",
                        "params": [["q", "1"]], "cookies": None, "hmode": "dict"})
    return out


def hand_cfgs() -> list[dict]:
    base = {"defaults": None, "headers": None, "auth": None, "bearer": None, "params": None, "cookies": None,
            "hmode": "none"}
    cs = []

    def add(**kw):
        c = dict(base)
        c.update(kw)
        if c["headers"] is not None:
            c["hmode"] = "dict"
        cs.append(c)

    add()
    add(hmode="absent")
    add(defaults=[["x-b", "d"]], headers=[["X-B", "r"]])
    add(defaults=[["x-b", "d"]], headers=[["x-b", "r"]])
    add(defaults=[], headers=[])
    add(bearer="t")
    add(bearer="")
    add(bearer="t", headers=[["authorization", "mine"]])
    add(bearer="t", headers=[["Authorization", "mine"]])
    add(bearer="t", auth={"t": "composite", "plugins": []})
    add(bearer="t", auth={"t": "headers", "headers": []})
    for loc in ["header", "query", "cookie", "Header", "", "path"]:
        add(auth={"t": "apikey", "key": "K", "location": loc, "name": "X-API-Key"})
        add(auth={"t": "apikey", "key": "K", "location": loc, "name": "api_key"}, params=[["q", "1"]],
            cookies=[["sid", "s"]])
        add(auth={"t": "composite", "plugins": [{"t": "bearer", "token": "b"},
                                                {"t": "apikey", "key": "K", "location": loc, "name": "n"},
                                                {"t": "oauth2", "token": "a",
                                                 "refresh": {"map": [["a", "b"], ["b", "c"]], "default": None}}]})
    for m, d in [([["a", "b"]], None), ([["a", ""]], None), ([["a", "a"]], None), ([], "z"), ([], ""), ([], None),
                 ([["a", "b"], ["b", "a"]], None), ([["a", "b"], ["b", ""]], "q")]:
        add(auth={"t": "oauth2", "token": "a", "refresh": {"map": m, "default": d}})
    add(auth={"t": "oauth2", "token": "a", "refresh": None})
    add(auth={"t": "oauth2", "token": "", "refresh": {"map": [["", "n"]], "default": None}})
    for loc in ["header", "query", "cookie"]:
        add(auth={"t": "apikey", "key": "K", "location": loc, "name": "api_key"}, explicit_none=True)
    add(explicit_none=True, bearer="t")
    return cs


def rnd_cfg(rng: random.Random) -> dict:
    hmode = rng.choice(["dict", "dict", "dict", "none", "absent"])
    return {
        "defaults": rng.choice([None, rnd_pairs(rng, NAMES), rnd_pairs(rng, NAMES)]),
        "headers": rnd_pairs(rng, NAMES) if hmode == "dict" else None,
        "hmode": hmode,
        "auth": rng.choice([None, rnd_plugin(rng), rnd_plugin(rng), rnd_plugin(rng)]),
        "bearer": rng.choice([None, None, "", "bt", "tok"]),
        "params": rng.choice([None, rnd_pairs(rng, PNAMES, 3)]),
        "cookies": rng.choice([None, None, rnd_pairs(rng, PNAMES, 2)]),
        "explicit_none": rng.random() < 0.3,
    }


# ---------------------------------------------------------------- the real thing

def build_plugin(spec: dict):
    _, _, CompositeAuth, BearerAuth, HeadersAuth, ApiKeyAuth, OAuth2Auth = _impl()
    t = spec["t"]
    if t == "bearer":
        return BearerAuth(spec["token"])
    if t == "headers":
        return HeadersAuth(dict(map(tuple, spec["headers"])))
    if t == "apikey":
        return ApiKeyAuth(spec["key"], spec["location"], spec["name"])
    if t == "oauth2":
        r = spec["refresh"]
        if r is None:
            return OAuth2Auth(spec["token"], None)
        table = dict(map(tuple, r["map"]))
        dflt = r["default"]

        async def cb(tok: str) -> str:
            if tok in table:
                return table[tok]
            return tok if dflt is None else dflt

        return OAuth2Auth(spec["token"], cb)
    return CompositeAuth(*[build_plugin(p) for p in spec["plugins"]])


def pairs(d):
    return None if d is None else [[k, v] for k, v in d.items()]


async def send(cfg: dict, n: int = 1, body=None) -> list[dict]:
    """n consecutive requests through ONE real transport.  Per request:
    {"raises","msg"} | {"kw": kwargs that reached httpx, "kw_in": the caller's kwargs, "request": httpx.Request}."""
    httpx, HttpxTransport = _impl()[:2]
    auth = build_plugin(cfg["auth"]) if cfg.get("auth") is not None else None
    defaults = None if cfg.get("defaults") is None else dict(map(tuple, cfg["defaults"]))
    # verify_ssl=False only avoids loading the CA bundle thousands of times; the client is replaced below anyway
    t = HttpxTransport("http://t", auth=auth, bearer_token=cfg.get("bearer"), default_headers=defaults,
                       verify_ssl=False)
    await t._client.aclose()
    seen_req: list = []
    seen_kw: list[dict] = []

    def handler(request):
        seen_req.append(request)
        return httpx.Response(200, text="ok")

    t._client = httpx.AsyncClient(base_url="http://t", transport=httpx.MockTransport(handler))
    orig = t._client.request

    async def spy(method, url, **kw):
        seen_kw.append(kw)
        return await orig(method, url, **kw)

    t._client.request = spy  # type: ignore[method-assign]
    out = []
    body = {"payload": [1, 2]} if body is None else body
    hmode = cfg.get("hmode", "dict" if cfg.get("headers") is not None else "none")
    for _ in range(n):
        kw: dict = {"json": body}
        caller_headers = None
        if hmode == "dict":
            caller_headers = dict(map(tuple, cfg["headers"]))
            kw["headers"] = caller_headers
        elif hmode == "none":
            kw["headers"] = None
        if cfg.get("params") is not None:
            kw["params"] = dict(map(tuple, cfg["params"]))
        elif cfg.get("explicit_none"):
            kw["params"] = None  # what a generated client passes for an operation without query parameters
        if cfg.get("cookies") is not None:
            kw["cookies"] = dict(map(tuple, cfg["cookies"]))
        elif cfg.get("explicit_none"):
            kw["cookies"] = None
        snapshot = json.dumps([pairs(caller_headers), pairs(defaults), pairs(kw.get("params")), pairs(kw.get("cookies"))])
        seen_kw.clear()
        seen_req.clear()
        try:
            await t.request("POST", "/x", **kw)
        except ValueError as e:
            out.append({"raises": "ValueError", "msg": str(e), "sent": bool(seen_kw)})
            continue
        assert len(seen_kw) == 1 and len(seen_req) == 1
        out.append({"kw": seen_kw[0], "kw_in": kw, "request": seen_req[0],
                    "mutated": json.dumps([pairs(caller_headers), pairs(defaults), pairs(kw.get("params")),
                                           pairs(kw.get("cookies"))]) != snapshot})
    await t._client.aclose()
    return out


async def run_real(cfg: dict, n: int = 2) -> tuple[list, list]:
    """(results in the shape the model reports them, wire lookups per request)."""
    results, wires = [], []
    for o in await send(cfg, n):
        if "raises" in o:
            res = {"raises": o["raises"], "msg": o["msg"]}
            if o["sent"]:
                res["sent_before_raise"] = True
            results.append(res)
            wires.append(None)
            continue
        got, kw = o["kw"], o["kw_in"]
        extra = sorted(set(got) - {"headers", "params", "cookies", "json"})
        res = {"headers": pairs(got["headers"]), "params": pairs(got.get("params")),
               "cookies": pairs(got.get("cookies"))}
        # a keyword of the caller must not vanish; a new `params` / `cookies` keyword is a plug-in's (never None)
        lost = [k for k in ("params", "cookies") if (k in kw and k not in got) or
                (k in got and k not in kw and got[k] is None)]
        if extra or lost or got.get("json") is not kw["json"]:
            res["passthrough_violation"] = [extra, lost, repr(got.get("json"))]
        if o["mutated"]:
            res["mutated_inputs"] = True
        results.append(res)
        wires.append({name: o["request"].headers.get_list(name) for name in NAMES})
    return results, wires


async def run_plugin(spec: dict, ra: dict):
    p = build_plugin(spec)
    args = {k: dict(map(tuple, v)) for k, v in ra.items() if v is not None}
    try:
        out = await p.authenticate_request(args)
    except ValueError as e:
        return {"raises": "ValueError", "msg": str(e)}
    extra = set(out) - {"headers", "params", "cookies"}
    assert not extra
    return {"headers": pairs(out.get("headers")), "params": pairs(out.get("params")),
            "cookies": pairs(out.get("cookies"))}


def model_cfg(cfg: dict) -> dict:
    return {k: cfg[k] for k in ("defaults", "headers", "auth", "bearer", "params", "cookies")}


def plugin_kinds(spec, acc=None) -> set:
    acc = set() if acc is None else acc
    if spec is None:
        return acc
    if spec["t"] == "apikey":
        loc = spec["location"]
        acc.add("apikey-" + (loc if loc in ("header", "query", "cookie") else "badloc"))
    elif spec["t"] == "oauth2":
        acc.add("oauth2-refresh" if spec["refresh"] is not None else "oauth2")
    else:
        acc.add(spec["t"])
    for p in spec.get("plugins", []):
        plugin_kinds(p, acc)
    return acc


# ---------------------------------------------------------------- run(): correspondence

async def _run(seed: int, scale: float, driver: str) -> dict:
    rng = random.Random(seed)
    n_random = max(0, int(round(3000 * scale)))
    n_plugin = max(20, int(round(900 * scale)))
    hand, orders = hand_cfgs(), all_orders_cfgs()
    cfgs = hand + orders + [rnd_cfg(rng) for _ in range(n_random)]
    disagreements: list[dict] = []
    n_dis = 0
    comparisons = 0
    dist: dict[str, int] = {}

    def bump(k, by=1):
        dist[k] = dist.get(k, 0) + by

    def disagree(label, request, model, impl):
        nonlocal n_dis
        n_dis += 1
        if len(disagreements) < 50:
            disagreements.append({"label": label, "request": request, "model": model, "impl": impl})

    # 1. transport level, two consecutive requests each
    real = [await run_real(c) for c in cfgs]
    model = drive(driver, [{"f": "prepareHeadersSeq", "a": [model_cfg(c), 2]} for c in cfgs])
    single = drive(driver, [{"f": "prepareHeaders", "a": [model_cfg(c)]} for c in cfgs])
    wire_reqs, wire_expect = [], []
    nontrivial_keys = set()
    for c, (r, w), m, s in zip(cfgs, real, model, single):
        comparisons += 3
        if r != m:
            disagree("transport (two requests)", model_cfg(c), m, r)
        if s != m[0]:
            disagree("prepareHeaders vs prepareHeadersSeq[0]", model_cfg(c), [s, m[0]], r[0])
        first = r[0]
        if "raises" in first:
            bump("raises ValueError")
        else:
            if first["headers"]:
                nontrivial_keys.add(json.dumps(c, sort_keys=True))
            else:
                bump("outgoing headers empty (trivial)")
            low = [k.lower() for k, _ in first["headers"]]
            if len(set(low)) < len(low):
                bump("result has case-variant duplicate names")
        if r[0] != r[1]:
            bump("second request differs (plug-in state)")
        bump("hmode=" + c["hmode"])
        bump("auth=" + ("none" if c["auth"] is None else c["auth"]["t"]))
        if c["auth"] is None and c["bearer"] is not None:
            bump("bearer_token used")
        if c["auth"] is not None and c["bearer"] is not None:
            bump("bearer_token ignored (auth set)")
        for k in plugin_kinds(c["auth"]):
            bump("has " + k)
        if c["params"] is not None:
            bump("caller params")
        if c["cookies"] is not None:
            bump("caller cookies")
        if c.get("explicit_none") and (c["params"] is None or c["cookies"] is None):
            bump("params=None / cookies=None passed explicitly")
        for res, wl in zip(r, w):
            if wl is None:
                continue
            for name, vals in wl.items():
                wire_reqs.append({"f": "wireLookup", "a": [res["headers"], name]})
                wire_expect.append((c, name, vals))
    # 2. wire view
    for (c, name, vals), got in zip(wire_expect, drive(driver, wire_reqs)):
        comparisons += 1
        if got != vals:
            disagree("wire lookup " + name, model_cfg(c), got, vals)

    # 3. plug-ins alone, request_args with / without each key
    pcases = []
    for _ in range(n_plugin):
        spec = rnd_plugin(rng)
        ra = {"headers": rng.choice([None, rnd_pairs(rng, NAMES)]),
              "params": rng.choice([None, rnd_pairs(rng, PNAMES + NAMES[:3], 3)]),
              "cookies": rng.choice([None, rnd_pairs(rng, PNAMES, 3)])}
        pcases.append((spec, ra))
    preal = [await run_plugin(s, ra) for s, ra in pcases]
    pmodel = drive(driver, [{"f": "authenticate", "a": [s, ra]} for s, ra in pcases])
    for (s, ra), r, m in zip(pcases, preal, pmodel):
        comparisons += 1
        if r != m:
            disagree("plugin alone", [s, ra], m, r)
    # 4. merge_headers alone: names from the pool with case variants, repeated spellings allowed in `new`
    try:
        from pyopenapi_gen.core.auth.base import merge_headers
    except ImportError:
        merge_headers = None
        disagree("merge_headers", "import pyopenapi_gen.core.auth.base.merge_headers", "dictUpdateCI", "no such function")
    mcases = []
    if merge_headers is not None:
        for _ in range(n_plugin):
            mcases.append((rnd_pairs(rng, NAMES, 6), rnd_pairs(rng, NAMES, 6)))
        mreal = []
        for d, e in mcases:
            target = dict(map(tuple, d))
            merge_headers(target, dict(map(tuple, e)))
            mreal.append(pairs(target))
        mmodel = drive(driver, [{"f": "mergeHeaders", "a": [d, e]} for d, e in mcases])
        for (d, e), r, m in zip(mcases, mreal, mmodel):
            comparisons += 1
            if r != m:
                disagree("merge_headers alone", [d, e], m, r)
            low = [k.lower() for k, _ in d]
            if len(set(low)) < len(low):
                bump("merge_headers: target with case-variant names")
            if {k.lower() for k, _ in d} & {k.lower() for k, _ in e}:
                bump("merge_headers: overlapping names")
    dist["merge_headers-alone calls"] = len(mcases)
    dist["transport configurations"] = len(cfgs)
    dist["hand-picked"] = len(hand)
    dist["all subsets/orders of the five kinds"] = len(orders)
    dist["random"] = n_random
    dist["wire lookups"] = len(wire_reqs)
    dist["plug-in-alone calls"] = len(pcases)

    picks = [cfgs[2], cfgs[len(hand) + len(orders) - 1]] + cfgs[len(hand) + len(orders):][:3]
    samples = []
    for c in picks:
        i = cfgs.index(c)
        samples.append({"request": model_cfg(c), "impl": real[i][0], "model": model[i]})
    return {
        "comparisons": comparisons,
        "disagreements": disagreements,
        "n_disagreements": n_dis,
        "nontrivial": len(nontrivial_keys),
        "rule": ("configurations = hand-picked edge cases + every subset and order of the five plug-in kinds in one "
                 "composite + seeded random (defaults / per-request headers from a pool with case variants, "
                 "headers=dict|None|absent, nested composites up to depth 3, API-key locations incl. invalid ones, "
                 "OAuth2 refresh tables, with/without caller params/cookies); each is sent TWICE through one real "
                 "transport and compared with the model (headers as ordered pairs, params/cookies/json kwargs, "
                 "exception type+message), plus httpx's case-insensitive header view vs wireLookup, plus the plug-ins "
                 "alone, plus merge_headers alone.  Non-trivial = distinct configuration whose first request was sent with a NON-EMPTY headers "
                 "dict, i.e. defaults, per-request headers, auth or bearer_token actually changed the outgoing headers."),
        "samples": samples,
        "distribution": dist,
    }


def run(seed: int, scale: float, driver: str) -> dict:
    with warnings.catch_warnings():
        warnings.simplefilter("ignore")
        return asyncio.run(_run(seed, scale, driver))


# ---------------------------------------------------------------- oracle(): the property itself

# Names/values for the oracle: never a header httpx sets itself, cookie/query-safe tokens.
O_HEADERS = [("X-B", "x-b", "X-b"), ("X-Trace", "x-trace"), ("Accept-Language", "accept-language"),
             ("Authorization", "authorization", "AUTHORIZATION"), ("X-API-Key", "x-api-key")]
O_VALUES = ["a", "b", "d", "r", "v1", "tok-2", "k9"]
O_TOKENS = ["a", "b", "c", "T0", ""]
O_KEYNAMES = ["api_key", "X-Key", "sid2", "token"]
O_PNAMES = ["q", "page", "sort"]
O_CNAMES = ["sid", "theme"]

EXPECTED_CLASSES: list[str] = []
OTHER_CLASSES = ["header-case-variant-not-overridden", "apikey-query-dropped", "apikey-cookie-dropped",
                 "header-last-writer-wrong", "apikey-header-missing", "apikey-bad-location-no-error",
                 "passthrough-changed", "unexpected-exception"]


def spec_refresh(spec: dict) -> str:
    """Documented OAuth2 behaviour: use the refreshed token when the callback returns a new non-empty one."""
    tok, r = spec["token"], spec["refresh"]
    if r is None:
        return tok
    table = dict(map(tuple, r["map"]))
    new = table[tok] if tok in table else (tok if r["default"] is None else r["default"])
    return new if new and new != tok else tok


def spec_effects(spec: dict | None, hdr: list, qry: list, ck: list) -> str | None:
    """What the documentation says a plug-in adds, in composition order: header / query / cookie writes.
    Returns the message of the first documented ValueError, else None."""
    if spec is None:
        return None
    t = spec["t"]
    if t == "bearer":
        hdr.append(("Authorization", "Bearer " + spec["token"]))
    elif t == "headers":
        hdr.extend((k, v) for k, v in spec["headers"])
    elif t == "oauth2":
        hdr.append(("Authorization", "Bearer " + spec_refresh(spec)))
    elif t == "apikey":
        loc = spec["location"]
        if loc == "header":
            hdr.append((spec["name"], spec["key"]))
        elif loc == "query":
            qry.append((spec["name"], spec["key"]))
        elif loc == "cookie":
            ck.append((spec["name"], spec["key"]))
        else:
            return f"Invalid API key location: {loc}"
    else:
        for p in spec["plugins"]:
            e = spec_effects(p, hdr, qry, ck)
            if e is not None:
                return e
    return None


def parse_cookie_header(values: list[str]) -> list[list[str]]:
    out = []
    for v in values:
        for part in v.split(";"):
            part = part.strip()
            if part:
                k, _, val = part.partition("=")
                out.append([k, val])
    return out


async def evaluate(cfg: dict) -> tuple[int, list[dict]]:
    """C17's statement on ONE configuration, on the request captured by httpx.MockTransport.
    Returns (number of checks made, failures)."""
    failures: list[dict] = []
    checks = 0

    def fail(cls, check, focus, observed, expected):
        failures.append({"class": cls, "case": {"cfg": cfg, "check": check, "focus": focus},
                         "observed": observed, "expected": expected})

    body = {"payload": [1, "two"], "n": 3}
    hdr: list = [tuple(p) for p in (cfg.get("defaults") or [])] + [tuple(p) for p in (cfg.get("headers") or [])]
    qry: list = []
    ck: list = []
    if cfg.get("auth") is not None:
        err = spec_effects(cfg["auth"], hdr, qry, ck)
    else:
        err = None
        if cfg.get("bearer") is not None:
            hdr.append(("Authorization", "Bearer " + cfg["bearer"]))
    o = (await send(cfg, 1, body))[0]
    if err is not None:
        checks += 1
        if "raises" not in o or o["msg"] != err or o["sent"]:
            fail("apikey-bad-location-no-error", "bad-location", None,
                 {k: v for k, v in o.items() if k in ("raises", "msg", "sent")} or "request sent",
                 {"raises": "ValueError", "msg": err})
        return checks, failures
    if "raises" in o:
        fail("unexpected-exception", "no-exception", None, {"raises": o["raises"], "msg": o["msg"]}, "request sent")
        return 1, failures
    req = o["request"]

    # (1)+(2) headers: per header NAME (case-insensitive) exactly one line, the last writer's value, where the
    # writers are defaults, then per-request headers, then each plug-in's contribution in composition order
    by_name: dict[str, list] = {}
    for k, v in hdr:
        by_name.setdefault(k.lower(), []).append((k, v))
    for low, writes in by_name.items():
        checks += 1
        observed = req.headers.get_list(low)
        expected = [writes[-1][1]]
        if observed != expected:
            spellings = sorted({k for k, _ in writes})
            cls = "header-case-variant-not-overridden" if len(spellings) > 1 else "header-last-writer-wrong"
            if cls == "header-last-writer-wrong" and any(
                    spec_is_header_apikey(cfg.get("auth"), low, writes[-1][1])) and writes[-1][1] not in observed:
                cls = "apikey-header-missing"
            fail(cls, "header", low, observed, expected)

    # (3) API key in query / cookie: under the configured name in the configured location
    url_q = [[k, v] for k, v in req.url.params.multi_items()]
    cookies = parse_cookie_header(req.headers.get_list("cookie"))
    for name, key in dict(qry).items():
        checks += 1
        got = [v for k, v in url_q if k == name]
        if got != [key]:
            fail("apikey-query-dropped", "apikey-query", name, {"url": str(req.url), "values": got}, [key])
    for name, key in dict(ck).items():
        checks += 1
        got = [v for k, v in cookies if k == name]
        if got != [key]:
            fail("apikey-cookie-dropped", "apikey-cookie", name,
                 {"cookie": req.headers.get_list("cookie"), "values": got}, [key])

    # (4) passthrough: caller's params / cookies / body, both as keyword arguments and on the captured request
    checks += 1
    kw, kw_in = o["kw"], o["kw_in"]
    problems = {}
    for k, writes in (("params", qry), ("cookies", ck), ("json", [])):
        if writes:
            # API keys placed there by plug-ins: a NEW dict, the caller's entries with the writes applied in order
            want = dict(kw_in.get(k) or {})
            want.update(writes)
            if k not in kw or kw[k] is kw_in.get(k) or pairs(kw[k]) != pairs(want):
                problems["kw:" + k] = [repr(kw.get(k)), repr(want)]
        elif (k in kw) != (k in kw_in) or (k in kw and (kw[k] is not kw_in[k] or kw[k] != kw_in[k])):
            problems["kw:" + k] = [repr(kw.get(k)), repr(kw_in.get(k))]
    extra = sorted(set(kw) - {"headers", "params", "cookies", "json"})
    if extra:
        problems["kw:extra"] = extra
    if o["mutated"]:
        problems["caller dicts mutated"] = True
    overridden_q = set(dict(qry))
    overridden_c = set(dict(ck))
    for k, v in (cfg.get("params") or []):
        if k not in overridden_q and [k, v] not in url_q:
            problems["url param " + k] = [url_q, v]
    stray = [p for p in url_q if p[0] not in overridden_q and p not in [list(x) for x in (cfg.get("params") or [])]]
    if stray:
        problems["url params added"] = stray
    for k, v in (cfg.get("cookies") or []):
        if k not in overridden_c and [k, v] not in cookies:
            problems["cookie " + k] = [cookies, v]
    try:
        sent_body = json.loads(req.content)
    except Exception as e:  # noqa: BLE001
        sent_body = f"<{type(e).__name__}>"
    if sent_body != body:
        problems["body"] = [sent_body, body]
    if problems:
        fail("passthrough-changed", "passthrough", None, problems, "caller's params/cookies/body unchanged")
    return checks, failures


def spec_is_header_apikey(spec, low: str, value: str):
    if spec is None:
        return
    if spec["t"] == "apikey" and spec["location"] == "header":
        yield spec["name"].lower() == low and spec["key"] == value
    for p in spec.get("plugins", []):
        yield from spec_is_header_apikey(p, low, value)


def o_pairs(rng: random.Random, groups, maxn: int, variants: bool) -> list[list[str]]:
    out: list[list[str]] = []
    for g in rng.sample(groups, rng.randint(0, min(maxn, len(groups)))):
        out.append([rng.choice(g) if variants else g[0], rng.choice(O_VALUES)])
    return out


def o_plugin(rng: random.Random, variants: bool, depth: int = 0, badloc: bool = False) -> dict:
    kinds = ["bearer", "headers", "apikey", "apikey", "oauth2", "composite"]
    if depth >= 2:
        kinds.remove("composite")
    t = rng.choice(kinds)
    if t == "bearer":
        return {"t": t, "token": rng.choice(O_TOKENS)}
    if t == "headers":
        return {"t": t, "headers": o_pairs(rng, O_HEADERS, 3, variants)}
    if t == "apikey":
        locs = ["header", "query", "cookie"] + (["Header", "body"] if badloc else [])
        return {"t": t, "key": rng.choice(O_VALUES), "location": rng.choice(locs), "name": rng.choice(O_KEYNAMES)}
    if t == "oauth2":
        refresh = None if rng.random() < 0.3 else {
            "map": [[a, rng.choice(O_TOKENS)] for a in rng.sample(O_TOKENS, rng.randint(0, 3))],
            "default": rng.choice([None, None, "", "z"])}
        return {"t": t, "token": rng.choice(O_TOKENS), "refresh": refresh}
    return {"t": "composite",
            "plugins": [o_plugin(rng, variants, depth + 1, badloc) for _ in range(rng.randint(0, 4))]}


def oracle_cases(seed: int, scale: float) -> list[dict]:
    rng = random.Random(seed)
    cs: list[dict] = []

    def add(**kw):
        c = {"defaults": None, "headers": None, "auth": None, "bearer": None, "params": None, "cookies": None,
             "explicit_none": False}
        c.update(kw)
        c["hmode"] = "dict" if c["headers"] is not None else "none"
        cs.append(c)

    # hand-picked: the statement's clauses one by one
    add(defaults=[["X-B", "d"]], headers=[["X-B", "r"]])
    add(defaults=[["x-b", "d"]], headers=[["X-B", "r"]])
    add(defaults=[["X-B", "d"]], headers=[["x-b", "r"]], auth={"t": "headers", "headers": [["X-b", "p"]]})
    add(headers=[["authorization", "mine"]], auth={"t": "bearer", "token": "t"})
    add(headers=[["Authorization", "mine"]], auth={"t": "bearer", "token": "t"})
    add(headers=[["authorization", "mine"]], bearer="t")
    add(bearer="t", auth={"t": "headers", "headers": [["X-B", "p"]]})
    for loc in ("header", "query", "cookie", "Header"):
        add(auth={"t": "apikey", "key": "SECRET", "location": loc, "name": "api_key"})
        add(auth={"t": "apikey", "key": "SECRET", "location": loc, "name": "api_key"}, params=[["q", "1"]],
            cookies=[["sid", "s"]], defaults=[["X-Trace", "1"]])
        add(auth={"t": "apikey", "key": "SECRET", "location": loc, "name": "api_key"}, explicit_none=True)
        add(auth={"t": "apikey", "key": "SECRET", "location": loc, "name": "q"}, params=[["q", "1"], ["page", "2"]],
            cookies=[["q", "c"]])
        add(auth={"t": "composite", "plugins": [{"t": "bearer", "token": "b"},
                                                {"t": "apikey", "key": "SECRET", "location": loc, "name": "X-Key"},
                                                {"t": "headers", "headers": [["X-B", "h"]]}]},
            params=[["page", "2"]])
    reps = [{"t": "bearer", "token": "tok"}, {"t": "headers", "headers": [["X-B", "h"], ["Authorization", "H"]]},
            {"t": "apikey", "key": "k9", "location": "header", "name": "X-B"},
            {"t": "oauth2", "token": "a", "refresh": {"map": [["a", "b"]], "default": None}}]
    for r in range(1, 5):
        for combo in itertools.permutations(reps, r):
            add(defaults=[["X-B", "d"], ["X-Trace", "1"]], headers=[["X-B", "r"]],
                auth={"t": "composite", "plugins": list(combo)}, params=[["q", "1"]])
    # random: half with one canonical spelling per header name (clean check of order), half with case variants
    for i in range(int(round(1600 * scale))):
        variants = i % 2 == 1
        add(defaults=rng.choice([None, o_pairs(rng, O_HEADERS, 3, variants)]),
            headers=rng.choice([None, o_pairs(rng, O_HEADERS, 3, variants), o_pairs(rng, O_HEADERS, 3, variants)]),
            auth=rng.choice([None, o_plugin(rng, variants, 0, rng.random() < 0.15),
                             o_plugin(rng, variants, 0, False), o_plugin(rng, variants, 0, False)]),
            bearer=rng.choice([None, None, "bt", ""]),
            params=rng.choice([None, [[k, rng.choice(O_VALUES)] for k in rng.sample(O_PNAMES, rng.randint(0, 2))]]),
            cookies=rng.choice([None, None,
                                [[k, rng.choice(O_VALUES)] for k in rng.sample(O_CNAMES, rng.randint(1, 2))]]),
            explicit_none=rng.random() < 0.3)
    return cs


async def _oracle(seed: int, scale: float) -> dict:
    evaluations = 0
    failures: list[dict] = []
    for cfg in oracle_cases(seed, scale):
        n, fs = await evaluate(cfg)
        evaluations += n
        failures.extend(fs)
    counts: dict[str, int] = {}
    for f in failures:
        counts[f["class"]] = counts.get(f["class"], 0) + 1
    return {"evaluations": evaluations, "failures": failures, "classes": counts,
            "expected_classes": EXPECTED_CLASSES}


def oracle(seed: int, scale: float) -> dict:
    with warnings.catch_warnings():
        warnings.simplefilter("ignore")
        return asyncio.run(_oracle(seed, scale))


def replay(case) -> bool:
    """Re-run one oracle case (`failure["case"]`, or a bare configuration); True iff it still violates C17."""
    cfg = case.get("cfg", case)
    with warnings.catch_warnings():
        warnings.simplefilter("ignore")
        _, fs = asyncio.run(evaluate(cfg))
    if "check" not in case:
        return bool(fs)
    return any(f["case"]["check"] == case["check"] and f["case"]["focus"] == case.get("focus") for f in fs)


# ---------------------------------------------------------------- command line

def main(argv: list[str]) -> int:
    scale = float(argv[1]) if len(argv) > 1 else 1.0
    driver = argv[2] if len(argv) > 2 else DEFAULT_DRIVER
    seed = 17
    r = run(seed, scale, driver)
    for d in r["disagreements"]:
        print("DISAGREE", json.dumps(d))
    print(f"{r['comparisons']} comparisons, {r['nontrivial']} non-trivial configurations; "
          f"distribution {json.dumps(r['distribution'])}")
    print(f"{r['n_disagreements']} disagreements")
    o = oracle(seed, scale)
    print(f"oracle: {o['evaluations']} evaluations, {len(o['failures'])} failures: {json.dumps(o['classes'])}")
    seen = set()
    ok_replay = True
    for f in o["failures"]:
        if f["class"] not in seen:
            seen.add(f["class"])
            again = replay(f["case"])
            ok_replay &= again
            print(f"  {f['class']}: e.g. {json.dumps(f['case']['cfg'])} focus={f['case']['focus']} "
                  f"observed={json.dumps(f['observed'])} expected={json.dumps(f['expected'])} replay={again}")
    unexpected = sorted(set(o["classes"]) - set(EXPECTED_CLASSES))
    if unexpected:
        print("UNEXPECTED oracle classes:", unexpected)
    return 1 if (r["n_disagreements"] or unexpected or not ok_replay) else 0


if __name__ == "__main__":
    sys.exit(main(sys.argv))
