import Pog.Model.Resolve
/-
  Lemmas about the schema type resolver model (`Pog/Model/Resolve.lean`).
-/
namespace Pog.Resolve
open Pog

/-! ## imports bookkeeping -/

theorem mem_addImp {imps : Imps} {m n : Str} {x : Str × Str} : x ∈ addImp imps m n ↔ x ∈ imps ∨ x = (m, n) := by
  simp [addImp]

theorem sub_addImp (imps : Imps) (m n : Str) : imps ⊆ addImp imps m n :=
  fun _ h => mem_addImp.mpr (Or.inl h)

theorem mem_addImp_self (imps : Imps) (m n : Str) : (m, n) ∈ addImp imps m n :=
  mem_addImp.mpr (Or.inr rfl)

/-! ## the member loop -/

/-- what `members rec ru ms imps = some (parts, imps')` means, member by member -/
inductive MembersP (rec : IR → Bool → Bool → Imps → Option (Resolved × Imps))
    (P : IR → Bool → Bool → Imps → Resolved × Imps → Prop) (ru : Bool) : List IR → Imps → List Ann → Imps → Prop where
  | nil (imps : Imps) : MembersP rec P ru [] imps [] imps
  | cons {m : IR} {ms : List IR} {imps imps1 imps2 : Imps} {r : Resolved} {as : List Ann} :
      rec m true (subRu ru m) imps = some (r, imps1) → P m true (subRu ru m) imps (r, imps1) →
      MembersP rec P ru ms imps1 as imps2 →
      MembersP rec P ru (m :: ms) imps (quoteIfFwd r.ann r.forwardRef :: as) imps2

theorem members_spec {rec : IR → Bool → Bool → Imps → Option (Resolved × Imps)}
    {P : IR → Bool → Bool → Imps → Resolved × Imps → Prop} {ru : Bool}
    (hP : ∀ s req ru imps x, rec s req ru imps = some x → P s req ru imps x) :
    ∀ (ms : List IR) (imps : Imps) (parts : List Ann) (imps' : Imps),
      members rec ru ms imps = some (parts, imps') → MembersP rec P ru ms imps parts imps' := by
  intro ms
  induction ms with
  | nil =>
    intro imps parts imps' h
    simp only [members, Option.some.injEq, Prod.mk.injEq] at h
    obtain ⟨rfl, rfl⟩ := h
    exact .nil _
  | cons m ms ih =>
    intro imps parts imps' h
    rw [members] at h
    split at h
    · cases h
    · rename_i r imps1 h1
      split at h
      · cases h
      · rename_i as imps2 h2
        simp only [Option.some.injEq, Prod.mk.injEq] at h
        obtain ⟨rfl, rfl⟩ := h
        exact .cons h1 (hP _ _ _ _ _ h1) (ih _ _ _ h2)

theorem MembersP.mono {rec : IR → Bool → Bool → Imps → Option (Resolved × Imps)}
    {P Q : IR → Bool → Bool → Imps → Resolved × Imps → Prop} {ru : Bool}
    (hPQ : ∀ s req ru imps x, P s req ru imps x → Q s req ru imps x)
    {ms : List IR} {imps : Imps} {parts : List Ann} {imps' : Imps}
    (h : MembersP rec P ru ms imps parts imps') : MembersP rec Q ru ms imps parts imps' := by
  induction h with
  | nil => exact .nil _
  | cons h1 hp _ ih => exact .cons h1 (hPQ _ _ _ _ _ hp) ih

theorem MembersP.members_eq {rec : IR → Bool → Bool → Imps → Option (Resolved × Imps)}
    {P : IR → Bool → Bool → Imps → Resolved × Imps → Prop} {ru : Bool}
    {ms : List IR} {imps : Imps} {parts : List Ann} {imps' : Imps}
    (h : MembersP rec P ru ms imps parts imps') : members rec ru ms imps = some (parts, imps') := by
  induction h with
  | nil => rfl
  | cons h1 _ _ ih => rw [members, h1]; simp only [ih]

/-! ## induction principle: one case per branch of `resolve_schema` -/

theorem resolve_induct {reg : List (Str × IR)} {cur : Option Str} {rel : RelMode}
    (P : Nat → IR → Bool → Bool → Imps → Resolved × Imps → Prop)
    (hleaf : ∀ n s req ru imps k, dispatch reg s ru = .leaf k → P (n + 1) s req ru imps (leaf cur rel k s req imps))
    (hgoto : ∀ n s req ru imps t x, dispatch reg s ru = .goto t → resolve reg cur rel n t req ru imps = some x →
      P n t req ru imps x → P (n + 1) s req ru imps x)
    (harray : ∀ n s req ru imps item ru' r imps1, dispatch reg s ru = .array item ru' →
      resolve reg cur rel n item true ru' imps = some (r, imps1) →
      P n item true ru' imps (r, imps1) → P (n + 1) s req ru imps (arrayOf r req imps1))
    (hunion : ∀ n s req ru imps ms parts imps1, dispatch reg s ru = .union ms →
      MembersP (resolve reg cur rel n) (P n) ru ms imps parts imps1 →
      P (n + 1) s req ru imps (unionOf parts req imps1)) :
    ∀ fuel s req ru imps x, resolve reg cur rel fuel s req ru imps = some x → P fuel s req ru imps x := by
  intro fuel
  induction fuel with
  | zero => intro s req ru imps x h; simp [resolve] at h
  | succ n ih =>
    intro s req ru imps x h
    rw [resolve] at h
    split at h
    · rename_i k hd
      simp only [Option.some.injEq] at h
      subst h
      exact hleaf n s req ru imps k hd
    · rename_i t hd
      exact hgoto n s req ru imps t x hd h (ih _ _ _ _ _ h)
    · rename_i item ru' hd
      split at h
      · cases h
      · rename_i r imps1 h1
        simp only [Option.some.injEq] at h
        subst h
        exact harray n s req ru imps item ru' r imps1 hd h1 (ih _ _ _ _ _ h1)
    · rename_i ms hd
      split at h
      · cases h
      · rename_i parts imps1 h1
        simp only [Option.some.injEq] at h
        subst h
        exact hunion n s req ru imps ms parts imps1 hd (members_spec (ih) _ _ _ _ h1)

/-! ## property 2: `is_optional = not required` -/

theorem resolveNamed_optional (cur : Option Str) (rel : RelMode) (s : IR) (req : Bool) (imps : Imps) :
    (resolveNamed cur rel s req imps).1.optional = !req := by
  unfold resolveNamed
  split
  · dsimp only
    split <;> rfl
  · rfl

theorem resolveString_optional (s : IR) (req : Bool) (imps : Imps) : (resolveString s req imps).1.optional = !req := by
  unfold resolveString
  split
  · split <;> rfl
  · split <;> rfl

theorem resolveBoolean_optional (s : IR) (req : Bool) (imps : Imps) : (resolveBoolean s req imps).1.optional = !req := by
  unfold resolveBoolean
  split
  · split <;> rfl
  · rfl

theorem leaf_optional (cur : Option Str) (rel : RelMode) (k : Leaf) (s : IR) (req : Bool) (imps : Imps) :
    (leaf cur rel k s req imps).1.optional = !req := by
  cases k <;> simp only [leaf, resolveNamed_optional, resolveString_optional, resolveBoolean_optional]

theorem unionOf_optional (parts : List Ann) (req : Bool) (imps : Imps) : (unionOf parts req imps).1.optional = !req := by
  unfold unionOf; split <;> rfl

theorem resolve_optional {reg : List (Str × IR)} {cur : Option Str} {rel : RelMode} :
    ∀ fuel s req ru imps x, resolve reg cur rel fuel s req ru imps = some x → x.1.optional = !req :=
  resolve_induct (fun _ _ req _ _ x => x.1.optional = !req)
    (fun _ _ _ _ _ _ _ => leaf_optional ..)
    (fun _ _ _ _ _ _ _ _ _ h => h)
    (fun _ _ _ _ _ _ _ _ _ _ _ _ => rfl)
    (fun _ _ _ _ _ _ _ _ _ _ => unionOf_optional ..)

/-! ## the recorded imports only grow -/

theorem resolveNamed_sub (cur : Option Str) (rel : RelMode) (s : IR) (req : Bool) (imps : Imps) :
    imps ⊆ (resolveNamed cur rel s req imps).2 := by
  unfold resolveNamed
  split
  · dsimp only
    split
    · exact fun _ h => h
    · exact sub_addImp ..
  · exact fun _ h => h

theorem resolveString_sub (s : IR) (req : Bool) (imps : Imps) : imps ⊆ (resolveString s req imps).2 := by
  unfold resolveString
  split
  · split <;> exact fun _ h => h
  · split
    · dsimp only
      split
      · exact sub_addImp ..
      · exact fun _ h => h
    · exact fun _ h => h

theorem resolveBoolean_sub (s : IR) (req : Bool) (imps : Imps) : imps ⊆ (resolveBoolean s req imps).2 := by
  unfold resolveBoolean
  split
  · split
    · exact sub_addImp ..
    · exact fun _ h => h
  · exact fun _ h => h

theorem leaf_sub (cur : Option Str) (rel : RelMode) (k : Leaf) (s : IR) (req : Bool) (imps : Imps) :
    imps ⊆ (leaf cur rel k s req imps).2 := by
  cases k <;> simp only [leaf]
  · exact sub_addImp ..
  · exact sub_addImp ..
  · exact resolveNamed_sub ..
  · exact resolveString_sub ..
  · exact fun _ h => h
  · exact fun _ h => h
  · exact resolveBoolean_sub ..
  · exact fun _ h => sub_addImp _ _ _ (sub_addImp _ _ _ h)
  · exact fun _ h => sub_addImp _ _ _ (sub_addImp _ _ _ h)

theorem unionOf_sub (parts : List Ann) (req : Bool) (imps : Imps) : imps ⊆ (unionOf parts req imps).2 := by
  unfold unionOf
  split
  · exact fun _ h => h
  · exact sub_addImp ..

theorem MembersP.imps_sub {rec : IR → Bool → Bool → Imps → Option (Resolved × Imps)} {ru : Bool}
    {ms : List IR} {imps : Imps} {parts : List Ann} {imps' : Imps}
    (h : MembersP rec (fun _ _ _ imps x => imps ⊆ x.2) ru ms imps parts imps') : imps ⊆ imps' := by
  induction h with
  | nil => exact fun _ h => h
  | cons _ hp _ ih => exact fun _ hx => ih (hp hx)

theorem resolve_imps_sub {reg : List (Str × IR)} {cur : Option Str} {rel : RelMode} :
    ∀ fuel s req ru imps x, resolve reg cur rel fuel s req ru imps = some x → imps ⊆ x.2 :=
  resolve_induct (fun _ _ _ _ imps x => imps ⊆ x.2)
    (fun _ _ _ _ _ _ _ => leaf_sub ..)
    (fun _ _ _ _ _ _ _ _ _ h => h)
    (fun _ _ _ _ _ _ _ _ _ _ _ h => fun _ hx => sub_addImp _ _ _ (h hx))
    (fun _ _ _ _ _ _ _ _ _ h => fun _ hx => unionOf_sub _ _ _ (MembersP.imps_sub h hx))

/-! ## property 5: the fuel is a proof device -/

theorem members_congr {rec rec' : IR → Bool → Bool → Imps → Option (Resolved × Imps)} {ru : Bool}
    (hrec : ∀ s req ru imps x, rec s req ru imps = some x → rec' s req ru imps = some x) :
    ∀ (ms : List IR) (imps : Imps) (y : List Ann × Imps),
      members rec ru ms imps = some y → members rec' ru ms imps = some y := by
  intro ms imps y h
  obtain ⟨parts, imps'⟩ := y
  have := members_spec (P := fun s req ru imps x => rec' s req ru imps = some x) hrec ms imps parts imps' h
  clear h
  induction this with
  | nil => rfl
  | cons _ hp _ ih => rw [members, hp]; simp only [ih]

theorem resolve_fuel_succ {reg : List (Str × IR)} {cur : Option Str} {rel : RelMode} :
    ∀ fuel s req ru imps x, resolve reg cur rel fuel s req ru imps = some x →
      resolve reg cur rel (fuel + 1) s req ru imps = some x := by
  intro fuel
  induction fuel with
  | zero => intro s req ru imps x h; simp [resolve] at h
  | succ n ih =>
    intro s req ru imps x h
    rw [resolve] at h ⊢
    split at h
    · exact h
    · exact ih _ _ _ _ _ h
    · split at h
      · cases h
      · rename_i r imps1 h1
        rw [ih _ _ _ _ _ h1]; exact h
    · split at h
      · cases h
      · rename_i parts imps1 h1
        rw [members_congr ih _ _ _ h1]; exact h

theorem resolve_fuel_le {reg : List (Str × IR)} {cur : Option Str} {rel : RelMode} {fuel fuel' : Nat}
    (hle : fuel ≤ fuel') {s : IR} {req ru : Bool} {imps : Imps} {x : Resolved × Imps}
    (h : resolve reg cur rel fuel s req ru imps = some x) : resolve reg cur rel fuel' s req ru imps = some x := by
  induction hle with
  | refl => exact h
  | step _ ih => exact resolve_fuel_succ _ _ _ _ _ _ ih

/-! ## rendering and quoting -/

theorem renderAll_eq_map (as : List Ann) : renderAll as = as.map render := by
  induction as with
  | nil => rfl
  | cons a as ih => rw [renderAll, ih]; rfl

theorem render_union (as : List Ann) :
    render (.union as) = ['U', 'n', 'i', 'o', 'n', '['] ++ joinWith [',', ' '] (as.map render) ++ [']'] := by
  rw [render, renderAll_eq_map]

theorem namesAll_mem {as : List Ann} {n : Str} : n ∈ namesAll as ↔ ∃ a ∈ as, n ∈ names a := by
  induction as with
  | nil => simp [namesAll]
  | cons a as ih => simp [namesAll, ih]

theorem hasQuotedAny_iff {as : List Ann} : hasQuotedAny as = true ↔ ∃ a ∈ as, hasQuoted a = true := by
  induction as with
  | nil => simp [hasQuotedAny]
  | cons a as ih => simp [hasQuotedAny, ih]

theorem mem_names_name {n t : Str} (h : n ∈ names (.name t)) : n = t := by
  rw [names] at h
  split at h
  · cases h
  · simpa using h

/-- an annotation whose text starts with a quote uses no name -/
theorem names_of_startsWith_quote (a : Ann) (h : startsWith (render a) ['"'] = true) : names a = [] := by
  cases a with
  | name n => rw [render] at h; rw [names, if_pos h]
  | quoted n => rw [names]
  | list a => rw [render] at h; simp [startsWith] at h
  | union as => rw [render] at h; simp [startsWith] at h
  | literalBool b => rw [render] at h; simp [startsWith] at h
  | dictStrAny => rw [render] at h; simp [startsWith] at h

/-- the names of a spliced member are names its resolution uses -/
theorem names_quoteIfFwd_sub (r : Resolved) : names (quoteIfFwd r.ann r.forwardRef) ⊆ usedNames r := by
  unfold quoteIfFwd usedNames
  cases hf : r.forwardRef with
  | false => simp
  | true =>
    cases hq : startsWith (render r.ann) ['"'] with
    | false => simp [names]
    | true => simp [names_of_startsWith_quote _ hq]

theorem hasQuoted_quoteIfFwd {a : Ann} {f : Bool} (h : hasQuoted (quoteIfFwd a f) = true) :
    f = true ∨ hasQuoted a = true := by
  unfold quoteIfFwd at h
  split at h
  · rename_i hc
    simp only [Bool.and_eq_true] at hc
    exact Or.inl hc.1
  · exact Or.inr h

/-! ## `dict.fromkeys` -/

/-- `list(dict.fromkeys(xs))` given the keys already seen -/
def dedupStr : List Str → List Str → List Str
  | [], _ => []
  | a :: rest, seen => if seen.contains a then dedupStr rest seen else a :: dedupStr rest (a :: seen)

theorem dedupAnn_render (l : List Ann) (seen : List Str) :
    (dedupAnn l seen).map render = dedupStr (l.map render) seen := by
  induction l generalizing seen with
  | nil => rfl
  | cons a l ih =>
    simp only [dedupAnn, List.map_cons, dedupStr]
    split
    · exact ih _
    · simp only [List.map_cons, ih]

theorem dedupAnn_mem {l : List Ann} {seen : List Str} {a : Ann} (h : a ∈ dedupAnn l seen) : a ∈ l := by
  induction l generalizing seen with
  | nil => simp [dedupAnn] at h
  | cons b l ih =>
    rw [dedupAnn] at h
    split at h
    · exact List.mem_cons_of_mem _ (ih h)
    · rcases List.mem_cons.mp h with h | h
      · exact h ▸ List.mem_cons_self
      · exact List.mem_cons_of_mem _ (ih h)

theorem dedupStr_nodup (l seen : List Str) : (dedupStr l seen).Nodup ∧ ∀ x ∈ dedupStr l seen, x ∉ seen := by
  induction l generalizing seen with
  | nil => simp [dedupStr]
  | cons a l ih =>
    rw [dedupStr]
    split
    · exact ih seen
    · rename_i hc
      obtain ⟨hn, hs⟩ := ih (a :: seen)
      refine ⟨List.nodup_cons.mpr ⟨fun hm => hs a hm List.mem_cons_self, hn⟩, ?_⟩
      intro x hx
      rcases List.mem_cons.mp hx with rfl | hx
      · simpa using hc
      · exact fun h => hs x hx (List.mem_cons_of_mem _ h)

theorem dedupStr_cover (l seen : List Str) (x : Str) (hx : x ∈ l) : x ∈ seen ∨ x ∈ dedupStr l seen := by
  induction l generalizing seen with
  | nil => cases hx
  | cons a l ih =>
    rw [dedupStr]
    rcases List.mem_cons.mp hx with rfl | hx
    · split
      · rename_i hc; exact Or.inl (by simpa using hc)
      · exact Or.inr List.mem_cons_self
    · split
      · exact ih seen hx
      · rcases ih (a :: seen) hx with h | h
        · rcases List.mem_cons.mp h with rfl | h
          · exact Or.inr List.mem_cons_self
          · exact Or.inl h
        · exact Or.inr (List.mem_cons_of_mem _ h)

/-- first-occurrence order: it is `List.eraseDups` of the not yet seen keys -/
theorem dedupStr_eq_eraseDups (l seen : List Str) :
    dedupStr l seen = (l.filter (fun x => !seen.contains x)).eraseDups := by
  induction l generalizing seen with
  | nil => simp [dedupStr]
  | cons a l ih =>
    rw [dedupStr]
    cases hc : seen.contains a with
    | true =>
      have hm : a ∈ seen := by simpa using hc
      simp [hm, ih]
    | false =>
      simp only [Bool.false_eq_true, ↓reduceIte, List.filter_cons, hc, Bool.not_false, List.eraseDups_cons,
        List.filter_filter, ih]
      congr 2
      apply List.filter_congr
      intro x _
      simp only [List.contains_cons, Bool.not_or]

theorem dedupStr_nil_eq_eraseDups (l : List Str) : dedupStr l [] = l.eraseDups := by
  rw [dedupStr_eq_eraseDups]
  congr 1
  exact List.filter_eq_self.mpr (fun _ _ => rfl)

/-! ## property 3: the `Union[...]` of anyOf / oneOf -/

/-- two lists related element by element, in order -/
inductive Forall₂ {α β : Type} (R : α → β → Prop) : List α → List β → Prop where
  | nil : Forall₂ R [] []
  | cons {a : α} {b : β} {as : List α} {bs : List β} : R a b → Forall₂ R as bs → Forall₂ R (a :: as) (b :: bs)

/-- the parts are, in order, the members' resolved types (quoted when the member is a forward reference) -/
theorem MembersP.forall₂ {rec : IR → Bool → Bool → Imps → Option (Resolved × Imps)}
    {P : IR → Bool → Bool → Imps → Resolved × Imps → Prop} {ru : Bool}
    {ms : List IR} {imps : Imps} {parts : List Ann} {imps' : Imps}
    (h : MembersP rec P ru ms imps parts imps') :
    Forall₂ (fun m p => ∃ r i1 i2, rec m true (subRu ru m) i1 = some (r, i2) ∧ p = quoteIfFwd r.ann r.forwardRef)
      ms parts := by
  induction h with
  | nil => exact .nil
  | cons h1 _ _ ih => exact .cons ⟨_, _, _, h1, rfl⟩ ih

theorem resolve_union_unfold {reg : List (Str × IR)} {cur : Option Str} {rel : RelMode} {fuel : Nat} {s : IR}
    {req ru : Bool} {imps : Imps} {x : Resolved × Imps} {ms : List IR}
    (hd : dispatch reg s ru = .union ms) (h : resolve reg cur rel (fuel + 1) s req ru imps = some x) :
    ∃ parts imps1, members (resolve reg cur rel fuel) ru ms imps = some (parts, imps1) ∧ x = unionOf parts req imps1 := by
  rw [resolve, hd] at h
  dsimp only at h
  split at h
  · cases h
  · rename_i parts imps1 h1
    exact ⟨parts, imps1, h1, by simpa using h.symm⟩

theorem unionOf_single (p : Ann) (req : Bool) (imps : Imps) :
    unionOf [p] req imps = ({ ann := p, optional := !req }, imps) := rfl

theorem unionOf_many {parts : List Ann} (req : Bool) (imps : Imps) (h : parts.length ≠ 1) :
    unionOf parts req imps =
      ({ ann := .union (dedupAnn parts []), optional := !req }, addImp imps sTyping ['U', 'n', 'i', 'o', 'n']) := by
  unfold unionOf
  split
  · simp at h
  · rfl

/-! ## property 4: forward references -/

/-- some module stem makes `cur` the models-package file of that stem -/
def SelfOK (cur : Option Str) : Prop := ∃ stem, selfImport cur stem = true

theorem selfImport_iff {cur : Option Str} {stem : Str} :
    selfImport cur stem = true ↔
      ∃ c, cur = some c ∧ c ≠ [] ∧ pathBasename c = stem ++ dotPy ∧ pathBasename (pathDirname c) = modelsDir := by
  unfold selfImport
  split
  · rename_i c cs
    simp only [Bool.and_eq_true, beq_iff_eq]
    constructor
    · intro h; exact ⟨_, rfl, by simp, h.1, h.2⟩
    · rintro ⟨c', hc, _, h1, h2⟩
      cases hc
      exact ⟨h1, h2⟩
  · rename_i hne
    constructor
    · intro h; cases h
    · rintro ⟨c, hc, hnil, _⟩
      cases c with
      | nil => exact absurd rfl hnil
      | cons a as => exact absurd hc (hne a as)

/-- what a forward-reference result looks like, and where quotes may come from -/
def FwdOK (cur : Option Str) (x : Resolved × Imps) : Prop :=
  (x.1.forwardRef = true → SelfOK cur ∧ x.1.needsImport = false ∧ ∃ cls, x.1.ann = .name cls) ∧
  (hasQuoted x.1.ann = true → SelfOK cur)

theorem resolveNamed_fwd (cur : Option Str) (rel : RelMode) (s : IR) (req : Bool) (imps : Imps) :
    FwdOK cur (resolveNamed cur rel s req imps) := by
  unfold resolveNamed FwdOK
  split
  · dsimp only
    split
    · rename_i hs
      exact ⟨fun _ => ⟨⟨_, hs⟩, rfl, _, rfl⟩, fun h => by simp [hasQuoted] at h⟩
    · exact ⟨fun h => by simp at h, fun h => by simp [hasQuoted] at h⟩
  · exact ⟨fun h => by simp at h, fun h => by simp [hasQuoted] at h⟩

theorem resolveString_fwd (cur : Option Str) (s : IR) (req : Bool) (imps : Imps) :
    FwdOK cur (resolveString s req imps) := by
  unfold resolveString FwdOK
  split
  · split <;> exact ⟨fun h => by simp at h, fun h => by simp [hasQuoted] at h⟩
  · split <;> exact ⟨fun h => by simp at h, fun h => by simp [hasQuoted] at h⟩

theorem resolveBoolean_fwd (cur : Option Str) (s : IR) (req : Bool) (imps : Imps) :
    FwdOK cur (resolveBoolean s req imps) := by
  unfold resolveBoolean FwdOK
  split
  · split <;> exact ⟨fun h => by simp at h, fun h => by simp [hasQuoted] at h⟩
  · exact ⟨fun h => by simp at h, fun h => by simp [hasQuoted] at h⟩

theorem leaf_fwd (cur : Option Str) (rel : RelMode) (k : Leaf) (s : IR) (req : Bool) (imps : Imps) :
    FwdOK cur (leaf cur rel k s req imps) := by
  cases k <;> simp only [leaf]
  case named => exact resolveNamed_fwd ..
  case string => exact resolveString_fwd ..
  case boolean => exact resolveBoolean_fwd ..
  all_goals exact ⟨fun h => by simp at h, fun h => by simp [hasQuoted] at h⟩

theorem MembersP.fwd {rec : IR → Bool → Bool → Imps → Option (Resolved × Imps)} {cur : Option Str} {ru : Bool}
    {ms : List IR} {imps : Imps} {parts : List Ann} {imps' : Imps}
    (h : MembersP rec (fun _ _ _ _ x => FwdOK cur x) ru ms imps parts imps') :
    ∀ p ∈ parts, hasQuoted p = true → SelfOK cur := by
  induction h with
  | nil => intro p hp; cases hp
  | cons _ hp _ ih =>
    intro p hmem hq
    rcases List.mem_cons.mp hmem with rfl | hmem
    · rcases hasQuoted_quoteIfFwd hq with hf | hq'
      · exact (hp.1 hf).1
      · exact hp.2 hq'
    · exact ih p hmem hq

theorem unionOf_fwd {cur : Option Str} {parts : List Ann} (req : Bool) (imps : Imps)
    (h : ∀ p ∈ parts, hasQuoted p = true → SelfOK cur) : FwdOK cur (unionOf parts req imps) := by
  unfold unionOf
  split
  · exact ⟨fun h => by simp at h, fun hq => h _ List.mem_cons_self hq⟩
  · refine ⟨fun h => by simp at h, fun hq => ?_⟩
    simp only [hasQuoted] at hq
    obtain ⟨a, ha, hqa⟩ := hasQuotedAny_iff.mp hq
    exact h a (dedupAnn_mem ha) hqa

theorem resolve_fwd {reg : List (Str × IR)} {cur : Option Str} {rel : RelMode} :
    ∀ fuel s req ru imps x, resolve reg cur rel fuel s req ru imps = some x → FwdOK cur x :=
  resolve_induct (fun _ _ _ _ _ x => FwdOK cur x)
    (fun _ _ _ _ _ _ _ => leaf_fwd ..)
    (fun _ _ _ _ _ _ _ _ _ h => h)
    (fun _ _ _ _ _ _ _ r _ _ _ h =>
      ⟨fun hf => by simp [arrayOf] at hf, fun hq => by
        simp only [arrayOf, hasQuoted] at hq
        rcases hasQuoted_quoteIfFwd hq with hf | hq'
        · exact (h.1 hf).1
        · exact h.2 hq'⟩)
    (fun _ _ _ _ _ _ _ _ _ h => unionOf_fwd _ _ (MembersP.fwd h))

/-! ## property 1: names used vs imports requested -/

/-- every name the result uses is a python builtin or the `name` of a recorded `add_import` -/
def Covered (x : Resolved × Imps) : Prop :=
  ∀ n ∈ usedNames x.1, n ∈ builtinNames ∨ ∃ m, (m, n) ∈ x.2

theorem coverOK_iff (x : Resolved × Imps) : coverOK x = true ↔ Covered x := by
  unfold coverOK Covered
  simp only [List.all_eq_true, Bool.or_eq_true, List.contains_iff_mem, List.any_eq_true, beq_iff_eq]
  constructor
  · intro h n hn
    rcases h n hn with hb | ⟨p, hp, rfl⟩
    · exact Or.inl hb
    · exact Or.inr ⟨p.1, hp⟩
  · intro h n hn
    rcases h n hn with hb | ⟨m, hm⟩
    · exact Or.inl hb
    · exact Or.inr ⟨(m, n), hm, rfl⟩

/-- a python_type of `_resolve_string` is fine when it is a builtin or the first matching arm of the import chain
    imports that very name -/
def fmtOK (t : Str) : Bool :=
  builtinNames.contains t ||
    (match importFor t with
     | some (_, n) => n == t
     | none => false)

/-- the TABLE-LEVEL fact: every value of `format_mapping` and the `.get` default is a builtin or imported by the chain -/
def formatTableOK : Bool := Pog.Gen.formatMapping.all (fun p => fmtOK p.2) && fmtOK Pog.Gen.formatDefault

theorem formatTableOK_holds : formatTableOK = true := by decide

theorem lookup_mem {β : Type} {l : List (Str × β)} {k : Str} {v : β} (h : l.lookup k = some v) : (k, v) ∈ l := by
  induction l with
  | nil => cases h
  | cons p l ih =>
    obtain ⟨k', v'⟩ := p
    rw [List.lookup_cons] at h
    split at h
    · rename_i heq
      cases h
      have : k = k' := by simpa using heq
      subst this
      exact List.mem_cons_self
    · exact List.mem_cons_of_mem _ (ih h)

theorem fmtOK_lookup (f : Str) : fmtOK ((Pog.Gen.formatMapping.lookup f).getD Pog.Gen.formatDefault) = true := by
  have h := formatTableOK_holds
  unfold formatTableOK at h
  simp only [Bool.and_eq_true, List.all_eq_true] at h
  cases hl : Pog.Gen.formatMapping.lookup f with
  | none => exact h.2
  | some t => exact h.1 _ (lookup_mem hl)

theorem covered_name_builtin {t : Str} {opt : Bool} {imps : Imps} (h : t ∈ builtinNames) :
    Covered ({ ann := .name t, optional := opt }, imps) := by
  intro n hn
  simp only [usedNames, Bool.false_eq_true, ↓reduceIte] at hn
  exact Or.inl (mem_names_name hn ▸ h)

theorem covered_name_imported {t m : Str} {r : Resolved} {imps : Imps} (ha : r.ann = .name t) (h : (m, t) ∈ imps) :
    Covered (r, imps) := by
  intro n hn
  unfold usedNames at hn
  split at hn
  · cases hn
  · rw [ha] at hn
    exact Or.inr ⟨m, mem_names_name hn ▸ h⟩

theorem resolveNamed_covered (cur : Option Str) (rel : RelMode) (s : IR) (req : Bool) (imps : Imps)
    (hz : truthy s.stem = true) : Covered (resolveNamed cur rel s req imps) := by
  unfold resolveNamed
  split
  · dsimp only
    split
    · intro n hn; simp [usedNames] at hn
    · exact covered_name_imported rfl (mem_addImp_self ..)
  · rename_i hne
    unfold truthy at hz
    split at hz
    · rename_i c cs heq; exact absurd heq (hne c cs)
    · cases hz

theorem resolveString_covered (s : IR) (req : Bool) (imps : Imps)
    (hz : (s.enumNonEmpty && truthy s.genName) = false) : Covered (resolveString s req imps) := by
  unfold resolveString
  split
  · rename_i he
    split
    · rename_i c cs hg
      simp [he, hg, truthy] at hz
    · exact covered_name_builtin (by decide)
  · split
    · rename_i c cs _
      dsimp only
      have hok := fmtOK_lookup (c :: cs)
      generalize (Pog.Gen.formatMapping.lookup (c :: cs)).getD Pog.Gen.formatDefault = t at hok
      unfold fmtOK at hok
      split
      · rename_i m n hi
        rw [hi] at hok
        simp only [Bool.or_eq_true, List.contains_iff_mem, beq_iff_eq] at hok
        rcases hok with hb | rfl
        · exact covered_name_builtin hb
        · exact covered_name_imported rfl (mem_addImp_self ..)
      · rename_i hi
        rw [hi] at hok
        simp only [Bool.or_false, List.contains_iff_mem] at hok
        exact covered_name_builtin hok
    · exact covered_name_builtin (by decide)

theorem resolveBoolean_covered (s : IR) (req : Bool) (imps : Imps) : Covered (resolveBoolean s req imps) := by
  unfold resolveBoolean
  split
  · split
    · intro n hn
      simp only [usedNames, Bool.false_eq_true, ↓reduceIte, names, List.mem_singleton] at hn
      subst hn
      exact Or.inr ⟨_, mem_addImp_self ..⟩
    · exact covered_name_builtin (by decide)
  · exact covered_name_builtin (by decide)

theorem leaf_covered (cur : Option Str) (rel : RelMode) (k : Leaf) (s : IR) (req : Bool) (imps : Imps)
    (hz : leafHazard k s = false) : Covered (leaf cur rel k s req imps) := by
  cases k <;> simp only [leaf]
  case null => exact covered_name_imported rfl (mem_addImp_self ..)
  case any => exact covered_name_imported rfl (mem_addImp_self ..)
  case named => exact resolveNamed_covered _ _ _ _ _ (by simpa [leafHazard] using hz)
  case string => exact resolveString_covered _ _ _ (by simpa [leafHazard] using hz)
  case integer => exact covered_name_builtin (by decide)
  case number => exact covered_name_builtin (by decide)
  case boolean => exact resolveBoolean_covered _ _ _
  case arrayNoItems =>
    intro n hn
    simp only [usedNames, Bool.false_eq_true, ↓reduceIte, names, startsWith, sAny, List.isPrefixOf,
      List.mem_cons] at hn
    rcases hn with rfl | hn
    · exact Or.inr ⟨sTyping, mem_addImp.mpr (Or.inl (mem_addImp_self ..))⟩
    · have : n = sAny := by simpa [sAny] using hn
      subst this
      exact Or.inr ⟨sTyping, mem_addImp_self ..⟩
  case object =>
    intro n hn
    simp only [usedNames, Bool.false_eq_true, ↓reduceIte, names, List.mem_cons, List.not_mem_nil, or_false] at hn
    rcases hn with rfl | rfl | rfl
    · exact Or.inl (by decide)
    · exact Or.inl (by decide)
    · exact Or.inr ⟨sTyping, mem_addImp_self ..⟩

theorem MembersP.imps_sub_of_rec {rec : IR → Bool → Bool → Imps → Option (Resolved × Imps)}
    {P : IR → Bool → Bool → Imps → Resolved × Imps → Prop} {ru : Bool}
    (hrec : ∀ s req ru imps x, rec s req ru imps = some x → imps ⊆ x.2)
    {ms : List IR} {imps : Imps} {parts : List Ann} {imps' : Imps}
    (h : MembersP rec P ru ms imps parts imps') : imps ⊆ imps' := by
  induction h with
  | nil => exact fun _ h => h
  | cons h1 _ _ ih => exact fun _ hx => ih (hrec _ _ _ _ _ h1 hx)

/-- the names of every part are covered by the imports recorded when the loop ends -/
theorem MembersP.covered {reg : List (Str × IR)} {cur : Option Str} {rel : RelMode} {n : Nat} {ru : Bool}
    {ms : List IR} {imps : Imps} {parts : List Ann} {imps' : Imps}
    (h : MembersP (resolve reg cur rel n) (fun s _ ru _ x => hazardFree reg n s ru = true → Covered x) ru ms imps parts imps')
    (hz : ∀ m ∈ ms, hazardFree reg n m (subRu ru m) = true) :
    ∀ p ∈ parts, ∀ nm ∈ names p, nm ∈ builtinNames ∨ ∃ md, (md, nm) ∈ imps' := by
  induction h with
  | nil => intro p hp; cases hp
  | cons h1 hp htail ih =>
    intro p hmem nm hnm
    rcases List.mem_cons.mp hmem with rfl | hmem
    · rcases hp (hz _ List.mem_cons_self) nm (names_quoteIfFwd_sub _ hnm) with hb | ⟨md, hmd⟩
      · exact Or.inl hb
      · exact Or.inr ⟨md, MembersP.imps_sub_of_rec (fun _ _ _ _ _ h => resolve_imps_sub _ _ _ _ _ _ h) htail hmd⟩
    · exact ih (fun m hm => hz m (List.mem_cons_of_mem _ hm)) p hmem nm hnm

theorem unionOf_covered {parts : List Ann} (req : Bool) (imps : Imps)
    (h : ∀ p ∈ parts, ∀ nm ∈ names p, nm ∈ builtinNames ∨ ∃ md, (md, nm) ∈ imps) :
    Covered (unionOf parts req imps) := by
  unfold unionOf
  split
  · intro n hn
    simp only [usedNames, Bool.false_eq_true, ↓reduceIte] at hn
    exact h _ List.mem_cons_self n hn
  · intro n hn
    simp only [usedNames, Bool.false_eq_true, ↓reduceIte, names, List.mem_cons] at hn
    rcases hn with rfl | hn
    · exact Or.inr ⟨sTyping, mem_addImp_self ..⟩
    · obtain ⟨a, ha, hna⟩ := namesAll_mem.mp hn
      rcases h a (dedupAnn_mem ha) n hna with hb | ⟨md, hmd⟩
      · exact Or.inl hb
      · exact Or.inr ⟨md, sub_addImp _ _ _ hmd⟩

theorem resolve_covered {reg : List (Str × IR)} {cur : Option Str} {rel : RelMode} :
    ∀ fuel s req ru imps x, resolve reg cur rel fuel s req ru imps = some x →
      hazardFree reg fuel s ru = true → Covered x :=
  resolve_induct (fun n s _ ru _ x => hazardFree reg n s ru = true → Covered x)
    (fun n s req ru imps k hd hz => by
      rw [hazardFree, hd] at hz
      exact leaf_covered _ _ _ _ _ _ (by simpa using hz))
    (fun n s req ru imps t x hd _ ih hz => by
      rw [hazardFree, hd] at hz
      exact ih hz)
    (fun n s req ru imps item ru' r imps1 hd _ ih hz => by
      rw [hazardFree, hd] at hz
      have hc := ih hz
      intro nm hnm
      simp only [arrayOf, usedNames, Bool.false_eq_true, ↓reduceIte, names, List.mem_cons] at hnm
      rcases hnm with rfl | hnm
      · exact Or.inr ⟨sTyping, mem_addImp_self ..⟩
      · rcases hc nm (names_quoteIfFwd_sub _ hnm) with hb | ⟨md, hmd⟩
        · exact Or.inl hb
        · exact Or.inr ⟨md, sub_addImp _ _ _ hmd⟩)
    (fun n s req ru imps ms parts imps1 hd hm hz => by
      rw [hazardFree, hd] at hz
      exact unionOf_covered _ _ (MembersP.covered hm (by simpa using hz)))

end Pog.Resolve
