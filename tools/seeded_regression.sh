#!/bin/sh
# the whole seeded store against this checkout (meant for `vp run --with-repo -- tools/seeded_regression.sh`): builds first
HERE=$(cd "$(dirname "$0")/.." && pwd)
cd "$HERE"
export VERIF_BASE_REPO=${VP_RUN_REPO:-/repo}
VERIF_REPO=$VERIF_BASE_REPO /venv/bin/python -m vf.extract_tables >/dev/null && (cd lean && lake build Pog driver >/dev/null 2>&1) || { echo "setup failed"; exit 2; }
tools/run_seeded.sh "$@" | grep -E "^####|^== |^VIOLATION|PATCH DOES NOT APPLY" | cut -c1-200
