import Pog.Lemmas.ConvRound
import Pog.Lemmas.ConvSer
import Pog.Lemmas.ConvEnc
import Pog.Lemmas.ConvSerTerm
/-
  C16 — the bundled converter round-trips dataclasses; the convenience serialiser is total and JSON-safe.

  FULL STATEMENT: for any dataclass type, with or without wire-key maps, nested arbitrarily through lists,
  dicts, optionals and other dataclasses and using the supported leaf types, decoding then encoding a
  conforming JSON value returns that value and encoding then decoding an instance returns an equal
  instance; decoding failures are reported as ValueError naming the offending field.  The convenience
  serialiser terminates on object graphs that contain reference cycles and always returns
  JSON-serialisable data without null-valued keys.

  What is proved about the model `Pog.Model.Conv` (= core/cattrs_converter.py + `DataclassSerializer`; tied to the
  code by corr_conv.py).  `✗` marks parts of the full statement that are FALSE of the current code.

    decode_encode            : conforming JSON ↦ instance ↦ JSON = the input with absent defaulted properties filled in
                               (`null` / `[]` / `{}`), for the union-free fragment, any depth, any consistent `Meta` maps (full)
    decode_encode_top        : the same through `structure_from_dict` / `unstructure_to_dict`                          (full)
    encode_decode            : a well-typed instance ↦ JSON ↦ instance = the instance, for lawful leaf codecs, same fragment       (full)
    hook_registration_order_irrelevant : the registry matters only as a set of classes                                     (full)
    every failure is a ValueError : by construction of `structureFromDict` (its error type has one constructor)        (full)
    error_names_field        : a failing field of a dict payload is named (python attribute name), all of them, in order (full)
    error_path_through_optional : … with its full path                                                                   ✗
                               — below an `Optional[...]` / union field the inner path is lost: `d`, not `d.z`   (counterexample)
    error_path_no_index      : list positions are reported as `[]`, never with the index (by design of `_extract_errors`)

    serializer_no_null_keys  : whatever `DataclassSerializer.serialize` returns has no `None`-valued dict entry      (full)
    serializer_terminates    : it terminates on every object graph, with or without reference cycles, whatever the
                               types, the declarations and the hook registry                                           (full)
        — (F26 repaired: the unstructure function of every list, dict and dataclass type runs behind the cycle guard that
          shares the serializer's `visited` set; a 2-cycle through a resolved annotation, a self reference through an
          `Any` field and a dict holding itself are cut where the object is reached again:
          `serializer_terminates_former_witness`, `serializer_any_cycle_former_witness`,
          `serializer_dict_cycle_former_witness`)
        — cycles through `list` objects and through fields annotated with an unresolved forward reference
          (`Optional["N"]`, as the generator writes self references) are cut as before                        (examples)
    serializer_json_safe     : the result is JSON-serialisable — not proved in general (the model keeps `bytearray` values and
                               ill-typed attribute values that cattrs passes through as non-JSON `opaque` results); both
                               recorded defects are repaired:
        — (F10 repaired: a `UUID` / `time` value now has an unstructure hook and is written as a string:
          `serializer_json_safe_former_witness`)
        — (F48 repaired: the values of a dict are serialised by the same tracked recursion as the items of a list; a model
          with a forward-referenced child list held by a dict comes out as plain data:
          `serializer_dict_leak_former_witness`)
    serializer_registry_dependent : (not part of the statement, found on the way; F48, repaired) the keys of a dataclass
          held by a dict used to depend on whether its hook happened to be registered already; now the wire names, whatever
          the registry: `serializer_registry_dependent_former_witness`
-/
namespace Pog.C16
open Pog

/-! ## decode ∘ encode on conforming JSON -/

/-- For well-formed declarations (distinct field names, distinct wire keys, dump map inverse to load map) whose
    unstructure hooks are registered, every codec, every depth budget `n`, every type `t` and every JSON
    document `j` that conforms to `t` (union-free; leaves spelled canonically; checked to depth `n`):
    structuring succeeds and unstructuring the result by the declared type gives `normaliseF n decls t j`,
    i.e. `j` with the absent defaulted properties filled in.  No law about the codecs is needed here: a
    conforming leaf IS a fixpoint of decode-then-encode (`LeafCodec.canon`); `canon_of_lawful` shows that a
    lawful codec's own output always is. -/
theorem decode_encode (c : Codecs) (n : Nat) (reg : List Str) (decls : Decls) (t : Ty) (j : JsonV)
    (hwf : declsOk decls = true) (hreg : allRegistered reg decls = true)
    (hconf : conformsF c n decls t j = true) :
    ∃ v, structF c n decls t j = .ok v ∧ unstrF c n reg decls (some t) v = .ok (normaliseF n decls t j) := by
  obtain ⟨v, h1, h2, _⟩ := roundtrip_core c reg decls hwf hreg n t j hconf
  exact ⟨v, h1, h2⟩

/-- A lawful codec's encoder output is canonical, so every JSON produced by encoding a valid leaf value
    is accepted by `conformsF`. -/
theorem canon_of_lawful (c : LeafCodec) (hl : c.Lawful) (v : Str) (hv : c.Valid v) : c.canon (c.encode v) = true := by
  obtain ⟨s, hs⟩ := hv
  simp [LeafCodec.canon, hl s v hs]

/-- Through the public entry points: `structure_from_dict(j, C)` then `unstructure_to_dict(·)`.  The hypothesis
    on the registry is about the registry the call itself computes (`regTy`: the classes reachable from `C`)
    — it holds when the declaration table lists only classes reachable from `C`, whatever was registered before. -/
theorem decode_encode_top (c : Codecs) (n : Nat) (reg : List Str) (decls : Decls) (name : Str) (j : JsonV)
    (hwf : declsOk decls = true)
    (hreg : allRegistered ((regTy n decls [] (.dc name)).foldl insertName reg) decls = true)
    (hconf : conformsF c n decls (.dc name) j = true) :
    roundtrip c n reg decls (.dc name) j = .ok (.ok (normaliseF n decls (.dc name) j)) := by
  obtain ⟨v, h1, h2⟩ := decode_encode c n _ decls (.dc name) j hwf hreg hconf
  obtain ⟨fs, rfl⟩ := structF_dc_ok_inst c n decls name j v h1
  simp only [roundtrip, structureFromDict, h1, unstructureToDict, unstrF, h2]

/-! ### the hypotheses are satisfiable: a nested example with `Meta` maps, every container kind, a datetime -/

def H : ClassDecl :=
  { fields := [⟨"z".toList, .leaf .int, .required⟩, ⟨"w".toList, .optional (.leaf .int), .none⟩],
    loadMap := none, dumpMap := none }
def C : ClassDecl :=
  { fields := [⟨"a".toList, .leaf .int, .required⟩, ⟨"when".toList, .leaf .datetime, .required⟩,
               ⟨"b_".toList, .optional (.leaf .str), .none⟩, ⟨"c".toList, .list (.leaf .int), .list⟩,
               ⟨"d".toList, .optional (.dc "H".toList), .none⟩, ⟨"f".toList, .dict (.dc "H".toList), .dict⟩,
               ⟨"g".toList, .list (.dc "H".toList), .list⟩, ⟨"m".toList, .optional (.dict .any), .none⟩],
    loadMap := some [("b".toList, "b_".toList), ("A".toList, "a".toList), ("class".toList, "c".toList)],
    dumpMap := some [("b_".toList, "b".toList), ("a".toList, "A".toList), ("c".toList, "class".toList)] }
def decls : Decls := [("H".toList, H), ("C".toList, C)]

def doc : JsonV :=
  .obj [("when".toList, .str "2020-01-01T00:00:00+00:00".toList), ("A".toList, .int 1),
        ("d".toList, .obj [("z".toList, .int 5)]),
        ("g".toList, .arr [.obj [("w".toList, .int 2), ("z".toList, .int 1)]]),
        ("m".toList, .obj [("k".toList, .arr [.int 1, .null])])]

example : declsOk decls = true := by decide
example : allRegistered ((regTy 6 decls [] (.dc "C".toList)).foldl insertName []) decls = true := by decide
example : conformsF Codecs.exec 6 decls (.dc "C".toList) doc = true := by decide

/-- … and what comes back: keys in declaration order, the absent `b`, `class`, `f`, `w` filled in. -/
example : roundtrip Codecs.exec 6 [] decls (.dc "C".toList) doc = .ok (.ok (
    .obj [("A".toList, .int 1), ("when".toList, .str "2020-01-01T00:00:00+00:00".toList), ("b".toList, .null),
          ("class".toList, .arr []), ("d".toList, .obj [("z".toList, .int 5), ("w".toList, .null)]),
          ("f".toList, .obj []), ("g".toList, .arr [.obj [("z".toList, .int 1), ("w".toList, .int 2)]]),
          ("m".toList, .obj [("k".toList, .arr [.int 1, .null])])])) := by decide

/-! ## encode ∘ decode on well-typed instances -/

/-- For well-formed, registered declarations and LAWFUL leaf codecs (every decodable value is recovered from its own
    encoding): a value that is well typed for `t` (`HasTypeF`: fields hold values of their annotated types, `Optional`
    fields `None` or a value, leaf values are ones the codec can produce) unstructures to some JSON `j`, and structuring
    `j` gives the value back. -/
theorem encode_decode (c : Codecs) (hl : c.Lawful) (n : Nat) (reg : List Str) (decls : Decls) (t : Ty) (v : Val)
    (hwf : declsOk decls = true) (hreg : allRegistered reg decls = true)
    (hty : HasTypeF c n decls t v) :
    ∃ j, unstrF c n reg decls (some t) v = .ok j ∧ structF c n decls t j = .ok v := by
  obtain ⟨j, h1, h2, _⟩ := encdec_core c hl reg decls hwf hreg n t v hty
  exact ⟨j, h1, h2⟩

/-- The hypothesis on the codecs is satisfiable: the executable codecs of the driver are lawful. -/
example : Codecs.exec.Lawful := exec_lawful

/-- A well-typed instance: `H(z=5, w=None)`, and a list of them inside an `Optional`. -/
example : HasTypeF Codecs.exec 4 decls (.optional (.list (.dc "H".toList)))
    (.list [.inst "H".toList [("z".toList, .int 5), ("w".toList, .none)]]) := by
  refine ⟨rfl, Or.inr ⟨by simp, rfl, _, rfl, ?_⟩⟩
  intro x hx
  simp only [List.mem_singleton] at hx
  subst hx
  refine ⟨rfl, H, rfl, by decide, fun f => if f.pyName = "z".toList then .int 5 else .none, by decide, ?_⟩
  intro f hf
  simp only [H, List.mem_cons, List.not_mem_nil, or_false] at hf
  rcases hf with rfl | rfl
  · exact ⟨rfl, 5, rfl⟩
  · exact ⟨rfl, Or.inl rfl⟩

/-! ## hook registration -/

/-- Hooks are registered per class with the predicate `t is cls`, so they never shadow one another: the result of
    unstructuring depends on the registry only as a SET — not on the order in which classes were registered, nor on
    how often (`unstructure_to_dict` re-registers on every call).  Structuring does not depend on the registry at all:
    `structure_from_dict` registers every class reachable from the target type before it structures (`structF` has no
    registry argument; corr_conv.py drives the real converter with shuffled declaration tables and arbitrary earlier
    calls, and compares the order `regTy` predicts with the order the converter registered). -/
theorem hook_registration_order_irrelevant (c : Codecs) (n : Nat) (decls : Decls) (reg1 reg2 : List Str)
    (t : Option Ty) (v : Val) (h : ∀ x, reg1.contains x = reg2.contains x) :
    unstrF c n reg1 decls t v = unstrF c n reg2 decls t v :=
  unstrF_reg_congr c decls reg1 reg2 h n t v

/-! ## error reporting -/

/-- Every failure of `structure_from_dict` is a `ValueError`: `structureFromDict` has a single error type
    (`TopErr`, the text of that ValueError).  For a dict payload of a dataclass: the call fails iff some field
    fails (its value does not decode, or it is required and missing); the message is then the bulleted
    list, and every bullet's path starts with the PYTHON attribute name of a failing field. -/
theorem error_names_field (c : Codecs) (n : Nat) (decls : Decls) (name : Str) (cd : ClassDecl)
    (kvs : List (Str × JsonV)) (hcd : aget decls name = some cd)
    (hres : cd.fields.all (fun f => resolvable f.ty) = true) :
    structureFromDict c (n + 1) decls (.dc name) (.obj kvs) =
        (if (cd.fields.filterMap (fieldError (structF c n decls) cd kvs)).isEmpty
         then .ok (.inst name (cd.fields.filterMap (fieldValue (structF c n decls) cd kvs)))
         else .error ⟨true, extractCls (cd.fields.filterMap (fieldError (structF c n decls) cd kvs)) []⟩)
    ∧ ∀ pk ∈ extractCls (cd.fields.filterMap (fieldError (structF c n decls) cd kvs)) [],
        ∃ fe ∈ cd.fields.filterMap (fieldError (structF c n decls) cd kvs), fe.1 <+: pk.1 := by
  refine ⟨?_, ?_⟩
  · simp only [structureFromDict, structF_dc, structClass_obj _ decls name cd kvs hcd hres]
    by_cases he : (cd.fields.filterMap (fieldError (structF c n decls) cd kvs)).isEmpty = true
    · simp only [he, if_true]
    · simp only [he, if_false, topErr, extractErrors, Bool.false_eq_true]
  · intro pk hpk
    obtain ⟨fe, hfe, hp⟩ := extractCls_paths _ pk hpk
    exact ⟨fe, hfe, extractErrors_prefix fe.2 fe.1 pk hp⟩

/-- A failing field is one of the class's fields, reported under its python name with the error its own
    decoding produced (or `KeyError(<wire key>)` when a required key is missing). -/
theorem error_entry_is_field (rec : Ty → JsonV → Except SErr Val) (cd : ClassDecl) (kvs : List (Str × JsonV))
    (fe : Str × SErr) (h : fe ∈ cd.fields.filterMap (fieldError rec cd kvs)) :
    ∃ f ∈ cd.fields, fe.1 = f.pyName ∧ fieldOutcome rec cd kvs f = some (.error fe.2) := by
  obtain ⟨f, hf, he⟩ := List.mem_filterMap.mp h
  refine ⟨f, hf, ?_⟩
  unfold fieldError at he
  split at he
  · cases he; exact ⟨rfl, by assumption⟩
  · cases he

/-- Example: two bad fields and a bad list item — all three are named (`a`, `c[]`, `h.z`); the python name `a` is
    used, not the wire key `A`; the list index is not reported. -/
example : structureFromDict Codecs.exec 6
    [("H".toList, H), ("C".toList, { C with fields := C.fields ++ [⟨"h".toList, .dc "H".toList, .none⟩] })]
    (.dc "C".toList)
    (.obj [("A".toList, .str "x".toList), ("when".toList, .str "2020-01-01T00:00:00".toList),
           ("class".toList, .arr [.int 1, .str "y".toList]), ("h".toList, .obj [("z".toList, .str "q".toList)])])
    = .error ⟨true, [("a".toList, .numLiteral), ("c[]".toList, .numLiteral), ("h.z".toList, .numLiteral)]⟩ := by
  decide

/-- ✗ FULL STATEMENT (false): the message names the offending field WITH ITS PATH.
    Witness: `C.d : Optional[H]`, payload `{"A": 1, "when": …, "d": {"z": "q"}}`.  The offending field is `d.z`;
    the message is `d: Could not structure dict into any variant of Optional[H] …` — `Optional` goes through
    `_structure_union`, which flattens the inner `ClassValidationError` to its one-line `str()`.  The same
    payload under a NON-optional field `h : H` reports `h.z`. -/
theorem error_path_through_optional_counterexample :
    structureFromDict Codecs.exec 6 decls (.dc "C".toList)
      (.obj [("A".toList, .int 1), ("when".toList, .str "2020-01-01T00:00:00".toList),
             ("d".toList, .obj [("z".toList, .str "q".toList)])])
      = .error ⟨true, [("d".toList, .unionNoVariant)]⟩ := by
  decide

/-! ## the convenience serialiser -/

/-- Every dict anywhere in the value returned by `DataclassSerializer.serialize` is free of `None` values —
    for every heap (cyclic or not), every root, every registry, every budget. -/
theorem serializer_no_null_keys (c : Codecs) (fuel : Nat) (heap : Heap) (decls : Decls) (reg : List Str) (root : HVal)
    (out : PV) (reg' : List Str) (h : serialize c fuel heap decls reg root = .ok (out, reg')) :
    out.noNullKeys = true :=
  serF_track_noNull c fuel heap decls [] reg root out reg' h

/-- (`None` ITEMS of lists are kept: the guarantee is about keys only.) -/
example : serialize Codecs.exec 5 [(0, .list [.none, .int 1, .ref 1]), (1, .dict [("a".toList, .none)])] [] []
    (.ref 0) = .ok (.arr [.null, .int 1, .obj []], []) := by rfl

/-- `serializer_terminates`: for EVERY heap (cyclic or not), every root, every declaration table and every hook registry
    some budget suffices — the call returns a result or a Python exception other than RecursionError.  (Every container
    the walk enters — by the serializer's own recursion or inside cattrs, behind the cycle guard — is added to the one
    `visited` set and never entered again while it is there; the heap has finitely many objects.) -/
theorem serializer_terminates (c : Codecs) (heap : Heap) (decls : Decls) (root : HVal) :
    ∃ N, ∀ fuel, N ≤ fuel → ∀ reg, serialize c fuel heap decls reg root ≠ .error .fuel :=
  serF_ev_all c heap decls (freeCount heap []) [] (Nat.le_refl _) root

/-- The former first witness against termination (F26, repaired): two instances of `class N: name: str; nxt: Optional[N]`
    referencing each other, the annotation resolved to the class.  cattrs follows `nxt` itself — now behind the guard:
    the back reference from `b` to `a` becomes `None` and is dropped, exactly as for the unresolved annotation below. -/
theorem serializer_terminates_former_witness :
    serialize Codecs.exec 8 cycle2 (nodeDecls true) [] (.ref 0)
      = .ok (.obj [("name".toList, .str "a".toList), ("nxt".toList, .obj [("name".toList, .str "b".toList)])],
             ["N".toList]) := by rfl

/-- A shared, acyclic graph is serialised in full, every occurrence: `[s, s]` with `s = N("s")` (the guard holds the
    objects that are being unstructured, not the ones that have been). -/
example : serialize Codecs.exec 8
    [(0, .list [.ref 1, .ref 1]), (1, .inst "N".toList [("name".toList, .str "s".toList), ("nxt".toList, .none)])]
    (nodeDecls true) [] (.ref 0)
    = .ok (.arr [.obj [("name".toList, .str "s".toList)], .obj [("name".toList, .str "s".toList)]], ["N".toList]) := by rfl

/-- The SAME two objects when the annotation is the unresolved forward reference `Optional["N"]` (what the generator
    emits for self references): cattrs passes `b` through unchanged, `_ensure_all_dicts` serialises it with the
    shared `visited` set, the back reference becomes `None` and is dropped. -/
example : serialize Codecs.exec 8 cycle2 (nodeDecls false) [] (.ref 0)
    = .ok (.obj [("name".toList, .str "a".toList), ("nxt".toList, .obj [("name".toList, .str "b".toList)])],
           ["N".toList]) := by rfl

/-- A list that contains itself is cut as well: `[1, <itself>]` ↦ `[1, None]`. -/
example : serialize Codecs.exec 8 [(0, .list [.int 1, .ref 0])] [] [] (.ref 0) = .ok (.arr [.int 1, .null], []) := by rfl

/-- The former second witness (F26, repaired): a dict that contains itself (`d = {}; d["x"] = d`).  The inner
    occurrence becomes `None`, and `None`-valued entries are dropped.  (A dict nested in a field is cut by the guard
    inside cattrs, a root dict — since the repair of F48 — by the serializer's own tracked recursion.) -/
theorem serializer_dict_cycle_former_witness :
    serialize Codecs.exec 8 dictSelf [] [] (.ref 0) = .ok (.obj [], []) := by rfl

/-- The former third witness (F26, repaired): an instance that references itself through an `Any`-typed field
    (`class A: other: Any`, `a.other = a`). -/
theorem serializer_any_cycle_former_witness :
    serialize Codecs.exec 8 anySelf anyDecls [] (.ref 0) = .ok (.obj [], ["A".toList]) := by rfl

/-- The former first witness against JSON safety (F10, repaired).  `class U: u: UUID` — the converter used to have no
    unstructure hook for `UUID` (C03): the object was passed through and `json.dumps` rejected the result.  With the hook
    the value is written as its canonical string and the result is JSON. -/
theorem serializer_json_safe_former_witness :
    ∃ out reg', serialize Codecs.exec 5
        [(0, .inst "U".toList [("u".toList, .uuid "123e4567-e89b-12d3-a456-426614174000".toList)])]
        [("U".toList, { fields := [⟨"u".toList, .leaf .uuid, .required⟩], loadMap := none, dumpMap := none })] []
        (.ref 0) = .ok (out, reg')
      ∧ out.toJson? = some (.obj [("u".toList, .str "123e4567-e89b-12d3-a456-426614174000".toList)]) :=
  ⟨_, _, rfl, rfl⟩

/-- The former second witness against JSON safety (F48, repaired) — no cycle, no exotic leaf:
    `class Node: name: str; children: List["Node"]` (a self reference as the generator writes it) held by a DICT.  The
    dict used to take the "everything else" branch (cattrs on the whole dict, no `_ensure_all_dicts`) and the children
    stayed live `Node` instances.  Now the value goes through `_serialize_with_tracking` like a list item: the result is
    plain data, and the same as `serialize(node)` gives under the key. -/
theorem serializer_dict_leak_former_witness :
    let Node : ClassDecl := { fields := [⟨"name".toList, .leaf .str, .required⟩,
                                         ⟨"children".toList, .list (.fwd "Node".toList), .list⟩],
                              loadMap := none, dumpMap := none }
    let heap : Heap := [(0, .dict [("k".toList, .ref 1)]),
                        (1, .inst "Node".toList [("name".toList, .str "root".toList), ("children".toList, .ref 2)]),
                        (2, .list [.ref 3]),
                        (3, .inst "Node".toList [("name".toList, .str "kid".toList), ("children".toList, .ref 4)]),
                        (4, .list [])]
    serialize Codecs.exec 6 heap [("Node".toList, Node)] [] (.ref 0)
        = .ok (.obj [("k".toList, .obj [("name".toList, .str "root".toList),
                                        ("children".toList, .arr [.obj [("name".toList, .str "kid".toList),
                                                                        ("children".toList, .arr [])]])])],
               ["Node".toList])
    ∧ (serialize Codecs.exec 6 heap [("Node".toList, Node)] [] (.ref 0)).toOption.map (fun r => r.1.toJson?.isSome) = some true
    ∧ (serialize Codecs.exec 6 heap [("Node".toList, Node)] [] (.ref 0)).toOption.map (fun r => r.1)
        = (serialize Codecs.exec 6 heap [("Node".toList, Node)] [] (.ref 1)).toOption.map
            (fun r => PV.obj [("k".toList, r.1)]) :=
  ⟨rfl, rfl, rfl⟩

/-- The former witness of registry dependence (F48, repaired).  `serialize({"k": R(my_f=1)})` used to give
    `{"k": {"my_f": 1}}` when `R`'s hook had never been registered and `{"k": {"myF": 1}}` afterwards (the dict was
    unstructured without registering anything).  The instance inside the dict now registers its class like any other:
    the wire name in both histories. -/
theorem serializer_registry_dependent_former_witness :
    let R : ClassDecl := { fields := [⟨"my_f".toList, .leaf .int, .required⟩],
                           loadMap := some [("myF".toList, "my_f".toList)], dumpMap := some [("my_f".toList, "myF".toList)] }
    let heap : Heap := [(0, .dict [("k".toList, .ref 1)]), (1, .inst "R".toList [("my_f".toList, .int 1)])]
    serialize Codecs.exec 6 heap [("R".toList, R)] [] (.ref 0)
        = .ok (.obj [("k".toList, .obj [("myF".toList, .int 1)])], ["R".toList])
    ∧ serialize Codecs.exec 6 heap [("R".toList, R)] ["R".toList] (.ref 0)
        = .ok (.obj [("k".toList, .obj [("myF".toList, .int 1)])], ["R".toList]) :=
  ⟨rfl, rfl⟩

end Pog.C16
