import Pog.Drv.Util
import Pog.Drv.Names
import Pog.Drv.Http
import Pog.Drv.Stream
import Pog.Drv.Registry
import Pog.Drv.Ops
import Pog.Drv.Imports
import Pog.Drv.Plan
import Pog.Drv.Surface
import Pog.Drv.Sinks
import Pog.Drv.GenCode
import Pog.Drv.Conv
import Pog.Drv.Parser
import Pog.Drv.Resolve
import Pog.Drv.Extract
import Pog.Drv.Dc
import Pog.Drv.Loader
import Pog.Drv.ClientGen
/-
  Line protocol: one JSON request per line on stdin, one JSON reply per line on stdout.
    request  {"f": <function>, "a": [<args>], "u": {<codepoint>: {"w":bool,"d":bool,"l":str,"U":str,"iu":bool}}}
    reply    <json value>   |   {"error": "..."}
  Strings are JSON strings (Unicode scalar values only; the harness never sends lone surrogates).
  Each model contributes one `Dispatch` in Pog/Drv/<Model>.lean; they are chained here.
-/
open Lean Pog Pog.Drv

def dispatchers : List Dispatch := [
  dispatchNames,
  dispatchHttp,
  dispatchStream,
  dispatchRegistry,
  dispatchOps,
  dispatchImports,
  dispatchPlan,
  dispatchSurface,
  dispatchSinks,
  dispatchGenCode,
  dispatchConv,
  dispatchParser,
  dispatchResolve,
  dispatchExtract,
  dispatchDc,
  dispatchLoader,
  dispatchClientGen
]

def dispatch (f : String) (a : Array Json) (u : UInfo) : Except String Json :=
  if f == "ping" then pure (Json.str "pong") else
  match dispatchers.findSome? (fun d => d f a u) with
  | some r => r
  | none => throw s!"unknown function {f}"

def handle (line : String) : Json :=
  match Json.parse line with
  | .error e => Json.mkObj [("error", Json.str s!"parse: {e}")]
  | .ok req =>
    let f := (req.getObjValAs? String "f").toOption.getD ""
    let a := ((req.getObjVal? "a").toOption.bind (fun j => j.getArr?.toOption)).getD #[]
    let u := mkUInfo (req.getObjVal? "u").toOption
    match dispatch f a u with
    | .ok j => j
    | .error e => Json.mkObj [("error", Json.str e)]

partial def loop (inp out : IO.FS.Stream) : IO Unit := do
  let line ← inp.getLine
  if line.isEmpty then return ()
  out.putStrLn (handle line).compress
  loop inp out

def main : IO Unit := do
  let out ← IO.getStdout
  loop (← IO.getStdin) out
  out.flush
