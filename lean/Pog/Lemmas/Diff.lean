import Pog.Model.Diff
/-
  Lemmas about the C09 model: the order on strings, `sorted(set(..))`, `sorted(.., key=..)`,
  rendering as a function of sets, `_show_diffs`.
-/
namespace Pog.Diff
open Pog

/-! ## `strLt` is a strict total order -/

theorem strLt_nil_right (a : Str) : strLt a [] = false := by cases a <;> rfl

theorem strLt_cons (a : Char) (as : Str) (b : Char) (bs : Str) :
    strLt (a :: as) (b :: bs) = (decide (a < b) || (a == b && strLt as bs)) := rfl

theorem strLt_irrefl (a : Str) : strLt a a = false := by
  induction a with
  | nil => rfl
  | cons x xs ih => simp [strLt_cons, ih]

theorem strLt_trans {a b c : Str} (h₁ : strLt a b = true) (h₂ : strLt b c = true) : strLt a c = true := by
  induction a generalizing b c with
  | nil =>
    cases c with
    | nil => simp [strLt_nil_right] at h₂
    | cons => rfl
  | cons x xs ih =>
    cases b with
    | nil => simp [strLt_nil_right] at h₁
    | cons y ys =>
      cases c with
      | nil => simp [strLt_nil_right] at h₂
      | cons z zs =>
        simp only [strLt_cons, Bool.or_eq_true, decide_eq_true_eq, Bool.and_eq_true, beq_iff_eq] at h₁ h₂ ⊢
        rcases h₁ with h₁ | ⟨rfl, h₁⟩
        · rcases h₂ with h₂ | ⟨rfl, _⟩
          · exact Or.inl (Char.lt_trans h₁ h₂)
          · exact Or.inl h₁
        · rcases h₂ with h₂ | ⟨rfl, h₂⟩
          · exact Or.inl h₂
          · exact Or.inr ⟨rfl, ih h₁ h₂⟩

theorem strLt_asymm {a b : Str} (h : strLt a b = true) : strLt b a = false := by
  cases hb : strLt b a with
  | false => rfl
  | true => have := strLt_trans h hb; simp [strLt_irrefl] at this

theorem strLt_total {a b : Str} (h₁ : strLt a b = false) (h₂ : strLt b a = false) : a = b := by
  induction a generalizing b with
  | nil =>
    cases b with
    | nil => rfl
    | cons => simp [strLt] at h₁
  | cons x xs ih =>
    cases b with
    | nil => simp [strLt] at h₂
    | cons y ys =>
      simp only [strLt_cons, Bool.or_eq_false_iff, decide_eq_false_iff_not, Bool.and_eq_false_imp,
        beq_iff_eq, Char.not_lt] at h₁ h₂
      have hxy : x = y := Char.le_antisymm h₂.1 h₁.1
      subst hxy
      rw [ih (h₁.2 rfl) (h₂.2 rfl)]


/-! ## `sortU` = `sorted(set(..))` depends only on the set of elements -/

theorem mem_insertU {x y : Str} {l : List Str} : y ∈ insertU x l ↔ y = x ∨ y ∈ l := by
  induction l with
  | nil => simp [insertU]
  | cons z zs ih =>
    simp only [insertU]
    split
    · simp
    · split
      · rename_i _ h; subst h; simp
      · simp [ih]; grind

theorem pairwise_insertU {x : Str} {l : List Str} (h : l.Pairwise (fun a b => strLt a b = true)) :
    (insertU x l).Pairwise (fun a b => strLt a b = true) := by
  induction l with
  | nil => simp [insertU]
  | cons z zs ih =>
    simp only [insertU]
    have hz := List.pairwise_cons.mp h
    split
    · rename_i hxz
      refine List.pairwise_cons.mpr ⟨?_, h⟩
      intro a ha
      rcases List.mem_cons.mp ha with rfl | ha
      · exact hxz
      · exact strLt_trans hxz (hz.1 a ha)
    · split
      · exact h
      · rename_i hxz hne
        refine List.pairwise_cons.mpr ⟨?_, ih hz.2⟩
        intro a ha
        rcases mem_insertU.mp ha with rfl | ha
        · cases hzx : strLt z a with
          | true => rfl
          | false => exact absurd (strLt_total (by simpa using hxz) hzx) hne
        · exact hz.1 a ha

theorem mem_sortU {y : Str} {l : List Str} : y ∈ sortU l ↔ y ∈ l := by
  induction l with
  | nil => simp [sortU]
  | cons x xs ih =>
    have : sortU (x :: xs) = insertU x (sortU xs) := rfl
    rw [this, mem_insertU, ih]; simp

theorem pairwise_sortU (l : List Str) : (sortU l).Pairwise (fun a b => strLt a b = true) := by
  induction l with
  | nil => simp [sortU]
  | cons x xs ih => exact pairwise_insertU ih

theorem nodup_of_pairwise_strLt {l : List Str} (h : l.Pairwise (fun a b => strLt a b = true)) : l.Nodup := by
  refine List.Pairwise.imp ?_ h
  intro a b hab heq
  subst heq
  simp [strLt_irrefl] at hab

/-- Two strictly increasing lists with the same elements are equal. -/
theorem eq_of_pairwise_strLt {l₁ l₂ : List Str}
    (h₁ : l₁.Pairwise (fun a b => strLt a b = true)) (h₂ : l₂.Pairwise (fun a b => strLt a b = true))
    (h : ∀ x, x ∈ l₁ ↔ x ∈ l₂) : l₁ = l₂ := by
  have hp : l₁.Perm l₂ :=
    (List.perm_ext_iff_of_nodup (nodup_of_pairwise_strLt h₁) (nodup_of_pairwise_strLt h₂)).mpr h
  refine List.Perm.eq_of_pairwise ?_ h₁ h₂ hp
  intro a b _ _ hab hba
  simp [strLt_asymm hab] at hba

/-- `sorted(set(xs))` is a function of the SET. -/
theorem sortU_congr {xs ys : List Str} (h : ∀ x, x ∈ xs ↔ x ∈ ys) : sortU xs = sortU ys :=
  eq_of_pairwise_strLt (pairwise_sortU xs) (pairwise_sortU ys) (by intro x; simp [mem_sortU, h])

theorem sortU_idem (xs : List Str) : sortU (sortU xs) = sortU xs :=
  sortU_congr (fun _ => mem_sortU)


/-! ## `sortByKey` = `sorted(.., key=..)` (stable) -/

theorem strLe_trans {a b c : Str} (h₁ : strLt b a = false) (h₂ : strLt c b = false) : strLt c a = false := by
  cases hca : strLt c a with
  | false => rfl
  | true =>
    cases hab : strLt a b with
    | true => rw [strLt_trans hca hab] at h₂; exact h₂
    | false =>
      have := strLt_total hab h₁
      subst this
      rw [hca] at h₂; exact h₂

theorem perm_insertByKey {α : Type} (key : α → Str) (x : α) (l : List α) :
    (insertByKey key x l).Perm (x :: l) := by
  induction l with
  | nil => simp [insertByKey]
  | cons y ys ih =>
    simp only [insertByKey]
    split
    · exact (List.Perm.cons y ih).trans (List.Perm.swap x y ys)
    · exact List.Perm.refl _

theorem perm_sortByKey {α : Type} (key : α → Str) (l : List α) : (sortByKey key l).Perm l := by
  induction l with
  | nil => simp [sortByKey]
  | cons x xs ih =>
    have : sortByKey key (x :: xs) = insertByKey key x (sortByKey key xs) := rfl
    rw [this]
    exact (perm_insertByKey key x _).trans (List.Perm.cons x ih)

theorem mem_sortByKey {α : Type} (key : α → Str) (l : List α) (a : α) : a ∈ sortByKey key l ↔ a ∈ l :=
  (perm_sortByKey key l).mem_iff

theorem pairwise_insertByKey {α : Type} (key : α → Str) (x : α) (l : List α)
    (h : l.Pairwise (fun a b => strLt (key b) (key a) = false)) :
    (insertByKey key x l).Pairwise (fun a b => strLt (key b) (key a) = false) := by
  induction l with
  | nil => simp [insertByKey]
  | cons y ys ih =>
    have hy := List.pairwise_cons.mp h
    simp only [insertByKey]
    split
    · rename_i hyx
      refine List.pairwise_cons.mpr ⟨?_, ih hy.2⟩
      intro a ha
      rcases List.mem_cons.mp ((perm_insertByKey key x ys).mem_iff.mp ha) with rfl | ha
      · exact strLt_asymm hyx
      · exact hy.1 a ha
    · rename_i hyx
      have hyx : strLt (key y) (key x) = false := by simpa using hyx
      refine List.pairwise_cons.mpr ⟨?_, h⟩
      intro a ha
      rcases List.mem_cons.mp ha with rfl | ha
      · exact hyx
      · exact strLe_trans hyx (hy.1 a ha)

theorem pairwise_sortByKey {α : Type} (key : α → Str) (l : List α) :
    (sortByKey key l).Pairwise (fun a b => strLt (key b) (key a) = false) := by
  induction l with
  | nil => simp [sortByKey]
  | cons x xs ih => exact pairwise_insertByKey key x _ ih

theorem inj_of_nodup_map {α β : Type} (f : α → β) {l : List α} (hn : (l.map f).Nodup) {a b : α}
    (ha : a ∈ l) (hb : b ∈ l) (h : f a = f b) : a = b := by
  induction l with
  | nil => cases ha
  | cons x xs ih =>
    simp only [List.map_cons, List.nodup_cons, List.mem_map, not_exists, not_and] at hn
    rcases List.mem_cons.mp ha with hax | hax
    · rcases List.mem_cons.mp hb with hbx | hbx
      · rw [hax, hbx]
      · subst hax; exact absurd h.symm (hn.1 b hbx)
    · rcases List.mem_cons.mp hb with hbx | hbx
      · subst hbx; exact absurd h (hn.1 a hax)
      · exact ih hn.2 hax hbx

/-- A stable sort by a key that is injective on the input does not depend on the input order. -/
theorem sortByKey_perm {α : Type} (key : α → Str) {xs ys : List α} (hp : xs.Perm ys)
    (hn : (xs.map key).Nodup) : sortByKey key xs = sortByKey key ys := by
  refine List.Perm.eq_of_pairwise ?_ (pairwise_sortByKey key xs) (pairwise_sortByKey key ys)
    ((perm_sortByKey key xs).trans (hp.trans (perm_sortByKey key ys).symm))
  intro a b ha hb hab hba
  have ha' : a ∈ xs := (mem_sortByKey key xs a).mp ha
  have hb' : b ∈ xs := hp.mem_iff.mpr ((mem_sortByKey key ys b).mp hb)
  exact inj_of_nodup_map key hn ha' hb' (strLt_total hba hab)

/-- `sorted(xs)` of strings does not depend on the input order. -/
theorem pySorted_perm {xs ys : List Str} (hp : xs.Perm ys) : pySorted xs = pySorted ys := by
  refine List.Perm.eq_of_pairwise ?_ (pairwise_sortByKey id xs) (pairwise_sortByKey id ys)
    ((perm_sortByKey id xs).trans (hp.trans (perm_sortByKey id ys).symm))
  intro a b _ _ hab hba
  exact strLt_total hba hab


/-! ## rendering of imports is a function of the collected SETS -/

theorem keysSorted_congr {ps qs : List (Str × Str)} (h : ∀ p, p ∈ ps ↔ p ∈ qs) :
    keysSorted ps = keysSorted qs := by
  refine sortU_congr ?_
  intro x
  simp only [List.mem_map]
  constructor
  · rintro ⟨p, hp, rfl⟩; exact ⟨p, (h p).mp hp, rfl⟩
  · rintro ⟨p, hp, rfl⟩; exact ⟨p, (h p).mpr hp, rfl⟩

theorem namesSorted_congr {ps qs : List (Str × Str)} (h : ∀ p, p ∈ ps ↔ p ∈ qs) :
    namesSorted ps = namesSorted qs := by
  funext m
  refine sortU_congr ?_
  intro x
  simp only [List.mem_map, List.mem_filter]
  constructor
  · rintro ⟨p, ⟨hp, hm⟩, rfl⟩; exact ⟨p, ⟨(h p).mp hp, hm⟩, rfl⟩
  · rintro ⟨p, ⟨hp, hm⟩, rfl⟩; exact ⟨p, ⟨(h p).mpr hp, hm⟩, rfl⟩

theorem standardLine_congr (ctx : ImpCtx) {ps qs : List (Str × Str)} (h : ∀ p, p ∈ ps ↔ p ∈ qs) :
    standardLine ctx ps = standardLine ctx qs := by
  funext m
  simp only [standardLine, namesSorted_congr h]

theorem filterMap_mem_congr {α β : Type} (f : α → Option β) {xs ys : List α} (h : ∀ o, o ∈ xs ↔ o ∈ ys) :
    ∀ p, p ∈ xs.filterMap f ↔ p ∈ ys.filterMap f := by
  intro p
  simp only [List.mem_filterMap]
  constructor
  · rintro ⟨o, ho, hf⟩; exact ⟨o, (h o).mp ho, hf⟩
  · rintro ⟨o, ho, hf⟩; exact ⟨o, (h o).mpr ho, hf⟩

theorem filter_mem_congr {α : Type} (f : α → Bool) {xs ys : List α} (h : ∀ o, o ∈ xs ↔ o ∈ ys) :
    ∀ p, p ∈ xs.filter f ↔ p ∈ ys.filter f := by
  intro p
  simp only [List.mem_filter, h]

theorem importStatementsCore_congr (ctx : ImpCtx) {ps ps' rs rs' : List (Str × Str)} (pl : List Str)
    (hp : ∀ p, p ∈ ps ↔ p ∈ ps') (hr : ∀ p, p ∈ rs ↔ p ∈ rs') :
    importStatementsCore ctx ps rs pl = importStatementsCore ctx ps' rs' pl := by
  have hr' := filter_mem_congr (fun p : Str × Str => !(decide (ctx.current = some p.1))) hr
  simp only [importStatementsCore, keysSorted_congr hp, standardLine_congr ctx hp, keysSorted_congr hr',
    namesSorted_congr hr']

theorem formattedImportsCore_congr (ctx : ImpCtx) {ps ps' rs rs' : List (Str × Str)} (pl : List Str)
    (hp : ∀ p, p ∈ ps ↔ p ∈ ps') (hr : ∀ p, p ∈ rs ↔ p ∈ rs') :
    formattedImportsCore ctx ps rs pl = formattedImportsCore ctx ps' rs' pl := by
  simp only [formattedImportsCore, keysSorted_congr hp, namesSorted_congr hp, keysSorted_congr hr,
    namesSorted_congr hr]

/-- Both renderings depend only on WHICH calls were made, not on their order or multiplicity. -/
theorem importStatements_congr (ctx : ImpCtx) {xs ys : List ImpOp} (h : ∀ o, o ∈ xs ↔ o ∈ ys) :
    importStatements ctx xs = importStatements ctx ys := by
  have hpl : plainSorted xs = plainSorted ys := sortU_congr (filterMap_mem_congr _ h)
  simp only [importStatements, hpl]
  exact importStatementsCore_congr ctx _ (filterMap_mem_congr _ h) (filterMap_mem_congr _ h)

theorem formattedImports_congr (ctx : ImpCtx) {xs ys : List ImpOp} (h : ∀ o, o ∈ xs ↔ o ∈ ys) :
    formattedImports ctx xs = formattedImports ctx ys := by
  have hpl : plainSorted xs = plainSorted ys := sortU_congr (filterMap_mem_congr _ h)
  simp only [formattedImports, hpl]
  exact formattedImportsCore_congr ctx _ (filterMap_mem_congr _ h) (filterMap_mem_congr _ h)


/-! ## `models/__init__.py` -/

/-- the schemas `_generate_init_py_content` considers at all -/
def initCand (s : InitSchema) : Bool := !s.name.isEmpty && !s.genName.isEmpty && !s.stem.isEmpty

theorem initExports_perm {xs ys : List InitSchema} (hp : xs.Perm ys)
    (hn : ((xs.filter initCand).map (·.name)).Nodup) : initExports xs = initExports ys := by
  have h : sortByKey (·.name) (xs.filter initCand) = sortByKey (·.name) (ys.filter initCand) :=
    sortByKey_perm _ (hp.filter _) hn
  unfold initExports
  unfold initCand at h
  simp only [h]

/-! ## `_show_diffs` -/

theorem lookup_some_mem {α : Type} {l : List (List Str × α)} {p : List Str} {c : α}
    (h : l.lookup p = some c) : (p, c) ∈ l := by
  induction l with
  | nil => simp [List.lookup] at h
  | cons e es ih =>
    obtain ⟨q, d⟩ := e
    simp only [List.lookup] at h
    split at h
    · rename_i heq
      have : p = q := by simpa using heq
      subst this
      cases h
      exact List.mem_cons_self
    · exact List.mem_cons_of_mem _ (ih h)

theorem lookup_none_iff {α : Type} {l : List (List Str × α)} {p : List Str} :
    l.lookup p = none ↔ p ∉ l.map (·.1) := by
  induction l with
  | nil => simp [List.lookup]
  | cons e es ih =>
    obtain ⟨q, d⟩ := e
    simp only [List.lookup, List.map_cons, List.mem_cons, not_or]
    split
    · rename_i heq
      have : p = q := by simpa using heq
      simp [this]
    · rename_i hne
      have : p ≠ q := by simpa using hne
      simp [this, ih]

theorem lookup_of_mem_nodup {α : Type} {l : List (List Str × α)} {p : List Str} {c : α}
    (hn : (l.map (·.1)).Nodup) (h : (p, c) ∈ l) : l.lookup p = some c := by
  induction l with
  | nil => cases h
  | cons e es ih =>
    obtain ⟨q, d⟩ := e
    simp only [List.map_cons, List.nodup_cons, List.mem_map, not_exists, not_and] at hn
    simp only [List.lookup]
    rcases List.mem_cons.mp h with heq | hm
    · cases heq
      simp
    · have hne : p ≠ q := by
        intro hpq
        subst hpq
        exact hn.1 (p, c) hm rfl
      have : (p == q) = false := by simpa using hne
      simp only [this]
      exact ih hn.2 hm

/-- EXACT characterisation of `_show_diffs` returning `False`: every `*.py` file of the NEW tree
    that ALSO EXISTS in the old tree has the same `splitlines()`.  Nothing else is looked at. -/
theorem showDiffs_eq_false_iff (old new : Tree) :
    showDiffs old new = false ↔
      ∀ p c, (p, c) ∈ new → isPyFile p = true → ∀ oc, old.lookup p = some oc → pyLines oc = pyLines c := by
  unfold showDiffs
  rw [List.any_eq_false]
  constructor
  · intro h p c hm hpy oc hoc
    have := h (p, c) hm
    simp only [fileDiffers, hpy, hoc, Bool.true_and, bne_iff_ne, ne_eq] at this
    simpa using this
  · intro h e hm
    obtain ⟨p, c⟩ := e
    simp only [fileDiffers, Bool.not_eq_true, Bool.and_eq_false_imp]
    intro hpy
    cases hoc : old.lookup p with
    | none => rfl
    | some oc => simpa using h p c hm hpy oc hoc

/-- For two trees with the same set of paths, all of them `*.py`, `_show_diffs` decides equality
    of the trees modulo `splitlines()`. -/
theorem showDiffs_eq_false_iff_of_same_py (old new : Tree)
    (hnew : (new.map (·.1)).Nodup)
    (hsame : ∀ p, p ∈ old.map (·.1) ↔ p ∈ new.map (·.1))
    (hpy : ∀ p ∈ new.map (·.1), isPyFile p = true) :
    showDiffs old new = false ↔ ∀ p, (old.lookup p).map pyLines = (new.lookup p).map pyLines := by
  rw [showDiffs_eq_false_iff]
  constructor
  · intro h p
    cases hn : new.lookup p with
    | none =>
      have : old.lookup p = none := lookup_none_iff.mpr (fun hm => lookup_none_iff.mp hn ((hsame p).mp hm))
      simp [this]
    | some c =>
      have hm := lookup_some_mem hn
      have hk : p ∈ new.map (·.1) := List.mem_map.mpr ⟨(p, c), hm, rfl⟩
      cases ho : old.lookup p with
      | none => exact absurd ((hsame p).mpr hk) (lookup_none_iff.mp ho)
      | some oc => simp [h p c hm (hpy p hk) oc ho]
  · intro h p c hm _ oc hoc
    have hn := lookup_of_mem_nodup hnew hm
    have := h p
    rw [hoc, hn] at this
    simpa using this


/-! ## path variables appended in `set` iteration order -/

/-- the parameter `_ensure_path_variables_as_params` creates for an undeclared path variable -/
def mkPathVar (v : Str) : ParamInfo := ⟨sanMethod v, true, v⟩

theorem mkPathVar_injective {a b : Str} (h : mkPathVar a = mkPathVar b) : a = b := by
  have := congrArg ParamInfo.originalName h
  exact this

theorem ensurePathVars_fresh (known vars : List Str)
    (h1 : ∀ v ∈ vars, sanMethod v ∉ known) (h2 : (vars.map sanMethod).Nodup) :
    ensurePathVars known vars = vars.map mkPathVar := by
  induction vars generalizing known with
  | nil => rfl
  | cons v vs ih =>
    simp only [List.map_cons, List.nodup_cons, List.mem_map, not_exists, not_and] at h2
    have hv : known.contains (sanMethod v) = false := by
      simpa using h1 v List.mem_cons_self
    simp only [ensurePathVars, hv, List.map_cons, Bool.false_eq_true, if_false]
    rw [ih (sanMethod v :: known)]
    · rfl
    · intro w hw hmem
      rcases List.mem_cons.mp hmem with heq | hmem
      · exact h2.1 w hw heq
      · exact h1 w (List.mem_cons_of_mem _ hw) hmem
    · exact h2.2

theorem finalParams_fresh (declared : List ParamInfo) (vars : List Str)
    (h1 : ∀ v ∈ vars, sanMethod v ∉ declared.map (·.name)) (h2 : (vars.map sanMethod).Nodup) :
    finalParams declared vars =
      (declared.filter (·.required) ++ vars.map mkPathVar) ++ declared.filter (fun p => !p.required) := by
  unfold finalParams
  rw [ensurePathVars_fresh _ _ h1 h2]
  simp only [List.filter_append]
  have ha : (vars.map mkPathVar).filter (·.required) = vars.map mkPathVar := by
    rw [List.filter_eq_self]
    intro p hp
    obtain ⟨v, _, rfl⟩ := List.mem_map.mp hp
    rfl
  have hb : (vars.map mkPathVar).filter (fun p => !p.required) = [] := by
    rw [List.filter_eq_nil_iff]
    intro p hp
    obtain ⟨v, _, rfl⟩ := List.mem_map.mp hp
    simp [mkPathVar]
  rw [ha, hb, List.append_nil]

theorem map_mkPathVar_injective {xs ys : List Str} (h : xs.map mkPathVar = ys.map mkPathVar) : xs = ys := by
  induction xs generalizing ys with
  | nil => cases ys with
    | nil => rfl
    | cons => simp at h
  | cons x xs ih =>
    cases ys with
    | nil => simp at h
    | cons y ys =>
      simp only [List.map_cons, List.cons.injEq] at h
      rw [mkPathVar_injective h.1, ih h.2]

end Pog.Diff
