"""Shared machinery of the request/response/error oracles (C04, C05, C06): from a document derive, per operation,
how to call the generated method, what must go on the wire, and what a conforming server reply looks like."""
from __future__ import annotations

import base64
import json
import random
import re

from .gen import spec as gs

SAFE_PATH_STR = ["abc", "x1", "A-b_c", "v.2", "007", "Zz"]


def impl_names():
    from pyopenapi_gen.core.utils import NameSanitizer
    return NameSanitizer


def ops_of(doc: dict):
    """Yield (path, method, op, path_level_params)."""
    for path, item in (doc.get("paths") or {}).items():
        if not isinstance(item, dict):
            continue
        pl = item.get("parameters", [])
        for m, op in item.items():
            if m in ("get", "put", "post", "delete", "options", "head", "patch", "trace") and isinstance(op, dict):
                yield path, m, op, pl


def locate(op: dict) -> dict:
    """Module / class / method of the generated client for an operation with an explicit operationId.
    Names are obtained from the implementation's own sanitiser (C07/C20 verify those separately)."""
    NS = impl_names()
    tag = (op.get("tags") or ["default"])[0]
    return {"module": NS.sanitize_module_name(tag), "cls": NS.sanitize_class_name(tag) + "Client",
            "method": NS.sanitize_method_name(op["operationId"])}


def locate_all(op: dict) -> list[dict]:
    """One location per DISTINCT tag client the operation is filed under (an operation with several tags is emitted into each of their
    modules, and each rendering is a separate piece of generated code)."""
    NS = impl_names()
    out, seen = [], set()
    for tag in (op.get("tags") or ["default"]):
        mod = NS.sanitize_module_name(tag)
        if mod in seen:
            continue
        seen.add(mod)
        out.append({"module": mod, "cls": NS.sanitize_class_name(tag) + "Client", "method": NS.sanitize_method_name(op["operationId"])})
    return out


def primitive_str(v) -> str:
    """httpx's primitive_value_to_str."""
    if v is True:
        return "true"
    if v is False:
        return "false"
    if v is None:
        return ""
    return str(v)


def gen_param_value(r: random.Random, sch: dict, loc: str):
    """-> (probe-encoded arg, list of expected wire strings)."""
    t = sch.get("type")
    if t == "array":
        n = r.randint(0, 3)
        if (sch.get("items") or {}).get("format") == "date":
            day = r.choice(["2024-03-04", "2024-03-05"])
            vals = [day] * n if r.random() < 0.5 else [r.choice(["2024-03-04", "2024-03-05"]) for _ in range(n)]
            return {"k": "date_list_shared", "v": vals}, vals
        vals = [r.choice(["a", "b c", "d,e", "é"]) for _ in range(n)]
        return {"k": "json", "v": vals}, vals
    if "enum" in sch:
        v = r.choice(sch["enum"])
        return {"k": "json", "v": v}, [str(v)]
    if t == "integer":
        v = r.choice([0, 1, 42, -7, 2**31])
        return {"k": "json", "v": v}, [primitive_str(v)]
    if t == "number":
        v = r.choice([0.5, 1.25, -3.75])
        return {"k": "json", "v": v}, [primitive_str(v)]
    if t == "boolean":
        v = r.random() < 0.5
        return {"k": "json", "v": v}, [primitive_str(v)]
    f = sch.get("format")
    if f == "date-time":
        v = r.choice(["2024-01-31T12:30:45+00:00", "1999-12-31T23:59:59+02:00"])
        return {"k": "datetime", "v": v}, [v]
    if f == "date":
        v = r.choice(["2024-02-29", "1970-01-01"])
        return {"k": "date", "v": v}, [v]
    if loc == "path":
        v = r.choice(SAFE_PATH_STR)
    elif loc == "header":
        v = r.choice(["abc", "x y", "tok-123", "v=1; q", "Zz"])
    elif loc == "cookie":
        # what a Cookie header can carry (RFC 6265 cookie-octets: ASCII without whitespace, quote, comma, semicolon, backslash);
        # httpx cannot encode anything else into the header
        v = r.choice(["abc", "tok-123", "a&b=c", "100%", "", "q?", "Zz"])
    else:
        v = r.choice(["abc", "x y", "a&b=c", "é", "100%", "", "q?"])
    return {"k": "json", "v": v}, [v]


def body_plan(r: random.Random, doc: dict, op: dict):
    """-> None | dict(param, arg, ctype, expect_json | expect_form | expect_bytes | expect_files)."""
    rb = op.get("requestBody")
    if not rb:
        return None
    content = rb.get("content") or {}
    if not content:
        return None
    NS = impl_names()
    mts = list(content)
    # parameter naming precedence of the generator: multipart > json > urlencoded > first
    if "multipart/form-data" in mts:
        mt = "multipart/form-data"
    elif any("json" in m for m in mts):
        mt = next(m for m in mts if "json" in m)
    elif "application/x-www-form-urlencoded" in mts:
        mt = "application/x-www-form-urlencoded"
    else:
        mt = mts[0]
    sch = (content[mt] or {}).get("schema") or {}
    if mt == "multipart/form-data":
        data = bytes(r.randint(0, 255) for _ in range(r.randint(1, 8)))
        return {"param": "files", "ctype": mt, "arg": {"k": "files", "v": {"file": base64.b64encode(data).decode()}},
                "expect_files": {"file": base64.b64encode(data).decode()}, "media_types": mts}
    if "json" in mt:
        inst = gs.gen_instance(r, doc, sch)
        if "$ref" in sch:
            name = sch["$ref"].rsplit("/", 1)[-1]
            rs = gs.resolve(doc, sch)
            if rs.get("type") == "object" or "allOf" in rs or "properties" in rs:
                arg = {"k": "model", "cls": NS.sanitize_class_name(name), "v": inst}
            elif "enum" in rs:
                arg = {"k": "enum", "cls": NS.sanitize_class_name(name), "v": inst}
            else:
                arg = {"k": "json", "v": inst}
        elif sch.get("type") == "array" and "$ref" in (sch.get("items") or {}):
            name = sch["items"]["$ref"].rsplit("/", 1)[-1]
            rs = gs.resolve(doc, sch["items"])
            if rs.get("type") == "object" or "allOf" in rs or "properties" in rs:
                arg = {"k": "model_list", "cls": NS.sanitize_class_name(name), "v": inst}
            elif "enum" in rs:
                arg = {"k": "json", "v": inst}
            else:
                arg = {"k": "json", "v": inst}
        else:
            arg = {"k": "json", "v": inst}
        return {"param": "body", "ctype": "application/json", "arg": arg, "expect_json": inst, "media_types": mts, "schema": sch}
    if mt == "application/x-www-form-urlencoded":
        v = {"a": r.choice(["x", "y z"]), "b": r.choice([1, 2, 30])}
        return {"param": "form_data", "ctype": mt, "arg": {"k": "json", "v": v}, "expect_form": {k: primitive_str(x) for k, x in v.items()}, "media_types": mts}
    data = bytes(r.randint(0, 255) for _ in range(r.randint(0, 12)))
    return {"param": "bytes_content", "ctype": mt, "arg": {"k": "bytes", "v": base64.b64encode(data).decode()},
            "expect_bytes": base64.b64encode(data).decode(), "media_types": mts}


def call_plan(r: random.Random, doc: dict, path: str, method: str, op: dict, path_level: list, supply_optional: float = 0.6) -> dict:
    """One call of one operation: kwargs for the generated method + what must be on the wire."""
    NS = impl_names()
    params = list(path_level) + list(op.get("parameters", []))
    args: dict = {}
    expect = {"method": method.upper(), "path_vars": {}, "query": [], "headers": [], "cookies": [], "absent_query": [], "absent_headers": []}
    for p in params:
        loc, name = p.get("in"), p.get("name")
        ident = NS.sanitize_method_name(name)
        required = bool(p.get("required")) or loc == "path"
        sch = p.get("schema") or {"type": "string"}
        if not required and r.random() > supply_optional:
            if loc == "query":
                expect["absent_query"].append(name)
            elif loc == "header":
                expect["absent_headers"].append(name)
            continue
        arg, wire = gen_param_value(r, sch, loc)
        args[ident] = arg
        if loc == "path":
            expect["path_vars"][name] = wire[0]
        elif loc == "query":
            expect["query"] += [[name, w] for w in wire]
        elif loc == "header":
            expect["headers"] += [[name, w] for w in wire]
        elif loc == "cookie":
            expect["cookies"] += [[name, w] for w in wire]
    bp = body_plan(r, doc, op)
    rb = op.get("requestBody") or {}
    if bp is not None:
        if rb.get("required") or r.random() < 0.85:
            args[bp["param"]] = bp["arg"]
            expect["body"] = {k: v for k, v in bp.items() if k.startswith("expect_") or k in ("ctype", "media_types")}
        else:
            expect["body"] = None
    p = path
    for k, v in expect["path_vars"].items():
        p = p.replace("{" + k + "}", v)
    expect["path"] = p
    loc = locate(op)
    return {"module": loc["module"], "cls": loc["cls"], "method": loc["method"], "args": args, "expect": expect}


def json_equiv(a, b) -> bool:
    """JSON equality up to: a key absent on one side may be null / [] / {} on the other (C03's tolerance);
    ints and floats compare numerically."""
    if isinstance(a, dict) and isinstance(b, dict):
        for k in set(a) | set(b):
            if k in a and k in b:
                if not json_equiv(a[k], b[k]):
                    return False
            else:
                v = a.get(k, b.get(k))
                if v not in (None, [], {}):
                    return False
        return True
    if isinstance(a, list) and isinstance(b, list):
        return len(a) == len(b) and all(json_equiv(x, y) for x, y in zip(a, b))
    if isinstance(a, bool) or isinstance(b, bool):
        return a is b
    if isinstance(a, (int, float)) and isinstance(b, (int, float)):
        return a == b
    if isinstance(a, str) and isinstance(b, str) and a != b:
        return same_instant(a, b)
    return a == b


def same_instant(a: str, b: str) -> bool:
    import datetime
    try:
        da = datetime.datetime.fromisoformat(a.replace("Z", "+00:00"))
        db = datetime.datetime.fromisoformat(b.replace("Z", "+00:00"))
        return da == db and da.utcoffset() == db.utcoffset()
    except ValueError:
        return False


HTTPX_DEFAULT_HEADERS = {"host", "accept", "accept-encoding", "connection", "user-agent", "content-length", "content-type", "transfer-encoding"}


def check_request(expect: dict, reqs: list, base_path: str = "/api") -> list[str]:
    """Compare the captured request(s) with the plan; returns a list of human-readable mismatches."""
    from urllib.parse import unquote
    bad = []
    if len(reqs) != 1:
        return [f"{len(reqs)} HTTP requests were issued (expected exactly 1)"]
    rq = reqs[0]
    if rq["method"] != expect["method"]:
        bad.append(f"method {rq['method']} != {expect['method']}")
    want_path = base_path + expect["path"]
    got_path = unquote(rq["path"].split("?", 1)[0])
    if got_path != want_path:
        bad.append(f"path {got_path!r} != {want_path!r}")
    gq = sorted(map(tuple, rq["query"]))
    wq = sorted(map(tuple, expect["query"]))
    if gq != wq:
        bad.append(f"query {gq} != {wq}")
    # httpx's own default headers are not the caller's - except `accept`, which a declared header parameter may set (httpx's default is */*)
    gh = sorted((k.lower(), v) for k, v in rq["headers"] if (k.lower() not in HTTPX_DEFAULT_HEADERS or (k.lower() == "accept" and v != "*/*")) and k.lower() != "cookie")
    wh = sorted((k.lower(), v) for k, v in expect["headers"])
    if expect.get("default_headers"):
        # the transport's default headers are on every request unless the call itself sets that name (case-insensitively)
        mine = {k for k, _ in wh}
        wh = sorted(wh + [(k.lower(), v) for k, v in expect["default_headers"].items() if k.lower() not in mine])
    if gh != wh:
        bad.append(f"headers {gh} != {wh}")
    cookie = [v for k, v in rq["headers"] if k.lower() == "cookie"]
    got_c = sorted(tuple(x.strip().split("=", 1)) for c in cookie for x in c.split(";") if "=" in x)
    want_c = sorted((k, v) for k, v in expect["cookies"])
    if got_c != want_c:
        bad.append(f"cookies {got_c} != {want_c}")
    ctype = next((v for k, v in rq["headers"] if k.lower() == "content-type"), None)
    content = base64.b64decode(rq.get("content_b64") or "")
    body = expect.get("body")
    if body is None:
        if content not in (b"", b"null"):
            bad.append(f"unexpected body {content[:60]!r}")
    else:
        if "expect_json" in body:
            if not (ctype or "").startswith("application/json"):
                bad.append(f"content-type {ctype!r} for a JSON body")
            try:
                got = json.loads(content.decode("utf-8")) if content else None
            except ValueError:
                got = "<not json>"
            if not json_equiv(got, body["expect_json"]):
                bad.append(f"json body {json.dumps(got)[:200]} != {json.dumps(body['expect_json'])[:200]}")
        elif "expect_form" in body:
            from urllib.parse import parse_qsl
            if not (ctype or "").startswith("application/x-www-form-urlencoded"):
                bad.append(f"content-type {ctype!r} for a form body")
            got = dict(parse_qsl(content.decode("utf-8"), keep_blank_values=True))
            if got != body["expect_form"]:
                bad.append(f"form body {got} != {body['expect_form']}")
        elif "expect_bytes" in body:
            if content != base64.b64decode(body["expect_bytes"]):
                bad.append(f"bytes body {content[:40]!r} != {base64.b64decode(body['expect_bytes'])[:40]!r}")
        elif "expect_files" in body:
            if not (ctype or "").startswith("multipart/form-data"):
                bad.append(f"content-type {ctype!r} for a multipart body")
            for n, v in body["expect_files"].items():
                if base64.b64decode(v) not in content:
                    bad.append(f"multipart body lacks the bytes of part {n}")
    return bad


# ------------------------------------------------------------------------------------------------ replies
def reply_for(r: random.Random, doc: dict, code: str, resp: dict) -> dict:
    """A conforming server reply for one declared response -> (probe reply, expectation)."""
    content = resp.get("content") or {}
    status = int(code)
    if not content:
        return {"reply": {"status": status}, "expect": {"kind": "none"}}
    mt = next(iter(content)) if len(content) == 1 else r.choice(list(content))
    sch = (content[mt] or {}).get("schema") or {}
    if "json" in mt and "ndjson" not in mt:
        inst = gs.gen_instance(r, doc, sch)
        return {"reply": {"status": status, "headers": {"content-type": mt}, "body_b64": base64.b64encode(json.dumps(inst).encode()).decode()},
                "expect": {"kind": "json", "json": inst, "schema": sch}, "media_type": mt}
    if mt.startswith("text/") and mt != "text/event-stream":
        s = r.choice(["hello", "héllo wörld", "line1\nline2", ""])
        return {"reply": {"status": status, "headers": {"content-type": mt + "; charset=utf-8"}, "body_b64": base64.b64encode(s.encode()).decode()},
                "expect": {"kind": "text", "text": s}, "media_type": mt}
    if mt == "text/event-stream":
        items = [gs.gen_instance(r, doc, sch) for _ in range(r.randint(0, 3))]
        raw = "".join("data: " + json.dumps(i) + "\n\n" for i in items)
        if items and r.random() < 0.4:
            raw = raw[:-2] + r.choice(["", "\n"])      # the final event is not terminated by a blank line
        raw = raw.encode()
        chunks = [raw[i:i + 7] for i in range(0, len(raw), 7)] or [b""]
        return {"reply": {"status": status, "headers": {"content-type": mt}, "chunks_b64": [base64.b64encode(c).decode() for c in chunks]},
                "expect": {"kind": "stream_json", "items": items}, "media_type": mt}
    if mt == "application/x-ndjson":
        items = [gs.gen_instance(r, doc, sch) for _ in range(r.randint(0, 3))]
        raw = "".join(json.dumps(i) + "\n" for i in items).encode()
        chunks = [raw[i:i + 5] for i in range(0, len(raw), 5)] or [b""]
        return {"reply": {"status": status, "headers": {"content-type": mt}, "chunks_b64": [base64.b64encode(c).decode() for c in chunks]},
                "expect": {"kind": "stream_json", "items": items}, "media_type": mt}
    data = bytes(r.randint(0, 255) for _ in range(r.randint(0, 20)))
    chunks = [data[i:i + 6] for i in range(0, len(data), 6)] or [b""]
    return {"reply": {"status": status, "headers": {"content-type": mt}, "chunks_b64": [base64.b64encode(c).decode() for c in chunks]},
            "expect": {"kind": "bytes", "bytes_b64": base64.b64encode(data).decode()}, "media_type": mt}


def check_outcome(expect: dict, outcome: dict) -> list[str]:
    bad = []
    k = expect["kind"]
    if outcome.get("kind") == "raised":
        return [f"raised {outcome.get('type')}: {outcome.get('msg', '')[:160]}"]
    if k == "none":
        if outcome.get("kind") != "returned" or outcome.get("type") != "None":
            bad.append(f"expected None, got {outcome.get('type')} {str(outcome.get('json'))[:80]}")
    elif k == "json":
        if outcome.get("kind") != "returned":
            bad.append(f"expected a returned value, got {outcome.get('kind')}")
        elif isinstance(outcome.get("json"), dict) and "__unserialisable__" in outcome["json"]:
            bad.append(f"returned value cannot be re-serialised: {outcome['json']}")
        elif not json_equiv(outcome.get("json"), expect["json"]):
            bad.append(f"returned {outcome.get('type')} re-serialises to {json.dumps(outcome.get('json'))[:200]} != body {json.dumps(expect['json'])[:200]}")
        else:
            t = typed_mismatch(expect, outcome)
            if t:
                bad.append(t)
    elif k == "text":
        if outcome.get("kind") != "returned" or outcome.get("json") != expect["text"]:
            bad.append(f"expected text {expect['text']!r}, got {outcome.get('kind')} {outcome.get('type')} {str(outcome.get('json'))[:80]!r}")
    elif k == "bytes":
        want = base64.b64decode(expect["bytes_b64"])
        if outcome.get("kind") == "stream":
            got = b"".join(base64.b64decode(i["__bytes__"]) for i in outcome["items"] if isinstance(i, dict) and "__bytes__" in i)
            if got != want or any(not (isinstance(i, dict) and "__bytes__" in i) for i in outcome["items"]):
                bad.append(f"streamed bytes {got[:30]!r} != {want[:30]!r}")
        elif outcome.get("kind") == "returned" and isinstance(outcome.get("json"), dict) and "__bytes__" in outcome["json"]:
            if base64.b64decode(outcome["json"]["__bytes__"]) != want:
                bad.append("returned bytes differ from the bytes sent")
        else:
            bad.append(f"expected bytes, got {outcome.get('kind')} {outcome.get('type')}")
    elif k == "stream_once":
        # a 2xx response with content next to a streamed primary response (F35 repaired): the method is an async generator that
        # yields the decoded value as its only item - judged like the value an ordinary method returns
        if outcome.get("kind") != "stream":
            bad.append(f"expected an async iterator, got {outcome.get('kind')} {outcome.get('type')}")
        elif len(outcome["items"]) != 1:
            bad.append(f"expected one streamed item, got {len(outcome['items'])}: {json.dumps(outcome['items'])[:160]}")
        else:
            bad += check_outcome(expect["item"], {"kind": "returned", "type": (outcome.get("types") or ["?"])[0], "json": outcome["items"][0]})
    elif k == "stream_json":
        if outcome.get("kind") != "stream":
            bad.append(f"expected an async iterator, got {outcome.get('kind')} {outcome.get('type')}")
        elif len(outcome["items"]) != len(expect["items"]) or not all(json_equiv(a, b) for a, b in zip(outcome["items"], expect["items"])):
            bad.append(f"streamed items {json.dumps(outcome['items'])[:160]} != {json.dumps(expect['items'])[:160]}")
    return bad


def typed_mismatch(expect: dict, outcome: dict) -> str | None:
    """'a value of the annotated return type': a body described by an object schema must come back as a dataclass
    (not a raw dict), an array of such as a list of dataclasses, date/date-time scalars not as raw strings."""
    sch = expect.get("schema") or {}
    t = outcome.get("type", "")
    if expect.get("json") is None:
        return None          # a null body of a nullable schema comes back as None: nothing to type
    if "$ref" in sch and expect.get("is_object"):
        if not t.startswith("dataclass:"):
            return f"object body returned as {t}, not as a model instance"
    if sch.get("type") == "array" and expect.get("items_object") and expect["json"]:
        if not t.startswith("list[dataclass:"):
            return f"array of objects returned as {t}"
    if sch.get("type") == "array" and expect.get("items_enum") and expect["json"]:
        if not t.startswith("list[enum:"):
            return f"array of a named enum returned as {t}, not as a list of enum members"
    if "$ref" in sch and expect.get("is_enum"):
        if not t.startswith("enum:"):
            return f"named enum body returned as {t}, not as an enum member"
    if sch.get("type") == "string" and sch.get("format") in ("date-time", "date") and t == "str":
        return f"{sch.get('format')} body returned as a raw str"
    return None
