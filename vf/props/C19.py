"""C19 — output depends on the document's meaning, not its rendering.

proof  : Pog.Props.C19 (status-key typing of the operation parser; permutation invariance of the parse on the proved fragment)
oracle : metamorphic, end to end: the same document as JSON, YAML block, YAML flow and YAML with unquoted integer status keys must
         give byte-identical trees; random permutations of components.schemas, paths and object properties must give the same
         manifest (models -> fields with wire key / required / type; clients -> method signatures).
"""
from __future__ import annotations

import json
import random

from .. import e2e, findings
from ..common import Run, rng
from ..gen import spec as gs
from . import _generic as g
from .C07 import to_int_status_keys

PROP = "C19"


def manifest(pr: dict) -> dict:
    sf, md = pr.get("surface", {}), pr.get("models", {})
    man = {"models": {}, "clients": {}}
    for n, c in (md.get("classes") or {}).items():
        if c["kind"] == "dataclass":
            man["models"][n] = sorted((f["wire"], f["required"], f["type"]) for f in c["fields"])
        elif c["kind"] == "enum":
            man["models"][n] = sorted(map(json.dumps, c["members"]))
        else:
            man["models"][n] = c["kind"]
    for n, c in (sf.get("clients") or {}).items():
        man["clients"][n] = {m: (sorted((p["name"], p["ann"], p["has_default"]) for p in s.get("params", [])), s.get("ret"), s.get("kind")) for m, s in c["methods"].items()}
    man["errors"] = [json.dumps(e)[:200] for e in (sf.get("errors") or []) + (md.get("errors") or [])]
    return man


def case_fn(case: dict, d):
    out = {}
    for name, var in case["variants"].items():
        root = d / name / "proj"
        gen = e2e.generate(var["doc"], root, package="pkg.client", fmt=var["fmt"])
        if not gen["ok"]:
            out[name] = {"gen_ok": False, "gen_error": gen["error"]}
            continue
        tree = e2e.tree_hashes(root / "pkg")
        pr = e2e.probe(root, "pkg.client", None, ["surface", "models"])
        out[name] = {"gen_ok": True, "tree": tree, "manifest": manifest(pr) if isinstance(pr, dict) and "surface" in pr else {"probe_error": json.dumps(pr)[:300]}}
    return out


def permute(doc: dict, r: random.Random) -> dict:
    d = json.loads(json.dumps(doc))

    def shuffled(m: dict) -> dict:
        ks = list(m)
        r.shuffle(ks)
        return {k: m[k] for k in ks}

    def walk(s):
        if isinstance(s, dict):
            if isinstance(s.get("properties"), dict):
                s["properties"] = shuffled(s["properties"])
            for v in s.values():
                walk(v)
        elif isinstance(s, list):
            for v in s:
                walk(v)
    walk(d["components"]["schemas"])
    d["components"]["schemas"] = shuffled(d["components"]["schemas"])
    d["paths"] = shuffled(d["paths"])
    return d


def permute_keys(doc: dict, r: random.Random) -> dict:
    """Key order of EVERY mapping of the document is shuffled (YAML/JSON mappings are unordered: an equivalent rendering).
    Sequences (parameters, required, enum, oneOf/anyOf/allOf, tags) keep their order."""
    def walk(s):
        if isinstance(s, dict):
            ks = list(s)
            r.shuffle(ks)
            return {k: walk(s[k]) for k in ks}
        if isinstance(s, list):
            return [walk(v) for v in s]
        return s
    return walk(json.loads(json.dumps(doc)))


def diff_manifest(a: dict, b: dict) -> list[str]:
    out = []
    for sec in ("models", "clients"):
        for k in sorted(set(a[sec]) | set(b[sec])):
            if a[sec].get(k) != b[sec].get(k):
                out.append(f"{sec}.{k}: {json.dumps(a[sec].get(k))[:160]} != {json.dumps(b[sec].get(k))[:160]}")
    return out


def has_prefix_names(doc) -> bool:
    names = [n.lower() for n in doc["components"]["schemas"]]
    return any(a != b and b.startswith(a) for a in names for b in names)


def check(run: Run, ctx) -> None:
    known = findings.Known(run, PROP)
    g.run_corr(run, ctx, "vf.corr.c07", "Ops (status-key typing)", quick=0.3, thorough=3.0)
    from . import _parser
    _parser.run(run, ctx, PROP, known, quick=0.5, thorough=4.0)
    # primary_response_key_order_invariant is about primaryA/primaryB: tie them to the generated code (return annotation, match arms)
    g.run_corr(run, ctx, "vf.corr.gencode", "GenCode (primary response selection, arms)", quick=0.35, thorough=2.0)
    # generate_order_independent (order of `properties` / `required`) is about Pog.Dc: tie it to the real DataclassGenerator
    g.run_corr(run, ctx, "vf.corr.dc", "Dc (DataclassGenerator: sorted properties, field order)", quick=0.2, thorough=2.0)
    g.run_corr(run, ctx, "vf.corr.loader", "Loader (one operation is parsed locally: components as lookup tables vs Pog.Loader)", quick=0.25, thorough=2.5)
    g.run_oracle(run, ctx, g.Informational(known), "vf.corr.loader", "loader oracle on the real parse_operations (status = declared key, stream flag, parameter order)",
                 {"LOADER-STREAM-FORMAT-ORDER": "-hazard", "LOADER-PROMO-NAME-COLLISION": "-hazard", "LOADER-POST-NAME-OVERWRITE": "-hazard"}, quick=0.3, thorough=3.0)
    run.cov["rule"] = (run.cov.get("rule") or "") + ("[metamorphic e2e] per seeded document: renderings {JSON, YAML block, YAML flow, YAML with merge keys (<<: *anchor)} must give byte-identical trees; YAML with integer status keys the "
                       "same manifest; 2 random permutations of schemas/paths/properties and 2 random permutations of the key order of EVERY mapping (path items, responses, content, components.parameters, ...) the same manifest (models->fields, clients->signatures); every third document shares components.parameters through $ref, two thirds declare several 2xx responses with different bodies. Distinct by document; non-trivial when >=2 schemas and >=2 operations")
    cases = []
    for i in range(ctx.budget(14, 120)):
        r = rng(f"C19:{i}")
        o = gs.Opts(mainstream=True, max_ops=4, always_opid=(i % 2 == 0), prefix_names=(i % 7 == 6), streaming=False,
                    component_params=(i % 3 == 1), multi_2xx=(i % 3 != 0), component_responses=(i % 2 == 1), shared_error_codes=(i % 2 == 1))
        doc = gs.gen_spec(r, o)
        variants = {"json": {"doc": doc, "fmt": "json"}, "yaml": {"doc": doc, "fmt": "yaml"}, "yamlflow": {"doc": doc, "fmt": "yaml-flow"}, "yamlmerge": {"doc": doc, "fmt": "yaml-merge"},
                    "yamlint": {"doc": to_int_status_keys(doc), "fmt": "yaml"},
                    "perm1": {"doc": permute(doc, r), "fmt": "json"}, "perm2": {"doc": permute(doc, r), "fmt": "json"},
                    "keys1": {"doc": permute_keys(doc, r), "fmt": "json"}, "keys2": {"doc": permute_keys(doc, r), "fmt": "yaml"}}
        cases.append({"id": f"c19-{i}", "doc": doc, "variants": variants, "prefix_names": has_prefix_names(doc)})
    results = e2e.run_cases("vf.props.C19:case_fn", cases)
    for case, res in zip(cases, results):
        if "infra_error" in res:
            run.infra_errors.append(res["infra_error"])
            continue
        base = res.get("json", {})
        nontrivial = len(case["doc"]["components"]["schemas"]) >= 2 and sum(len([m for m in it if m != "parameters"]) for it in case["doc"]["paths"].values()) >= 2
        run.count({"doc": case["doc"]}, nontrivial=nontrivial, n=len(case["variants"]))
        run.cov["traces_validated_against_impl"] += len(case["variants"])
        if not base.get("gen_ok"):
            run.dist("generation", "rejected")
            continue
        fails = []
        for v in ("yaml", "yamlflow", "yamlmerge"):
            o = res.get(v, {})
            if not o.get("gen_ok"):
                fails.append(("rendering-rejected", f"{v}: {o.get('gen_error')}"))
            elif o["tree"] != base["tree"]:
                diff = [f for f in set(o["tree"]) | set(base["tree"]) if o["tree"].get(f) != base["tree"].get(f)]
                fails.append(("rendering-changes-output", f"{v}: files differ from the JSON rendering: {sorted(diff)[:6]}"))
        o = res.get("yamlint", {})
        if not o.get("gen_ok"):
            fails.append(("int-status-keys", f"yaml with integer status keys rejected: {o.get('gen_error')}"))
        elif o["tree"] != base["tree"]:
            fails.append(("int-status-keys", "yaml with unquoted integer status keys gives a different client than the quoted rendering"))
        for v in ("perm1", "perm2", "keys1", "keys2"):
            o = res.get(v, {})
            if not o.get("gen_ok"):
                fails.append(("permutation-rejected", f"{v}: {o.get('gen_error')}"))
                continue
            dm = diff_manifest(base["manifest"], o["manifest"]) if "models" in base["manifest"] and "models" in o["manifest"] else ["probe failed"]
            if dm:
                fails.append(("permutation-changes-manifest" + ("-prefix-names" if case["prefix_names"] else ""), f"{v}: " + "; ".join(dm[:3])))
        if not fails:
            run.sample({"id": case["id"], "schemas": list(case["doc"]["components"]["schemas"]), "paths": list(case["doc"]["paths"])[:4], "files": len(base["tree"])}, limit=4)
        for cls, msg in fails:
            fid = {"int-status-keys": "F16", "permutation-changes-manifest-prefix-names": "F7"}.get(cls)
            if fid and known.listed(fid):
                known.hit(fid, {"id": case["id"], "msg": msg[:300]})
            elif len(run.violations) < 5:
                run.violation("input", {"doc": case["doc"], "variants": {k: v for k, v in case["variants"].items() if k in msg.split(":")[0] or k == "json"}}, observed=msg,
                              expected="same client for every rendering; same manifest for every permutation", what=f"{cls}: {msg[:300]}")
    known.report_unreplayed()


def search(run: Run, ctx) -> None:
    check(run, ctx)


def replay(run: Run, ctx, rec) -> bool:
    case = rec["case"]
    if "module" in case:
        return g.replay_generic(rec)
    res = e2e.run_cases("vf.props.C19:case_fn", [{"id": "replay", **case}], workers=1)[0]
    base = res.get("json", {})
    if not base.get("gen_ok"):
        return False
    for k, o in res.items():
        if k == "json" or not o.get("gen_ok"):
            continue
        if k.startswith("perm") or k.startswith("keys"):
            if diff_manifest(base["manifest"], o["manifest"]):
                return True
        elif o["tree"] != base["tree"]:
            return True
    return False
