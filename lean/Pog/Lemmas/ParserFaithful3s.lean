import Pog.Lemmas.ParserFaithful3a
/-
  Lemmas about M-parser, part 6s: the denotation `shape` on the fragment is stable (`ShapeIs`): objects, leaves,
  `$ref` members and `allOf`.
-/
namespace Pog.Prs
open Pog Pog.Trk

theorem muVis_cons_notin (decls : Decls) (t : Str) (vis : List Str) (h : t ∉ decls.map (·.1)) :
    muVis decls (t :: vis) = muVis decls vis := by
  unfold muVis
  congr 2
  apply List.filter_congr
  intro d hd
  have hne : d.1 ≠ t := fun e => h (e ▸ List.mem_map.mpr ⟨d, hd, rfl⟩)
  simp [hne]

theorem muVis_cons (decls : Decls) (hn : (decls.map (·.1)).Nodup) (t : Str) (ndt : Node) (hmem : (t, ndt) ∈ decls)
    (vis : List Str) (ht : t ∉ vis) : muVis decls vis = muVis decls (t :: vis) + (ndt.size + 1) := by
  induction decls with
  | nil => cases hmem
  | cons d rest ih =>
    simp only [List.map_cons, List.nodup_cons] at hn
    by_cases e : d.1 = t
    · have hd : d = (t, ndt) := by
        rcases List.mem_cons.mp hmem with h | h
        · exact h.symm
        · exact absurd (List.mem_map.mpr ⟨(t, ndt), h, rfl⟩) (e ▸ hn.1)
      subst hd
      have h1 : muVis ((t, ndt) :: rest) vis = (ndt.size + 1) + muVis rest vis := by
        unfold muVis
        simp [ht]
      have h2 : muVis ((t, ndt) :: rest) (t :: vis) = muVis rest (t :: vis) := by
        unfold muVis
        simp
      rw [h1, h2, muVis_cons_notin rest t vis hn.1]
      omega
    · have hmem' : (t, ndt) ∈ rest := by
        rcases List.mem_cons.mp hmem with h | h
        · exact absurd (by rw [← h]) e
        · exact h
      have := ih hn.2 hmem'
      have hc : (t :: vis).contains d.1 = vis.contains d.1 := by simp [e]
      unfold muVis at this ⊢
      simp only [List.filter_cons, hc]
      cases vis.contains d.1 with
      | true => simpa using this
      | false =>
        simp only [Bool.not_false, if_true, List.map_cons, List.sum_cons]
        omega

def toK (kv : Str × Node) : Str × Kind := (kv.1, nodeKind kv.2)

/-- an object node -/
theorem shapeIs_obj (decls : Decls) (rank : Str → Nat) (m : Str) (ps : List (Str × Node)) (req : List Str)
    (ap : Option Node) (hnd : (ps.map (·.1)).Nodup) :
    ShapeIs decls rank m (.obj (some ps) req ap) (ps.map toK) req := by
  intro f vis _ _ hf
  obtain ⟨f, rfl⟩ : ∃ f', f = f' + 1 := ⟨f - 1, by omega⟩
  simp only [shape, Node.core]
  rw [mergeKeyed_append _ [] (by simpa [List.map_map, Function.comp_def] using hnd) (by simp)]
  simp [toK]

/-- a node without fields -/
theorem shapeIs_arr (decls : Decls) (rank : Str → Nat) (m : Str) (i : Node) : ShapeIs decls rank m (.arr i) [] [] := by
  intro f vis _ _ hf
  obtain ⟨f, rfl⟩ : ∃ f', f = f' + 1 := ⟨f - 1, by omega⟩
  simp [shape, Node.core]

theorem shapeIs_prim (decls : Decls) (rank : Str → Nat) (m : Str) (ty : PrimTy) (e : Bool) :
    ShapeIs decls rank m (.prim ty e) [] [] := by
  intro f vis _ _ hf
  obtain ⟨f, rfl⟩ : ∃ f', f = f' + 1 := ⟨f - 1, by omega⟩
  simp [shape, Node.core]

/-- a `$ref` member of an `allOf` -/
theorem shapeIs_ref (decls : Decls) (rank : Str → Nat) (hn : (decls.map (·.1)).Nodup) (m t : Str) (ndt : Node)
    (F : List (Str × Kind)) (R : List Str) (hget : dGet t decls = some ndt) (hno : t.contains '/' = false)
    (hrank : rank t < rank m) (h : ShapeIs decls rank t ndt F R) : ShapeIs decls rank m (.ref t) F R := by
  intro f vis hm hv hf
  obtain ⟨f, rfl⟩ : ∃ f', f = f' + 1 := ⟨f - 1, by omega⟩
  have htv : t ∉ vis := fun hin => by have := hv t hin; omega
  have hc : vis.contains t = false := by
    cases hc : vis.contains t with
    | false => rfl
    | true => exact absurd (List.contains_iff_mem.mp hc) htv
  simp only [shape, Node.core, lastSeg_of_no_slash t hno, hc, Bool.false_eq_true, if_false, hget]
  have hmu := muVis_cons decls hn t ndt (mem_of_dGet decls t ndt hget) vis htv
  refine h f (t :: vis) (List.mem_cons_self ..) ?_ ?_
  · intro v hvm
    rcases List.mem_cons.mp hvm with e | e
    · rw [e]; exact Nat.le_refl _
    · have := hv v e; omega
  · simp only [Node.size] at hf
    omega

theorem size_le_sum (parts : List Node) (p : Node) (h : p ∈ parts) : p.size ≤ (parts.map Node.size).sum := by
  induction parts with
  | nil => cases h
  | cons a l ih =>
    simp only [List.map_cons, List.sum_cons]
    rcases List.mem_cons.mp h with e | e
    · rw [e]; omega
    · have := ih e; omega

/-- the merged fields / required names of an `allOf` whose members have the shapes `FRs` -/
def mergedF (FRs : List (List (Str × Kind) × List Str)) : List (Str × Kind) :=
  FRs.foldl (fun acc r => mergeKeyed acc r.1) []
def mergedR (req : List Str) (FRs : List (List (Str × Kind) × List Str)) : List Str :=
  FRs.foldl (fun acc r => unionInto acc r.2) (dedup req)

theorem shapeIs_allOf (decls : Decls) (rank : Str → Nat) (m : Str) (parts : List Node) (req : List Str)
    (FRs : List (List (Str × Kind) × List Str))
    (h : All2 (fun part fr => ShapeIs decls rank m part fr.1 fr.2) parts FRs) :
    ShapeIs decls rank m (.allOf parts [] req) (mergedF FRs) (mergedR req FRs) := by
  intro f vis hm hv hf
  obtain ⟨f, rfl⟩ : ∃ f', f = f' + 1 := ⟨f - 1, by omega⟩
  have hsub : parts.map (shape decls f vis) = FRs := by
    have hsz : ∀ p ∈ parts, muVis decls vis + p.size < f := by
      intro p hp
      have := size_le_sum parts p hp
      simp only [Node.size] at hf
      omega
    clear hf
    induction h with
    | nil => rfl
    | @cons a b l l' hab _ ih =>
      simp only [List.map_cons]
      rw [hab f vis hm hv (hsz a (List.mem_cons_self ..)), ih (fun p hp => hsz p (List.mem_cons_of_mem _ hp))]
  simp only [shape, Node.core, hsub]
  simp [mergedF, mergedR, mergeKeyed]
