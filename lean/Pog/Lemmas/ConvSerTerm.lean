import Pog.Lemmas.ConvSer
import Pog.Lemmas.ConvRound
/-
  C16 `serializer_terminates`: on EVERY heap — cyclic or not — both cattrs behind the cycle guard (`hUnstr`) and
  `DataclassSerializer.serialize` (`serF`) finish within some budget, for every registry.
  The measure is the number of heap objects that are not in the guard set (`freeCount`): every container the walk
  enters is added to the set, and an object of the set is never entered again.
  Everything is phrased with `Eventually P` = "∃ N, ∀ fuel ≥ N, ∀ reg, P fuel reg", so that no explicit bound is needed.
-/
namespace Pog

/-- "for every large enough budget, whatever the registry". -/
def Eventually (P : Nat → List Str → Prop) : Prop := ∃ N, ∀ fuel, N ≤ fuel → ∀ reg, P fuel reg

theorem eventually_forall_mem {α : Type} (xs : List α) (P : α → Nat → List Str → Prop)
    (h : ∀ x ∈ xs, Eventually (P x)) : Eventually (fun fuel reg => ∀ x ∈ xs, P x fuel reg) := by
  induction xs with
  | nil => exact ⟨0, fun _ _ _ x hx => by cases hx⟩
  | cons x xs ih =>
    obtain ⟨N1, h1⟩ := h x (by simp)
    obtain ⟨N2, h2⟩ := ih (fun y hy => h y (by simp [hy]))
    refine ⟨max N1 N2, fun fuel hf reg y hy => ?_⟩
    rcases List.mem_cons.mp hy with e | hm
    · subst e; exact h1 fuel (by omega) reg
    · exact h2 fuel (by omega) reg y hm

theorem mapE_ne_fuel {α β : Type} (f : α → Except UErr β) (xs : List α) (h : ∀ x ∈ xs, f x ≠ .error .fuel) :
    mapE f xs ≠ .error .fuel := by
  induction xs with
  | nil => simp [mapE]
  | cons x xs ih =>
    have hx := h x (by simp)
    have ih' := ih (fun y hy => h y (by simp [hy]))
    simp only [mapE]
    cases hfx : f x with
    | error e => simp only [ne_eq, Except.error.injEq]; intro he; exact hx (by rw [hfx, he])
    | ok y =>
      cases hm : mapE f xs with
      | error e => simp only [ne_eq, Except.error.injEq]; intro he; exact ih' (by rw [hm, he])
      | ok ys => simp

theorem mapValsE_ne_fuel {α β : Type} (f : α → Except UErr β) (kvs : List (Str × α))
    (h : ∀ kv ∈ kvs, f kv.2 ≠ .error .fuel) : mapValsE f kvs ≠ .error .fuel := by
  induction kvs with
  | nil => simp [mapValsE]
  | cons kv rest ih =>
    obtain ⟨k, x⟩ := kv
    have hx := h (k, x) (by simp)
    have ih' := ih (fun y hy => h y (by simp [hy]))
    simp only [mapValsE]
    cases hfx : f x with
    | error e => simp only [ne_eq, Except.error.injEq]; intro he; exact hx (by simp [hfx, he])
    | ok y =>
      cases hm : mapValsE f rest with
      | error e => simp only [ne_eq, Except.error.injEq]; intro he; exact ih' (by rw [hm, he])
      | ok ys => simp

theorem hUnstrFields_ne_fuel (rec : Ty → HVal → Except UErr PV) (cd : ClassDecl) (useDump : Bool)
    (attrs : List (Str × HVal)) (fs : List Field)
    (h : ∀ f ∈ fs, ∀ v, aget attrs f.pyName = some v → rec f.ty v ≠ .error .fuel) :
    hUnstrFields rec cd useDump attrs fs ≠ .error .fuel := by
  induction fs with
  | nil => simp [hUnstrFields]
  | cons f fs ih =>
    have ih' := ih (fun g hg => h g (by simp [hg]))
    cases ha : aget attrs f.pyName with
    | none => simp [hUnstrFields, ha]
    | some v =>
      have hv := h f (by simp) v ha
      cases hr : rec f.ty v with
      | error e =>
        simp only [hUnstrFields, ha, hr, ne_eq, Except.error.injEq]
        intro he; exact hv (by rw [hr, he])
      | ok j =>
        cases hm : hUnstrFields rec cd useDump attrs fs with
        | error e =>
          simp only [hUnstrFields, ha, hr, hm, ne_eq, Except.error.injEq]
          intro he; exact ih' (by rw [hm, he])
        | ok rest => simp [hUnstrFields, ha, hr, hm]

theorem exceptMap_ne_fuel {α β : Type} (f : α → β) (r : Except UErr α) (h : r ≠ .error .fuel) :
    r.map f ≠ .error .fuel := by
  cases r with
  | error e => simp only [Except.map, ne_eq, Except.error.injEq]; intro he; exact h (by rw [he])
  | ok x => simp [Except.map]

theorem hIdentity_ne_fuel (heap : Heap) (v : HVal) : hIdentity heap v ≠ .error .fuel := by
  unfold hIdentity
  split
  · split <;> simp
  · split <;> simp

theorem hUnstrIso_ne_fuel (c : Codecs) (v : HVal) : hUnstrIso c v ≠ .error .fuel := by
  unfold hUnstrIso
  split <;> simp

theorem hUnstrLeaf_ne_fuel (c : Codecs) (heap : Heap) (l : Leaf) (v : HVal) : hUnstrLeaf c heap l v ≠ .error .fuel := by
  unfold hUnstrLeaf
  split
  · exact hIdentity_ne_fuel heap v
  · split
    · split <;> simp
    · exact hUnstrIso_ne_fuel c v
    · exact hUnstrIso_ne_fuel c v
    · exact hUnstrIso_ne_fuel c v
    · split <;> simp
    · exact hIdentity_ne_fuel heap v

end Pog

namespace Pog

/-! ## the measure: heap objects outside the guard set -/

/-- The number of objects of the heap whose id is not in `visited`. -/
def freeCount (heap : Heap) (visited : List Nat) : Nat :=
  ((heap.map Prod.fst).filter (fun i => !visited.contains i)).length

theorem filter_length_le {α : Type} (p q : α → Bool) (hqp : ∀ x, q x = true → p x = true) (l : List α) :
    (l.filter q).length ≤ (l.filter p).length := by
  induction l with
  | nil => simp
  | cons x xs ih =>
    simp only [List.filter_cons]
    cases hq : q x with
    | true => simp only [hqp x hq, if_true, List.length_cons]; omega
    | false =>
      cases hp : p x with
      | true => simp only [if_true, Bool.false_eq_true, if_false, List.length_cons]; omega
      | false => simpa using ih

theorem filter_length_lt {α : Type} (p q : α → Bool) (hqp : ∀ x, q x = true → p x = true) (l : List α)
    (a : α) (ha : a ∈ l) (hpa : p a = true) (hqa : q a = false) :
    (l.filter q).length < (l.filter p).length := by
  induction l with
  | nil => cases ha
  | cons x xs ih =>
    simp only [List.filter_cons]
    rcases List.mem_cons.mp ha with e | hm
    · subst e
      have := filter_length_le p q hqp xs
      simp only [hpa, hqa, if_true, Bool.false_eq_true, if_false, List.length_cons]; omega
    · have := ih hm
      cases hq : q x with
      | true => simp only [hqp x hq, if_true, List.length_cons]; omega
      | false =>
        cases hp : p x with
        | true => simp only [if_true, Bool.false_eq_true, if_false, List.length_cons]; omega
        | false => simpa using this

theorem heap_get_mem (heap : Heap) (id : Nat) (o : HObj) (h : heap.get id = some o) : id ∈ heap.map Prod.fst := by
  induction heap with
  | nil => simp [Heap.get] at h
  | cons e rest ih =>
    obtain ⟨i, o'⟩ := e
    simp only [Heap.get] at h
    by_cases hi : i = id
    · simp [hi]
    · simp only [hi, if_false] at h
      simp [ih h]

/-- Entering an object that exists and is not in the guard set strictly decreases the measure. -/
theorem freeCount_lt (heap : Heap) (visited : List Nat) (id : Nat) (o : HObj) (hg : heap.get id = some o)
    (hv : visited.contains id = false) : freeCount heap (id :: visited) < freeCount heap visited := by
  unfold freeCount
  apply filter_length_lt _ _ _ _ id (heap_get_mem heap id o hg)
  · simp only [hv, Bool.not_false]
  · simp
  · intro x hx
    simp only [List.contains_cons, Bool.not_eq_true', Bool.or_eq_false_iff] at hx
    simp only [hx.2, Bool.not_false]

end Pog

namespace Pog

/-- "cattrs, with the guard set `visited`, terminates on `x` for every large enough budget". -/
def UnstrEv (c : Codecs) (heap : Heap) (decls : Decls) (visited : List Nat) (t : Option Ty) (x : HVal) : Prop :=
  Eventually (fun fuel reg => hUnstr c fuel heap visited reg decls t x ≠ .error .fuel)

/-- What the induction on the measure provides about the values an object outside the guard set holds. -/
def KidsEv (c : Codecs) (heap : Heap) (decls : Decls) (visited : List Nat) : Prop :=
  ∀ id o, heap.get id = some o → visited.contains id = false →
    ∀ x ∈ o.children, ∀ t, UnstrEv c heap decls (id :: visited) t x

theorem hAttrs_children (heap : Heap) (v : HVal) (name : Str) (x : HVal) (h : aget (hAttrs heap v) name = some x) :
    ∃ id o, v = .ref id ∧ heap.get id = some o ∧ x ∈ o.children := by
  cases v with
  | ref id =>
    simp only [hAttrs] at h
    cases hg : heap.get id with
    | none => simp [hg, aget] at h
    | some o =>
      cases o with
      | inst cls attrs =>
        simp only [hg] at h
        exact ⟨id, _, rfl, hg, by simp only [HObj.children]; exact List.mem_map_of_mem (f := Prod.snd) (aget_mem _ _ _ h)⟩
      | list _ => simp [hg, aget] at h
      | dict _ => simp [hg, aget] at h
  | _ => simp [hAttrs, aget] at h

theorem eventually_one (P : Nat → List Str → Prop) (h : ∀ n reg, P (n + 1) reg) : Eventually P :=
  ⟨1, fun fuel hf reg => by obtain ⟨n, rfl⟩ : ∃ n, fuel = n + 1 := ⟨fuel - 1, by omega⟩; exact h n reg⟩

theorem eventually_succ (P Q : Nat → List Str → Prop) (hQ : Eventually Q) (h : ∀ n reg, Q n reg → P (n + 1) reg) :
    Eventually P := by
  obtain ⟨N, hN⟩ := hQ
  exact ⟨N + 1, fun fuel hf reg => by
    obtain ⟨n, rfl⟩ : ∃ n, fuel = n + 1 := ⟨fuel - 1, by omega⟩
    exact h n reg (hN n (by omega) reg)⟩

theorem guardEnter_some (visited visited' : List Nat) (v : HVal) (h : guardEnter visited v = some visited') :
    (∃ id, v = .ref id ∧ visited.contains id = false ∧ visited' = id :: visited) ∨ ((∀ id, v ≠ .ref id) ∧ visited' = visited) := by
  cases v with
  | ref id =>
    simp only [guardEnter] at h
    by_cases hc : visited.contains id = true
    · rw [if_pos hc] at h; cases h
    · rw [if_neg hc] at h
      cases h
      exact Or.inl ⟨id, rfl, by simpa using hc, rfl⟩
  | _ => simp only [guardEnter, Option.some.injEq] at h; exact Or.inr ⟨fun id => by simp, h.symm⟩

/-- A field-by-field dataclass unstructure (behind the guard) terminates when the attribute values do. -/
theorem unstr_dc_ev (c : Codecs) (heap : Heap) (decls : Decls) (visited : List Nat) (hk : KidsEv c heap decls visited)
    (v : HVal) (name : Str) : UnstrEv c heap decls visited (some (.dc name)) v := by
  cases hcd : aget decls name with
  | none => exact eventually_one _ (fun n reg => by simp [hUnstr, hcd])
  | some cd =>
    cases hge : guardEnter visited v with
    | none => exact eventually_one _ (fun n reg => by simp [hUnstr, hcd, hge])
    | some visited' =>
      -- a uniform budget for the attribute values that exist
      have hfields : ∀ f ∈ cd.fields, Eventually (fun fuel reg =>
          ∀ x, aget (hAttrs heap v) f.pyName = some x →
            hUnstr c fuel heap visited' reg decls (some f.ty) x ≠ .error .fuel) := by
        intro f _
        cases ha : aget (hAttrs heap v) f.pyName with
        | none => exact ⟨0, fun _ _ _ x hx => by cases hx⟩
        | some x =>
          obtain ⟨id, o, hv, hg, hx⟩ := hAttrs_children heap v f.pyName x ha
          rcases guardEnter_some visited visited' v hge with ⟨id', hv', hvis, hvs⟩ | ⟨hne, _⟩
          · rw [hv] at hv'; cases hv'
            subst hvs
            obtain ⟨N, hN⟩ := hk id o hg hvis x hx (some f.ty)
            exact ⟨N, fun fuel hf reg y hy => by cases hy; exact hN fuel hf reg⟩
          · exact absurd hv (hne id)
      obtain ⟨N, hN⟩ := eventually_forall_mem cd.fields _ hfields
      refine ⟨N + 1, fun fuel hf reg => ?_⟩
      obtain ⟨n, rfl⟩ : ∃ n, fuel = n + 1 := ⟨fuel - 1, by omega⟩
      simp only [hUnstr, hcd, hge]
      apply exceptMap_ne_fuel
      apply hUnstrFields_ne_fuel
      intro f hf x hx
      exact hN n (by omega) reg f hf x hx

/-- Runtime-class dispatch. -/
theorem unstr_dyn_ev (c : Codecs) (heap : Heap) (decls : Decls) (visited : List Nat) (hk : KidsEv c heap decls visited)
    (v : HVal) : UnstrEv c heap decls visited none v := by
  cases v with
  | ref id =>
    cases hg : heap.get id with
    | none => exact eventually_one _ (fun n reg => by simp [hUnstr, hg])
    | some o =>
      cases o with
      | list items =>
        by_cases hvis' : visited.contains id = true
        · exact eventually_one _ (fun n reg => by simp only [hUnstr, hg, hvis', if_true]; simp)
        · have hvis : visited.contains id = false := by simpa using hvis'
          obtain ⟨N, hN⟩ := eventually_forall_mem items _
            (fun x hx => hk id _ hg hvis x (by simpa [HObj.children] using hx) none)
          refine ⟨N + 1, fun fuel hf reg => ?_⟩
          obtain ⟨n, rfl⟩ : ∃ n, fuel = n + 1 := ⟨fuel - 1, by omega⟩
          simp only [hUnstr, hg, hvis, Bool.false_eq_true, if_false]
          exact exceptMap_ne_fuel _ _ (mapE_ne_fuel _ _ (fun x hx => hN n (by omega) reg x hx))
      | dict kvs =>
        by_cases hvis' : visited.contains id = true
        · exact eventually_one _ (fun n reg => by simp only [hUnstr, hg, hvis', if_true]; simp)
        · have hvis : visited.contains id = false := by simpa using hvis'
          obtain ⟨N, hN⟩ := eventually_forall_mem kvs
            (fun kv fuel reg => hUnstr c fuel heap (id :: visited) reg decls none kv.2 ≠ .error .fuel)
            (fun kv hkv => hk id _ hg hvis kv.2
              (by simp only [HObj.children]; exact List.mem_map_of_mem (f := Prod.snd) hkv) none)
          refine ⟨N + 1, fun fuel hf reg => ?_⟩
          obtain ⟨n, rfl⟩ : ∃ n, fuel = n + 1 := ⟨fuel - 1, by omega⟩
          simp only [hUnstr, hg, hvis, Bool.false_eq_true, if_false]
          exact exceptMap_ne_fuel _ _ (mapValsE_ne_fuel _ _ (fun kv hkv => hN n (by omega) reg kv hkv))
      | inst cls attrs =>
        exact eventually_succ _ _ (unstr_dc_ev c heap decls visited hk (.ref id) cls)
          (fun n reg h => by simp only [hUnstr, hg]; exact h)
  | _ => exact eventually_one _ (fun n reg => by simp [hUnstr])

/-- Unstructuring by a declared type (`Optional` unwraps the type and keeps the value: recursion on the type). -/
theorem unstr_static_ev (c : Codecs) (heap : Heap) (decls : Decls) (visited : List Nat)
    (hk : KidsEv c heap decls visited) (v : HVal) : ∀ t : Ty, UnstrEv c heap decls visited (some t) v
  | .leaf l => eventually_one _ (fun n reg => by simp only [hUnstr]; exact hUnstrLeaf_ne_fuel c heap l v)
  | .none => eventually_one _ (fun n reg => by simp only [hUnstr]; exact hIdentity_ne_fuel heap v)
  | .fwd _ => eventually_one _ (fun n reg => by simp only [hUnstr]; exact hIdentity_ne_fuel heap v)
  | .any => eventually_succ _ _ (unstr_dyn_ev c heap decls visited hk v) (fun n reg h => by simp only [hUnstr]; exact h)
  | .union _ _ =>
    eventually_succ _ _ (unstr_dyn_ev c heap decls visited hk v) (fun n reg h => by simp only [hUnstr]; exact h)
  | .dc name => unstr_dc_ev c heap decls visited hk v name
  | .enum _ members => eventually_one _ (fun n reg => by
      simp only [hUnstr]
      split
      · exact hIdentity_ne_fuel heap v
      · split <;> simp)
  | .optional t' => by
    have ih := unstr_static_ev c heap decls visited hk v t'
    by_cases hn : v = .none
    · subst hn; exact eventually_one _ (fun n reg => by simp [hUnstr])
    · refine eventually_succ _ _ ih (fun n reg h => ?_)
      cases v <;> first | exact absurd rfl hn | (simp only [hUnstr]; exact h)
  | .list t' => by
    cases v with
    | ref id =>
      by_cases hvis' : visited.contains id = true
      · exact eventually_one _ (fun n reg => by simp only [hUnstr, hvis', if_true]; simp)
      · have hvis : visited.contains id = false := by simpa using hvis'
        cases hg : heap.get id with
        | none => exact eventually_one _ (fun n reg => by simp only [hUnstr, hg, hvis, Bool.false_eq_true, if_false]; simp)
        | some o =>
          cases o with
          | list items =>
            obtain ⟨N, hN⟩ := eventually_forall_mem items _
              (fun x hx => hk id _ hg hvis x (by simpa [HObj.children] using hx) (some t'))
            refine ⟨N + 1, fun fuel hf reg => ?_⟩
            obtain ⟨n, rfl⟩ : ∃ n, fuel = n + 1 := ⟨fuel - 1, by omega⟩
            simp only [hUnstr, hg, hvis, Bool.false_eq_true, if_false]
            exact exceptMap_ne_fuel _ _ (mapE_ne_fuel _ _ (fun x hx => hN n (by omega) reg x hx))
          | dict _ => exact eventually_one _ (fun n reg => by simp only [hUnstr, hg, hvis, Bool.false_eq_true, if_false]; simp)
          | inst _ _ => exact eventually_one _ (fun n reg => by simp only [hUnstr, hg, hvis, Bool.false_eq_true, if_false]; simp)
    | _ => exact eventually_one _ (fun n reg => by simp [hUnstr])
  | .dict t' => by
    cases v with
    | ref id =>
      by_cases hvis' : visited.contains id = true
      · exact eventually_one _ (fun n reg => by simp only [hUnstr, hvis', if_true]; simp)
      · have hvis : visited.contains id = false := by simpa using hvis'
        cases hg : heap.get id with
        | none => exact eventually_one _ (fun n reg => by simp only [hUnstr, hg, hvis, Bool.false_eq_true, if_false]; simp)
        | some o =>
          cases o with
          | dict kvs =>
            obtain ⟨N, hN⟩ := eventually_forall_mem kvs
              (fun kv fuel reg => hUnstr c fuel heap (id :: visited) reg decls (some t') kv.2 ≠ .error .fuel)
              (fun kv hkv => hk id _ hg hvis kv.2
                (by simp only [HObj.children]; exact List.mem_map_of_mem (f := Prod.snd) hkv) (some t'))
            refine ⟨N + 1, fun fuel hf reg => ?_⟩
            obtain ⟨n, rfl⟩ : ∃ n, fuel = n + 1 := ⟨fuel - 1, by omega⟩
            simp only [hUnstr, hg, hvis, Bool.false_eq_true, if_false]
            exact exceptMap_ne_fuel _ _ (mapValsE_ne_fuel _ _ (fun kv hkv => hN n (by omega) reg kv hkv))
          | list _ => exact eventually_one _ (fun n reg => by simp only [hUnstr, hg, hvis, Bool.false_eq_true, if_false]; simp)
          | inst _ _ => exact eventually_one _ (fun n reg => by simp only [hUnstr, hg, hvis, Bool.false_eq_true, if_false]; simp)
    | _ => exact eventually_one _ (fun n reg => by simp [hUnstr])

/-- cattrs behind the cycle guard terminates on every value of every heap, at every type, for every guard set. -/
theorem unstr_ev_all (c : Codecs) (heap : Heap) (decls : Decls) :
    ∀ k visited, freeCount heap visited ≤ k → ∀ t v, UnstrEv c heap decls visited t v := by
  intro k
  induction k with
  | zero =>
    intro visited hfc t v
    have hk : KidsEv c heap decls visited := by
      intro id o hg hvis _ _ _
      have := freeCount_lt heap visited id o hg hvis
      omega
    cases t with
    | none => exact unstr_dyn_ev c heap decls visited hk v
    | some t => exact unstr_static_ev c heap decls visited hk v t
  | succ k ih =>
    intro visited hfc t v
    have hk : KidsEv c heap decls visited := by
      intro id o hg hvis x _ t'
      have := freeCount_lt heap visited id o hg hvis
      exact ih (id :: visited) (by omega) t' x
    cases t with
    | none => exact unstr_dyn_ev c heap decls visited hk v
    | some t => exact unstr_static_ev c heap decls visited hk v t

end Pog

namespace Pog

mutual
theorem ensureWith_ne_fuel (track : List Str → Nat → Except UErr (PV × List Str)) :
    ∀ (p : PV) (reg : List Str), (∀ id ∈ p.leaks, ∀ r, track r id ≠ .error .fuel) →
      PV.ensureWith track reg p ≠ .error .fuel
  | .leak id, reg, h => by simp only [PV.ensureWith]; exact h id (by simp [PV.leaks]) reg
  | .null, _, _ => by simp [PV.ensureWith]
  | .bool _, _, _ => by simp [PV.ensureWith]
  | .int _, _, _ => by simp [PV.ensureWith]
  | .str _, _, _ => by simp [PV.ensureWith]
  | .opaque _ _, _, _ => by simp [PV.ensureWith]
  | .arr xs, reg, h => by
    have := ensureListWith_ne_fuel track xs reg (by simpa [PV.leaks] using h)
    simp only [PV.ensureWith]
    cases hm : PV.ensureListWith track reg xs with
    | error e => simp only [ne_eq, Except.error.injEq]; intro he; exact this (by rw [hm, he])
    | ok r => simp
  | .obj kvs, reg, h => by
    have := ensureKvsWith_ne_fuel track kvs reg (by simpa [PV.leaks] using h)
    simp only [PV.ensureWith]
    cases hm : PV.ensureKvsWith track reg kvs with
    | error e => simp only [ne_eq, Except.error.injEq]; intro he; exact this (by rw [hm, he])
    | ok r => simp
theorem ensureListWith_ne_fuel (track : List Str → Nat → Except UErr (PV × List Str)) :
    ∀ (xs : List PV) (reg : List Str), (∀ id ∈ PV.leaksList xs, ∀ r, track r id ≠ .error .fuel) →
      PV.ensureListWith track reg xs ≠ .error .fuel
  | [], _, _ => by simp [PV.ensureListWith]
  | x :: xs, reg, h => by
    have h1 := ensureWith_ne_fuel track x reg (fun id hid => h id (by simp [PV.leaksList, hid]))
    simp only [PV.ensureListWith]
    cases hx : PV.ensureWith track reg x with
    | error e => simp only [ne_eq, Except.error.injEq]; intro he; exact h1 (by rw [hx, he])
    | ok r =>
      obtain ⟨p, reg1⟩ := r
      have h2 := ensureListWith_ne_fuel track xs reg1 (fun id hid => h id (by simp [PV.leaksList, hid]))
      simp only
      cases hm : PV.ensureListWith track reg1 xs with
      | error e => simp only [ne_eq, Except.error.injEq]; intro he; exact h2 (by rw [hm, he])
      | ok r2 => simp
theorem ensureKvsWith_ne_fuel (track : List Str → Nat → Except UErr (PV × List Str)) :
    ∀ (kvs : List (Str × PV)) (reg : List Str), (∀ id ∈ PV.leaksKvs kvs, ∀ r, track r id ≠ .error .fuel) →
      PV.ensureKvsWith track reg kvs ≠ .error .fuel
  | [], _, _ => by simp [PV.ensureKvsWith]
  | (k, x) :: rest, reg, h => by
    simp only [PV.ensureKvsWith]
    split
    · exact ensureKvsWith_ne_fuel track rest reg (fun id hid => h id (by simp [PV.leaksKvs, hid]))
    · have h1 := ensureWith_ne_fuel track x reg (fun id hid => h id (by simp [PV.leaksKvs, hid]))
      cases hx : PV.ensureWith track reg x with
      | error e => simp only [ne_eq, Except.error.injEq]; intro he; exact h1 (by rw [hx, he])
      | ok r =>
        obtain ⟨p, reg1⟩ := r
        have h2 := ensureKvsWith_ne_fuel track rest reg1 (fun id hid => h id (by simp [PV.leaksKvs, hid]))
        simp only
        cases hm : PV.ensureKvsWith track reg1 rest with
        | error e => simp only [ne_eq, Except.error.injEq]; intro he; exact h2 (by rw [hm, he])
        | ok r2 => simp
end

theorem mapSt_ne_fuel {α β : Type} (f : List Str → α → Except UErr (β × List Str)) (xs : List α)
    (h : ∀ x ∈ xs, ∀ r, f r x ≠ .error .fuel) : ∀ reg, mapSt f reg xs ≠ .error .fuel := by
  induction xs with
  | nil => intro reg; simp [mapSt]
  | cons x xs ih =>
    intro reg
    have hx := h x (by simp) reg
    simp only [mapSt]
    cases hfx : f reg x with
    | error e => simp only [ne_eq, Except.error.injEq]; intro he; exact hx (by rw [hfx, he])
    | ok r =>
      obtain ⟨y, reg1⟩ := r
      have ih' := ih (fun z hz => h z (by simp [hz])) reg1
      simp only
      cases hm : mapSt f reg1 xs with
      | error e => simp only [ne_eq, Except.error.injEq]; intro he; exact ih' (by rw [hm, he])
      | ok r2 => simp

theorem mapStKvs_ne_fuel {α : Type} (f : List Str → α → Except UErr (PV × List Str)) (kvs : List (Str × α))
    (h : ∀ kv ∈ kvs, ∀ r, f r kv.2 ≠ .error .fuel) : ∀ reg, mapStKvs f reg kvs ≠ .error .fuel := by
  induction kvs with
  | nil => intro reg; simp [mapStKvs]
  | cons kv rest ih =>
    obtain ⟨k, x⟩ := kv
    intro reg
    have hx := h (k, x) (by simp) reg
    simp only [mapStKvs]
    cases hfx : f reg x with
    | error e => simp only [ne_eq, Except.error.injEq]; intro he; exact hx (by rw [hfx, he])
    | ok r =>
      obtain ⟨y, reg1⟩ := r
      have ih' := ih (fun z hz => h z (by simp [hz])) reg1
      simp only
      cases hm : mapStKvs f reg1 rest with
      | error e => simp only [ne_eq, Except.error.injEq]; intro he; exact ih' (by rw [hm, he])
      | ok r2 => simp

/-- One level of `_serialize_with_tracking`: it terminates when it does on every value below an object that it
    enters (`sub`). -/
theorem serF_ev_step (c : Codecs) (heap : Heap) (decls : Decls) (visited : List Nat)
    (sub : ∀ id o, heap.get id = some o → visited.contains id = false → ∀ x,
      Eventually (fun fuel reg => serF c fuel heap decls (id :: visited) reg x ≠ .error .fuel)) (v : HVal) :
    Eventually (fun fuel reg => serF c fuel heap decls visited reg v ≠ .error .fuel) := by
  have helse : (∀ n reg, serF c (n + 1) heap decls visited reg v =
      match hUnstr c n heap visited reg decls none v with
      | .error e => .error e
      | .ok result => .ok (result.removeNone, reg)) →
      Eventually (fun fuel reg => serF c fuel heap decls visited reg v ≠ .error .fuel) := by
    intro hs
    obtain ⟨N, hN⟩ := unstr_ev_all c heap decls _ visited (Nat.le_refl _) none v
    refine ⟨N + 1, fun fuel hf reg => ?_⟩
    obtain ⟨n, rfl⟩ : ∃ n, fuel = n + 1 := ⟨fuel - 1, by omega⟩
    have := hN n (by omega) reg
    rw [hs]
    cases hu : hUnstr c n heap visited reg decls none v with
    | error e => simp only [ne_eq, Except.error.injEq]; intro he; exact this (by rw [hu, he])
    | ok p => simp
  cases v with
  | ref id =>
    by_cases hvis' : visited.contains id = true
    · exact eventually_one _ (fun n reg => by simp only [serF, hvis', if_true]; simp)
    · have hvis : visited.contains id = false := by simpa using hvis'
      cases hg : heap.get id with
      | none => exact eventually_one _ (fun n reg => by simp only [serF, hvis, hg]; simp)
      | some o =>
        cases o with
        | list items =>
          obtain ⟨N, hN⟩ := eventually_forall_mem items
            (fun x fuel reg => serF c fuel heap decls (id :: visited) reg x ≠ .error .fuel)
            (fun x _ => sub id _ hg hvis x)
          refine ⟨N + 1, fun fuel hf reg => ?_⟩
          obtain ⟨n, rfl⟩ : ∃ n, fuel = n + 1 := ⟨fuel - 1, by omega⟩
          simp only [serF, hvis, hg, Bool.false_eq_true, if_false]
          have := mapSt_ne_fuel (fun r item => serF c n heap decls (id :: visited) r item) items
            (fun x hx r' => hN n (by omega) r' x hx) reg
          cases hm : mapSt (fun r item => serF c n heap decls (id :: visited) r item) reg items with
          | error e => simp only [ne_eq, Except.error.injEq]; intro he; exact this (by rw [hm, he])
          | ok pr => simp
        | dict kvs =>
          obtain ⟨N, hN⟩ := eventually_forall_mem kvs
            (fun kv fuel reg => serF c fuel heap decls (id :: visited) reg kv.2 ≠ .error .fuel)
            (fun kv _ => sub id _ hg hvis kv.2)
          refine ⟨N + 1, fun fuel hf reg => ?_⟩
          obtain ⟨n, rfl⟩ : ∃ n, fuel = n + 1 := ⟨fuel - 1, by omega⟩
          simp only [serF, hvis, hg, Bool.false_eq_true, if_false]
          have := mapStKvs_ne_fuel (fun r x => serF c n heap decls (id :: visited) r x) kvs
            (fun kv hkv r' => hN n (by omega) r' kv hkv) reg
          cases hm : mapStKvs (fun r x => serF c n heap decls (id :: visited) r x) reg kvs with
          | error e => simp only [ne_eq, Except.error.injEq]; intro he; exact this (by rw [hm, he])
          | ok pr => simp
        | inst cls attrs =>
          -- cattrs on the instance
          obtain ⟨N1, hN1⟩ := unstr_ev_all c heap decls _ visited (Nat.le_refl _) (some (.dc cls)) (.ref id)
          -- every object of the heap, serialised below `id`, uniformly
          obtain ⟨N2, hN2⟩ := eventually_forall_mem (heap.map Prod.fst)
            (fun i fuel reg => serF c fuel heap decls (id :: visited) reg (.ref i) ≠ .error .fuel)
            (fun i _ => sub id _ hg hvis (.ref i))
          refine ⟨max N1 N2 + 2, fun fuel hf reg => ?_⟩
          obtain ⟨n, rfl⟩ : ∃ n, fuel = n + 1 := ⟨fuel - 1, by omega⟩
          simp only [serF, hvis, hg, Bool.false_eq_true, if_false]
          have hA := hN1 n (by omega) ((regTy n decls [] (.dc cls)).foldl insertName reg)
          cases hu : hUnstr c n heap visited ((regTy n decls [] (.dc cls)).foldl insertName reg) decls
              (some (.dc cls)) (.ref id) with
          | error e => simp only [ne_eq, Except.error.injEq]; intro he; exact hA (by rw [hu, he])
          | ok p =>
            simp only
            have hE := ensureWith_ne_fuel (fun r' i => serF c n heap decls (id :: visited) r' (.ref i)) p
              ((regTy n decls [] (.dc cls)).foldl insertName reg)
              (fun i _ r' => by
                by_cases hmem : i ∈ heap.map Prod.fst
                · exact hN2 n (by omega) r' i hmem
                · -- not an object of the heap at all: the lookup fails, which is not a budget failure
                  obtain ⟨m, rfl⟩ : ∃ m, n = m + 1 := ⟨n - 1, by omega⟩
                  have hgi : heap.get i = none := by
                    cases hgi : heap.get i with
                    | none => rfl
                    | some o' => exact absurd (heap_get_mem heap i o' hgi) hmem
                  simp only [serF, hgi]
                  split <;> simp)
            cases he : PV.ensureWith (fun r' i => serF c n heap decls (id :: visited) r' (.ref i))
                ((regTy n decls [] (.dc cls)).foldl insertName reg) p with
            | error e => simp only [ne_eq, Except.error.injEq]; intro hee; exact hE (by rw [he, hee])
            | ok pr => simp
  | none => exact eventually_one _ (fun n reg => by simp [serF])
  | bool _ => exact eventually_one _ (fun n reg => by simp [serF])
  | int _ => exact eventually_one _ (fun n reg => by simp [serF])
  | str _ => exact eventually_one _ (fun n reg => by simp [serF])
  | enum _ _ => exact eventually_one _ (fun n reg => by simp [serF])
  | bytearray _ => exact eventually_one _ (fun n reg => by simp [serF])
  | bytes b => exact helse (fun n reg => by simp only [serF]; rfl)
  | datetime b => exact helse (fun n reg => by simp only [serF]; rfl)
  | date b => exact helse (fun n reg => by simp only [serF]; rfl)
  | time b => exact helse (fun n reg => by simp only [serF]; rfl)
  | uuid b => exact helse (fun n reg => by simp only [serF]; rfl)
  | «opaque» k b => exact helse (fun n reg => by simp only [serF]; rfl)

/-- `DataclassSerializer.serialize` terminates on every value of every heap, for every guard set. -/
theorem serF_ev_all (c : Codecs) (heap : Heap) (decls : Decls) :
    ∀ k visited, freeCount heap visited ≤ k → ∀ v,
      Eventually (fun fuel reg => serF c fuel heap decls visited reg v ≠ .error .fuel) := by
  intro k
  induction k with
  | zero =>
    intro visited hfc v
    refine serF_ev_step c heap decls visited (fun id o hg hvis _ => ?_) v
    have := freeCount_lt heap visited id o hg hvis
    omega
  | succ k ih =>
    intro visited hfc v
    refine serF_ev_step c heap decls visited (fun id o hg hvis x => ?_) v
    have := freeCount_lt heap visited id o hg hvis
    exact ih (id :: visited) (by omega) x

end Pog
