import Pog.Lemmas.Registry
/-
  C11 — clients sharing one core package keep working as more are generated.

  FULL STATEMENT ✗ (false of the current code): after ANY sequence of generations of different
  clients into one project with a shared core package, every status-specific exception class a
  client generated so far raises still exists in `core/exception_aliases.py`:

      ∀ hist c, (∃ g ∈ hist, g.client = some c) → ∀ code ∈ needs hist c, code ∈ (run hist).aliases

  It holds exactly for the generations on which `_is_shared_core` answers `True` AND a
  `client_package_name` is passed (`Gen.usesRegistry`), and `_is_shared_core` recognises only core
  directories one or two levels below the project root:

    registry_invariant                  partial  (hypothesis: every generation uses the registry)
    regeneration_monotone_for_others    partial  (same hypothesis)
    step_keeps_others / registry_step_repairs    any state, one registry step
    unshared_overwrites_counterexample  ✗ witness (core three levels deep: `x.y.core`)
    unnamed_overwrites_counterexample   ✗ witness (shared layout, but no client name passed)
    is_shared_core_depth / is_shared_core_only_below_root   exact characterisation of the heuristic
    is_shared_core_depth3_counterexample   the heuristic is not complete for deeper shared cores

  `needs hist c` are the 4xx/5xx codes of c's latest spec (the classes `exception_aliases.py` is
  supposed to provide).  The endpoints additionally import `Error<code>` for declared 1xx/3xx
  codes, for which no class is ever generated — that is finding F3 (C01/C06), independent of
  sharing, and deliberately not part of `needs`.
-/
namespace Pog.C11
open Pog Pog.Reg

/-- Every generation of the history goes through the registry branch of `emit`:
    `_is_shared_core` answered `True` and a non-empty `client_package_name` was given. -/
def AllRegistry (hist : List Gen) : Prop := ∀ g ∈ hist, g.usesRegistry = true

instance (hist : List Gen) : Decidable (AllRegistry hist) := by unfold AllRegistry; infer_instance

theorem uses_registry_iff (g : Gen) :
    g.usesRegistry = true ↔ g.shared = true ∧ ∃ n, g.client = some n ∧ n ≠ [] :=
  Reg.usesRegistry_iff g

/-- C11 for the layouts the heuristic recognises: after any history of registry generations the
    alias file holds exactly the union of the registry values, and every code needed by any client
    generated so far is among them. -/
theorem registry_invariant (hist : List Gen) (hh : AllRegistry hist) :
    (∀ code, code ∈ (run hist).aliases ↔
        ∃ c codes, (c, codes) ∈ (run hist).registry ∧ code ∈ codes) ∧
    (∀ c, (∃ g ∈ hist, g.client = some c) → ∀ code ∈ needs hist c, code ∈ (run hist).aliases) := by
  have hi := inv_run hist hh
  refine ⟨hi.aliases, ?_⟩
  intro c hc code hcode
  obtain ⟨codes, hm, hcodes⟩ := hi.latest c hc
  exact (hi.aliases code).mpr ⟨c, codes, hm, (hcodes code).mpr hcode⟩

/-- Additional facts carried by the same induction: the registry has one entry per client, the entry
    of every client holds exactly the codes of its latest generation, and only 4xx/5xx codes are
    ever recorded. -/
theorem registry_entries (hist : List Gen) (hh : AllRegistry hist) :
    ((run hist).registry.map (·.1)).Nodup ∧
    (∀ c, (∃ g ∈ hist, g.client = some c) →
        ∃ codes, (c, codes) ∈ (run hist).registry ∧ ∀ a, a ∈ codes ↔ a ∈ needs hist c) ∧
    (∀ c codes, (c, codes) ∈ (run hist).registry → ∀ a ∈ codes, isErrorCode a = true) :=
  let hi := inv_run hist hh
  ⟨hi.keys, hi.latest, hi.regErr⟩

example : AllRegistry
    [⟨some "a".toList, [200, 404, 409], true⟩, ⟨some "b".toList, [500], true⟩,
     ⟨some "a".toList, [422], true⟩] := by decide

/-- (Re)generating client `g.client` never removes a class another client `c'` needs: the codes of
    `c'` are present before and after the step. -/
theorem regeneration_monotone_for_others (hist : List Gen) (g : Gen)
    (hh : AllRegistry hist) (hg : g.usesRegistry = true)
    (c' : Str) (hocc : ∃ h ∈ hist, h.client = some c') (hne : g.client ≠ some c') :
    ∀ code ∈ needs hist c',
      code ∈ (run hist).aliases ∧ code ∈ (step (run hist) g).aliases := by
  intro code hcode
  refine ⟨(registry_invariant hist hh).2 c' hocc code hcode, ?_⟩
  have hh' : AllRegistry (hist ++ [g]) := by
    intro x hx
    rcases List.mem_append.mp hx with hx | hx
    · exact hh x hx
    · simp at hx; subst hx; exact hg
  have hocc' : ∃ h ∈ hist ++ [g], h.client = some c' := by
    obtain ⟨h, hm, hc⟩ := hocc
    exact ⟨h, List.mem_append_left _ hm, hc⟩
  have := (registry_invariant (hist ++ [g]) hh').2 c' hocc' code
  rw [needs_snoc, if_neg hne, run_snoc] at this
  exact this hcode

example : (⟨some "b".toList, [500], true⟩ : Gen).usesRegistry = true ∧
    (⟨some "b".toList, [500], true⟩ : Gen).client ≠ some "a".toList := by decide

/-- The same, locally and for ANY state of the core directory (reachable or not): a registry step
    for one client keeps every error code recorded for every other client. -/
theorem step_keeps_others (s : State) (g : Gen) (hg : g.usesRegistry = true)
    (c' : Str) (codes : List Nat) (hm : (c', codes) ∈ s.registry) (hne : g.client ≠ some c') :
    (c', codes) ∈ (step s g).registry ∧
    ∀ code ∈ codes, isErrorCode code = true → code ∈ (step s g).aliases := by
  obtain ⟨_, n, hn, _⟩ := (usesRegistry_iff g).mp hg
  have hm' : (c', codes) ∈ (step s g).registry := by
    rw [step_shared s g n hn hg]
    refine mem_regSet_of_ne _ _ _ _ _ ?_ hm
    intro h; subst h; exact hne hn
  refine ⟨hm', ?_⟩
  intro code hc he
  exact (mem_step_aliases s g hg code).mpr ⟨⟨c', codes, hm', hc⟩, he⟩

/-- A registry step rebuilds the alias file from the registry alone, whatever was in the file
    before (so it also repairs the damage of an earlier non-registry generation). -/
theorem registry_step_repairs (s : State) (g : Gen) (hg : g.usesRegistry = true) (code : Nat) :
    code ∈ (step s g).aliases ↔
      (∃ c codes, (c, codes) ∈ (step s g).registry ∧ code ∈ codes) ∧ isErrorCode code = true :=
  mem_step_aliases s g hg code

/-- A non-registry generation leaves the registry file alone and OVERWRITES the alias file with the
    classes of its own spec only. -/
theorem unshared_step (s : State) (g : Gen) (hg : g.usesRegistry = false) :
    step s g = ⟨s.registry, specCodes g.declared⟩ :=
  step_unshared s g hg

/-- ✗ witness for the full statement.  Core package `x.y.core`, i.e. core dir `root/x/y/core`:
    `_is_shared_core` answers `False` (see `is_shared_core_depth3_counterexample`), so both
    generations take the plain branch.  Client A needs `NotFoundError` (404); after client B
    (only 500) has been generated, 404 has no class any more although A still needs it. -/
theorem unshared_overwrites_counterexample :
    let A : Gen := ⟨some "client_a".toList, [200, 404], false⟩
    let B : Gen := ⟨some "client_b".toList, [200, 500], false⟩
    404 ∈ (run [A]).aliases ∧
    404 ∈ needs [A, B] "client_a".toList ∧
    404 ∉ (run [A, B]).aliases ∧
    (run [A, B]).aliases = [500] ∧ (run [A, B]).registry = [] := by
  decide

/-- ✗ witness: the layout is recognised as shared, but the second generation passes no
    `client_package_name` (the parameter defaults to `None`): the alias file is overwritten
    although the registry still lists 404 for client A. -/
theorem unnamed_overwrites_counterexample :
    let A : Gen := ⟨some "client_a".toList, [404], true⟩
    let B : Gen := ⟨none, [500], true⟩
    404 ∈ needs [A, B] "client_a".toList ∧
    404 ∉ (run [A, B]).aliases ∧
    (run [A, B]).registry = [("client_a".toList, [404])] := by
  decide

/-- In the recognised layouts the same two-step history keeps 404 (contrast). -/
example :
    (run [⟨some "client_a".toList, [200, 404], true⟩, ⟨some "client_b".toList, [200, 500], true⟩]).aliases
      = [404, 500] := by decide

/-! ## the heuristic `_is_shared_core` -/

/-- `overall_project_root` unset: never shared. -/
theorem is_shared_core_no_root (d : Path) : isSharedCore none d = false := rfl

/-- Exact characterisation for a core directory `comps` below the project root `r`: the heuristic
    answers `True` iff the core directory is ONE or TWO levels below the root — core package `core`
    or `a.core`.  (The third disjunct is the degenerate `r = coreDir = /`, where `Path.parent` of the
    filesystem root is the root itself.)  A core package `x.y.core` (three levels) is NOT
    recognised although several clients can share it. -/
theorem is_shared_core_depth (r comps : Path) :
    isSharedCore (some r) (r ++ comps) = true ↔
      (comps.length = 1 ∨ comps.length = 2 ∨ (r = [] ∧ comps = [])) :=
  isSharedCore_append r comps

/-- … and it never answers `True` for a directory that is not below the root. -/
theorem is_shared_core_only_below_root (r d : Path) (h : isSharedCore (some r) d = true) :
    ∃ comps, d = r ++ comps ∧ comps.length ≤ 2 :=
  isSharedCore_prefix r d h

/-- `is_shared_core_depth` for a proper project root: exactly depth 1 or 2. -/
theorem is_shared_core_depth_proper (r comps : Path) (hr : r ≠ []) :
    isSharedCore (some r) (r ++ comps) = true ↔ (comps.length = 1 ∨ comps.length = 2) := by
  rw [is_shared_core_depth]
  constructor
  · rintro (h | h | ⟨h, _⟩)
    · exact Or.inl h
    · exact Or.inr h
    · exact absurd h hr
  · rintro (h | h)
    · exact Or.inl h
    · exact Or.inr (Or.inl h)

example : (["srv".toList, "proj".toList] : Path) ≠ [] := by decide

/-- The old heuristic ALONE (`isSharedCore`, still the first test of the code) is not complete: concrete layouts `proj/core`, `proj/a/core` (recognised) and
    `proj/x/y/core`, `proj/x/y/z/core` (core packages `x.y.core`, `x.y.z.core`: NOT recognised). -/
theorem is_shared_core_depth3_counterexample :
    let root : Path := ["srv".toList, "proj".toList]
    isSharedCore (some root) (root ++ ["core".toList]) = true ∧
    isSharedCore (some root) (root ++ ["a".toList, "core".toList]) = true ∧
    isSharedCore (some root) (root ++ ["x".toList, "y".toList, "core".toList]) = false ∧
    isSharedCore (some root) (root ++ ["x".toList, "y".toList, "z".toList, "core".toList]) = false ∧
    isSharedCore (some root) root = false := by
  decide

/-- Every depth ≥ 3 is rejected. -/
theorem is_shared_core_deep_false (r comps : Path) (h : 3 ≤ comps.length) :
    isSharedCore (some r) (r ++ comps) = false := by
  cases hs : isSharedCore (some r) (r ++ comps) with
  | false => rfl
  | true =>
    rcases (is_shared_core_depth r comps).mp hs with h1 | h1 | ⟨_, h1⟩
    · omega
    · omega
    · subst h1; simp at h

/-! ## `_is_shared_core(core_dir, client_package_name)` since the repair of F22 -/

/-- COMPLETE: whenever the core directory is neither the directory of the client package being generated nor inside it, the emitter
    takes the registry path - at EVERY depth (`x.y.core`, `x.y.z.core`, …), for every project root. -/
theorem is_shared_core_complete (r coreDir : Path) (c : Str) (cs : Path)
    (h : (r ++ (c :: cs)).isPrefixOf coreDir = false) : isSharedCoreFor (some r) coreDir (some (c :: cs)) = true := by
  simp [isSharedCoreFor, h]

/-- … and it still answers `True` wherever the old heuristic did. -/
theorem is_shared_core_for_extends (root : Option Path) (d : Path) (cl : Option Path) (h : isSharedCore root d = true) :
    isSharedCoreFor root d cl = true := by
  cases root with
  | none => simp [isSharedCore] at h
  | some r =>
    simp only [isSharedCore, Bool.or_eq_true] at h
    simp only [isSharedCoreFor, Bool.or_eq_true]
    exact Or.inl h

/-- A core package EMBEDDED three or more levels deep in its own client package is (still) not a shared core. -/
theorem embedded_deep_core_not_shared (r : Path) (c : Str) (cs rest : Path) (h : 3 ≤ (c :: cs).length + rest.length) :
    isSharedCoreFor (some r) (r ++ ((c :: cs) ++ rest)) (some (c :: cs)) = false := by
  have hp : (r ++ (c :: cs)).isPrefixOf (r ++ ((c :: cs) ++ rest)) = true := by
    rw [List.isPrefixOf_iff_prefix, ← List.append_assoc]; exact List.prefix_append _ _
  have hold := is_shared_core_deep_false r ((c :: cs) ++ rest) (by rw [List.length_append]; exact h)
  simp only [isSharedCore, Bool.or_eq_false_iff] at hold
  unfold isSharedCoreFor
  simp only [hold.1, hold.2, hp, Bool.not_true, Bool.or_self]

/-- The layouts of the former counterexample: `proj/x/y/core` and `proj/x/y/z/core` shared by clients `client_a`, `x.y.api`. -/
theorem is_shared_core_deep_layouts :
    let root : Path := ["srv".toList, "proj".toList]
    isSharedCoreFor (some root) (root ++ ["x".toList, "y".toList, "core".toList]) (some ["client_a".toList]) = true ∧
    isSharedCoreFor (some root) (root ++ ["x".toList, "y".toList, "z".toList, "core".toList]) (some ["x".toList, "y".toList, "api".toList]) = true ∧
    isSharedCoreFor (some root) (root ++ ["pkg".toList, "client".toList, "core".toList]) (some ["pkg".toList, "client".toList]) = false := by
  decide

end Pog.C11
