import Pog.Model.PyLex
import Pog.Model.Stream
/-
  M-sinks — the places where free text of the OpenAPI document is pasted into generated code, one
  `render…` function per sink class, mirroring the Python f-strings character for character.

    literal sinks   (no escaping at all)          python_construct_renderer.py:99-123,207-211,321-335
                                                  url_args_generator.py:56-95, overload_generator.py:134
    default sink    `json.dumps(s)`               dataclass_generator.py:378-380
    comment sink    `# ` + text.replace("\n"," ") python_construct_renderer.py:296-311
    docstring sinks `"""…"""`                     python_construct_renderer.py:144-148 (alias, escaped),
                                                  documentation_writer.py (class / method docstrings),
                                                  client_visitor.py:116-150,184, endpoint_visitor.py:214

  Trusted executable descriptions (checked by corr_c15.py only): `jsonEscChar` = what CPython's
  `json.dumps` (ensure_ascii=True) does per character; `splitLines`/`stripWs` (from M-stream) =
  `str.splitlines`/`str.strip`.  `textwrap.TextWrapper.wrap` and `textwrap.dedent` are NOT modelled:
  they are parameters (`Wrap`, `Dedent`) of the docstring renderers — the correspondence records the
  real calls and hands the table to the driver; the theorems quantify over every such function that
  only rearranges characters (`WrapSafe`).
-/
namespace Pog

/-! ## Literal sinks: `f'"{text}"'` -/

/-- `'"' + s + '"'`. -/
def renderLit (s : Str) : Str := '"' :: (s ++ ['"'])

/-- `f'{member_name} = "{value}"'` (render_enum, `str` enums). -/
def renderEnumMember (name value : Str) : Str := name ++ " = ".toList ++ renderLit value

/-- `f'"{api_field}": "{python_field}",'` (Meta.key_transform_with_load; `…_dump` swaps the arguments). -/
def renderMetaEntry (api py : Str) : Str := renderLit api ++ ": ".toList ++ renderLit py ++ [',']

/-- `f'    "{original_name}": DataclassSerializer.serialize({var}),'` (required query / header parameter). -/
def renderDictKey (name var : Str) : Str :=
  "    ".toList ++ renderLit name ++ ": DataclassSerializer.serialize(".toList ++ var ++ "),".toList

/-- `f'    **({{"{original_name}": DataclassSerializer.serialize({var})}} if {var} is not None else {{}}),'`. -/
def renderDictKeyOpt (name var : Str) : Str :=
  "    **({".toList ++ renderLit name ++ ": DataclassSerializer.serialize(".toList ++ var ++ ")} if ".toList
    ++ var ++ " is not None else {}),".toList

/-- `f'    property_name: str = "{discriminator.property_name}"'`. -/
def renderDiscProp (prop : Str) : Str := "    property_name: str = ".toList ++ renderLit prop

/-- `f'        ("{disc_value}", "{schema_name}"),'`. -/
def renderDiscPair (value schema : Str) : Str :=
  "        (".toList ++ renderLit value ++ ", ".toList ++ renderLit schema ++ "),".toList

/-- `f'            "{disc_value}": {schema_name},'`. -/
def renderDiscEntry (value schema : Str) : Str :=
  "            ".toList ++ renderLit value ++ ": ".toList ++ schema ++ [',']

/-- `f'content_type: Literal["{content_type}"] = "{content_type}"'`. -/
def renderLiteralCt (ct : Str) : Str :=
  "content_type: Literal[".toList ++ renderLit ct ++ "] = ".toList ++ renderLit ct

/-! ## Default sink: `json.dumps(s)` -/

def hexDigitLower (n : Nat) : Char :=
  if n < 10 then Char.ofNat (48 + n) else Char.ofNat (87 + n)

/-- `'{0:04x}'.format(n)` for `n < 0x10000`. -/
def hex4 (n : Nat) : Str :=
  [hexDigitLower (n / 4096 % 16), hexDigitLower (n / 256 % 16), hexDigitLower (n / 16 % 16), hexDigitLower (n % 16)]

/-- `json.encoder.py_encode_basestring_ascii` for one character: `"` `\` and the five short control
    escapes, printable ASCII unchanged, everything else `\uXXXX` — astral characters as a UTF-16
    surrogate PAIR of two `\uXXXX`. -/
def jsonEscChar (c : Char) : Str :=
  if c == '"' then ['\\', '"']
  else if c == '\\' then ['\\', '\\']
  else if c == '\n' then ['\\', 'n']
  else if c == '\r' then ['\\', 'r']
  else if c == '\t' then ['\\', 't']
  else if c.toNat == 12 then ['\\', 'f']
  else if c.toNat == 8 then ['\\', 'b']
  else if 32 ≤ c.toNat && c.toNat ≤ 126 then [c]
  else if c.toNat < 0x10000 then '\\' :: 'u' :: hex4 c.toNat
  else '\\' :: 'u' :: (hex4 (0xd800 + (c.toNat - 0x10000) / 1024)
        ++ '\\' :: 'u' :: hex4 (0xdc00 + (c.toNat - 0x10000) % 1024))

/-- `'"' + json.dumps(s)[1:-1] + '"'` = `json.dumps(s)`. -/
def renderDefaultStr (s : Str) : Str := '"' :: (s.flatMap jsonEscChar ++ ['"'])

/-- What Python makes of the characters when it reads the `json.dumps` text back as a Python literal:
    UTF-16 code units (astral characters become two lone surrogates). -/
def utf16Cps : Str → CpStr
  | [] => []
  | c :: cs =>
    if c.toNat < 0x10000 then c.toNat :: utf16Cps cs
    else (0xd800 + (c.toNat - 0x10000) / 1024) :: (0xdc00 + (c.toNat - 0x10000) % 1024) :: utf16Cps cs

/-! ## Comment sink -/

/-- `field_desc.replace("\n", " ")`. -/
def replaceNl (s : Str) : Str := s.map (fun c => if c == '\n' then ' ' else c)

/-- The comment token of `line += f"  # {comment_text}"`. -/
def renderFieldComment (desc : Str) : Str := '#' :: ' ' :: replaceNl desc

/-- The whole field line of render_dataclass (`default = none` for required fields; `desc` empty = falsy). -/
def renderFieldLine (name typ : Str) (default : Option Str) (desc : Str) : Str :=
  name ++ ": ".toList ++ typ ++ (match default with | some d => " = ".toList ++ d | none => [])
    ++ (if desc.isEmpty then [] else ' ' :: ' ' :: renderFieldComment desc)

/-! ## `str.replace` for a pattern of one or three EQUAL characters (leftmost, non-overlapping) -/

/-- `s.replace(ch, rep)`. -/
def replace1 (ch : Char) (rep : Str) (s : Str) : Str := s.flatMap (fun c => if c == ch then rep else [c])

/-- `s.replace(ch*3, rep)`: `q` = number of pending `ch` (0,1,2) not yet emitted. -/
def replace3Run (ch : Char) (rep : Str) (q : Nat) : Str → Str
  | [] => List.replicate q ch
  | c :: cs =>
    if c == ch then
      (if q ≥ 2 then rep ++ replace3Run ch rep 0 cs else replace3Run ch rep (q + 1) cs)
    else List.replicate q ch ++ c :: replace3Run ch rep 0 cs

def replace3 (ch : Char) (rep : Str) (s : Str) : Str := replace3Run ch rep 0 s

/-! ## Alias docstring (the one sink that escapes) -/

/-- `description.replace("\\", "\\\\").replace('"""', '\\"\\"\\"')`. -/
def aliasEscape (s : Str) : Str :=
  replace3 '"' ['\\', '"', '\\', '"', '\\', '"'] (replace1 '\\' ['\\', '\\'] s)

/-- `f'"""Alias for {safe_desc_content}"""'`. -/
def renderAliasDoc (s : Str) : Str :=
  "\"\"\"Alias for ".toList ++ aliasEscape s ++ "\"\"\"".toList

/-! ## One-line docstrings with the tag pasted in -/

/-- client_visitor.py:184 `f'"""Client for \'{tag}\' endpoints."""'`. -/
def renderTagPropDoc (tag : Str) : Str :=
  "\"\"\"Client for '".toList ++ tag ++ "' endpoints.\"\"\"".toList

/-- endpoint_visitor.py:214. -/
def renderTagClassDoc (tag : Str) : Str :=
  "\"\"\"Client for ".toList ++ tag
    ++ " endpoints. Uses HttpTransport for all HTTP and header management.\"\"\"".toList

/-! ## `LineWriter` -/

/-- `textwrap.TextWrapper(width, initial_indent="", subsequent_indent=" "*k, break_long_words=True,
    break_on_hyphens=True).wrap(text)` as a parameter: `W width k text`. -/
abbrev Wrap := Nat → Nat → Str → List Str
/-- `textwrap.dedent` as a parameter. -/
abbrev Dedent := Str → Str

def spaces (n : Nat) : Str := List.replicate n ' '

/-- `LineWriter`: `lines = done ++ [cur]`, `indent_str` is always four spaces. -/
structure LW where
  done : List Str
  cur : Str
  level : Nat
  justNl : Bool
  width : Nat
deriving Repr

def LW.new (width : Nat) (level : Nat) : LW := ⟨[], [], level, true, width⟩

def LW.append (w : LW) (t : Str) : LW :=
  if w.cur.isEmpty && w.justNl then { w with cur := spaces (4 * w.level) ++ t, justNl := false }
  else { w with cur := w.cur ++ t, justNl := false }

def LW.newline (w : LW) : LW := { w with done := w.done ++ [w.cur], cur := [], justNl := true }

/-- `_get_current_column`. -/
def LW.column (w : LW) : Nat := if w.cur.length = 0 then w.level * 4 else w.cur.length

def LW.lines (w : LW) : List Str := w.done ++ [w.cur]

def LW.getvalue (w : LW) : Str := joinWith ['\n'] w.lines

/-- `move_to_column` (pads to `col - 1`, as the code does). -/
def LW.moveTo (w : LW) (col : Nat) : LW :=
  if w.cur.length < col then { w with cur := w.cur ++ spaces (col - w.cur.length - 1) } else w

/-- `replace_current_line` after `newline`, for each further wrapped line. -/
def LW.putLines (w : LW) : List Str → LW
  | [] => w
  | l :: ls => LW.putLines { w.newline with cur := l } ls

/-- `append_wrapped`. -/
def LW.appendWrapped (W : Wrap) (w : LW) (text : Str) : LW :=
  if text.isEmpty then w else
  let w1 := if w.width ≤ w.column then w.newline else w
  let wrapCol := w1.column
  let pre := w1.cur ++ spaces (wrapCol - w1.cur.length)
  match W w1.width wrapCol (pre ++ text) with
  | [] => w1
  | l :: ls => LW.putLines { w1 with cur := l } ls

/-! ## `DocumentationWriter.render_docstring` -/

/-- One entry of `DocumentationBlock.args`: `(name, type, desc)` or `(name, desc)`. -/
structure DocArg where
  name : Str
  typ : Option Str
  desc : Str
deriving Repr

/-- `DocumentationBlock` (`summary`/`description` empty = falsy = absent). -/
structure DocBlock where
  summary : Str
  description : Str
  args : List DocArg
  returns : Option (Str × Str)
  raises : List (Str × Str)
deriving Repr

def docWidth : Nat := 88
def docMinCol : Nat := 30

/-- `DocumentationFormatter.wrap(text, indent)`. -/
def fmtWrap (W : Wrap) (text : Str) (indent : Nat) : List Str :=
  if text.isEmpty then [] else
  splitLines (LW.appendWrapped W (LW.new docWidth (indent / 4)) text).getvalue

def argPrefix (a : DocArg) : Str :=
  match a.typ with
  | some t => a.name ++ " (".toList ++ t ++ [')']
  | none => a.name

/-- `render_short_prefix_arg` / `render_long_prefix_arg` selected as in `render_args`. -/
def renderArg (W : Wrap) (indent : Nat) (a : DocArg) : List Str :=
  let pre := argPrefix a
  let w0 := (LW.new docWidth (indent / 4)).append pre
  let w1 := if indent + pre.length ≤ docMinCol then w0 else w0.newline
  splitLines (LW.appendWrapped W ((w1.moveTo docMinCol).append [':', ' ']) a.desc).getvalue

def renderReturns (W : Wrap) (indent : Nat) (r : Str × Str) : List Str :=
  let w0 := ((LW.new docWidth (indent / 4)).append (r.1 ++ [':'])).append [' ']
  splitLines (LW.appendWrapped W w0 r.2).getvalue

def raisesLoop (W : Wrap) (w : LW) : List (Str × Str) → LW
  | [] => w
  | (code, desc) :: rest =>
    let w1 := w.newline.append ("    ".toList ++ code ++ [':'])
    let w2 := if (stripWs desc).isEmpty then w1 else LW.appendWrapped W (w1.append [' ']) desc
    raisesLoop W w2 rest

def renderRaises (W : Wrap) (indent : Nat) (rs : List (Str × Str)) : List Str :=
  splitLines (raisesLoop W ((LW.new docWidth (indent / 4)).append "HttpError:".toList) rs).getvalue

def tq3 : Str := ['"', '"', '"']

/-- The `lines` list of `render_docstring` (before `"\n".join`). -/
def docstringLines (W : Wrap) (d : DocBlock) (indent : Nat) : List Str :=
  [tq3]
  ++ (if d.summary.isEmpty then [] else fmtWrap W d.summary indent)
  ++ (if d.description.isEmpty then []
      else (if d.summary.isEmpty then [] else [[]]) ++ fmtWrap W d.description indent)
  ++ (if d.args.isEmpty then [] else [[], "Args:".toList] ++ d.args.flatMap (renderArg W (indent + 4)))
  ++ (match d.returns with
      | some r => [[], "Returns:".toList] ++ renderReturns W (indent + 4) r
      | none => [])
  ++ (if d.raises.isEmpty then [] else [[], "Raises:".toList] ++ renderRaises W (indent + 4) d.raises)
  ++ [tq3]

/-- `DocumentationWriter(width=88).render_docstring(doc, indent=0)`. -/
def renderDocstring (W : Wrap) (d : DocBlock) : Str := joinWith ['\n'] (docstringLines W d 0)

/-- `for line in docstring.splitlines(): writer.write_line(line)` at indentation `level`, as text. -/
def emitDoc (level : Nat) (docstring : Str) : Str :=
  joinWith ['\n'] ((splitLines docstring).map (spaces (4 * level) ++ ·))

/-- `CodeWriter.write_block(code)` at indentation `level` (endpoint_visitor.py:227 re-emits every finished
    method — signature, docstring, `params = {…}` dictionary, … — through it): the SAME `splitlines()` +
    re-indentation, now applied to code that contains the pasted literals. -/
def writeBlock (level : Nat) (code : Str) : Str := emitDoc level code

/-- `DocumentationBlock` of render_dataclass: `fields` = (name, type hint, description). -/
def dataclassBlock (className desc : Str) (fields : List (Str × Str × Str)) : DocBlock where
  summary := if desc.isEmpty then className ++ " dataclass".toList else desc
  description := []
  args := fields.map (fun f => ⟨f.1, some f.2.1, f.2.2⟩)
  returns := none
  raises := []

/-- Class docstring of a dataclass (render_dataclass). -/
def renderDataclassDoc (W : Wrap) (className desc : Str) (fields : List (Str × Str × Str)) : Str :=
  emitDoc 1 (renderDocstring W (dataclassBlock className desc fields))

/-- `DocumentationBlock` of render_enum: `members` = (MEMBER_NAME, value). -/
def enumBlock (enumName desc baseType : Str) (members : List (Str × Str)) : DocBlock where
  summary := if desc.isEmpty then enumName ++ " Enum".toList else desc
  description := []
  args := members.map (fun m => ⟨m.2, some baseType, "Value for ".toList ++ m.1⟩)
  returns := none
  raises := []

/-- Class docstring of a `str` enum (render_enum). -/
def renderEnumDoc (W : Wrap) (enumName desc baseType : Str) (members : List (Str × Str)) : Str :=
  emitDoc 1 (renderDocstring W (enumBlock enumName desc baseType members))

/-- Method docstring (EndpointDocstringGenerator.generate_docstring) at method-body indentation. -/
def renderMethodDoc (W : Wrap) (level : Nat) (d : DocBlock) : Str := emitDoc level (renderDocstring W d)

/-! ## `APIClient` class docstring (client_visitor.py:116-150) -/

/-- `desc.replace('"""', "'").replace("'''", "'").replace("\\", "\\\\").strip()` then `textwrap.dedent`. -/
def cleanClientDesc (D : Dedent) (desc : Str) : Str :=
  D (stripWs (replace1 '\\' ['\\', '\\'] (replace3 '\'' ['\''] (replace3 '"' ['\''] desc))))

def clientSummary : Str :=
  "Async API client with pluggable transport, tag-specific clients, and client-level headers.".toList

/-- The inner `DocumentationBlock` of the `APIClient` docstring; `tags` = (tag, class_name, module_name). -/
def clientBlock (tags : List (Str × Str × Str)) : DocBlock where
  summary := clientSummary
  description := []
  args := [⟨"config".toList, some "ClientConfig".toList, "Client configuration object.".toList⟩,
           ⟨"transport".toList, some "HttpTransport | None".toList, "Custom HTTP transport (optional).".toList⟩]
          ++ tags.map (fun t => ⟨t.2.2, some t.2.1, "Client for '".toList ++ t.1 ++ "' endpoints.".toList⟩)
  returns := none
  raises := []

/-- The lines between the two `"""` of the `APIClient` docstring, before `rstrip('"')`. -/
def clientDocLines (W : Wrap) (D : Dedent) (title version desc : Str) (tags : List (Str × Str × Str)) : List Str :=
  [title ++ " (version ".toList ++ version ++ [')']]
  ++ (if desc.isEmpty then [] else [[], cleanClientDesc D desc])
  ++ [[]]
  ++ splitLines (renderDocstring W (clientBlock tags))

/-- The docstring as written: `"""` at class indentation, the lines at indentation 0 with trailing `"`
    stripped (which also erases the inner renderer's own `"""` lines), `"""` at class indentation. -/
def renderClientDoc (W : Wrap) (D : Dedent) (title version desc : Str) (tags : List (Str × Str × Str)) : Str :=
  joinWith ['\n'] ([spaces 4 ++ tq3] ++ (clientDocLines W D title version desc tags).map (rstripC '"') ++ [spaces 4 ++ tq3])

end Pog
