#!/usr/bin/env python3
"""Print the markdown tables of DESIGN.md Part II from the committed data (props_index.json, known_findings.json, seeded/*/meta.json)."""
import json, os, glob
V = os.path.dirname(os.path.dirname(os.path.abspath(__file__)))
idx = json.load(open(os.path.join(V, "props_index.json")))
kf = json.load(open(os.path.join(V, "known_findings.json")))
print("### Theorems per property (from props_index.json)\n")
print("| property | theorems | full | partial | counterexample |\n|---|---|---|---|---|")
tot = [0, 0, 0, 0]
for k in sorted(idx):
    t = idx[k]["theorems"]; c = {"full": 0, "partial": 0, "counterexample": 0}
    for v in t.values():
        c[v] = c.get(v, 0) + 1
    print(f"| {k} | {len(t)} | {c['full']} | {c['partial']} | {c['counterexample']} |")
    tot[0] += len(t); tot[1] += c["full"]; tot[2] += c["partial"]; tot[3] += c["counterexample"]
print(f"| **all** | **{tot[0]}** | {tot[1]} | {tot[2]} | {tot[3]} |\n")
print("### Known findings (open) — known_findings.json\n")
print("| id | properties | site | what fails |\n|---|---|---|---|")
for f in sorted(kf["findings"], key=lambda f: (f["properties"][0], f["id"])):
    print(f"| {f['id']} | {', '.join(f['properties'])} | `{f['site'][:110]}` | {f['what'][:220]} |")
print("\n### Repaired defects (fix: commits in /repo)\n")
for x in kf.get("fixed", []):
    print(f"* {x}")
print("\n### Observations (not exercised by any generator, suppress nothing)\n")
for x in kf.get("observations", []):
    print(f"* {x}")
print("\n### Seeded changes (seeded/*/meta.json)\n")
print("| id | breaks | caught by | history |\n|---|---|---|---|")
for p in sorted(glob.glob(os.path.join(V, "seeded", "*", "meta.json"))):
    m = json.load(open(p)); d = m.get("detected_by") or {}
    hist = d.get('history','')[:200] + (" — OBSOLETE: " + m['obsolete'][:160] if m.get('obsolete') else " — re-made after later fix: commits" if m.get('rebased') else "")
    print(f"| {m['id']} | {m['breaks_property']} | {d.get('check','?')}: {d.get('how','')[:150]} | {hist} |")
