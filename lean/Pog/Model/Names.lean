import Pog.Model.Basic
import Pog.Gen.Names
/-
  M-names: `NameSanitizer` (src/pyopenapi_gen/core/utils.py:125-268) and the enum member-name
  functions (visit/model/enum_generator.py:26-118).

  Regexes are hand-compiled to one-character-at-a-time structural automata.

  Non-ASCII behaviour of CPython (`\W`, `str.lower`, `str.upper`, `str.isdigit`) enters only
  through the record `UInfo`; theorems quantify over *every* `UInfo`, the driver receives the
  values CPython gives for the non-ASCII characters of the input from the harness.
-/
namespace Pog

/-- What CPython says about non-ASCII characters (ASCII is fixed by the model itself). -/
structure UInfo where
  word  : Char → Bool          -- `\w` (alnum or underscore) for a non-ASCII char
  digit : Char → Bool          -- `str.isdigit`
  lower : Char → Str           -- `str.lower` of a single char
  upper : Char → Str           -- `str.upper` of a single char
  isupper : Char → Bool        -- `str.isupper`

/-- The ASCII-only instance (every non-ASCII char is a non-word symbol mapped to itself). -/
def UInfo.ascii : UInfo :=
  { word := fun _ => false, digit := fun _ => false, lower := fun c => [c], upper := fun c => [c],
    isupper := fun _ => false }

def UInfo.isWord (u : UInfo) (c : Char) : Bool := if isAscii c then isIdChar c else u.word c
def UInfo.isDigit (u : UInfo) (c : Char) : Bool := if isAscii c then isDigitA c else u.digit c
def UInfo.lowerS (u : UInfo) (s : Str) : Str :=
  s.flatMap (fun c => if isAscii c then [lowerA c] else u.lower c)
def UInfo.upperS (u : UInfo) (s : Str) : Str :=
  s.flatMap (fun c => if isAscii c then [upperA c] else u.upper c)

def isKeyword (s : Str) : Bool := Gen.pyKeywords.contains s
def isReserved (s : Str) : Bool := Gen.reservedNames.contains s

/-! ### The word tokenizer `[A-Z]+(?=[A-Z][a-z])|[A-Z]?[a-z]+|[A-Z]+|[0-9]+` (re.findall) -/

inductive TokKind | none | upper | word | digit
  deriving DecidableEq, Repr

structure TokSt where
  kind : TokKind
  cur  : Str        -- current token, reversed
  out  : List Str   -- finished tokens, reversed

def TokSt.init : TokSt := ⟨.none, [], []⟩

def TokSt.flush (s : TokSt) : List Str :=
  match s.kind with
  | .none => s.out
  | _ => s.cur.reverse :: s.out

def tokStep (s : TokSt) (c : Char) : TokSt :=
  if isLowerA c then
    match s.kind with
    | .none => ⟨.word, [c], s.out⟩
    | .word => ⟨.word, c :: s.cur, s.out⟩
    | .digit => ⟨.word, [c], s.cur.reverse :: s.out⟩
    | .upper =>
      match s.cur with
      | [] => ⟨.word, [c], s.out⟩                       -- unreachable: upper state has ≥1 char
      | [u] => ⟨.word, [c, u], s.out⟩                    -- `[A-Z]?[a-z]+`
      | u :: rest => ⟨.word, [c, u], rest.reverse :: s.out⟩  -- `[A-Z]+(?=[A-Z][a-z])` then `[A-Z][a-z]+`
  else if isUpperA c then
    match s.kind with
    | .none => ⟨.upper, [c], s.out⟩
    | .upper => ⟨.upper, c :: s.cur, s.out⟩
    | _ => ⟨.upper, [c], s.cur.reverse :: s.out⟩
  else if isDigitA c then
    match s.kind with
    | .none => ⟨.digit, [c], s.out⟩
    | .digit => ⟨.digit, c :: s.cur, s.out⟩
    | _ => ⟨.digit, [c], s.cur.reverse :: s.out⟩
  else
    ⟨.none, [], s.flush⟩

/-- `re.findall(r"[A-Z]+(?=[A-Z][a-z])|[A-Z]?[a-z]+|[A-Z]+|[0-9]+", name)` -/
def tokenize (s : Str) : List Str := (s.foldl tokStep TokSt.init).flush.reverse

/-- Python `str.capitalize` on an ASCII word. -/
def capitalizeA : Str → Str
  | [] => []
  | c :: cs => upperA c :: cs.map lowerA

/-! ### `re.split(r"\W+", name)` for the module-name fallback (reached only when there is no
    ASCII alphanumeric in `name`).  Empty pieces are filtered by the caller, so we return only
    the non-empty maximal runs of word characters. -/
def splitWordRuns (u : UInfo) : Str → Str → List Str
  | [], cur => if cur.isEmpty then [] else [cur.reverse]
  | c :: cs, cur =>
    if u.isWord c then splitWordRuns u cs (c :: cur)
    else if cur.isEmpty then splitWordRuns u cs []
    else cur.reverse :: splitWordRuns u cs []

def startsWithDigit (u : UInfo) : Str → Bool
  | [] => false
  | c :: _ => u.isDigit c

/-- `NameSanitizer.sanitize_module_name` -/
def sanModule (u : UInfo) (name : Str) : Str :=
  let toks := tokenize name
  let words := if toks.isEmpty then splitWordRuns u name [] else toks
  let m := joinWith ['_'] (words.map u.lowerS)
  let m := if startsWithDigit u m then '_' :: m else m
  if isKeyword m || isReserved m then m ++ ['_'] else m

/-- `NameSanitizer.sanitize_class_name` (the fallback split can never yield a word: it is only
    reached when `name` has no ASCII alphanumeric at all). -/
def sanClassCore (name : Str) : Str :=
  let c := (tokenize name).flatMap capitalizeA
  if c.isEmpty then "UnnamedClass".toList else c

def sanClass (name : Str) : Str :=
  let c := sanClassCore name
  let c := match c with
    | d :: _ => if isDigitA d then '_' :: c else c
    | [] => c
  let l := c.map lowerA
  -- `keyword.iskeyword(cls_name.lower()) or keyword.iskeyword(cls_name) or cls_name.lower() in RESERVED_NAMES` (F28 repaired)
  if isKeyword l || isKeyword c || isReserved l then c ++ ['_'] else c

/-! ### `sanitize_method_name` as a pipeline of structural passes -/

/-- `re.sub(r"[{}]", "", name)` -/
def dropBraces (s : Str) : Str := s.filter (fun c => !(c == '{' || c == '}'))

/-- `re.sub(r"([a-z0-9])([A-Z])", r"\1_\2", name)` -/
def camelSplit1 : Option Char → Str → Str
  | _, [] => []
  | prev, c :: cs =>
    let ins := match prev with
      | some p => (isLowerA p || isDigitA p) && isUpperA c
      | none => false
    if ins then '_' :: c :: camelSplit1 (some c) cs else c :: camelSplit1 (some c) cs

/-- `re.sub(r"([A-Z]+)([A-Z][a-z])", r"\1_\2", name)`: an underscore before the last capital of
    a run of ≥ 2 capitals that is followed by a lower-case letter. -/
def camelSplit2 : Bool → Str → Str
  | _, [] => []
  | prevUpper, c :: cs =>
    let nextLower := match cs with
      | d :: _ => isLowerA d
      | [] => false
    if prevUpper && isUpperA c && nextLower then '_' :: c :: camelSplit2 false cs
    else c :: camelSplit2 (isUpperA c) cs

/-- `re.sub(r"[^0-9a-zA-Z_]", "_", name)` -/
def nonIdToUnderscore (s : Str) : Str := s.map (fun c => if isIdChar c then c else '_')

/-- `re.sub(r"_+", "_", name)` -/
def collapseUnderscores : Str → Str
  | [] => []
  | [c] => [c]
  | c :: d :: rest =>
    if c == '_' && d == '_' then collapseUnderscores (d :: rest)
    else c :: collapseUnderscores (d :: rest)

def methodCore (name : Str) : Str :=
  let s := dropBraces name
  let s := camelSplit1 none s
  let s := camelSplit2 false s
  let s := nonIdToUnderscore s
  (stripC '_' (collapseUnderscores s)).map lowerA

/-- `NameSanitizer.sanitize_method_name` -/
def sanMethod (name : Str) : Str :=
  let s := methodCore name
  let s := match s with
    | d :: _ => if isDigitA d then '_' :: s else s
    | [] => s
  if isKeyword s || isReserved s then s ++ ['_'] else s

/-! ### Tag helpers -/

/-- `re.sub(r"[\W_]+", "", tag).lower()` -/
def normTagKey (u : UInfo) (tag : Str) : Str :=
  u.lowerS (tag.filter (fun c => u.isWord c && c != '_'))

/-- `re.sub(r"[\W]+", "_", tag)` : every maximal run of non-word chars becomes one underscore. -/
def nonWordRunsToUnderscore (u : UInfo) : Bool → Str → Str
  | _, [] => []
  | inRun, c :: cs =>
    if u.isWord c then c :: nonWordRunsToUnderscore u false cs
    else if inRun then nonWordRunsToUnderscore u true cs
    else '_' :: nonWordRunsToUnderscore u true cs

/-- `NameSanitizer.sanitize_tag_attr_name` -/
def sanTagAttr (u : UInfo) (tag : Str) : Str :=
  stripC '_' (u.lowerS (nonWordRunsToUnderscore u false tag))

/-- `NameSanitizer.is_valid_python_identifier` -/
def isValidPyIdentifier (s : Str) : Bool := !isKeyword s && isPyIdent s

/-! ### `clean_auto_generated_operation_id` -/

def lowerAscii (s : Str) : Str := s.map lowerA

/-- Python `str.lower()` for the op-id cleaner: the harness only drives it with ASCII
    operation ids / methods / paths (non-ASCII is left to the oracle). -/
def cleanOpId (opId method path : Str) : Str :=
  let suf := '_' :: lowerAscii method
  if !endsWith (lowerAscii opId) suf then opId else
  let withoutMethod := opId.take (opId.length - suf.length)
  let p := stripC '/' path
  let p := dropBraces p
  let p := nonIdToUnderscore p
  let p := lowerAscii (stripC '_' (collapseUnderscores p))
  if p.isEmpty then opId else
  let psuf := '_' :: p
  if endsWith (lowerAscii withoutMethod) psuf then
    let pre := withoutMethod.take (withoutMethod.length - psuf.length)
    if pre.isEmpty then opId else pre
  else opId

/-! ### Enum member names -/

/-- `str(value).upper().replace("-", "_").replace(" ", "_")` then `re.sub(r"[^A-Z0-9_]", "", ·)` -/
def enumFilter (s : Str) : Str :=
  s.filter (fun c => isUpperA c || isDigitA c || c == '_')

def replaceChar (a : Char) (b : Str) (s : Str) : Str :=
  s.flatMap (fun c => if c == a then b else [c])

def startsDigitA : Str → Bool
  | [] => false
  | c :: _ => isDigitA c

/-- `re.match(r"^[A-Z_]", s.upper())` for an ASCII string -/
def startsUpperOrUnderscore : Str → Bool
  | [] => false
  | c :: _ => isUpperA (upperA c) || c == '_'

/-- `EnumGenerator._generate_member_name_for_string_enum`; `none` = the function raises. -/
def enumMemberStr (u : UInfo) (value : Str) : Option Str :=
  let base := replaceChar ' ' ['_'] (replaceChar '-' ['_'] (u.upperS value))
  let s := enumFilter base
  let s :=
    if s.isEmpty then
      let alnum := value.filter isAlnumA
      if alnum.isEmpty then "MEMBER_EMPTY_STRING".toList
      else
        let t := "MEMBER_".toList ++ alnum.map upperA
        if startsDigitA t then "MEMBER_".toList ++ t else t
    else if startsDigitA s then "MEMBER_".toList ++ s else s
  let s := if isKeyword (s.map lowerA) then s ++ ['_'] else s
  let s := if !startsUpperOrUnderscore s then "MEMBER_".toList ++ s else s
  match s with
  | [] => none
  | c :: cs =>
    let up := (c :: cs).map upperA
    match up with
    | [] => none
    | d :: ds => if (isUpperA d || d == '_') && ds.all (fun x => isUpperA x || isDigitA x || x == '_')
                 then some s else none

end Pog
