import Pog.Model.Annot
/-
  Lemmas about annotation formatting and its eager evaluation.
-/
namespace Pog.Annot
open Pog

theorem render_quoted (s : Str) : render (.quoted s) = ['"'] ++ s ++ ['"'] := by rw [render]
theorem render_bor (l r : Ann) : render (.bor l r) = render l ++ " | ".toList ++ render r := by rw [render]
theorem render_none : render .none_ = "None".toList := by rw [render]
theorem render_name (s : Str) : render (.name s) = s := by rw [render]

/-- The tree-level formatter renders to exactly what the text-level `_format_resolved_type` returns. -/
theorem render_quoteIfFwd (ty : Ann) (fwd : Bool) :
    render (quoteIfFwd ty fwd) =
      (if (fwd && !startsWith (render ty) ['"']) = true then ['"'] ++ render ty ++ ['"'] else render ty) := by
  unfold quoteIfFwd; split <;> simp [render_quoted]

theorem render_formatResolved (r : Resolved) :
    (formatResolved r).map render = formatText (render r.ty) r.isOptional r.isForwardRef := by
  unfold formatResolved formatText
  split
  · rfl
  · simp only [Option.map_some, Option.some.injEq]
    rw [← render_quoteIfFwd]
    split
    · rw [render_bor, render_none]; simp [orNoneTail]
    · rfl

theorem evalKind_quoted (s : Str) (h : '"' ∉ s) : evalKind (.quoted s) = some .strV := by
  rw [evalKind]
  have : s.contains '"' = false := by
    cases hc : s.contains '"' with
    | false => rfl
    | true => exact absurd (List.contains_iff_mem.mp hc) h
  rw [this]; rfl

theorem foldOr_singleton (k : Kind) : foldOr [k] = some k := rfl

theorem foldOr_snoc (ks : List Kind) (x : Kind) (h : ks ≠ []) :
    foldOr (ks ++ [x]) = (foldOr ks).bind (fun a => orKind a x) := by
  cases ks with
  | nil => exact absurd rfl h
  | cons k rest => simp only [List.cons_append, foldOr, List.foldl_append, List.foldl_cons, List.foldl_nil]

/-- a chain's value is the left fold over its operands -/
theorem evalOperands_fold (a : Ann) : (evalOperands a).bind foldOr = evalKind a := by
  cases a with
  | name s => rw [evalOperands, evalKind]; rfl
  | quoted s => rw [evalOperands, evalKind]; split <;> rfl
  | none_ => rw [evalOperands, evalKind]; rfl
  | bor l r =>
    rw [evalOperands, evalKind]
    cases evalOperands l <;> cases evalOperands r <;> rfl
  | sub h args =>
    rw [evalOperands, evalKind]
    cases subKind h args (evalKinds args) <;> rfl

theorem evalKind_bor_none (a : Ann) (k : Kind) (h : evalKind a = some k) :
    evalKind (.bor a .none_) = orKind k .noneV := by
  rw [← evalOperands_fold] at h
  cases ho : evalOperands a with
  | none => rw [ho] at h; cases h
  | some ks =>
    rw [ho] at h
    simp only [Option.bind_some] at h
    have hne : ks ≠ [] := by intro e; subst e; cases h
    rw [evalKind, ho]
    simp only [evalOperands]
    rw [foldOr_snoc ks _ hne, h]; rfl

theorem evalOK_of_kind {a : Ann} {k : Kind} (h : evalKind a = some k) : evalOK a = true := by
  simp [evalOK, h]

/-- `_format_resolved_type` keeps an evaluable annotation evaluable unless it appends `| None` to something that
    is a string literal (a quoted forward reference) or `None`. -/
theorem format_evaluable (r : Resolved) (k : Kind) (hk : evalKind r.ty = some k)
    (hq : r.isForwardRef = true → '"' ∉ render r.ty)
    (hc : r.isOptional = true → r.isForwardRef = false ∧ (k = .ty ∨ k = .alias))
    (a : Ann) (ha : formatResolved r = some a) : evalOK a = true := by
  unfold formatResolved at ha
  split at ha
  · cases ha
  · simp only [Option.some.injEq] at ha
    cases hopt : r.isOptional with
    | false =>
      simp only [hopt, Bool.false_and, Bool.false_eq_true, if_false] at ha
      subst ha
      unfold quoteIfFwd
      split
      · rename_i h1
        simp only [Bool.and_eq_true] at h1
        exact evalOK_of_kind (evalKind_quoted _ (hq h1.1))
      · exact evalOK_of_kind hk
    | true =>
      obtain ⟨hf, hk'⟩ := hc hopt
      have hqa : quoteIfFwd r.ty r.isForwardRef = r.ty := by simp [quoteIfFwd, hf]
      rw [hqa] at ha
      split at ha
      · subst ha
        rcases hk' with rfl | rfl
        · exact evalOK_of_kind (by rw [evalKind_bor_none _ _ hk]; rfl)
        · exact evalOK_of_kind (by rw [evalKind_bor_none _ _ hk]; rfl)
      · subst ha; exact evalOK_of_kind hk

/-- … and it breaks it whenever it DOES append `| None` to a string literal or to `None`. -/
theorem format_not_evaluable (r : Resolved) (k : Kind) (hk : evalKind r.ty = some k)
    (hq : r.isForwardRef = true → '"' ∉ render r.ty)
    (hopt : r.isOptional = true)
    (hbad : r.isForwardRef = true ∨ k = .strV ∨ k = .noneV)
    (hpre : startsWith (render r.ty) optionalPrefix = false)
    (hsuf : endsWith (render (quoteIfFwd r.ty r.isForwardRef)) orNoneSuffix = false) :
    ∃ a, formatResolved r = some a ∧ evalOK a = false := by
  refine ⟨.bor (quoteIfFwd r.ty r.isForwardRef) .none_, ?_, ?_⟩
  · unfold formatResolved
    simp [hpre, hopt, hsuf]
  · have hkq : ∃ k', evalKind (quoteIfFwd r.ty r.isForwardRef) = some k' ∧ (k' = .strV ∨ k' = .noneV) := by
      unfold quoteIfFwd
      split
      · rename_i h1
        simp only [Bool.and_eq_true] at h1
        exact ⟨.strV, evalKind_quoted _ (hq h1.1), Or.inl rfl⟩
      · rename_i h1
        rcases hbad with hf | hs | hn
        · -- forward ref whose text already starts with a quote: it can only be a string literal or fail
          have hst : startsWith (render r.ty) ['"'] = true := by
            simp only [hf, Bool.true_and, Bool.not_eq_true', Bool.not_eq_false] at h1
            exact h1
          have hmem : '"' ∈ render r.ty := by
            unfold startsWith at hst
            rw [List.isPrefixOf_iff_prefix] at hst
            obtain ⟨t, ht⟩ := hst
            rw [← ht]; simp
          exact absurd hmem (hq hf)
        · exact ⟨k, hk, Or.inl hs⟩
        · exact ⟨k, hk, Or.inr hn⟩
    obtain ⟨k', hk1, hk2⟩ := hkq
    unfold evalOK
    rw [evalKind_bor_none _ _ hk1]
    rcases hk2 with rfl | rfl <;> rfl

/-! ## arrays -/

theorem evalKind_list (x : Ann) (k : Kind) (h : evalKind x = some k) :
    evalKind (.sub (.name "List".toList) [x]) = some .alias := by
  have h1 : builtinHeads.contains "List".toList = false := by decide
  have h2 : typingHeads.lookup "List".toList = some (some 1) := by decide
  have h3 : ("List".toList = "Union".toList) = False := by decide
  have h4 : ("List".toList = "Optional".toList) = False := by decide
  rw [evalKind]
  simp only [evalKinds, h, subKind, h1, h2, h3, h4, Bool.false_eq_true, if_false, List.length_singleton,
    decide_true, if_true]

theorem render_list_prefix (x : Ann) :
    startsWith (render (.sub (.name "List".toList) [x])) optionalPrefix = false := by
  rw [render, render_name]
  rfl

/-- `List[<item>]` (item quoted when it is a forward reference) is evaluable, optional or not: a
    self-referencing ARRAY property is fine. -/
theorem listOf_evaluable (item : Resolved) (k : Kind) (hk : evalKind item.ty = some k)
    (hq : item.isForwardRef = true → '"' ∉ render item.ty) (required : Bool)
    (a : Ann) (ha : formatResolved (listOf item required) = some a) : evalOK a = true := by
  have hx : ∃ k', evalKind (quoteIfFwd item.ty item.isForwardRef) = some k' := by
    unfold quoteIfFwd
    split
    · rename_i h1
      simp only [Bool.and_eq_true] at h1
      exact ⟨_, evalKind_quoted _ (hq h1.1)⟩
    · exact ⟨k, hk⟩
  obtain ⟨k', hk'⟩ := hx
  refine format_evaluable (listOf item required) .alias (evalKind_list _ _ hk') ?_ ?_ a ha
  · intro h; simp [listOf] at h
  · intro _; exact ⟨rfl, Or.inr rfl⟩

end Pog.Annot
