import Pog.Lemmas.ConvRound
/-
  C16 `encode_decode`: unstructuring a well-typed value and structuring the result gives the value back
  (union-free fragment; needs the codec law).
-/
namespace Pog

/-- The statement proved by induction on the depth budget. -/
def EncDec (c : Codecs) (reg : List Str) (decls : Decls) (n : Nat) (t : Ty) (v : Val) : Prop :=
  ∃ j, unstrF c n reg decls (some t) v = .ok j ∧ structF c n decls t j = .ok v ∧ (j = .null → v = .none)

theorem mapE_encdec {ε : Type} (un : Val → Except ε JsonV) (rec : JsonV → Except SErr Val) (xs : List Val)
    (h : ∀ x ∈ xs, ∃ j, un x = .ok j ∧ rec j = .ok x) :
    ∃ js, mapE un xs = .ok js ∧ structItems rec js = (xs, []) := by
  induction xs with
  | nil => exact ⟨[], rfl, rfl⟩
  | cons x xs ih =>
    obtain ⟨j, hu, hs⟩ := h x (by simp)
    obtain ⟨js, hus, hss⟩ := ih (fun y hy => h y (by simp [hy]))
    exact ⟨j :: js, by simp [mapE, hu, hus], by simp [structItems, hs, hss]⟩

theorem mapValsE_encdec {ε : Type} (un : Val → Except ε JsonV) (rec : JsonV → Except SErr Val) (kvs : List (Str × Val))
    (h : ∀ kv ∈ kvs, ∃ j, un kv.2 = .ok j ∧ rec j = .ok kv.2) :
    ∃ js, mapValsE un kvs = .ok js ∧ structDictItems rec js = (kvs, []) ∧ akeys js = akeys kvs := by
  induction kvs with
  | nil => exact ⟨[], rfl, rfl, rfl⟩
  | cons kv rest ih =>
    obtain ⟨k, x⟩ := kv
    obtain ⟨j, hu, hs⟩ := h (k, x) (by simp)
    obtain ⟨js, hus, hss, hk⟩ := ih (fun y hy => h y (by simp [hy]))
    simp at hu hs
    refine ⟨(k, j) :: js, by simp [mapValsE, hu, hus], by simp [structDictItems, hs, hss], ?_⟩
    simp [akeys] at hk ⊢; exact hk

end Pog

namespace Pog

theorem hasTypeF_pos (c : Codecs) (decls : Decls) (n : Nat) (t : Ty) (v : Val) (h : HasTypeF c n decls t v) :
    ∃ m, n = m + 1 := by
  cases n with
  | zero => simp [HasTypeF] at h
  | succ m => exact ⟨m, rfl⟩

theorem encdec_leaf (c : Codecs) (hl : c.Lawful) (reg : List Str) (decls : Decls) (n : Nat) (l : Leaf) (v : Val)
    (h : HasTypeF c (n + 1) decls (.leaf l) v) : EncDec c reg decls (n + 1) (.leaf l) v := by
  obtain ⟨hres, h⟩ := h
  simp only [resolvable] at hres
  unfold EncDec
  cases l with
  | str =>
    obtain ⟨s, rfl⟩ := h
    exact ⟨.str s, by simp [unstrF, unstrLeaf, tbl_str.2, identityJson, Val.toJson?],
      by simp [structF, resolvable, hres, structLeaf, pyStr], by simp⟩
  | int =>
    obtain ⟨s, rfl⟩ := h
    exact ⟨.int s, by simp [unstrF, unstrLeaf, tbl_int.2, identityJson, Val.toJson?],
      by simp [structF, resolvable, hres, structLeaf, pyInt], by simp⟩
  | float =>
    obtain ⟨s, rfl⟩ := h
    exact ⟨.int s, by simp [unstrF, unstrLeaf, tbl_float.2, identityJson, Val.toJson?],
      by simp [structF, resolvable, hres, structLeaf, pyInt], by simp⟩
  | bool =>
    obtain ⟨s, rfl⟩ := h
    exact ⟨.bool s, by simp [unstrF, unstrLeaf, tbl_bool.2, identityJson, Val.toJson?],
      by simp [structF, resolvable, hres, structLeaf, pyTruthy], by simp⟩
  | bytes =>
    obtain ⟨b, rfl, s, hs⟩ := h
    exact ⟨.str (c.bytes.encode b), by simp [unstrF, unstrLeaf, tbl_bytes.2],
      by simp [structF, resolvable, hres, structLeaf, hl.1 s b hs], by simp⟩
  | datetime =>
    obtain ⟨b, rfl, s, hs⟩ := h
    exact ⟨.str (c.datetime.encode b), by simp [unstrF, unstrLeaf, unstrIso, tbl_datetime.2],
      by simp [structF, resolvable, hres, structLeaf, hl.2.1 s b hs], by simp⟩
  | date =>
    obtain ⟨b, rfl, s, hs⟩ := h
    exact ⟨.str (c.date.encode b), by simp [unstrF, unstrLeaf, unstrIso, tbl_date.2],
      by simp [structF, resolvable, hres, structLeaf, hl.2.2.1 s b hs], by simp⟩
  | time =>
    obtain ⟨b, rfl, s, hs⟩ := h
    exact ⟨.str (c.time.encode b), by simp [unstrF, unstrLeaf, unstrIso, tbl_time.2],
      by simp [structF, resolvable, hres, structLeaf, hl.2.2.2.1 s b hs], by simp⟩
  | uuid =>
    obtain ⟨b, rfl, s, hs⟩ := h
    exact ⟨.str (c.uuid.encode b), by simp [unstrF, unstrLeaf, tbl_uuid.2],
      by simp [structF, resolvable, hres, structLeaf, hl.2.2.2.2 s b hs], by simp⟩

theorem encdec_any (c : Codecs) (reg : List Str) (decls : Decls) (n : Nat) (v : Val)
    (h : HasTypeF c (n + 1) decls .any v) : EncDec c reg decls (n + 1) .any v := by
  obtain ⟨_, j, rfl, hj⟩ := h
  refine ⟨j, ?_, by simp [structF, resolvable], fun e => by subst e; rfl⟩
  simp only [unstrF]
  exact unstr_dyn_ofJson c reg decls n j hj

theorem encdec_enum (c : Codecs) (reg : List Str) (decls : Decls) (n : Nat) (name : Str) (ms : List JsonV) (v : Val)
    (h : HasTypeF c (n + 1) decls (.enum name ms) v) : EncDec c reg decls (n + 1) (.enum name ms) v := by
  obtain ⟨_, m, rfl, hok, hmem⟩ := h
  refine ⟨m, ?_, by simp [structF, resolvable, enumLookup_self ms m hok hmem], ?_⟩
  · simp only [unstrF]; split <;> simp [identityJson, Val.toJson?]
  · intro e; subst e
    have hmem' : JsonV.null ∈ ms := by simpa using hmem
    simp only [enumOk, Bool.or_eq_true, List.all_eq_true] at hok
    rcases hok with h | h <;> simpa [JsonV.isStr, JsonV.isInt] using h _ hmem'

theorem encdec_list (c : Codecs) (reg : List Str) (decls : Decls) (n : Nat) (t : Ty) (v : Val)
    (ih : ∀ t v, HasTypeF c n decls t v → EncDec c reg decls n t v)
    (h : HasTypeF c (n + 1) decls (.list t) v) : EncDec c reg decls (n + 1) (.list t) v := by
  obtain ⟨hres, xs, rfl, hx⟩ := h
  simp only [resolvable] at hres
  obtain ⟨js, hu, hs⟩ := mapE_encdec (unstrF c n reg decls (some t)) (structF c n decls t) xs
    (fun x hxm => by obtain ⟨j, h1, h2, _⟩ := ih t x (hx x hxm); exact ⟨j, h1, h2⟩)
  refine ⟨.arr js, by simp [unstrF, hu, Except.map], ?_, by simp⟩
  rw [structF_list]; simp [hres, structList, hs]

theorem encdec_dict (c : Codecs) (reg : List Str) (decls : Decls) (n : Nat) (t : Ty) (v : Val)
    (ih : ∀ t v, HasTypeF c n decls t v → EncDec c reg decls n t v)
    (h : HasTypeF c (n + 1) decls (.dict t) v) : EncDec c reg decls (n + 1) (.dict t) v := by
  obtain ⟨hres, kvs, rfl, hnd, hx⟩ := h
  simp only [resolvable] at hres
  obtain ⟨js, hu, hs, hk⟩ := mapValsE_encdec (unstrF c n reg decls (some t)) (structF c n decls t) kvs
    (fun x hxm => by obtain ⟨j, h1, h2, _⟩ := ih t x.2 (hx x hxm); exact ⟨j, h1, h2⟩)
  refine ⟨.obj js, by simp [unstrF, hu, Except.map], ?_, by simp⟩
  rw [structF_dict]; simp [hres, structDict, hs, aofPairs_of_nodup kvs hnd]

end Pog

namespace Pog

/-- A well-typed `dict[str, Any]` value is JSON-shaped, and unstructures to that JSON. -/
theorem hasType_dictAny (c : Codecs) (reg : List Str) (decls : Decls) (n : Nat) (v : Val)
    (h : HasTypeF c n decls (.dict .any) v) (j : JsonV) (hu : unstrF c n reg decls (some (.dict .any)) v = .ok j) :
    isObj j = true ∧ v = Val.ofJson j := by
  obtain ⟨m, rfl⟩ := hasTypeF_pos c decls n _ v h
  obtain ⟨_, kvs, rfl, _, hx⟩ := h
  have key : ∀ (l : List (Str × Val)), (∀ kv ∈ l, HasTypeF c m decls .any kv.2) →
      ∃ js, mapValsE (unstrF c m reg decls (some .any)) l = .ok js ∧ l = Val.ofJsonKvs js := by
    intro l
    induction l with
    | nil => intro _; exact ⟨[], rfl, rfl⟩
    | cons kv rest ih =>
      intro hl
      obtain ⟨k, x⟩ := kv
      have hx0 := hl (k, x) (by simp)
      obtain ⟨m', rfl⟩ := hasTypeF_pos c decls m _ _ hx0
      obtain ⟨_, jx, hjx, hfit⟩ := hx0
      simp at hjx
      obtain ⟨js, h1, h2⟩ := ih (fun y hy => hl y (by simp [hy]))
      have hux : unstrF c (m' + 1) reg decls (some .any) x = .ok jx := by
        rw [hjx]; simp only [unstrF]; exact unstr_dyn_ofJson c reg decls m' jx hfit
      exact ⟨(k, jx) :: js, by simp [mapValsE, hux, h1], by simp [Val.ofJsonKvs, hjx, ← h2]⟩
  obtain ⟨js, h1, h2⟩ := key kvs hx
  simp only [unstrF, h1, Except.map, Except.ok.injEq] at hu
  subst hu
  exact ⟨rfl, by simp [Val.ofJson, ← h2]⟩

theorem unstrF_dc_isObj (c : Codecs) (reg : List Str) (decls : Decls) (n : Nat) (name : Str) (v : Val) (j : JsonV)
    (h : unstrF c n reg decls (some (.dc name)) v = .ok j) : isObj j = true := by
  cases n with
  | zero => simp [unstrF] at h
  | succ m =>
    simp only [unstrF] at h
    split at h
    · cases h
    · rename_i cd _
      generalize unstrFields (fun ft fv => unstrF c m reg decls (some ft) fv) cd (reg.contains name) v.attrs cd.fields = r at h
      cases r with
      | error e => simp [Except.map] at h
      | ok kvs => simp [Except.map] at h; subst h; rfl

theorem encdec_optional (c : Codecs) (reg : List Str) (decls : Decls) (n : Nat) (t : Ty) (v : Val)
    (ih : ∀ t v, HasTypeF c n decls t v → EncDec c reg decls n t v)
    (h : HasTypeF c (n + 1) decls (.optional t) v) : EncDec c reg decls (n + 1) (.optional t) v := by
  obtain ⟨_, h⟩ := h
  rcases h with rfl | ⟨hvn, ht⟩
  · exact ⟨.null, by simp [unstrF], by rw [structF_optional, structUnion_optional_null], fun _ => rfl⟩
  · obtain ⟨j, hu, hs, hnull⟩ := ih t v ht
    have hj : j ≠ .null := fun e => hvn (hnull e)
    have hnt : isNoneTy t = false := by
      obtain ⟨m, rfl⟩ := hasTypeF_pos c decls n _ v ht
      cases t <;> simp_all [isNoneTy, HasTypeF, resolvable]
    refine ⟨j, ?_, ?_, fun e => absurd e hj⟩
    · simp only [unstrF]
      cases v with
      | none => exact absurd rfl hvn
      | _ => simp [hu]
    · rw [structF_optional]
      apply structUnion_optional_ok _ t j v hj hs hnt
      · intro hdc
        cases t with
        | dc name => exact unstrF_dc_isObj c reg decls n name v j hu
        | _ => simp [isDcTy] at hdc
      · intro hda
        have := isDictAny_eq t hda
        subst this
        exact hasType_dictAny c reg decls n v ht j hu

end Pog

namespace Pog

theorem encdec_dc (c : Codecs) (reg : List Str) (decls : Decls) (hwf : declsOk decls = true)
    (hreg : allRegistered reg decls = true) (n : Nat) (name : Str) (v : Val)
    (ih : ∀ t v, HasTypeF c n decls t v → EncDec c reg decls n t v)
    (h : HasTypeF c (n + 1) decls (.dc name) v) : EncDec c reg decls (n + 1) (.dc name) v := by
  obtain ⟨_, cd, hcd, hres, fv, rfl, hfields⟩ := h
  have hok := declsOk_get decls name cd hwf hcd
  have hrg := allRegistered_get reg decls name cd hreg hcd
  simp only [classOk, Bool.and_eq_true, decide_eq_true_eq, List.all_eq_true, beq_iff_eq] at hok
  obtain ⟨⟨hpn, hlk⟩, hld⟩ := hok
  -- the JSON of every field
  let fj : Field → JsonV := fun f =>
    match unstrF c n reg decls (some f.ty) (fv f) with
    | .ok j => j
    | .error _ => .null
  have hfj : ∀ f ∈ cd.fields, unstrF c n reg decls (some f.ty) (fv f) = .ok (fj f)
      ∧ structF c n decls f.ty (fj f) = .ok (fv f) := by
    intro f hf
    obtain ⟨j, hu, hs, _⟩ := ih f.ty (fv f) (hfields f hf)
    simp only [fj, hu]
    exact ⟨trivial, hs⟩
  have hU : unstrFields (fun ft v => unstrF c n reg decls (some ft) v) cd true
      (cd.fields.map (fun f => (f.pyName, fv f))) cd.fields
      = .ok (cd.fields.map (fun f => (dumpKey cd f, fj f))) :=
    unstrFields_ok cd _ fv fj cd.fields
      (fun f hf => aget_map_of_nodup cd.fields Field.pyName fv hpn f hf) (fun f hf => (hfj f hf).1)
  have hdk : (cd.fields.map (dumpKey cd)).Nodup := by
    have : cd.fields.map (dumpKey cd) = cd.fields.map (loadKey cd) :=
      List.map_congr_left (fun f hf => (hld f hf).symm)
    rw [this]; exact hlk
  have hkeys : akeys (cd.fields.map (fun f => (dumpKey cd f, fj f))) = cd.fields.map (dumpKey cd) := by
    simp [akeys, List.map_map, Function.comp_def]
  have hS : structFields (structF c n decls) cd (.obj (cd.fields.map (fun f => (dumpKey cd f, fj f)))) cd.fields
      = some (cd.fields.map (fun f => (f.pyName, fv f)), []) := by
    apply structFields_ok
    intro f hf
    have hget : aget (cd.fields.map (fun f => (dumpKey cd f, fj f))) (loadKey cd f) = some (fj f) := by
      rw [hld f hf]; exact aget_map_of_nodup cd.fields (dumpKey cd) fj hdk f hf
    rw [hget]
    exact (hfj f hf).2
  refine ⟨.obj (cd.fields.map (fun f => (dumpKey cd f, fj f))), ?_, ?_, by simp⟩
  · simp only [unstrF, hcd, Val.attrs, hrg, hU, Except.map]
    rw [aofPairs_of_nodup _ (hkeys ▸ hdk)]
  · rw [structF_dc]
    have hres' : cd.fields.all (fun f => resolvable f.ty) = true := by
      simp only [List.all_eq_true]; exact hres
    simp [structClass, hcd, hres', hS]

/-- C16 `encode_decode`, the induction. -/
theorem encdec_core (c : Codecs) (hl : c.Lawful) (reg : List Str) (decls : Decls) (hwf : declsOk decls = true)
    (hreg : allRegistered reg decls = true) :
    ∀ n t v, HasTypeF c n decls t v → EncDec c reg decls n t v := by
  intro n
  induction n with
  | zero => intro t v h; simp [HasTypeF] at h
  | succ n ih =>
    intro t v h
    cases t with
    | leaf l => exact encdec_leaf c hl reg decls n l v h
    | any => exact encdec_any c reg decls n v h
    | none => exact absurd h.2 (by simp)
    | fwd _ => exact absurd h.2 (by simp)
    | union _ _ => exact absurd h.2 (by simp)
    | list t' => exact encdec_list c reg decls n t' v ih h
    | dict t' => exact encdec_dict c reg decls n t' v ih h
    | optional t' => exact encdec_optional c reg decls n t' v ih h
    | enum name ms => exact encdec_enum c reg decls n name ms v h
    | dc name => exact encdec_dc c reg decls hwf hreg n name v ih h

end Pog

namespace Pog

/-! ## the executable codecs are lawful -/

theorem isoDateValid_length (t : Str) (h : isoDateValid t = true) : t.length = 10 := by
  unfold isoDateValid at h
  split at h
  · rfl
  · cases h

theorem replaceZ_of_not_mem (u : Str) (hu : 'Z' ∉ u) : replaceZ u = u := by
  induction u with
  | nil => rfl
  | cons x xs ih =>
    simp only [List.mem_cons, not_or] at hu
    have hx : (x == 'Z') = false := by
      cases hxe : (x == 'Z') with
      | false => rfl
      | true => exact absurd (by simpa using hxe : x = 'Z').symm hu.1
    have ih' := ih hu.2
    unfold replaceZ at ih' ⊢
    rw [List.flatMap_cons, hx, ih']
    rfl

theorem not_mem_replaceZ (s : Str) : 'Z' ∉ replaceZ s := by
  unfold replaceZ
  intro h
  obtain ⟨x, _, hx⟩ := List.mem_flatMap.mp h
  by_cases hxz : (x == 'Z') = true
  · rw [if_pos hxz] at hx; revert hx; decide
  · rw [if_neg hxz] at hx
    have : 'Z' = x := by simpa using hx
    exact hxz (by simp [← this])

theorem dt_lawful : Codecs.exec.datetime.Lawful := by
  intro s v h
  simp only [Codecs.exec] at h ⊢
  have hnz := not_mem_replaceZ s
  by_cases hd : isoDateValid (replaceZ s) = true
  · rw [if_pos hd] at h
    cases h
    have hlen := isoDateValid_length _ hd
    have h1 : 'Z' ∉ replaceZ s ++ "T00:00:00".toList := by
      intro hm
      rcases List.mem_append.mp hm with hm | hm
      · exact hnz hm
      · revert hm; decide
    simp only [id, replaceZ_of_not_mem _ h1]
    have hnd : isoDateValid (replaceZ s ++ "T00:00:00".toList) = false := by
      cases hv : isoDateValid (replaceZ s ++ "T00:00:00".toList) with
      | false => rfl
      | true =>
        have := isoDateValid_length _ hv
        simp [hlen] at this
    have hdt : isoDateTimeValid (replaceZ s ++ "T00:00:00".toList) = true := by
      unfold isoDateTimeValid
      have e1 : (replaceZ s ++ "T00:00:00".toList).take 10 = replaceZ s := by
        rw [List.take_append_of_le_length (by omega)]; exact List.take_of_length_le (by omega)
      have e2 : (replaceZ s ++ "T00:00:00".toList).drop 10 = "T00:00:00".toList := by
        rw [List.drop_append_of_le_length (by omega)]; simp [List.drop_of_length_le (Nat.le_of_eq hlen)]
      have e3 : (replaceZ s ++ "T00:00:00".toList).drop 11 = "00:00:00".toList := by
        have : (11 : Nat) = 10 + 1 := rfl
        rw [this, ← List.drop_drop, e2]; rfl
      have e4 : (replaceZ s ++ "T00:00:00".toList).drop 19 = [] := by
        have : (19 : Nat) = 10 + 9 := rfl
        rw [this, ← List.drop_drop, e2]; rfl
      rw [e1, e2, e3, e4, hd]
      decide
    rw [if_neg (by rw [hnd]; exact Bool.false_ne_true), if_pos hdt]
  · rw [if_neg hd] at h
    by_cases hdt : isoDateTimeValid (replaceZ s) = true
    · rw [if_pos hdt] at h
      cases h
      simp only [id, replaceZ_of_not_mem _ hnz]
      rw [if_neg hd, if_pos hdt]
    · rw [if_neg hdt] at h; cases h


theorem bytes_lawful : Codecs.exec.bytes.Lawful := by
  intro s v h
  simp only [Codecs.exec] at h ⊢
  by_cases hc : (s.all isAscii && b64Canonical (b64Filter s)) = true
  · rw [if_pos hc] at h
    cases h
    simp only [Bool.and_eq_true] at hc
    have hf : b64Filter (b64Filter s) = b64Filter s := by simp [b64Filter, List.filter_filter]
    have ha : (b64Filter s).all isAscii = true := by
      simp only [List.all_eq_true, b64Filter, List.mem_filter]
      intro x hx
      exact (List.all_eq_true.mp hc.1) x hx.1
    simp only [id, hf, ha, hc.2, Bool.and_self, if_true]
  · rw [if_neg hc] at h; cases h

theorem date_lawful : Codecs.exec.date.Lawful := by
  intro s v h
  simp only [Codecs.exec] at h ⊢
  by_cases hd : isoDateValid s = true
  · rw [if_pos hd] at h; cases h; simp only [id, hd, if_true]
  · rw [if_neg hd] at h; cases h

theorem time_lawful : Codecs.exec.time.Lawful := by
  intro s v h
  simp only [Codecs.exec] at h ⊢
  have hnz := not_mem_replaceZ s
  by_cases ht : isoTimeValid (replaceZ s) = true
  · rw [if_pos ht] at h
    cases h
    simp only [id, replaceZ_of_not_mem _ hnz]
    rw [if_pos ht]
  · rw [if_neg ht] at h; cases h

theorem uuid_lawful : Codecs.exec.uuid.Lawful := by
  intro s v h
  simp only [Codecs.exec] at h ⊢
  by_cases hd : uuidCanonical s = true
  · rw [if_pos hd] at h; cases h; simp only [id, hd, if_true]
  · rw [if_neg hd] at h; cases h

theorem exec_lawful : Codecs.exec.Lawful := ⟨bytes_lawful, dt_lawful, date_lawful, time_lawful, uuid_lawful⟩

end Pog

