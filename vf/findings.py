"""Known findings: genuine defects of the unchanged tree that are recorded, not repaired.

known_findings.json is committed and never written at run time.  A failure is "known" only when the
oracle that found it attributes it to a listed finding id (call site + input feature); anything else
is reported as a VIOLATION.  Every listed open finding is replayed on each run: while its witness still
fails the check prints `KNOWN-FINDING: property=<id> <fid> <what>`.
"""
from __future__ import annotations

import json
import re

from .common import VERIF, Run


def load() -> dict:
    p = VERIF / "known_findings.json"
    if not p.exists():
        return {"findings": [], "fixed": []}
    return json.loads(p.read_text())


class Known:
    def __init__(self, run: Run, prop: str):
        self.run = run
        self.prop = prop
        self.entries = {f["id"]: f for f in load().get("findings", []) if prop in f.get("properties", [f.get("property")])
                        and f.get("status", "open") == "open"}
        self.hits: dict[str, int] = {}

    def listed(self, fid: str) -> bool:
        return fid in self.entries

    def hit(self, fid: str, case, what: str = "") -> bool:
        """Record that the oracle found a failure attributed to finding `fid`.
        Returns True if it is a listed known finding (suppressed), False after reporting a violation."""
        if fid in self.entries:
            self.hits[fid] = self.hits.get(fid, 0) + 1
            if self.hits[fid] == 1:
                self.run.known(fid, self.entries[fid]["what"])
                self.run.cov.setdefault("known_finding_examples", {})[fid] = case
            return True
        self.run.violation("input", case, what=what or f"failure of class {fid} which is not a listed known finding")
        return False

    def replay_witnesses(self, fails) -> None:
        """`fails(fid, witness) -> bool | None` replays the stored witness on the implementation."""
        rep = {}
        for fid, e in self.entries.items():
            try:
                res = fails(fid, e.get("witness"))
            except Exception as ex:  # the witness must stay replayable
                res = None
                self.run.notes.append(f"witness replay of {fid} raised {type(ex).__name__}: {ex}")
            rep[fid] = res
            if res:
                self.run.known(fid, e["what"])
        self.run.cov["known_findings_replayed"] = rep

    def report_unreplayed(self) -> None:
        self.run.cov["known_finding_hits"] = dict(self.hits)
