#!/venv/bin/python
"""Loader — correspondence and oracle for the Lean model `Pog.Loader` (Pog/Model/Loader.lean).

run():    seeded random ONE-OPERATION documents (0-4 parameters inline / `$ref` to components incl. dangling, falsy and
          non-mapping targets, path-level ones; request bodies inline / `$ref`; 1-4 responses with keys from
          {200,201,204,2XX,404,500,default, int keys}, inline / `$ref` to a component response used under several keys /
          `$ref` to a schema / non-mapping nodes; content with 0-3 media types from a pool incl. stream types in mixed case,
          `$ref` media nodes, schema-less media nodes, `format: binary`, wrong-shaped nodes) -> the REAL
          `parse_operations` with spies on `_parse_schema` in the three loader modules that bind it by name (the spy
          calls through and records `(name, node)` and the bits of the result the loader reads back) and a recording
          `parsed_schemas` dict (enum registrations of `parse_parameter`, registry writes of `post_process_operation`)
          vs the compiled Lean driver (`loaderParseOp`) which gets the recorded results as its oracle table.  Compared:
          the warning text when the operation is dropped, otherwise parameters (name / in / required / schema kind and
          request), request body, responses (status, content keys in order with the request of each, stream,
          stream_format), the ordered event list, and the names / registry writes of the post-processor.
oracle(): the properties themselves on the real loader, no Lean:
            1  status codes of a parsed operation = keys of its `responses` mapping, in order
            3  `stream` iff a lower-cased media type is in STREAM_FORMATS (table read with `ast`) or a content schema has
               format binary; the flag is the same for every permutation of the content mapping
            5  parameters = the path-level ones no operation-level parameter overrides (same name and `in`), then the
               operation-level ones, in order (F4 repaired); no (name, in) twice when neither declared list has one twice
          and, as EXPECTED defect classes (counterexample theorems):
            LOADER-STREAM-FORMAT-ORDER      `stream_format` depends on the order of the content mapping
            LOADER-PROMO-NAME-COLLISION     two different inline schemas of one operation are requested under one name
            LOADER-POST-NAME-OVERWRITE      `post_process_operation` gives one name to two different schemas
Importable: no work and no `pyopenapi_gen` import at module import time.
"""
from __future__ import annotations

import ast
import contextlib
import copy
import json
import os
import random
import re
import shutil
import subprocess
import sys
import tempfile

HERE = os.path.dirname(os.path.abspath(__file__))
DEFAULT_DRIVER = os.path.join(HERE, ".lake", "build", "bin", "driver")

RULE = (
    "one-operation documents: operationId from a pool (rarely '' = a derived id), 0-2 path-level and 0-3 operation-level parameters "
    "(in 45% of the documents with path-level parameters one of them is repeated at operation level: same name and `in`, the "
    "default location written on one side only, a key that is only `==` (True / 1), the same `$ref`, or a near miss in another location) "
    "(inline with str / odd / missing names, `in`, `required` of several truthinesses, schemas from a pool with inline "
    "objects, compositions, `$ref`, string-enum arrays with list / str / wrong-typed enums, empty and non-mapping schemas; "
    "`$ref` to components.parameters entries that are nodes, falsy, non-mappings or missing; non-mapping nodes), an optional "
    "request body (inline, `$ref` to components.requestBodies incl. falsy / non-mapping / missing, wrong-shaped content and "
    "media nodes), 1-4 responses under keys from {200,201,204,2XX,404,500,default} or int keys, each inline (0-3 media types "
    "from a pool with stream types in mixed and non-ASCII case; media nodes with schema / schema `$ref` / foreign `$ref` / "
    "non-str `$ref` / nothing / not a mapping), `$ref` to a component response (shared by several keys, dangling with and "
    "without sibling content, falsy, non-mapping), `$ref` to a schema, or a non-mapping.  A case is NON-TRIVIAL when the "
    "real loader kept the operation and made at least one `_parse_schema` call or enum registration."
)

OPIDS = ["getUser", "listPets", "op", "create_item", "a", "a2", "getUser200", "GET_x", "x-y", ""]
KEYS = ["200", "201", "204", "2XX", "404", "500", "default"]
MEDIA = ["application/json", "application/xml", "text/plain", "application/octet-stream", "Application/Octet-Stream",
         "TEXT/EVENT-STREAM", "text/event-stream", "application/x-ndjson", "application/json-seq", "multipart/mixed",
         "Multipart/Mixed", "image/png", "application/pdf", "application/vnd.api+json", "İ/x", "TEXT/EVENT-STREAM ",
         "APPLICATION/X-NDJSON"]
PNAMES = ["userId", "user_id", "a-b", "a_b", "X-Request-ID", "filter[name]", "limit", "q", "123", "class", "é", "Status",
          "status", "id", "ID"]
SCHEMAS = {
    "Pet": {"type": "object", "properties": {"id": {"type": "integer"}, "name": {"type": "string"}}},
    "Blob": {"type": "string", "format": "binary"},
    "Err": {"type": "object", "properties": {"message": {"type": "string"}}, "additionalProperties": True},
    "Tags": {"type": "array", "items": {"type": "string"}},
    "Bag": {"type": "object", "additionalProperties": {"type": "string"}},
}


# ------------------------------------------------------------------------------------------------ infrastructure
@contextlib.contextmanager
def _quiet():
    import logging
    base = os.environ.get("VERIF_SCRATCH_DIR", "/tmp")
    os.makedirs(base, exist_ok=True)
    d = tempfile.mkdtemp(prefix="corr_loader_", dir=base)
    old_env, old_td = os.environ.get("TMPDIR"), tempfile.tempdir
    os.environ["TMPDIR"] = d
    tempfile.tempdir = d
    old_disable = logging.root.manager.disable
    logging.disable(logging.CRITICAL)
    try:
        yield d
    finally:
        logging.disable(old_disable)
        tempfile.tempdir = old_td
        if old_env is None:
            os.environ.pop("TMPDIR", None)
        else:
            os.environ["TMPDIR"] = old_env
        shutil.rmtree(d, ignore_errors=True)


def _uinfo(strings) -> dict:
    tbl = {}
    for s in strings:
        for c in s:
            if ord(c) >= 128 and str(ord(c)) not in tbl:
                tbl[str(ord(c))] = {"w": bool(re.match(r"\w", c)), "d": c.isdigit(), "l": c.lower(), "U": c.upper(),
                                    "iu": c.isupper()}
    return tbl


def _strings_of(x, acc):
    if isinstance(x, str):
        acc.append(x)
    elif isinstance(x, dict):
        for k, v in x.items():
            _strings_of(k, acc)
            _strings_of(v, acc)
    elif isinstance(x, (list, tuple)):
        for v in x:
            _strings_of(v, acc)
    return acc


def _driver_batch(driver: str, reqs: list) -> list:
    if not reqs:
        return []
    out = []
    for i in range(0, len(reqs), 3000):
        chunk = reqs[i:i + 3000]
        for r in chunk:
            u = _uinfo(_strings_of(r["a"], []))
            if u:
                r["u"] = u
        data = "\n".join(json.dumps(r, ensure_ascii=True) for r in chunk) + "\n"
        p = subprocess.run([driver], input=data, capture_output=True, text=True, timeout=900)
        if p.returncode != 0:
            raise RuntimeError(f"driver exited {p.returncode}: {p.stderr[-1000:]}")
        lines = [ln for ln in p.stdout.split("\n") if ln != ""]
        if len(lines) != len(chunk):
            raise RuntimeError(f"driver answered {len(lines)} lines for {len(chunk)} requests")
        out += [json.loads(ln) for ln in lines]
    return out


def enc(x):
    """python value -> the driver's node encoding (objects keep their key order)."""
    if isinstance(x, dict):
        return {"o": [[k, enc(v)] for k, v in x.items()]}
    if isinstance(x, (list, tuple)):
        return [enc(v) for v in x]
    return x


def _stream_table() -> dict:
    """STREAM_FORMATS read with `ast` from the source of the installed package (never by running the function)."""
    import importlib.util
    spec = importlib.util.find_spec("pyopenapi_gen")
    root = os.path.dirname(spec.origin)
    src = open(os.path.join(root, "core", "loader", "responses", "parser.py"), encoding="utf-8").read()
    for n in ast.walk(ast.parse(src)):
        if isinstance(n, ast.Assign) and len(n.targets) == 1 and isinstance(n.targets[0], ast.Name) \
                and n.targets[0].id == "STREAM_FORMATS":
            return ast.literal_eval(n.value)
    raise RuntimeError("STREAM_FORMATS not found")


# ------------------------------------------------------------------------------------------------ the real loader, spied
class _RecDict(dict):
    """`context.parsed_schemas` that records who looks at / writes it (only the two callers the model covers)."""

    def __init__(self, log):
        super().__init__()
        self._log = log

    def __contains__(self, k):
        fn = sys._getframe(1).f_code.co_name
        if fn in ("parse_parameter", "post_process_operation"):
            self._log.append(("contains", fn, k))
        return super().__contains__(k)

    def __setitem__(self, k, v):
        fn = sys._getframe(1).f_code.co_name
        if fn in ("parse_parameter", "post_process_operation"):
            self._log.append(("set", fn, k))
        super().__setitem__(k, v)


def _bits(r) -> dict:
    return {"binary": getattr(r, "format", None) == "binary", "name": getattr(r, "name", None),
            "unresolved": bool(getattr(r, "_from_unresolved_ref", False)),
            "objProps": getattr(r, "type", None) == "object"
            and bool(getattr(r, "properties", None) or getattr(r, "additional_properties", None))}


def _doc_of(case: dict):
    op: dict = {"operationId": case["opId"]}
    if case["params"] or case.get("paramsKey"):
        op["parameters"] = copy.deepcopy(case["params"])
    if case["rb"]:
        op["requestBody"] = copy.deepcopy(case["rb"][0])
    if case["responses"] or case.get("responsesKey"):
        op["responses"] = {k: copy.deepcopy(v) for k, v in case["responses"]}
    item: dict = {}
    if case["pathParams"] or case.get("pathParamsKey"):
        item["parameters"] = copy.deepcopy(case["pathParams"])
    item[case.get("method", "get")] = op
    comps = {"schemas": copy.deepcopy(SCHEMAS),
             "parameters": dict((k, copy.deepcopy(v)) for k, v in case["comps"]["parameters"]),
             "responses": dict((k, copy.deepcopy(v)) for k, v in case["comps"]["responses"]),
             "requestBodies": dict((k, copy.deepcopy(v)) for k, v in case["comps"]["requestBodies"])}
    return {"/x": item}, comps


def _real(case: dict) -> dict:
    """Run the REAL `parse_operations` on the one-operation document of `case`.
    -> {"oracle": [[name, node, out|None]…], "oracle_conflict": bool, "result": {…same shape as the driver's reply…},
        "op": IROperation|None}"""
    import warnings

    import pyopenapi_gen.core.loader.operations.parser as opp
    import pyopenapi_gen.core.loader.operations.request_body as rbm
    import pyopenapi_gen.core.loader.parameters.parser as pam
    import pyopenapi_gen.core.loader.responses.parser as rsm
    from pyopenapi_gen.core.parsing.context import ParsingContext

    paths, comps = _doc_of(case)
    log: list = []          # ("parse", tag, name, node_enc, result|None) | ("contains"/"set", fn, key)
    state = {"schemaRaised": False, "snap": None}
    ctx = ParsingContext(raw_spec_schemas=comps["schemas"], raw_spec_components=comps, parsed_schemas=_RecDict(log))

    def spy(tag, real):
        def w(name, node, context, *a, **k):
            node_enc = enc(copy.deepcopy(node))
            try:
                r = real(name, node, context, *a, **k)
            except Exception:
                log.append(("parse", tag, name, node_enc, None))
                state["schemaRaised"] = True
                raise
            log.append(("parse", tag, name, node_enc, r))
            return r
        return w

    real_pp = opp.post_process_operation

    def pp_spy(op, context):
        # what the post-processor is about to read
        state["snap"] = [(_bits(e[4]) if e[0] == "parse" and e[4] is not None else None) for e in log]
        return real_pp(op, context)

    param_calls: list = []      # (IRParameter returned, index of its first `_parse_schema` call among the "param" calls, index after its last)

    def pp_param_spy(real):
        def w(*a, **k):
            start = sum(1 for e in log if e[0] == "parse" and e[1] == "param")
            res_ = real(*a, **k)
            param_calls.append((res_, start, sum(1 for e in log if e[0] == "parse" and e[1] == "param")))
            return res_
        return w

    saved = (pam._parse_schema, rbm._parse_schema, rsm._parse_schema, opp.post_process_operation, opp.parse_parameter)
    try:
        pam._parse_schema = spy("param", saved[0])
        rbm._parse_schema = spy("rb", saved[1])
        rsm._parse_schema = spy("resp", saved[2])
        opp.post_process_operation = pp_spy
        opp.parse_parameter = pp_param_spy(saved[4])
        with warnings.catch_warnings(record=True) as ws:
            warnings.simplefilter("always")
            ops = opp.parse_operations(paths, comps["parameters"], comps["responses"], comps["requestBodies"], ctx)
    finally:
        pam._parse_schema, rbm._parse_schema, rsm._parse_schema, opp.post_process_operation, opp.parse_parameter = saved
    msgs = [str(w.message) for w in ws if str(w.message).startswith("Skipping operation parsing for ")]

    # the oracle table: what each request returned (bits as the post-processor saw them; `binary` never changes)
    parse_idx = [i for i, e in enumerate(log) if e[0] == "parse"]
    snap = state["snap"]
    rows: list = []
    conflict = False
    for i in parse_idx:
        e = log[i]
        out = None if e[4] is None else (snap[i] if snap is not None and i < len(snap) and snap[i] is not None else _bits(e[4]))
        row = [e[2], e[3], out]
        for old in rows:
            if old[0] == row[0] and old[1] == row[1] and old[2] != row[2]:
                conflict = True
        if not any(old[0] == row[0] and old[1] == row[1] for old in rows):
            rows.append(row)

    if not ops:
        msg = msgs[0].split(": ", 1)[1] if msgs else "<no operation and no warning>"
        res = {"error": "<_parse_schema raised>" if state["schemaRaised"] else msg, "schemaRaised": state["schemaRaised"]}
        return {"oracle": rows, "oracle_conflict": conflict, "result": res, "op": None}

    op = ops[0]
    events = []
    for e in log:
        if e[0] == "parse":
            events.append(["parse", e[2], e[3]])
        elif e[0] == "contains" and e[1] == "parse_parameter":
            events.append(["regEnum", e[2]])
    post_events = []
    prev = None
    for e in log:
        if e[0] in ("contains", "set") and e[1] == "post_process_operation":
            if e[0] == "contains":
                post_events.append(["ifAbsent", e[2]])
            elif not (prev is not None and prev[0] == "contains" and prev[1] == e[1] and prev[2] == e[2]):
                post_events.append(["set", e[2]])
        prev = e

    by_tag = {t: [e for e in log if e[0] == "parse" and e[1] == t] for t in ("param", "rb", "resp")}
    ptr = {"param": 0, "rb": 0, "resp": 0}

    def take(tag, obj):
        lst = by_tag[tag]
        if ptr[tag] < len(lst) and lst[ptr[tag]][4] is obj:
            e = lst[ptr[tag]]
            ptr[tag] += 1
            return [e[2], e[3]]
        return None

    def take_param(p):
        # the `_parse_schema` call made by the `parse_parameter` call that RETURNED this very IRParameter (the calls made for a
        # path-level parameter that an operation-level one overrides have no parameter in the result; they stay in `events`)
        for obj, start, end in param_calls:
            if obj is p:
                if end > start and by_tag["param"][start][4] is p.schema:
                    e = by_tag["param"][start]
                    return [e[2], e[3]]
                return None
        return None

    params = []
    for p in op.parameters:
        req = take_param(p)
        if req is not None:
            sch = {"kind": "parsed", "req": req}
        elif p.schema.type == "array" and p.schema.items is not None:
            sch = {"kind": "enumArray", "key": p.schema.items.generation_name, "item": p.schema.items.name}
        else:
            sch = {"kind": "blank"}
        params.append({"name": enc(p.name), "in": enc(p.param_in), "required": p.required, "schema": sch})
    body = None
    body_names = []
    if op.request_body is not None:
        body = {"required": op.request_body.required,
                "content": [[mt, take("rb", s)] for mt, s in op.request_body.content.items()]}
        body_names = [[mt, s.name] for mt, s in op.request_body.content.items()]
    resps = []
    resp_names = []
    for r in op.responses:
        resps.append({"status": r.status_code, "content": [[mt, take("resp", s)] for mt, s in r.content.items()],
                      "stream": r.stream, "format": r.stream_format})
        resp_names.append([r.status_code, [[mt, s.name] for mt, s in r.content.items()]])
    res = {"error": None, "schemaRaised": False, "params": params, "body": body, "responses": resps, "events": events,
           "post": {"bodyNames": body_names, "respNames": resp_names, "events": post_events}}
    return {"oracle": rows, "oracle_conflict": conflict, "result": res, "op": op}


def _effective_op_id(case: dict) -> str:
    """The id `parse_operations` hands to the parameter / request-body / response parsers (operations/parser.py:83-91, default
    strategy): the declared operationId, or - when it is absent or EMPTY (F44 repaired) - the id derived from method and path
    (`Pog.Ops.chooseOpId`; the document of `_doc_of` has the single path `/x`)."""
    if case["opId"]:
        return case["opId"]
    from pyopenapi_gen.core.utils import NameSanitizer
    return NameSanitizer.sanitize_method_name(f"{case.get('method', 'get').upper()}_/x".strip("/"))


def _request(case: dict, oracle_rows: list) -> dict:
    return {"f": "loaderParseOp",
            "a": [_effective_op_id(case), enc(case["pathParams"]), enc(case["params"]), enc(case["rb"]),
                  [[k, enc(v)] for k, v in case["responses"]],
                  {t: [[k, enc(v)] for k, v in case["comps"][t]] for t in ("parameters", "responses", "requestBodies")},
                  oracle_rows]}


# ------------------------------------------------------------------------------------------------ generators
def _w(r) -> float:
    """per-case weirdness multiplier (set by `_gen_case`): 0 = well-formed document."""
    return getattr(r, "w", 1.0)


def _gen_schema(r, weird=0.04):
    weird = weird * _w(r)
    k = r.random()
    if k < weird:
        return r.choice(["abc", 5, [1], True])
    if k < weird + 0.04:
        return r.choice([None, {}, "", 0, []])
    pool = [
        {"type": "string"}, {"type": "string", "format": "binary"}, {"type": "integer"}, {"type": "boolean"},
        {"type": "object"}, {"type": "object", "properties": {"a": {"type": "string"}}},
        {"type": "object", "properties": {"b": {"type": "integer"}}, "required": ["b"]},
        {"properties": {"c": {"type": "string"}}},
        {"type": "object", "additionalProperties": {"type": "string"}},
        {"allOf": [{"$ref": "#/components/schemas/Pet"}]},
        {"oneOf": [{"$ref": "#/components/schemas/Pet"}, {"$ref": "#/components/schemas/Err"}]},
        {"anyOf": [{"type": "string"}, {"type": "integer"}]},
        {"$ref": "#/components/schemas/Pet"}, {"$ref": "#/components/schemas/Blob"}, {"$ref": "#/components/schemas/Err"},
        {"$ref": "#/components/schemas/Missing"}, {"$ref": "#/components/schemas/Tags"},
        {"type": "object", "$ref": "#/components/schemas/Pet"},
        {"type": "array", "items": {"type": "string"}}, {"type": "array", "items": {"$ref": "#/components/schemas/Pet"}},
        {"type": "array", "items": {"type": "object", "properties": {"z": {"type": "string"}}}},
        {"type": "array", "items": {"type": "string", "format": "binary"}},
        {"type": "string", "enum": ["a", "b"]}, {"type": "string", "format": "date-time"},
        {"type": "object", "format": "binary"}, {"format": "binary"}, {"type": "Object"}, {"type": ["object"]},
        {"type": "string", "properties": {}}, {"oneOf": []},
    ]
    return copy.deepcopy(r.choice(pool))


def _gen_param_schema(r):
    k = r.random()
    if k < 0.22:
        ev = r.choice([["a", "b"], ["x"], [], "abcd", ["a", "b", "c", "d"]]) if r.random() < 1 - 0.1 * _w(r) else \
            r.choice([5, None, {"a": 1}, True, 0])
        items: dict = {"type": "string", "enum": ev}
        m = r.random()
        if m < 0.06:
            items["$ref"] = "#/components/schemas/Pet"
        elif m < 0.12:
            items["type"] = r.choice(["integer", "String", None])
        elif m < 0.16:
            del items["enum"]
        sch = {"type": "array", "items": items}
        if r.random() < 0.1:
            sch["properties"] = {}
        if r.random() < 0.05:
            sch["items"] = r.choice(["x", None, []])
        if r.random() < 0.05:
            sch["type"] = "Array"
        return sch
    return _gen_schema(r)


def _gen_param_node(r):
    node: dict = {}
    n = r.random()
    if n < 1 - 0.10 * _w(r):
        node["name"] = r.choice(PNAMES)
    elif n < 1 - 0.04 * _w(r):
        node["name"] = r.choice([5, None, 0, [1], "", True, {"a": 1}, 1, False, [True], {"a": True}])
    if r.random() < 0.7:
        node["in"] = r.choice(["query", "path", "header", "cookie", 5, None])
    q = r.random()
    if q < 0.6:
        node["required"] = r.choice([True, False, "yes", "", 0, 1, None, [], [0]])
    if r.random() < 0.9:
        node["schema"] = _gen_param_schema(r)
    if r.random() < 0.2:
        node["description"] = "d"
    return node


def _gen_param(r, comp_params: list):
    k = r.random()
    w = _w(r)
    if k < 0.62:
        return _gen_param_node(r)
    if k < 0.9:
        names = [n for n, _ in comp_params]
        if not names and r.random() < 1 - 0.2 * w:
            return _gen_param_node(r)
        if not names or r.random() < 0.12 * w:
            names = ["Missing"]
        ref = {"$ref": "#/components/parameters/" + r.choice(names)}
        if r.random() < 0.15:
            ref.update(_gen_param_node(r))
        return ref
    if w == 0:
        return _gen_param_node(r)
    if k < 0.94:
        return {"$ref": r.choice(["#/components/schemas/Pet", "#/other/P1", 5, None, "P1", "#/components/parameters/"]),
                **(_gen_param_node(r) if r.random() < 0.7 else {})}
    if k < 0.97:
        return r.choice(["abc", None, 5, [], ["name"], True])
    return {}


def _gen_media(r, for_body=False):
    k = r.random()
    if _w(r) == 0 and k >= 0.80:
        k = 0.84 + (k - 0.80) * 0.45     # no non-str `$ref`, no non-mapping media node
    if k < 0.62:
        m: dict = {"schema": _gen_schema(r)}
        if r.random() < 0.15:
            m["example"] = 1
        return m
    if k < 0.74:
        return {"$ref": r.choice(["#/components/schemas/Pet", "#/components/schemas/Blob", "#/components/schemas/Missing"])}
    if k < 0.80:
        m = {"$ref": r.choice(["#/components/other/X", "#/x", "", "#/components/schemas"])}
        if r.random() < 0.5:
            m["schema"] = _gen_schema(r)
        return m
    if k < 0.84:
        m = {"$ref": r.choice([5, None, [1], {}, True])}
        if r.random() < 0.5:
            m["schema"] = _gen_schema(r)
        return m
    if k < 0.93:
        return r.choice([{}, {"example": 1}, {"examples": {}}])
    return r.choice([None, "str", 5, [], [1], True])


def _gen_content(r, for_body=False):
    n = r.choice([0, 1, 1, 1, 2, 2, 3])
    mts = r.sample(MEDIA, n)
    return {mt: _gen_media(r, for_body) for mt in mts}


def _gen_resp_node(r):
    node: dict = {}
    if r.random() < 0.8:
        node["description"] = "ok"
    k = r.random()
    if k < 0.8:
        node["content"] = _gen_content(r)
    elif k < 0.8 + 0.05 * _w(r):
        node["content"] = r.choice([None, "abc", [], 5, [["a/b", {}]]])
    return node


def _gen_body_node(r):
    node: dict = {}
    if r.random() < 0.5:
        node["required"] = r.choice([True, False, "yes", 0, None, 1])
    k = r.random()
    if k < 0.88:
        c = _gen_content(r, True)
        # request bodies die on any media node that is not a mapping: keep those rare
        for mt in list(c):
            if not isinstance(c[mt], dict) and r.random() < 0.8:
                c[mt] = {"schema": _gen_schema(r)}
        node["content"] = c
    elif k < 0.88 + 0.04 * _w(r):
        node["content"] = r.choice([None, "abc", [], 5])
    return node


def _gen_case(r) -> dict:
    r.w = r.choice([0.0, 0.0, 0.5, 0.5, 1.0, 2.0])
    w = r.w
    comps: dict = {"parameters": [], "responses": [], "requestBodies": []}
    for name in r.sample(["P1", "P2", "Limit", "a.b", "X"], r.choice([0, 1, 2, 3])):
        k = r.random()
        comps["parameters"].append([name, _gen_param_node(r) if k < 1 - 0.25 * w else r.choice([{}, None, "", 0, "str", [1], 7])])
    for name in r.sample(["Ok", "NotFound", "Err", "E", "a/b"], r.choice([0, 1, 2, 3])):
        k = r.random()
        comps["responses"].append([name, _gen_resp_node(r) if k < 1 - 0.22 * w else r.choice([{}, None, "", 0, [], "abc", [1], 3, True])])
    for name in r.sample(["Body", "Upload", "B2"], r.choice([0, 1, 2])):
        k = r.random()
        comps["requestBodies"].append([name, _gen_body_node(r) if k < 1 - 0.22 * w else r.choice([{}, None, "", 0, "abc", [1], 3, True])])
    case: dict = {"opId": r.choice(OPIDS[:-1]) if r.random() < 1 - 0.06 * w else "", "comps": comps}
    case["pathParams"] = [_gen_param(r, comps["parameters"]) for _ in range(r.choice([0, 0, 0, 1, 1, 2]))]
    case["params"] = [_gen_param(r, comps["parameters"]) for _ in range(r.choice([0, 1, 1, 2, 2, 3]))]
    # an operation-level parameter that repeats a path-level one (same name, same `in`: OpenAPI's override) - as a copy with
    # another schema / `required`, with the default location spelled out on one side only, through a component, or with a key
    # that is only `==` (True / 1) - and near misses (same name in another location)
    if case["pathParams"] and r.random() < 0.45:
        cp_tbl = dict((k_, v_) for k_, v_ in comps["parameters"])
        src = r.choice(case["pathParams"])
        tgt = _resolve_param_spec(src, cp_tbl)
        if isinstance(tgt, dict) and "name" in tgt:
            over = _gen_param_node(r)
            over["name"] = copy.deepcopy(tgt["name"])
            m = r.random()
            if m < 0.55:
                if "in" in tgt:
                    over["in"] = copy.deepcopy(tgt["in"])
                else:
                    over.pop("in", None)
            elif m < 0.7:
                # the same location, written on one side only
                if tgt.get("in", "query") == "query":
                    if "in" in tgt:
                        over.pop("in", None)
                    else:
                        over["in"] = "query"
                else:
                    over["in"] = copy.deepcopy(tgt["in"])
            elif m < 0.8:
                eqv = {True: 1, 1: True, 0: False, False: 0}
                nm = tgt["name"]
                if isinstance(nm, (bool, int)) and nm in eqv:
                    over["name"] = eqv[nm]
                elif isinstance(nm, list) and nm == [1]:
                    over["name"] = [True]
                if "in" in tgt:
                    over["in"] = copy.deepcopy(tgt["in"])
                else:
                    over.pop("in", None)
            # else: near miss - whatever `in` the fresh node drew
            if r.random() < 0.15 and isinstance(src, dict) and "$ref" in src:
                over = copy.deepcopy(src)          # the very same reference at both levels
            case["params"].insert(r.randrange(len(case["params"]) + 1), over)
            if r.random() < 0.15:
                case["params"].append(copy.deepcopy(over))       # and twice in the operation-level list (not allowed by OpenAPI)
    # request body
    k = r.random()
    if k < 0.45:
        case["rb"] = []
    elif k < 0.78:
        case["rb"] = [_gen_body_node(r)]
    elif k < 0.95:
        names = [n for n, _ in comps["requestBodies"]] + ["Missing"]
        rb = {"$ref": "#/components/requestBodies/" + r.choice(names)}
        if r.random() < 0.3:
            rb.update(_gen_body_node(r))
        case["rb"] = [rb]
    elif k < 0.975 or w == 0:
        case["rb"] = [{"$ref": r.choice(["#/components/schemas/Pet", 5, None, "#/other"]), **_gen_body_node(r)}]
    else:
        case["rb"] = [r.choice([None, "abc", [], 5])]
    # responses
    n = r.choice([1, 1, 2, 2, 3, 4]) if r.random() < 0.97 else 0
    keys = r.sample(KEYS, n)
    if r.random() < 0.06 * w and keys:
        keys[r.randrange(len(keys))] = r.choice([200, 404, 500])
    shared = None
    rnames = [n_ for n_, _ in comps["responses"]]
    if rnames and r.random() < 0.5:
        shared = r.choice(rnames)
    resps = []
    for key in keys:
        k = r.random()
        if k < 0.5:
            node = _gen_resp_node(r)
        elif k < 0.78:
            name = shared if shared is not None and r.random() < 0.8 else r.choice(rnames + ["Nope"])
            node = {"$ref": "#/components/responses/" + name}
            if r.random() < 0.25:
                node.update(_gen_resp_node(r))
        elif k < 0.9:
            node = {"$ref": "#/components/schemas/" + r.choice(["Pet", "Blob", "Err", "Missing", "Tags"])}
            if r.random() < 0.2:
                node["content"] = _gen_content(r)
        elif k < 0.95 or w == 0:
            node = {"$ref": r.choice([5, None, "#/other/X", "Ok", "#/components/responses/", [1]]), **_gen_resp_node(r)}
        else:
            node = r.choice(["abc", None, [], 5, True])
        resps.append([key, node])
    case["responses"] = resps
    return case


def _case_json(case: dict) -> str:
    return json.dumps(case, sort_keys=True, ensure_ascii=True)


# ------------------------------------------------------------------------------------------------ run
def _features(case: dict, res: dict) -> list:
    f = []
    if res["error"] is not None:
        m = res["error"]
        m = re.sub(r"'(NoneType|bool|int|str|list|dict)'", "'T'", m)
        return ["raise:" + m]
    f.append("kept")
    for p in res["params"]:
        f.append("param:" + p["schema"]["kind"])
        if p["schema"]["kind"] == "parsed" and p["schema"]["req"][0] is not None:
            f.append("param:promoted")
        if p["schema"]["kind"] == "enumArray" and p["schema"]["key"] is None:
            f.append("param:enumArray-nameless")
    if case["pathParams"]:
        f.append("path-level-params")
        if len(res["params"]) < len(case["pathParams"]) + len(case["params"]):
            f.append("path-level-param-overridden")
    if res["body"] is not None:
        f.append("body")
        if any(c[1][0] is not None for c in res["body"]["content"]):
            f.append("body:promoted")
        if len(res["body"]["content"]) > 1:
            f.append("body:multi-media")
    elif case["rb"]:
        f.append("body:none-returned")
    comp_names = {k for k, _ in case["comps"]["responses"]}
    used: dict = {}
    for (key, node), r_ in zip(case["responses"], res["responses"]):
        if isinstance(node, dict) and isinstance(node.get("$ref"), str):
            ref = node["$ref"]
            if ref.startswith("#/components/responses/"):
                nm = ref.split("/")[-1]
                if nm in comp_names:
                    used[nm] = used.get(nm, 0) + 1
                    f.append("resp:component-ref")
                else:
                    f.append("resp:dangling-ref")
            elif ref.startswith("#/components/schemas/"):
                f.append("resp:schema-ref")
        if r_["stream"]:
            f.append("resp:stream")
        for mt, req in r_["content"]:
            if req is None:
                f.append("media:placeholder")
            elif req[0] is not None:
                f.append("media:promoted")
        if len(r_["content"]) > 1:
            f.append("resp:multi-media")
    if any(v > 1 for v in used.values()):
        f.append("resp:component-shared-by-several-keys")
    if res["post"]["events"]:
        f.append("post:registry-writes")
    return f


def run(seed: int, scale: float, driver: str = DEFAULT_DRIVER) -> dict:
    r = random.Random(seed)
    n = max(30, int(9000 * scale))
    comparisons = 0
    n_dis = 0
    disagreements: list = []
    distribution: dict = {}
    samples: list = []
    nontrivial = set()

    def bump(k, c=1):
        distribution[k] = distribution.get(k, 0) + c

    with _quiet():
        table = _stream_table()
        cases = [_gen_case(r) for _ in range(n)]
        reqs, impls = [], []
        for case in cases:
            real = _real(case)
            if real["oracle_conflict"]:
                bump("skipped:oracle-conflict")
                continue
            res = real["result"]
            reqs.append(_request(case, real["oracle"]))
            impls.append(res)
            for f in set(_features(case, res)):
                bump(f)
            if res["error"] is None:
                for r_ in res["responses"]:
                    if r_["stream"]:
                        by_mt = any(mt.lower() in table for mt, _ in r_["content"])
                        bump("stream:by-media-type" if by_mt else "stream:by-binary-format")
                if res["events"]:
                    nontrivial.add(_case_json(case))
                    if len(samples) < 5 and len(_case_json(case)) < 1500:
                        samples.append({"case": case, "responses": res["responses"], "events": res["events"]})
        # the two helpers on their own
        helper_reqs, helper_impls = [], []
        for _ in range(max(20, int(300 * scale))):
            ref = "".join(r.choice(["#", "/", "components", "responses", "a", "B", "/", ".", "é", "x/y"]) for _ in range(r.randint(0, 6)))
            helper_reqs.append({"f": "loaderLastSeg", "a": [ref]})
            helper_impls.append(ref.split("/")[-1])
            mt = r.choice(MEDIA + list(table))
            mt = "".join(c.upper() if r.random() < 0.3 else c for c in mt)
            helper_reqs.append({"f": "loaderStreamLookup", "a": [mt]})
            helper_impls.append(table.get(mt.lower()) or None)
        answers = _driver_batch(driver, reqs + helper_reqs)
    for req, model, impl in zip(reqs + helper_reqs, answers, impls + helper_impls):
        comparisons += 1
        if isinstance(model, dict) and model.get("schemaRaised"):
            model = {"error": "<_parse_schema raised>", "schemaRaised": True}
        if model != impl:
            n_dis += 1
            if len(disagreements) < 50:
                disagreements.append({"label": req["f"], "request": req, "model": model, "impl": impl})
    return {"comparisons": comparisons, "disagreements": disagreements, "disagreement_count": n_dis,
            "nontrivial": len(nontrivial), "rule": RULE, "samples": samples, "distribution": distribution}


# ------------------------------------------------------------------------------------------------ oracle
def _resolve_param_spec(node, comp_params: dict):
    if isinstance(node, dict) and isinstance(node.get("$ref"), str) and node["$ref"].startswith("#/components/parameters/"):
        t = comp_params.get(node["$ref"].split("/")[-1])
        return t if t else node
    return node


def _check_case(case: dict, table: dict) -> list:
    """-> failures of the properties on this case (each {"class","case","observed","expected"})."""
    fails = []
    real = _real(case)
    op = real["op"]
    if op is None:
        return fails
    # 1
    # an unquoted integer key is read as its decimal string (F16 repaired)
    keys = [str(k) if (isinstance(k, int) and not isinstance(k, bool)) else k for k, _ in case["responses"]]
    got = [r.status_code for r in op.responses]
    if got != keys:
        fails.append({"class": "LOADER-STATUS-NOT-DECLARED-KEY", "case": case, "observed": got, "expected": keys})
    # 3 (flag)
    for r_ in op.responses:
        exp = any(mt.lower() in table and bool(table[mt.lower()]) for mt in r_.content) or \
            any(getattr(s, "format", None) == "binary" for s in r_.content.values())
        if bool(r_.stream) != exp:
            fails.append({"class": "LOADER-STREAM-FLAG", "case": case, "observed": [r_.status_code, r_.stream], "expected": exp})
    # 5: OpenAPI 3 "Path Item Object / parameters": the operation-level parameter OVERRIDES the path-level one with the same
    #    name and location; nothing else is merged or dropped, the order of each list is kept (path-level ones first)
    cp = dict((k, v) for k, v in case["comps"]["parameters"])

    def key(p):
        n_ = _resolve_param_spec(p, cp)
        if not isinstance(n_, dict):         # a node the loader would reject; when the code under test keeps the operation anyway the
            return (None, None)              # comparison below reports it - the harness itself must not raise
        return (n_.get("name"), n_.get("in", "query"))
    own_keys = [key(p) for p in case["params"]]
    exp_keys = [k_ for k_ in (key(p) for p in case["pathParams"]) if k_ not in own_keys] + own_keys
    got_keys = [(p.name, p.param_in) for p in op.parameters]
    if got_keys != exp_keys:
        fails.append({"class": "LOADER-PARAM-ORDER-COUNT", "case": case, "observed": enc(got_keys), "expected": enc(exp_keys)})
    # 5b: no (name, in) twice in the parsed list when neither declared list has one twice (C01/C20: no duplicate argument)
    def distinct(ks):
        return all(ks[a] != ks[b] for a in range(len(ks)) for b in range(a + 1, len(ks)))
    if distinct([key(p) for p in case["pathParams"]]) and distinct(own_keys) and not distinct(got_keys):
        fails.append({"class": "LOADER-PARAM-DUPLICATE-KEY", "case": case, "observed": enc(got_keys), "expected": "pairwise different (name, in)"})
    # 3 (permutation): reverse every content mapping of the document
    rev = _reverse_contents(case)
    if rev is not None:
        op2 = _real(rev)["op"]
        if op2 is not None and len(op2.responses) == len(op.responses):
            f1 = [(r_.status_code, r_.stream) for r_ in op.responses]
            f2 = [(r_.status_code, r_.stream) for r_ in op2.responses]
            if f1 != f2:
                fails.append({"class": "LOADER-STREAM-FLAG-ORDER", "case": case, "observed": f2, "expected": f1})
            s1 = [(r_.status_code, r_.stream_format) for r_ in op.responses]
            s2 = [(r_.status_code, r_.stream_format) for r_ in op2.responses]
            if s1 != s2:
                fails.append({"class": "LOADER-STREAM-FORMAT-ORDER", "case": case, "observed": s2, "expected": s1})
    # promotion names: different nodes requested under one name
    seen: dict = {}
    for name, node, _ in real["oracle"]:
        if name is None:
            continue
        key = json.dumps(node, sort_keys=True)
        if name in seen and seen[name] != key:
            fails.append({"class": "LOADER-PROMO-NAME-COLLISION", "case": case, "observed": name, "expected": "distinct names"})
            break
        seen[name] = key
    # post-processor: one name for two different schema objects of the operation
    pe = real["result"]["post"]["events"]
    sets = [k for kind, k in pe if kind == "set"]
    if len(sets) != len(set(sets)):
        fails.append({"class": "LOADER-POST-NAME-OVERWRITE", "case": case, "observed": sets, "expected": "each name written once"})
    return fails


def _reverse_contents(case: dict):
    c2 = copy.deepcopy(case)
    changed = False

    def rev(node):
        nonlocal changed
        if isinstance(node, dict) and isinstance(node.get("content"), dict) and len(node["content"]) > 1:
            node["content"] = dict(reversed(list(node["content"].items())))
            changed = True

    for _, node in c2["responses"]:
        rev(node)
    for _, node in c2["comps"]["responses"]:
        rev(node)
    return c2 if changed else None


def _gen_oracle_case(r) -> dict:
    """Cases biased towards well-formed documents (the properties speak about operations that are kept)."""
    for _ in range(20):
        case = _gen_case(r)
        # make multi-media responses with several stream types more likely
        if r.random() < 0.35:
            key = r.choice(KEYS)
            mts = r.sample(MEDIA, r.choice([2, 3]))
            node = {"description": "s", "content": {mt: {"schema": _gen_schema(r, weird=0.0)} for mt in mts}}
            case["responses"] = [[k, v] for k, v in case["responses"] if k != key] + [[key, node]]
        return case
    return case


def oracle(seed: int, scale: float) -> dict:
    r = random.Random(seed * 7919 + 13)
    n = max(30, int(2500 * scale))
    failures: list = []
    evaluations = 0
    with _quiet():
        table = _stream_table()
        for _ in range(n):
            case = _gen_oracle_case(r)
            fs = _check_case(case, table)
            evaluations += 1
            for f in fs:
                if sum(1 for g in failures if g["class"] == f["class"]) < 5:
                    failures.append(f)
    return {"evaluations": evaluations, "failures": failures}


def replay(case) -> bool:
    """`case`: one element of `oracle()["failures"]` (True iff its class is still violated) or a bare generated case
    (True iff any property is violated)."""
    with _quiet():
        if isinstance(case, dict) and "class" in case and "case" in case:
            return any(f["class"] == case["class"] for f in _check_case(case["case"], _stream_table()))
        return bool(_check_case(case, _stream_table()))


if __name__ == "__main__":
    seed = int(sys.argv[1]) if len(sys.argv) > 1 else 0
    scale = float(sys.argv[2]) if len(sys.argv) > 2 else 1.0
    import time
    t0 = time.time()
    res = run(seed, scale, DEFAULT_DRIVER)
    t1 = time.time()
    print(f"{res['comparisons']} comparisons, {res['nontrivial']} non-trivial, {res['disagreement_count']} disagreements "
          f"({t1 - t0:.1f}s)")
    for d in res["disagreements"][:5]:
        print(json.dumps(d, ensure_ascii=False)[:3000])
    print(json.dumps(dict(sorted(res["distribution"].items())), indent=0, ensure_ascii=False))
    orc = oracle(seed, scale)
    classes: dict = {}
    for f in orc["failures"]:
        classes[f["class"]] = classes.get(f["class"], 0) + 1
    print(f"oracle: {orc['evaluations']} evaluations, failure classes (first 5 each): {classes} ({time.time() - t1:.1f}s)")
