"""C14 — union values are decoded as the right variant, never lossily."""
from __future__ import annotations

import json

from .. import e2e, findings, opsrig
from ..common import rng
from . import _generic as g

PROP = "C14"
CORR = "vf.corr.conv"
CLASSES = {"union-firstmatch-lossy": "F24", "union-prim-coercion": "F24b",
           # classes of the shared converter oracle that belong to C16 / C03
           "leaf-uuid-unsupported": "-", "leaf-time-unsupported": "-", "error-path-lost-through-optional": "-", "serializer-cycle-recursion": "-",
           "serializer-dict-leaks-instance": "-", "serializer-registry-dependent": "-"}


class _Scoped:
    """The converter oracle evaluates C03/C14/C16 together; classes that belong to another property are ignored here."""

    def __init__(self, known, mine):
        self.known, self.mine = known, mine

    def listed(self, fid):
        return fid == "-" or self.known.listed(fid)

    def hit(self, fid, case, what=""):
        return True if fid == "-" else self.known.hit(fid, case, what)


# ------------------------------------------------------------------------------------------------------------------
# end to end: GENERATED discriminated unions (the get_mapping() the generator writes, lazy imports included), decoded with the
# package's own converter in a fresh interpreter
VARIANT_POOL = ["Cat", "Dog", "Dog1", "BigBird", "HTTPProbe", "lizard", "cat_food", "V2Item"]
DISC_PROPS = ["petType", "kind", "objectType", "object-type"]
VALUE_POOL = ["cat", "kitten", "dog", "v1", "v2", "Bird.Big", "big bird", "LIZARD", "x-1", "0"]
UNIQ_FIELDS = ["lives", "barkVolume", "wingSpan", "count", "legs", "size", "rank", "age"]


def disc_case(i: int) -> dict:
    r = rng(f"C14:disc:{i}")
    NS = opsrig.impl_names()
    names = r.sample(VARIANT_POOL, r.randint(2, 4))
    prop = r.choice(DISC_PROPS)
    values = r.sample(VALUE_POOL, len(VALUE_POOL))
    schemas, mapping, uniq = {}, {}, {}
    for k, n in enumerate(names):
        uniq[n] = UNIQ_FIELDS[k]
        schemas[n] = {"type": "object", "required": [prop, "name", uniq[n]],
                      "properties": {prop: {"type": "string"}, "name": {"type": "string"}, uniq[n]: {"type": "integer"}}}
    # 1-2 discriminator values per variant: aliases (two values -> one schema) are legal and common
    order = []
    for n in names:
        for _ in range(r.choice([1, 1, 2])):
            order.append((values.pop(), n))
    r.shuffle(order)
    for v, n in order:
        mapping[v] = "#/components/schemas/" + n
    kw = r.choice(["oneOf", "anyOf"])
    schemas["Pet"] = {kw: [{"$ref": "#/components/schemas/" + n} for n in names], "discriminator": {"propertyName": prop, "mapping": mapping}}
    schemas["Zoo"] = {"type": "object", "properties": {"star": {"$ref": "#/components/schemas/Pet"},
                                                       "pets": {"type": "array", "items": {"$ref": "#/components/schemas/Pet"}},
                                                       "byName": {"type": "object", "additionalProperties": {"$ref": "#/components/schemas/Pet"}}}}
    doc = {"openapi": "3.0.3", "info": {"title": "T", "version": "1"}, "components": {"schemas": schemas},
           "paths": {"/zoo": {"get": {"operationId": "getZoo", "responses": {"200": {"description": "ok", "content": {"application/json": {"schema": {"$ref": "#/components/schemas/Zoo"}}}}}}}}}

    def payload(v, n):
        return {prop: v, "name": "n" + str(r.randint(0, 99)), uniq[n]: r.randint(0, 9)}
    items = []
    for v, n in order:
        items.append({"id": f"mapped:{v}", "cls": "Pet", "json": payload(v, n), "expect": "dataclass:" + NS.sanitize_class_name(n)})
    items.append({"id": "unmapped", "cls": "Pet", "json": {prop: "no-such-value", "name": "x", uniq[names[0]]: 1}, "expect": "error"})
    v0, n0 = order[0]
    bad = payload(v0, n0)
    bad[uniq[n0]] = "not-a-number"      # the mapped variant cannot decode it: must be reported, not retried as another variant
    items.append({"id": "mapped-invalid", "cls": "Pet", "json": bad, "expect": "error"})
    zoo = {"star": payload(*order[-1]), "pets": [payload(v, n) for v, n in order], "byName": {f"k{j}": payload(v, n) for j, (v, n) in enumerate(order[:2])}}
    items.append({"id": "holder", "cls": "Zoo", "json": zoo, "expect": "dataclass:Zoo"})
    return {"id": f"disc-{i}", "doc": doc, "items": items, "aliases": len(order) > len(names)}


def case_fn(case: dict, d):
    root = d / "proj"
    gen = e2e.generate(case["doc"], root, package="pkg.client")
    if not gen["ok"]:
        return {"gen_ok": False, "gen_error": gen["error"]}
    return {"gen_ok": True, "probe": e2e.probe(root, "pkg.client", None, [{"task": "roundtrip", "items": case["items"]}])}


def judge_disc(case: dict, res: dict) -> list[tuple[dict, str]]:
    """-> [(item, message)] for every item of a discriminated-union document that violates the property.
    Variant identity is judged through the payload: every variant has a required key no other variant has, so a value that
    re-encodes to the payload was decoded as the mapped variant (class names are the generator's business)."""
    pr = res.get("probe") or {}
    rt = pr.get("roundtrip") if isinstance(pr, dict) else None
    if not isinstance(rt, list) or len(rt) != len(case["items"]) or (rt and "fatal" in rt[0]):
        return [({"id": "package"}, f"generated package unusable: {json.dumps(pr)[:300]}")]
    bad = []
    for it, out in zip(case["items"], rt):
        if it["expect"] == "error":
            if "error" not in out:
                bad.append((it, f"{it['id']}: payload {json.dumps(it['json'])} was decoded as {out.get('type')} instead of being reported"))
        elif "error" in out:
            bad.append((it, f"{it['id']}: conforming payload {json.dumps(it['json'])[:200]} rejected: {out['error']['msg'][:200]}"))
        elif not str(out.get("type", "")).startswith("dataclass:"):
            bad.append((it, f"{it['id']}: decoded as {out.get('type')}, not as a model"))
        elif not opsrig.json_equiv(out.get("back"), it["json"]):
            bad.append((it, f"{it['id']}: re-encoded as {json.dumps(out.get('back'))[:200]} != {json.dumps(it['json'])[:200]}"))
    return bad


def e2e_discriminated(run, ctx) -> None:
    cases = [disc_case(i) for i in range(ctx.budget(16, 160))]
    results = e2e.run_cases("vf.props.C14:case_fn", cases)
    run.cov["rule"] = (run.cov.get("rule") or "") + ("[e2e discriminated] seeded documents with a oneOf/anyOf of 2-4 object schemas (names incl. digits, acronyms, lower/snake case), a "
                       "discriminator property (camelCase / kebab) and a mapping with 1-2 values per variant (aliases) -> generated package imported in a fresh interpreter -> every mapped value "
                       "must select exactly its variant and re-encode to the payload; an unmapped value and a mapped-but-undecodable payload must be errors; also inside a list / map / field "
                       "of a holder model; distinct by (document, item), all non-trivial ")
    for case, res in zip(cases, results):
        if "infra_error" in res:
            run.infra_errors.append(res["infra_error"])
            continue
        if not res.get("gen_ok"):
            run.dist("e2e-discriminated", "generation rejected")
            continue
        run.dist("e2e-discriminated", "aliases" if case["aliases"] else "one value per variant")
        for it in case["items"]:
            run.count({"doc": case["id"], "item": it["id"], "json": it["json"]}, nontrivial=True)
        run.cov["traces_validated_against_impl"] += len(case["items"])
        bad = judge_disc(case, res)
        if not bad:
            run.sample({"e2e": case["id"], "mapping": case["doc"]["components"]["schemas"]["Pet"]["discriminator"]["mapping"]}, limit=3)
        for it, msg in bad[:2]:
            if len(run.violations) < 5:
                run.violation("input", {"e2e": "discriminated", "doc": case["doc"], "items": case["items"]}, observed=msg,
                              expected="the variant the discriminator value maps to, re-encoding to the payload; errors for unmapped / undecodable payloads", what=msg[:400])


# ------------------------------------------------------------------------------------------------------------------
# end to end: UNDISCRIMINATED unions for which first-match decoding IN DOCUMENT ORDER is lossless - the earlier variant X has a
# required key of its own, the later variant Y requires only keys that X declares as optional (and has MORE required keys than X):
# Y's payloads are rejected by X, X's payloads are taken by X.  Any other order of the emitted Union[...] decodes X's full payloads as Y
# and drops X's own keys (F24 is about documents where NO order is lossless; this family is outside it).
def ordered_union_case(i: int) -> dict:
    r = rng(f"C14:ordered-union:{i}")
    xn, yn = r.choice([("Account", "Contact"), ("Order", "Address"), ("Zebra", "Ant"), ("Alpha", "Beta")])
    idk = r.choice(["id", "accountId", "ref"])
    ykeys = r.sample(["email", "phone", "street", "city", "zip"], r.randint(2, 3))
    extra = r.sample(["note", "nickname", "vip"], r.randint(0, 2))
    X = {"type": "object", "required": [idk], "properties": {idk: {"type": "integer"}, **{k: {"type": "string"} for k in ykeys + extra}}}
    Y = {"type": "object", "required": list(ykeys), "properties": {k: {"type": "string"} for k in ykeys}}
    kw = r.choice(["oneOf", "anyOf"])
    union = {kw: [{"$ref": f"#/components/schemas/{xn}"}, {"$ref": f"#/components/schemas/{yn}"}]}
    inline = i % 3 == 0
    schemas = {xn: X, yn: Y, "Party": union,
               "Ledger": {"type": "object", "required": ["owner"], "properties": {
                   "owner": union if inline else {"$ref": "#/components/schemas/Party"},
                   "parties": {"type": "array", "items": {"$ref": "#/components/schemas/Party"}}}}}
    if i % 2:
        schemas = dict(reversed(list(schemas.items())))          # declaration order of the COMPONENTS is irrelevant; the oneOf order decides
    doc = {"openapi": "3.0.3", "info": {"title": "U", "version": "1"}, "paths": {"/l": {"get": {"operationId": "getLedger", "responses": {"200": {"description": "ok",
           "content": {"application/json": {"schema": {"$ref": "#/components/schemas/Ledger"}}}}}}}}, "components": {"schemas": schemas}}
    xfull = {idk: 7, **{k: k + "-v" for k in ykeys + extra}}
    xmin = {idk: 1}
    ypay = {k: k + "-w" for k in ykeys}
    items = []
    for j, (owner, parties) in enumerate([(xfull, [ypay, xfull]), (ypay, [xmin]), (xmin, [xfull, ypay, ypay]), (xfull, [])]):
        items.append({"id": f"Ledger-{j}", "cls": "Ledger", "schema": "Ledger", "json": {"owner": owner, "parties": parties}, "expect": "ok"})
    return {"id": f"ordered-union-{i}", "doc": doc, "items": items, "aliases": False}


def e2e_ordered_unions(run, ctx) -> None:
    cases = [ordered_union_case(i) for i in range(ctx.budget(8, 60))]
    results = e2e.run_cases("vf.props.C14:case_fn", cases)
    run.cov["rule"] = (run.cov.get("rule") or "") + ("[e2e ordered unions] oneOf/anyOf [X, Y] of object schemas where X requires a key of its own and Y requires only keys X declares as "
                       "optional (Y has more required keys than X): first match in DOCUMENT order is lossless, every other order is not; as an alias, inline in a field and as list items; "
                       "payloads: X full, X minimal, Y ")
    for case, res in zip(cases, results):
        if "infra_error" in res:
            run.infra_errors.append(res["infra_error"])
            continue
        if not res.get("gen_ok"):
            run.dist("e2e-ordered-unions", "generation rejected")
            continue
        run.dist("e2e-ordered-unions", "generated")
        for it in case["items"]:
            run.count({"doc": case["id"], "item": it["id"], "json": it["json"]}, nontrivial=True)
        run.cov["traces_validated_against_impl"] += len(case["items"])
        for it, msg in judge_disc(case, res)[:2]:
            if len(run.violations) < 5:
                run.violation("input", {"e2e": "ordered-union", "doc": case["doc"], "items": case["items"]}, observed=msg,
                              expected="each payload decoded as the variant it conforms to in document order, re-encoding to the payload", what=msg[:400])


def check(run, ctx) -> None:
    known = findings.Known(run, PROP)
    g.run_corr(run, ctx, CORR, "Conv (structure/unstructure/_structure_union/serializer vs the real converter)", quick=1.0, thorough=8.0)
    g.replay_witnesses(run, known, {"F24": CORR, "F24b": CORR})
    g.run_oracle(run, ctx, _Scoped(known, CLASSES), CORR, "converter laws on the real converter (random dataclass type trees, unions, payloads)", CLASSES, quick=1.0, thorough=8.0)
    e2e_discriminated(run, ctx)
    e2e_ordered_unions(run, ctx)
    known.report_unreplayed()


def search(run, ctx) -> None:
    check(run, ctx)


def replay(run, ctx, rec) -> bool:
    case = rec.get("case") or {}
    if case.get("e2e") in ("discriminated", "ordered-union"):
        c = {"id": "replay", "doc": case["doc"], "items": case["items"]}
        res = e2e.run_cases("vf.props.C14:case_fn", [c], workers=1)[0]
        return bool(res.get("gen_ok")) and bool(judge_disc(c, res))
    return g.replay_generic(rec)
