"""C03 — model JSON round-trip preserves every value and wire key.

proof  : Pog.Props.C03 (Meta key maps are mutually inverse bijections over the property set; round trip of the converter model;
         every leaf type the resolver chooses has a codec - table regenerated from source)
tie    : vf.corr.conv (real converter vs model), format table regenerated
oracle : generated models of seeded random schemas, imported in a fresh interpreter; type-directed conforming instances are
         structured and unstructured with the package's OWN core; equality up to the tolerance the property states.
"""
from __future__ import annotations

import json

from .. import e2e, findings, opsrig
from ..common import Run, rng
from ..gen import spec as gs
from . import _generic as g

PROP = "C03"


def case_fn(case: dict, d):
    root = d / "proj"
    gen = e2e.generate(case["doc"], root, package="pkg.client")
    if not gen["ok"]:
        return {"gen_ok": False, "gen_error": gen["error"]}
    pr = e2e.probe(root, "pkg.client", None, ["models", {"task": "roundtrip", "items": case["items"]}])
    return {"gen_ok": True, "probe": pr}


def fmt_features(doc, sch, depth=0, acc=None) -> set:
    acc = acc if acc is not None else set()
    if depth > 6 or not isinstance(sch, dict):
        return acc
    s = gs.resolve(doc, sch)
    if s.get("format"):
        acc.add("format:" + s["format"])
    if "enum" in s:
        acc.add("enum")
    if "oneOf" in s or "anyOf" in s:
        acc.add("union")
    if s.get("nullable"):
        acc.add("nullable")
    if isinstance(s.get("additionalProperties"), dict):
        acc.add("map")
        fmt_features(doc, s["additionalProperties"], depth + 1, acc)
    if isinstance(s.get("items"), dict):
        if "$ref" in s["items"] and sch is not s["items"]:
            pass
        fmt_features(doc, s["items"], depth + 1, acc)
    for m in s.get("allOf", []) or []:
        fmt_features(doc, m, depth + 1, acc)
    for p in (s.get("properties") or {}).values():
        fmt_features(doc, p, depth + 1, acc)
    return acc


def self_ref(doc, name) -> bool:
    return ('"$ref": "#/components/schemas/%s"' % name) in json.dumps(doc["components"]["schemas"][name])


def structural_cases(ctx, n: int) -> list[dict]:
    """Containers decoded BEFORE their parts, in a process that has not seen the parts: a model reachable only through a typed map
    (additionalProperties: $ref), through a list, through an Optional, with renamed wire keys."""
    NS = opsrig.impl_names()
    cases = []
    keysets = [["warehouseId", "class", "last-counted"], ["userId", "X-Code", "is_active"], ["displayName", "type", "created-at"]]
    for i in range(n):
        r = rng(f"C03:structural:{i}")
        ks = r.choice(keysets)
        level = {"type": "object", "required": [ks[0]], "properties": {ks[0]: {"type": "string"}, ks[1]: {"type": "string"}, ks[2]: {"type": "string", "format": r.choice(["date", "date-time"])}}}
        how = ["map", "list", "optional", "map-of-list"][i % 4]
        holder_prop = {"map": {"type": "object", "additionalProperties": {"$ref": "#/components/schemas/Level"}},
                       "list": {"type": "array", "items": {"$ref": "#/components/schemas/Level"}},
                       "optional": {"$ref": "#/components/schemas/Level"},
                       "map-of-list": {"type": "object", "additionalProperties": {"type": "array", "items": {"$ref": "#/components/schemas/Level"}}}}[how]
        doc = {"openapi": "3.0.3", "info": {"title": "S", "version": "1"}, "paths": {"/x": {"get": {"operationId": "getX", "responses": {"200": {"description": "ok",
               "content": {"application/json": {"schema": {"$ref": "#/components/schemas/Inventory"}}}}}}}},
               "components": {"schemas": {"Inventory": {"type": "object", "required": ["inventoryId"], "properties": {"inventoryId": {"type": "string"}, "levels": holder_prop}}, "Level": level}}}
        inst = gs.gen_instance(r, doc, {"$ref": "#/components/schemas/Inventory"})
        lv = lambda: gs.gen_instance(r, doc, {"$ref": "#/components/schemas/Level"})
        inst["levels"] = {"map": {"sku-1": lv(), "sku-2": lv()}, "list": [lv(), lv()], "optional": lv(), "map-of-list": {"a": [lv()], "b": []}}[how]
        # ONLY the holder is decoded in this process
        cases.append({"id": f"structural-{i}", "stream": "structural", "doc": doc,
                      "items": [{"id": "Inventory-0", "cls": "Inventory", "schema": "Inventory", "json": inst, "features": ["structural:" + how]}]})
    return cases


def discriminator_cases(ctx, n: int) -> list[dict]:
    """Discriminated unions whose mapping gives SEVERAL discriminator values to one schema (`dog` and `canine` -> Dog), used as a
    property, as array items and at top level of the decoded class; payloads use every mapped value."""
    cases = []
    for i in range(n):
        r = rng(f"C03:discriminator:{i}")
        prop = r.choice(["kind", "petType", "type"])
        aliases = {"Cat": ["cat"] + r.sample(["feline", "CAT", "kitty"], r.randint(0, 2)), "Dog": ["dog"] + r.sample(["canine", "DOG", "puppy"], r.randint(1, 2))}
        pairs = [(v, k) for k, vs in aliases.items() for v in vs]
        r.shuffle(pairs)
        mapping = {v: f"#/components/schemas/{k}" for v, k in pairs}
        schemas = {
            "Cat": {"type": "object", "required": [prop], "properties": {prop: {"type": "string"}, "lives": {"type": "integer"}}},
            "Dog": {"type": "object", "required": [prop], "properties": {prop: {"type": "string"}, "tricks": {"type": "array", "items": {"type": "string"}}}},
            "Animal": {r.choice(["oneOf", "anyOf"]): [{"$ref": "#/components/schemas/Cat"}, {"$ref": "#/components/schemas/Dog"}],
                       "discriminator": {"propertyName": prop, "mapping": mapping}},
            "Owner": {"type": "object", "required": ["name"], "properties": {"name": {"type": "string"}, "pet": {"$ref": "#/components/schemas/Animal"},
                                                                                  "otherPets": {"type": "array", "items": {"$ref": "#/components/schemas/Animal"}}}}}
        doc = {"openapi": "3.0.3", "info": {"title": "D", "version": "1"}, "paths": {"/o": {"get": {"operationId": "getOwner", "responses": {"200": {"description": "ok",
               "content": {"application/json": {"schema": {"$ref": "#/components/schemas/Owner"}}}}}}}}, "components": {"schemas": schemas}}

        def animal(v, k):
            return {prop: v, "lives": r.randint(1, 9)} if k == "Cat" else {prop: v, "tricks": r.sample(["sit", "roll", "beg"], r.randint(0, 2))}
        items = []
        for j, (v, k) in enumerate(pairs):
            inst = {"name": f"o{j}", "pet": animal(v, k), "otherPets": [animal(*pq) for pq in r.sample(pairs, r.randint(0, len(pairs)))]}
            items.append({"id": f"Owner-{j}", "cls": "Owner", "schema": "Owner", "json": inst, "features": ["discriminated-union", "mapping-alias:" + v]})
        cases.append({"id": f"discriminator-{i}", "stream": "discriminator", "doc": doc, "items": items})
    return cases


def build_cases(ctx, stream: str, n: int) -> list[dict]:
    NS = opsrig.impl_names()
    cases = []
    for i in range(n):
        r = rng(f"C03:{stream}:{i}")
        if stream == "mainstream":
            o = gs.Opts(mainstream=True, max_ops=1, formats=("date-time", "date", "byte"), self_ref=False, unions=False, hostile_prop_names=False,
                        colliding_props=(i % 3 == 0), allof_variants=(i % 4 == 0), defaults=(i % 2 == 1))
        else:
            o = gs.Opts(mainstream=True, max_ops=1, formats=("date-time", "date", "byte", "uuid", "time"), self_ref=True, unions=True, defaults=(i % 2 == 1))
        doc = gs.gen_spec(r, o)
        items = []
        for name, sch in doc["components"]["schemas"].items():
            rs = gs.resolve(doc, sch)
            if not (rs.get("type") == "object" and "properties" in rs or "allOf" in rs):
                continue
            for k in range(3):
                inst = gs.gen_instance(r, doc, {"$ref": f"#/components/schemas/{name}"})
                items.append({"id": f"{name}-{k}", "cls": NS.sanitize_class_name(name), "schema": name, "json": inst,
                              "features": sorted(fmt_features(doc, sch) | ({"self-ref"} if self_ref(doc, name) else set())
                                                 | ({"doc-self-ref"} if any(self_ref(doc, n) for n in doc["components"]["schemas"]) else set())
                                                 | {"doc-" + x for n2, s2 in doc["components"]["schemas"].items() for x in fmt_features(doc, s2) if x in ("format:uuid", "format:time", "union")})})
        r.shuffle(items)    # hook registration is per process and order dependent: a container may be decoded before its parts
        cases.append({"id": f"{stream}-{i}", "stream": stream, "doc": doc, "items": items})
    return cases


def strip_default_reappearances(doc, sch, back, inp):
    """`back` without the keys that are ABSENT from the input and came back holding exactly the scalar `default` their
    property schema declares (finding F74: the dataclass field default is the schema default, so the dump spells it out).
    Returns (stripped copy, number of keys removed).  Keys present in the input are never touched."""
    n = 0
    rs = gs.resolve(doc, sch) if isinstance(sch, dict) else {}
    if isinstance(back, dict) and isinstance(inp, dict):
        try:
            props, _ = gs.effective_object(doc, sch)
        except Exception:
            props = {}
        out = {}
        for k, v in back.items():
            ps = props.get(k, rs.get("additionalProperties") if isinstance(rs.get("additionalProperties"), dict) else None)
            if k not in inp:
                dflt = gs.resolve(doc, ps).get("default") if isinstance(ps, dict) else None
                if dflt is not None and isinstance(dflt, (str, int, float, bool)) and type(dflt) is type(v) and dflt == v:
                    n += 1
                    continue
                out[k] = v
            elif isinstance(ps, dict):
                out[k], m = strip_default_reappearances(doc, ps, v, inp[k])
                n += m
            else:
                out[k] = v
        return out, n
    if isinstance(back, list) and isinstance(inp, list) and len(back) == len(inp) and isinstance(rs.get("items"), dict):
        res = []
        for b, i in zip(back, inp):
            x, m = strip_default_reappearances(doc, rs["items"], b, i)
            res.append(x)
            n += m
        return res, n
    return back, 0


def attribute(item: dict, msg: str) -> str | None:
    f = set(item["features"])
    # a failing nested model makes every model that contains it fail, so attribution looks at the whole document
    if "ForwardRef(" in msg and "doc-self-ref" in f:
        return "F42"
    if "union" in f or ("doc-union" in f and "Union" in msg):
        return "F24"
    if ("Cannot structure" in msg or "Could not structure" in msg) and "doc-self-ref" in f:
        return "F42"
    return None


def evaluate(run: Run, known, case: dict, res: dict) -> None:
    if "infra_error" in res:
        run.infra_errors.append(res["infra_error"])
        return
    if not res.get("gen_ok"):
        run.dist("generation", "rejected")
        return
    pr = res["probe"]
    rt = pr.get("roundtrip") if isinstance(pr, dict) else None
    if not isinstance(rt, list) or (rt and "fatal" in rt[0]):
        run.notes.append(f"probe problem on {case['id']}: {json.dumps(pr)[:300]}")
        run.dist("probe", "package does not import (C01)")
        return
    classes = (pr.get("models") or {}).get("classes", {})
    for item, out in zip(case["items"], rt):
        run.count({"doc": case["id"], "item": item["id"], "json": item["json"]}, nontrivial=bool(item["json"]))
        run.cov["traces_validated_against_impl"] += 1
        for ft in item["features"]:
            run.dist("feature", ft)
        msg = None
        if "error" in out:
            msg = f"{item['cls']}: {out['error']['type']}: {out['error']['msg'][:300]}"
        elif not opsrig.json_equiv(out.get("back"), item["json"]):
            msg = f"{item['cls']}: round trip {json.dumps(out.get('back'))[:240]} != input {json.dumps(item['json'])[:240]}"
        else:
            # wire keys = original property names
            c = classes.get(item["cls"])
            props, _req = gs.effective_object(case["doc"], {"$ref": f"#/components/schemas/{item['schema']}"})
            if c and c["kind"] == "dataclass":
                wire = sorted(f["wire"] for f in c["fields"])
                if wire != sorted(props):
                    msg = f"{item['cls']}: wire keys {wire} != declared properties {sorted(props)}"
        if msg is None:
            run.sample({"cls": item["cls"], "json": item["json"], "features": item["features"]}, limit=4)
            continue
        fid = attribute(item, msg)
        if fid is None and "error" not in out:
            back2, nstripped = strip_default_reappearances(case["doc"], {"$ref": f"#/components/schemas/{item['schema']}"}, out.get("back"), item["json"])
            if nstripped and opsrig.json_equiv(back2, item["json"]):
                fid = "F74"     # the ONLY difference: absent optional properties reappear holding their declared scalar default
        if fid and known.listed(fid):
            known.hit(fid, {"item": item["id"], "msg": msg[:300]})
        elif len(run.violations) < 5:
            run.violation("input", {"doc": case["doc"], "items": [item]}, observed=msg, expected="unstructure(structure(x)) == x up to null/empty-container for absent optionals",
                          what=msg[:400])


def check(run: Run, ctx) -> None:
    known = findings.Known(run, PROP)
    g.run_corr(run, ctx, "vf.corr.conv", "Conv (structure/unstructure/union/serializer vs the real converter)", quick=0.5, thorough=5.0)
    from .C14 import _Scoped
    # (leaf-uuid-unsupported / leaf-time-unsupported - F10, repaired - are not listed: a recurrence is a violation)
    conv_classes = {"union-firstmatch-lossy": "-", "union-prim-coercion": "-",
                    "error-path-lost-through-optional": "-", "serializer-cycle-recursion": "-", "serializer-dict-leaks-instance": "-", "serializer-registry-dependent": "-"}
    g.run_oracle(run, ctx, _Scoped(known, conv_classes), "vf.corr.conv", "converter laws on the real converter", conv_classes, quick=0.5, thorough=5.0)
    run.cov["rule"] = (run.cov.get("rule") or "") + ("[e2e] seeded random schema sets -> generated models imported in a fresh interpreter -> 3 type-directed conforming instances per object "
                       "schema (nested objects, lists, maps, nullable, date-time/date/byte[/uuid/time], camelCase/kebab/keyword-like property names) -> structure_from_dict then "
                       "unstructure_to_dict with the package's own core; distinct by (document, instance); non-trivial when the instance is non-empty")
    cases = structural_cases(ctx, ctx.budget(8, 40)) + discriminator_cases(ctx, ctx.budget(6, 40)) + build_cases(ctx, "mainstream", ctx.budget(24, 240)) + build_cases(ctx, "wide", ctx.budget(12, 120))
    results = e2e.run_cases("vf.props.C03:case_fn", cases)
    for case, res in zip(cases, results):
        evaluate(run, known, case, res)
    known.report_unreplayed()


def search(run: Run, ctx) -> None:
    check(run, ctx)


def replay(run: Run, ctx, rec) -> bool:
    case = rec["case"]
    if "module" in case:
        return g.replay_generic(rec)
    res = e2e.run_cases("vf.props.C03:case_fn", [{"id": "replay", "stream": "replay", **case}], workers=1)[0]
    if not res.get("gen_ok"):
        return False
    rt = res["probe"].get("roundtrip") or []
    return any("error" in o or not opsrig.json_equiv(o.get("back"), it["json"]) for it, o in zip(case["items"], rt))
