import Pog.Lemmas.ParserSpec
import Pog.Props.Dc
import Pog.Props.Extract
import Pog.Props.Resolve
import Pog.Lemmas.Parser
import Pog.Lemmas.ParserFaithful
/-
  C02 — every named schema is represented by exactly one model whose fields are exactly the declared
  properties (own or inherited through allOf), bound to the original JSON key, required exactly when
  the spec says so, typed with the structural kind the spec gives — regardless of cycles, names and
  declaration order.

  FULL STATEMENT ✗ (false of the current code):

      ∀ maxDepth decls n, n ∈ names decls → Faithful decls (buildSchemas maxDepth fuel decls) n

  where `Faithful` compares the model registered for `n` with the independent denotation
  `specFields decls n` (Pog/Model/ParserSpec.lean; own properties ∪ allOf parts transitively, `$ref`s
  followed through a visited set).

    specFields_decl_perm_invariant        full     the denotation does not depend on declaration order
    own_properties_one_field_each         full     `_parse_properties` yields exactly one entry per declared
                                                   (non-empty, first-occurrence) key, in document order,
                                                   bound to the original key — for every callback, state,
                                                   node shapes, cycles or not
    ✗ parse_faithful_prefix_counterexample          `User`/`UserGroup`: `User` ends with ZERO fields
    ✗ parse_faithful_allof_counterexample           `Child = allOf[Parent, …]` parsed inside `Parent`
                                                    inherits nothing
    ✗ parse_faithful_inline_named_like_schema_counterexample
                                                    `Owner.owner: {type: object}` becomes a reference
                                                    to `Owner` itself; `Event.owner` inline shadows the
                                                    declared `EventOwner`, which ends with zero fields
    ✗ parse_faithful_depth_counterexample           a schema first reached at the depth limit stays a
                                                    depth placeholder although declared at top level

    parse_faithful_partial                partial  the DAG fragment `Simple`: object schemas whose properties
                                                   are plain primitives or `$ref`s to declared schemas, names
                                                   non-empty / class-cased / distinct, keys non-empty /
                                                   distinct, acyclic references, longest chain below the depth
                                                   limit and the fuel ⇒ no error, every name faithful.
  `parse_faithful_partial2` (Pog/Props/C02b.lean, proofs in Pog/Lemmas/ParserFaithful2.lean) extends the fragment to `Simple2`:
  properties that are arrays or maps of a primitive / of a `$ref`, and top-level arrays and primitive aliases.
  `parse_faithful_partial3` (Pog/Props/C02c.lean, proofs in Pog/Lemmas/ParserFaithful3*.lean) extends it to `Simple3`: acyclic
  allOf inheritance (members `$ref`s or inline objects), inline object properties, enum properties / schemas / items / map values,
  `nullable` around every property node.  Four side-condition counterexamples, one of them a new defect (F70: two promoted
  properties with one synthetic name).
  Still missing between `parse_faithful_partial3` and the target fragment ("acyclic, no heuristic names, depth ≤
  max"): own `properties` next to `allOf`, nested inline objects / arrays, oneOf / anyOf.  The
  no-prefix / no-`Item` / no-`Property` side conditions turned out to be unnecessary WITHOUT cycles (the
  heuristics only fire on a detected cycle); what IS needed is class-cased names (else the registry key
  differs from the name the tracker knows, and every second reference re-parses the schema).
-/
/-
  C02 at the annotation level (schema type resolver, Pog/Model/Resolve.lean; proved in Pog/Props/Resolve.lean, claimed here):
    resolve_optional_iff_not_required      the resolved type is optional exactly when the property is not required - through registry
                                           fallbacks, allOf and every leaf
    union_members_nodup_and_cover          anyOf/oneOf: one member -> that member; otherwise Union of the members' types, each part
                                           represented, no duplicates, first-occurrence document order (no unordered container)
-/
-- MODULE Pog.Props.C02b
-- MODULE Pog.Props.C02c
-- MODULE Pog.Props.C02d
-- MODULE Pog.Props.C02e
-- INDEX Pog.C02e: own_prims_faithful, own_override_faithful, own_chain_faithful, own_siblings_faithful, parse_faithful_own_prim_depth_counterexample, own_dup_key_model_vs_denotation
-- INDEX Pog.C02d: spec_keys_unique, every_declared_name_registered3, model_keys_are_spec_keys3, model_required_iff_spec3, model_kind_is_spec_kind3, model_invariant_under_permutation3, petDog_spec
-- INDEX Pog.C02c: simple2_imp_simple3, inFragment2_imp_inFragment3, parse_faithful_partial3, inFragment3_sound, petDecls_simple3, simple3_strict, parse_faithful_enum_ctx_shared_counterexample, parse_faithful_enum_ctx_dup_counterexample, parse_faithful_enum_ctx_declared_counterexample, parse_faithful_enum_depth_counterexample
-- INDEX Pog.C02b: simple_imp_simple2, parse_faithful_partial2, inFragment2_sound, invDecls_simple2, simple2_strict, parse_faithful_map_ctx_counterexample, parse_faithful_map_depth_counterexample
-- INDEX Pog.ResolveProps: resolve_optional_iff_not_required, union_members_nodup_and_cover, dispatch_union
/-
  C02 through the two post-parse passes and the model-kind decision (Pog/Model/Extract.lean mirrors
  `extract_inline_array_items`, `extract_inline_enums` (core/loader/schemas/extractor.py) and `ModelVisitor.visit_IRSchema`'s
  detection logic; tied by vf/corr/extract.py; proved in Pog/Props/Extract.lean, claimed here):
    extract_preserves_wire_keys            both passes leave every schema's list of property keys (the JSON wire keys) unchanged
    extracted_enum_has_the_values          an extracted inline enum carries exactly the property's values and type, the property points at it
    extracted_item_is_a_copy               a promoted array item equals the inline item except for its name
    extract_postconditions_never_fire      the two RuntimeError post-conditions of the code can never be raised
    properties_imply_dataclass / properties_never_alias / kind_total_and_exclusive / kind_decision / anonymous_is_skipped
                                           a named schema with a property and no enum is a dataclass for EVERY combination of the other
                                           fields (the precondition of "one dataclass field per property")
    ✗ extract_preserves_array_nature       generation_name == "array" flips a string property to type array (counterexample + partial)
    ✗ extract_idempotent                   a second run promotes items of promoted items (counterexample + partial); the enum half is idempotent
    extracted_number_enum_is_alias         observation: `number` enums are extracted but rendered as plain aliases
-/
-- INDEX Pog.ExtractProps: extract_preserves_wire_keys, extract_preserves_array_nature_counterexample, extract_preserves_array_nature_partial, extracted_enum_has_the_values, enum_pointer, enum_entry_fields, extracted_item_is_a_copy, enum_pass_keeps_items, array_pass_keeps_fields, extract_postconditions_never_fire, reuse_branch_dead, kind_total_and_exclusive, kind_decision, properties_imply_dataclass, properties_never_alias, anonymous_is_skipped, data_wrapper_is_named_dataclass, extracted_number_enum_is_alias, extracted_string_enum_is_enum, extract_idempotent_counterexample, extract_idempotent_partial, extract_enum_pass_idempotent
/-
  C02 at the dataclass level (Pog/Model/Dc.lean; proved in Pog/Props/Dc.lean, claimed here), for every schema with distinct property keys:
    one_field_per_property                 the class body is a permutation of one field per property; wire keys = property keys, each once;
                                           python names pairwise distinct; `field_mappings` maps every key to its field
    required_iff_no_default                a field has no default expression iff its property is listed in `required`
    default_array / default_plain_object / default_absent / default_nonscalar   what an optional field defaults to
-/
-- INDEX Pog.DcProps: one_field_per_property, one_field_per_property_generated, mappings_are_the_wire_keys, required_iff_no_default, required_iff_no_default_generated, default_array, default_plain_object, default_absent, default_nonscalar
namespace Pog.C02
open Pog Pog.Prs Pog.Trk

/-- Declaration order does not matter to the denotation (keys distinct, as in any JSON object). -/
theorem specFields_decl_perm_invariant (d d' : Decls) (hp : d.Perm d') (hn : (d.map (·.1)).Nodup)
    (n : Str) : specFields d n = specFields d' n :=
  specFields_perm hp hn n

def cObj (ps : List (String × Node)) : Node := .obj (some (ps.map (fun kv => (kv.1.toList, kv.2)))) [] none
def cRef (s : String) : Node := .ref s.toList

example : let d : Decls := [("A".toList, cObj [("b", cRef "B")]), ("B".toList, cObj [])]
    d.Perm d.reverse ∧ (d.map (·.1)).Nodup := by
  refine ⟨(List.reverse_perm _).symm, by decide⟩

/-- "Exactly one field per declared property, bound to the property's original JSON key":
    whatever the callback `P` does (cycles, placeholders, out of fuel …), whatever the state, the
    property map `_parse_properties` returns has the keys already merged from `allOf` followed by the
    declared keys — non-empty, first occurrence, document order, unchanged. -/
theorem own_properties_one_field_each (decls : Decls) (P : PFn) (parent : Option Str) (allow : Bool)
    (ps : List (Str × Node)) (acc : List (Str × Nat)) (s : Prs.PSt) :
    (parseProps decls P parent allow ps acc s).1.map (·.1) = declaredKeys ps (acc.map (·.1)) :=
  parseProps_keys decls P parent allow ps acc s

example : declaredKeys [("id".toList, .prim .integer false), ("".toList, .prim .string false),
    ("name".toList, .prim .string false), ("id".toList, .prim .string false)] []
    = ["id".toList, "name".toList] := by decide

def userDecls : Decls :=
  [("User".toList, cObj [("group", cRef "UserGroup")]),
   ("UserGroup".toList, cObj [("members", .arr (cRef "User"))])]

/-- ✗ witness 1.  `User` declared first: parsing `User.group` enters `UserGroup`, whose
    `members: array of User` re-enters `User`; the cycle path is `User -> UserGroup -> User` and
    `"UserGroup".startswith("User")` trips `is_nested_property_self_ref`, so a circular placeholder is
    STORED under `User`; when the outer `User` is finished, `schema_parser.py:846-850` returns that
    placeholder instead of the schema that was just built.  `User` ends as a cycle placeholder with
    zero fields although the document declares `group: UserGroup`. -/
theorem parse_faithful_prefix_counterexample :
    let s := buildSchemas 150 30 userDecls
    s.oom = false ∧ missing userDecls s = [] ∧
    modelFields userDecls s "User".toList = some [] ∧
    (s.lookup "User".toList).map (fun i => (s.get i).kind) = some .cyclePlaceholder ∧
    specFields userDecls "User".toList = [⟨"group".toList, false, .ref "UserGroup".toList⟩] ∧
    ¬ Faithful userDecls s "User".toList ∧ Faithful userDecls s "UserGroup".toList := by
  decide +kernel

def parentDecls : Decls :=
  [("Parent".toList, cObj [("kids", .arr (cRef "Child"))]),
   ("Child".toList, .allOf [cRef "Parent", cObj [("extra", .prim .string false)]] [] [])]

/-- ✗ witness 2.  `Child = allOf[Parent, {extra}]` is first reached from inside `Parent`
    (`kids: array of Child`); its `allOf` part `$ref Parent` is a cycle and yields an empty
    placeholder, so `Child` is registered with `extra` only: the inherited `kids` is lost for good. -/
theorem parse_faithful_allof_counterexample :
    let s := buildSchemas 150 30 parentDecls
    s.oom = false ∧ missing parentDecls s = [] ∧
    modelFields parentDecls s "Child".toList = some [⟨"extra".toList, false, .prim .string⟩] ∧
    specFields parentDecls "Child".toList =
      [⟨"kids".toList, false, .arr (.ref "Child".toList)⟩, ⟨"extra".toList, false, .prim .string⟩] ∧
    ¬ Faithful parentDecls s "Child".toList ∧ Faithful parentDecls s "Parent".toList := by
  decide +kernel

/-- ✗ witness 3.  (a) `Owner.owner: {type: object}` is parsed under the context name `Owner`
    (`"Owner".lower().startswith("owner")` ⇒ no prefixing), i.e. as the schema `Owner` itself: the
    property becomes a reference to `Owner`.  (b) `Event.owner: {type: object}` is parsed under the
    name `EventOwner` and registered under it; the DECLARED schema `EventOwner` is then skipped by
    `build_schemas` ("already registered") and ends with zero fields. -/
theorem parse_faithful_inline_named_like_schema_counterexample :
    let d1 : Decls := [("Owner".toList, cObj [("owner", .obj none [] none)])]
    let d2 : Decls := [("Event".toList, cObj [("owner", .obj none [] none)]),
                       ("EventOwner".toList, cObj [("name", .prim .string false)])]
    modelFields d1 (buildSchemas 150 30 d1) "Owner".toList
      = some [⟨"owner".toList, false, .ref "Owner".toList⟩] ∧
    specFields d1 "Owner".toList = [⟨"owner".toList, false, .obj⟩] ∧
    modelFields d2 (buildSchemas 150 30 d2) "EventOwner".toList = some [] ∧
    specFields d2 "EventOwner".toList = [⟨"name".toList, false, .prim .string⟩] ∧
    (buildSchemas 150 30 d2).trace.length = 4 := by
  decide +kernel

def chainDecls : Decls :=
  [("A".toList, cObj [("b", cRef "B")]), ("B".toList, cObj [("c", cRef "C")]),
   ("C".toList, cObj [("x", .prim .string false)])]

/-- ✗ witness 4 (`PYOPENAPI_MAX_DEPTH = 2`).  `C` is first reached through `A → B → C` at depth 3 and
    becomes a depth placeholder, which is written to `parsed_schemas["C"]`; `build_schemas` then skips
    the top-level `C` ("already registered"), although parsing it from the top would need depth 1.
    Declared in the opposite order every schema is faithful. -/
theorem parse_faithful_depth_counterexample :
    let s := buildSchemas 2 30 chainDecls
    s.oom = false ∧ missing chainDecls s = [] ∧
    (s.lookup "C".toList).map (fun i => (s.get i).kind) = some .depthPlaceholder ∧
    modelFields chainDecls s "C".toList = some [] ∧ ¬ Faithful chainDecls s "C".toList ∧
    (∀ n ∈ chainDecls.map (·.1), Faithful chainDecls.reverse (buildSchemas 2 30 chainDecls.reverse) n) := by
  decide +kernel

/-- `parse_faithful_partial`.  On the fragment `Simple decls rank`
    * every declared schema is `{type: object, properties: {…}, required: […]}` whose property nodes are
      plain primitives (`{type: string|integer|number|boolean}`) or `$ref`s to declared schemas,
    * schema names are non-empty, pairwise different and already class-cased
      (`sanitize_class_name n = n`), property keys are non-empty and pairwise different,
    * the reference graph is acyclic: `rank` strictly decreases along every `$ref`,
    and with the longest reference chain below the depth limit (`rank n + 1 ≤ maxDepth`) and the fuel,
    loading succeeds (no out-of-fuel, no RuntimeError) and EVERY declared name is `Faithful`: it has
    exactly one model, a full schema, with exactly one field per declared property, bound to the
    original key, required exactly when the spec requires it, typed with the kind the spec gives —
    whatever the declaration order. -/
theorem parse_faithful_partial (decls : Decls) (rank : Str → Nat) (hS : Simple decls rank) (maxDepth F : Nat)
    (hF : ∀ d ∈ decls, rank d.1 < F) (hD : ∀ d ∈ decls, rank d.1 + 1 ≤ maxDepth) :
    (buildSchemas maxDepth (F + 1) decls).oom = false ∧
    missing decls (buildSchemas maxDepth (F + 1) decls) = [] ∧
    ∀ d ∈ decls, Faithful decls (buildSchemas maxDepth (F + 1) decls) d.1 :=
  buildSchemas_faithful decls rank hS maxDepth F hF hD

def orderDecls : Decls :=
  [("Order".toList, .obj (some [("id".toList, .prim .integer false), ("customer".toList, cRef "Customer"),
                                 ("address".toList, cRef "Address")]) ["id".toList] none),
   ("Customer".toList, .obj (some [("name".toList, .prim .string false), ("address".toList, cRef "Address")])
                         ["name".toList] none),
   ("Address".toList, cObj [("city", .prim .string false)])]

def orderRank (n : Str) : Nat :=
  if n = "Order".toList then 2 else if n = "Customer".toList then 1 else 0

example : Simple orderDecls orderRank ∧ (∀ d ∈ orderDecls, orderRank d.1 < 3) ∧
    (∀ d ∈ orderDecls, orderRank d.1 + 1 ≤ 150) :=
  ⟨⟨by decide, by decide, by decide +kernel, by
      intro d hd ps req ap he kv hkv t ht
      simp only [orderDecls, List.mem_cons, List.mem_nil_iff, or_false] at hd
      rcases hd with rfl | rfl | rfl <;> cases he <;>
        (simp only [cRef, List.map_cons, List.map_nil, List.mem_cons, List.mem_nil_iff, or_false] at hkv
         rcases hkv with rfl | rfl | rfl <;> cases ht <;> decide)⟩,
   by decide, by decide⟩

end Pog.C02
