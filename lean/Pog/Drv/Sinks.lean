import Pog.Drv.Util
import Pog.Model.Sinks
open Lean Pog Pog.Drv
namespace Pog.Drv

def sinksFns : List String := ["evalStrLit","evalStrLitCp","isOneTripleQuoted","isOneCommentLine","dropIndent",
  "renderLit","renderEnumMember","renderMetaEntry","renderDictKey","renderDictKeyOpt","renderDiscProp","renderDiscPair",
  "renderDiscEntry","renderLiteralCt","renderDefaultStr","utf16Cps","renderFieldComment","renderFieldLine","aliasEscape",
  "renderAliasDoc","renderTagPropDoc","renderTagClassDoc","renderDocstring","renderDataclassDoc","renderEnumDoc",
  "renderMethodDoc","cleanClientDesc","renderClientDoc","replace1","replace3","writeBlock"]

private def getOptStr (j : Json) : Except String (Option Str) :=
  if j.isNull then pure none else (some <$> getStr j)

/-- `[[width, k, text, [lines…]], …]` — the recorded calls of the real `TextWrapper.wrap`.  A call
    that was not recorded answers with a marker line, which shows up as a disagreement. -/
private def getWrap (j : Json) : Except String Wrap := do
  let rows ← getList (fun r => do
    let a ← r.getArr?
    let w ← getNat (← argN a 0)
    let k ← getNat (← argN a 1)
    let t ← getStr (← argN a 2)
    let ls ← getStrs (← argN a 3)
    pure (w, k, t, ls)) j
  pure (fun w k t =>
    match rows.find? (fun r => r.1 == w && r.2.1 == k && r.2.2.1 == t) with
    | some r => r.2.2.2
    | none => ["<<wrap call not recorded>>".toList])

/-- `[[input, output], …]` — the recorded calls of the real `textwrap.dedent`. -/
private def getDedent (j : Json) : Except String Dedent := do
  let rows ← getList (fun r => do
    let a ← r.getArr?
    pure ((← getStr (← argN a 0)), (← getStr (← argN a 1)))) j
  pure (fun t =>
    match rows.find? (fun r => r.1 == t) with
    | some r => r.2
    | none => "<<dedent call not recorded>>".toList)

private def getPair (j : Json) : Except String (Str × Str) := do
  let a ← j.getArr?
  pure ((← getStr (← argN a 0)), (← getStr (← argN a 1)))

private def getTriple (j : Json) : Except String (Str × Str × Str) := do
  let a ← j.getArr?
  pure ((← getStr (← argN a 0)), (← getStr (← argN a 1)), (← getStr (← argN a 2)))

/-- `{"summary": str, "description": str, "args": [[name, type|null, desc]…], "returns": [t, d]|null,
     "raises": [[code, desc]…]}`. -/
private def getBlock (j : Json) : Except String DocBlock := do
  let summary ← getStr (← j.getObjVal? "summary")
  let description ← getStr (← j.getObjVal? "description")
  let args ← getList (fun r => do
    let a ← r.getArr?
    pure (⟨← getStr (← argN a 0), ← getOptStr (← argN a 1), ← getStr (← argN a 2)⟩ : DocArg)) (← j.getObjVal? "args")
  let rj ← j.getObjVal? "returns"
  let returns ← if rj.isNull then pure none else (some <$> getPair rj)
  let raises ← getList getPair (← j.getObjVal? "raises")
  pure ⟨summary, description, args, returns, raises⟩

def sinksRun (f : String) (a : Array Json) : Except String Json := do
  let s (i : Nat) : Except String Str := do getStr (← argN a i)
  match f with
  | "evalStrLit" => pure (jopt jstr (evalStrLit (← s 0)))
  | "evalStrLitCp" => pure (jopt (jlist jnat) (evalStrLitCp (← s 0)))
  | "isOneTripleQuoted" => pure (Json.bool (isOneTripleQuoted (← s 0)))
  | "isOneCommentLine" => pure (Json.bool (isOneCommentLine (← s 0)))
  | "dropIndent" => pure (jstr (dropIndent (← s 0)))
  | "renderLit" => pure (jstr (renderLit (← s 0)))
  | "renderEnumMember" => pure (jstr (renderEnumMember (← s 0) (← s 1)))
  | "renderMetaEntry" => pure (jstr (renderMetaEntry (← s 0) (← s 1)))
  | "renderDictKey" => pure (jstr (renderDictKey (← s 0) (← s 1)))
  | "renderDictKeyOpt" => pure (jstr (renderDictKeyOpt (← s 0) (← s 1)))
  | "renderDiscProp" => pure (jstr (renderDiscProp (← s 0)))
  | "renderDiscPair" => pure (jstr (renderDiscPair (← s 0) (← s 1)))
  | "renderDiscEntry" => pure (jstr (renderDiscEntry (← s 0) (← s 1)))
  | "renderLiteralCt" => pure (jstr (renderLiteralCt (← s 0)))
  | "renderDefaultStr" => pure (jstr (renderDefaultStr (← s 0)))
  | "utf16Cps" => pure (jlist jnat (utf16Cps (← s 0)))
  | "renderFieldComment" => pure (jstr (renderFieldComment (← s 0)))
  | "renderFieldLine" => pure (jstr (renderFieldLine (← s 0) (← s 1) (← getOptStr (← argN a 2)) (← s 3)))
  | "aliasEscape" => pure (jstr (aliasEscape (← s 0)))
  | "renderAliasDoc" => pure (jstr (renderAliasDoc (← s 0)))
  | "renderTagPropDoc" => pure (jstr (renderTagPropDoc (← s 0)))
  | "renderTagClassDoc" => pure (jstr (renderTagClassDoc (← s 0)))
  | "replace1" =>
    match (← s 0) with
    | [ch] => pure (jstr (replace1 ch (← s 1) (← s 2)))
    | _ => throw "replace1: pattern must be one character"
  | "replace3" =>
    match (← s 0) with
    | [ch] => pure (jstr (replace3 ch (← s 1) (← s 2)))
    | _ => throw "replace3: give the repeated character"
  | "renderDocstring" => pure (jstr (renderDocstring (← getWrap (← argN a 0)) (← getBlock (← argN a 1))))
  | "renderDataclassDoc" =>
    pure (jstr (renderDataclassDoc (← getWrap (← argN a 0)) (← s 1) (← s 2) (← getList getTriple (← argN a 3))))
  | "renderEnumDoc" =>
    pure (jstr (renderEnumDoc (← getWrap (← argN a 0)) (← s 1) (← s 2) (← s 3) (← getList getPair (← argN a 4))))
  | "renderMethodDoc" =>
    pure (jstr (renderMethodDoc (← getWrap (← argN a 0)) (← getNat (← argN a 1)) (← getBlock (← argN a 2))))
  | "writeBlock" => pure (jstr (writeBlock (← getNat (← argN a 0)) (← s 1)))
  | "cleanClientDesc" => pure (jstr (cleanClientDesc (← getDedent (← argN a 0)) (← s 1)))
  | "renderClientDoc" =>
    pure (jstr (renderClientDoc (← getWrap (← argN a 0)) (← getDedent (← argN a 1)) (← s 2) (← s 3) (← s 4)
      (← getList getTriple (← argN a 5))))
  | _ => throw s!"unknown function {f}"

def dispatchSinks : Dispatch := fun f a _ =>
  if sinksFns.contains f then some (sinksRun f a) else none

end Pog.Drv
