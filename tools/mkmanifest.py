#!/usr/bin/env python3
"""Regenerate /verif/MANIFEST.json.  Claimed = properties whose check module, Lean Props module and props_index entry exist."""
import json
import os
import sys

V = os.path.dirname(os.path.dirname(os.path.abspath(__file__)))
props = [json.loads(l) for l in open(os.path.join(V, "properties.jsonl"))]
index = json.load(open(os.path.join(V, "props_index.json")))

TEXT = {
 "C01": ("Partial. Lean theorems for the mechanisms the property's anchors name (class/module-stem de-collision Nodup for every name list; relative-import resolution; alias coverage; annotation evaluability, with machine-checked counterexamples where the code is wrong). The composition - that every template requests every import it uses, import order between model modules - is not modelled: it is searched by the end-to-end oracle (generate -> compile every file -> import every module in a fresh interpreter with the generator blocked -> resolve __all__).",
         "Trusted: Lean kernel; hand models tied by correspondence; CPython's import system and compile(); the oracle's generator bounds what compositions are seen."),
 "C02": ("Partial. Lean model of the schema parser's control skeleton and registry effects (M-parser over M-tracker) with an independent denotation specFields; parse_faithful proved on the stated fragment, machine-checked counterexamples outside it (prefix-named schemas, allOf child parsed inside its parent). End-to-end oracle compares an independent reference resolver with the IR and with the emitted dataclasses.",
         "Trusted: the hand model (event-trace correspondence on every run); inline enum extraction / extract_inline_* passes and descriptions are not modelled."),
 "C03": ("Lean model of the bundled converter (M-conv) with the Meta key maps DataclassGenerator emits: load/dump maps are mutually inverse bijections over the property set (uses the C20 Nodup theorem), round trip for the union-free fragment under lawful leaf codecs, and a table theorem that every leaf type chosen by the resolver's format mapping has a codec (counterexamples uuid, time).",
         "Trusted: cattrs dispatch is described, not derived; leaf codec laws are hypotheses validated by sampling."),
 "C04": ("Partial. Lean model (M-gencode buildRequest) of the emitted method's request construction: exactly one request, method, substituted path, every supplied query/header parameter under its original name, None omitted - proved on the fragment the code gets right, with general counterexample theorems for cookie parameters and multi-content operations. End-to-end oracle captures the real httpx.Request of the generated client.",
         "Trusted: httpx's own encoding of params/json/data/files is observed, not modelled; value serialisation is opaque in this model (covered by C03/C16)."),
 "C05": ("Partial. Lean model (M-gencode handle) of the emitted match statement: primary-response selection (both copies proved equal), declared 2xx statuses end in a return arm, no-content returns None. The type-string heuristics that choose cast vs structure are exercised by the end-to-end oracle (conforming bodies for every declared 2xx response and media type).",
         "Trusted: cattrs/httpx behaviour; streaming composition is C18's theorem plus json.loads."),
 "C06": ("Lean theorems over tables regenerated from core/http_status_codes.py on every run (alias base class by range, ranges tile [400,600), alias names distinct / identifiers / not builtins, injectivity incl. the Error<code> fallback) and over the M-gencode handle model (no non-2xx status ever reaches a return arm with the bundled transport; class by range). End-to-end oracle: every sampled status 100..599 x declared/undeclared/default x bundled and pass-through transport on generated clients.",
         "Trusted: Lean kernel + 3 standard axioms; table extractor; the generated match statement is modelled by hand and tied by correspondence."),
 "C07": ("Partial. Lean: operation parsing keeps exactly one IR operation per (path, method) when no operation raises, id derivation per naming strategy, tag maps of emitter and client visitor agree, de-duplication theorems from C20 (machine-checked counterexample foo,foo,foo_2), integer status keys drop the operation (counterexample). End-to-end oracle counts coroutine methods per tag client for JSON/YAML renderings and all three strategies.",
         "Trusted: hand models tied by correspondence on the real loader; PyYAML is not modelled."),
 "C08": ("Lean model of the cycle tracker (exact) and of the parser's enter/exit discipline: bracket invariant for every well-bracketed event sequence, saturation facts, depth cut, rest state after each top-level schema proved of the model as it is; termination by a computable fuel bound; all_names_present has a machine-checked counterexample (alias schema). Tie: event-trace correspondence with the real parser under PYOPENAPI_MAX_DEPTH in {3,10,150}.",
         "Trusted: the interpreter stack is not modelled (recursion depth of the model <= maxDepth+1 named frames; observed for maxDepth <= 150)."),
 "C09": ("Partial. Lean: import rendering and __init__ exports are functions of sets (permutation invariance), exact characterisation of _show_diffs (non-force success iff every NEW .py file that also exists in OLD has equal lines) with counterexamples for missing/extra/non-.py files, force path != diff path via non-idempotent de-duplication, unsorted set iteration of undeclared path variables. Runtime determinism (hash seed, process state, output root) can only be observed: subprocess runs with several PYTHONHASHSEED values and roots compare sha256 trees.",
         "Trusted: hash seeds, wall clock and process state are runtime; the model can only say that no modelled output depends on an unordered iteration."),
 "C10": ("Partial. Lean model of ClientGenerator.generate as a plan of write-sets over path component lists: non-force writes stay under the temp root for every fault point, force writes are contained in out_dir / core_dir / ancestor __init__.py, relpath round trip of the core directory, result classification. Tie: audit-hook correspondence of the real generate under fault injection at every stage; oracle: recursive (path,size,sha256,mtime) snapshots.",
         "Trusted: tempfile, the OS and shutil; the plan is a transcription tied only by the audit-hook correspondence."),
 "C11": ("Lean model of the exception registry as a state machine over generation histories: for every history in layouts the heuristic recognises, aliases = union of all clients' codes and every client's needed classes exist (induction); exact characterisation of _is_shared_core (depth 1 or 2 only) with machine-checked counterexample for deeper shared cores. Tie: real ExceptionsEmitter on random histories/layouts after every step. End-to-end oracle: generate histories of real clients and import every earlier client in a fresh interpreter.",
         "Trusted: Path.resolve / JSON I/O abstracted; that other core files are rewritten identically is only exercised end to end."),
 "C12": ("Lean theorems over tables regenerated from source on every run: every import of every runtime file is stdlib/httpx/cattrs or stays inside the core package (one recorded exception: black in utils.py), every import pattern the generator can request or embed is relative, core/own package, stdlib, httpx or cattrs; classification never rewrites to the generator. The table's completeness is validated on every emitted file (AST scan), runtime files compared by sha256, package imported with the generator blocked.",
         "Trusted: the extractor's static analysis of add_import call sites and embedded templates (completeness is validated, not proved)."),
 "C13": ("Lean models of the two textual transformers (Protocol stub extraction, mock generation) over line lists and of both grouping functions: signature preservation for every well-formed method text, mock body raises, tag maps agree; grouping_agree has machine-checked counterexamples (multi-tag operations, tag spelling variants) and a partial theorem. Tie: the real transformer functions on real generated method sources. Oracle: inspect.signature of client vs Protocol vs mock in a fresh interpreter.",
         "Trusted: the signature shape emitted by CodeWriter is a decidable predicate validated on every generated method."),
 "C14": ("Lean model of _structure_union: with a mapped discriminator the variant is exactly the mapped one and failures are not retried, unmapped values are errors; first-match decoding is lossless when no earlier variant accepts the payload; machine-checked counterexamples for overlapping variants and primitive coercion. Tie: real converter with generated dataclasses on random unions x payloads x variant orders.",
         "Trusted: cattrs primitive coercions are described and validated."),
 "C15": ("Lean models of CPython's string-literal / triple-quoted / comment lexing (M-pylex, refereed by ast on every run) and of every text sink's renderer: per sink class the exact set of strings rendered inertly (partial theorems) with machine-checked counterexamples (quote, backslash, triple quote, CR, astral defaults). Oracle: position x payload matrix through the whole generator (parse, AST skeleton equals benign baseline, literals evaluate to the original).",
         "Trusted: sink table extracted by reading; CPython's tokenizer is described and validated against ast."),
 "C16": ("Lean model of structure/unstructure over a type algebra with dataclass declarations and key maps: decode-encode and encode-decode laws for the union-free fragment under lawful leaf codecs, errors name the field, serializer output has no null-valued keys; serializer termination on cyclic graphs decided on the model (counterexample if the guard is not threaded). Tie: real converter on random dataclass type trees.",
         "Trusted: cattrs dispatch described, leaf laws validated by sampling."),
 "C17": ("Lean model of HttpxTransport._prepare_headers/request and the five auth plug-ins: composite order, headers are sequential dict writes, exact last-writer-wins for case-consistent names, API key in header placed; total counterexample theorems: query/cookie API keys never reach the request, case-variant header names are both sent. Tie + oracle on the real transport behind httpx.MockTransport.",
         "Trusted: httpx's wire view of a headers dict (described, validated by sampling); refresh callbacks pure."),
 "C18": ("Full. Lean models of str.splitlines, httpx's LineDecoder, the SSE/NDJSON helpers and incremental UTF-8 decoding: for EVERY chunking the helpers yield what the unsplit stream yields (simulation relation between LineDecoder and a char-level automaton), one event per blank-line-terminated block, data joined by newlines, comments ignored, final unterminated event delivered; byte-level chunk independence for well-formed UTF-8. Tie: real httpx.Response over an async byte-chunk iterator, every split-point subset of short streams.",
         "Trusted: the descriptions of codecs/httpx/str.splitlines/str.strip (validated on every run); ill-formed UTF-8, json.loads and SSE retry are not modelled."),
 "C19": ("Partial. Lean: status-key typing (integer keys: repaired and proved; float/bool/null keys: counterexample), permutation invariance of the parse on the proved fragment with counterexample for prefix-named schemas. Oracle: metamorphic end-to-end comparison of JSON / YAML block / YAML flow / integer-status-key renderings (byte-identical trees) and of random permutations of schemas, paths and properties (same manifest).",
         "Trusted: PyYAML is not modelled."),
 "C20": ("Lean theorems over a hand model of NameSanitizer, the enum member-name function and the five suffix loops: identifier validity for every input string (class names, enum members: unconditional; method/module names: exactly for inputs with an ASCII alphanumeric, with machine-checked counterexamples outside), termination + pairwise distinctness + nothing-dropped for every namespace (pigeonhole).",
         "Trusted: Lean kernel + 3 standard axioms; the hand model (exhaustive-short + random differential correspondence on every run); CPython's non-ASCII case/word tables are passed to the model by the harness."),
}

# additions of the third session (appended to the level text)
ADD = {
 "C01": " Third session: Lean models of the schema type resolver (every unquoted name of a resolved annotation is a builtin or was requested through add_import - for every schema tree, registry and current file - except two bare returns kept as counterexamples; a quoted forward reference without import only inside models/<stem>.py, F60 repaired), of DataclassGenerator's class body (no field without a default after one with a default; enum defaults looked up by value, F53 repaired) and of ClientVisitor's mock class (__init__ never empty, F31 repaired); alias coverage proved at full strength after the repair of F3.",
 "C02": " Third session: the annotation level (resolved type optional iff not required; union members complete and distinct), the post-parse extraction passes (property keys preserved, extracted enums / array items faithful, a named schema with a property is always a dataclass) and the dataclass level (one field per property, no default iff required) are modelled and proved for every input of those models.",
 "C04": " Third session: loader model - an operation's parameters are the path-level ones followed by its own, one per node, parsed with its own id.",
 "C05": " Third session: declared_2xx_returns proved at full strength (F58 repaired: Union dispatch included); loader model - content keys preserved, stream flag exact and independent of the content mapping's order (STREAM_FORMATS regenerated from source).",
 "C06": " Third session: loader model - for every kept operation the parsed status codes are exactly the keys the responses are declared under, also through $ref into components.responses; a declared 1xx/3xx status raises the base class (F3 repaired).",
 "C07": " Third session: status_key_typing proved for every document with string / integer status keys (F16 repaired); Lean model of ClientVisitor (one APIClient property per tag group, properties = the emitter's tag clients); reachable_through_apiclient_partial composes the parser, the emitter's grouping / de-duplication and the client visitor in one theorem; the e2e oracle compares method names with the names the model derives for the selected strategy.",
 "C09": " Third session: url_vars_order_independent (F18 repaired) and force tree = diff tree on the former witness (F19 repaired: one evaluation per emitter).",
 "C11": " Third session: is_shared_core_complete - a core directory outside the package of the client being generated is treated as shared at every depth (F22 repaired); no recorded finding is left for this property.",
 "C13": " Third session: the three top-level classes (APIClient, APIClientProtocol, MockAPIClient) as skeletons - same property names in the same order from the same tag tuples; the mocks emitter's own tuples are the recorded difference (F23).",
 "C15": " Third session: the string-default sink of dataclass fields is one literal for every string and evaluates to the default exactly for strings inside the BMP.",
 "C19": " Third session: primary_response_key_order_invariant (F57 repaired: both copies of the primary-response selection are invariant under permutation of the responses mapping), status keys quoted or not (F16 repaired), order of an object's properties / required list irrelevant for the generated class (Dc model), one operation is parsed locally (components as lookup tables). The metamorphic oracle permutes the key order of every mapping and adds a YAML rendering with merge keys.",
 "C20": " Third session: class_name_valid for every input (F28 repaired); names invented by the inline-extraction passes are fresh and pairwise distinct; injectivity / collision theorems for promoted response / parameter schema names; tag attribute names of APIClient (valid identifiers for tags with an ASCII alphanumeric, never `config`; collisions with APIClient's own members recorded as F64).",
}

claimed = [p["id"] for p in props if p["id"] in index and os.path.exists(os.path.join(V, "vf", "props", p["id"] + ".py"))
           and all(os.path.exists(os.path.join(V, "lean", *m.split(".")) + ".lean") for m in index[p["id"]].get("modules", []))]
if len(sys.argv) > 1:
    claimed = [c for c in claimed if c in sys.argv[1:]]

checks = []
for pid in claimed:
    text, note = TEXT[pid]
    text = text + ADD.get(pid, "")
    checks.append({
        "property_id": pid, "quick_cmd": f"./check {pid} --tier quick", "thorough_cmd": f"./check {pid} --tier thorough",
        "evidence_file": f"evidence/{pid}.json", "replay_cmd_template": f"./check {pid} --replay {{path}}", "engine": "lean-pog",
        "level_claimed": {"category": "proof", "text": text, "design_ref": f"DESIGN.md section 4 / {pid}"},
        "level_note": note, "technique": "Lean 4 machine-checked proof over a model tied to the source (regenerated tables + differential correspondence); failing-input search on the implementation"})

man = {
    "version": 1,
    "setup_cmd": "/venv/bin/python -m vf.extract_tables >/dev/null && cd lean && lake build Pog driver",
    "hooks": {"guard": "PYOPENAPI_GEN_VERIF", "enable": "no source hooks are needed: checks import /repo/src in-process and wrap module attributes / emitter methods from the harness (sys.addaudithook for filesystem effects); PYOPENAPI_GEN_VERIF=1 is exported by the harness for future hooks",
              "baseline_off_cmd": "cd /repo && /venv/bin/python -m pytest -ra -q -p no:cacheprovider --timeout=900 --continue-on-collection-errors", "source_commits": [], "add_only": True},
    "engines": [{"name": "lean-pog", "path": "lean/", "serves_properties": claimed,
                 "kind_free_text": "Lean 4 lake project Pog: executable models (Pog/Model), tables regenerated from source on every run (Pog/Gen), lemmas and property theorems (Pog/Lemmas, Pog/Props), compiled driver speaking a JSON line protocol to the python correspondence harness (vf/)"}],
    "checks": checks,
    "notes": "See DESIGN.md. Every check: regenerate tables from /repo -> lake build + '#print axioms' audit + forbidden-token grep -> correspondence (real code vs compiled Lean driver) -> known findings replay -> direct oracle on the implementation -> evidence. Exit 0 held / 1 violation / 2 infrastructure.",
    "not_applicable": [{"property_id": p["id"], "reason": "the Lean part of this property's check is still being built in this session (model/proofs not merged yet); see DESIGN.md section 9"} for p in props if p["id"] not in claimed],
}
json.dump(man, open(os.path.join(V, "MANIFEST.json"), "w"), indent=1)
print("claimed:", claimed)
