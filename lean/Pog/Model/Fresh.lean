import Pog.Model.Names
/-
  M-fresh: the "suffix until unused" loops.

  * dataclass field names      visit/model/dataclass_generator.py:483-511   (`base_2`, `base_3`, …; base = `dcFieldBase`)
  * enum member names          visit/model/enum_generator.py:185-193        (`base_1`, `base_2`, …)
  * class names / module stems emitters/models_emitter.py:349-388           (`Base2`/`Base_`→`Base2`, `stem_2`)
  * inline item / enum names   core/loader/schemas/extractor.py:127-131,288-292 (`Base1`, `Base2`, …)
  * operation ids              emitters/endpoints_emitter.py:111-136        (`id_2`, `id_3`, …: counter per sanitised
                               name; the suffix search skips method names already taken and records the one it hands out)

  A python `while cand in seen: cand = mk(k); k += 1` is a fuelled search; `Pog.Props` proves that
  fuel `|seen| + 1` always suffices (pigeonhole), i.e. that the python loop terminates.
-/
namespace Pog

/-- First `k ≥ start` (trying at most `fuel` candidates) with `mk k ∉ seen`. -/
def findFresh (mk : Nat → Str) (seen : List Str) : Nat → Nat → Option Nat
  | _, 0 => none
  | k, fuel + 1 => if seen.contains (mk k) then findFresh mk seen (k + 1) fuel else some k

/-- `cand = base; k = start; while cand in seen: cand = mk k; k += 1`.
    `none` would mean the python loop does not terminate within `|seen|+1` iterations. -/
def freshName (mk : Nat → Str) (start : Nat) (seen : List Str) (base : Str) : Option Str :=
  if seen.contains base then
    (findFresh mk seen start (seen.length + 1)).map mk
  else some base

def sufUnderscore (base : Str) (k : Nat) : Str := base ++ '_' :: natStr k
def sufPlain (base : Str) (k : Nat) : Str := base ++ natStr k

/-- Assign names left to right; `seen` accumulates the assigned names. -/
def assignAll (mk : Str → Nat → Str) (start : Nat) : List Str → List Str → Option (List Str)
  | _, [] => some []
  | seen, b :: bs =>
    match freshName (mk b) start seen b with
    | none => none
    | some n =>
      match assignAll mk start (n :: seen) bs with
      | none => none
      | some rest => some (n :: rest)

/-- The identifier a property asks for (`dataclass_generator.py:486-490`, F5 repaired): `sanitize_method_name(prop)`, and
    `field` - the one name the class body itself calls, `field(default_factory=…)` - gets the suffix of the reserved names. -/
def dcFieldBase (prop : Str) : Str :=
  let n := sanMethod prop
  if n == "field".toList then n ++ ['_'] else n

/-- Field identifiers of one dataclass, from the property names in emission order
    (`dataclass_generator.py:483-511`). -/
def fieldNames (props : List Str) : Option (List Str) :=
  assignAll sufUnderscore 2 [] (props.map dcFieldBase)

/-- Enum member identifiers from the derived base names (`enum_generator.py:185-193`). -/
def enumMemberNames (bases : List Str) : Option (List Str) :=
  assignAll sufUnderscore 1 [] bases

/-- String enum: derive a base member name per value, then de-duplicate. -/
def enumMembersOfValues (u : UInfo) (vals : List Str) : Option (List Str) :=
  (vals.mapM (enumMemberStr u)).bind enumMemberNames

/-- The class-name candidate of `models_emitter.py:366-373`: `Email_` → `Email2`. -/
def classCand (base : Str) (k : Nat) : Str :=
  if endsWith base ['_'] then base.dropLast ++ natStr k else base ++ natStr k

/-- Class names from the schema names in de-collision order (`models_emitter.py:359-375`). -/
def classNames (schemaNames : List Str) : Option (List Str) :=
  assignAll classCand 2 [] (schemaNames.map sanClass)

/-- Module stems (`models_emitter.py:378-388`). -/
def moduleStems (u : UInfo) (schemaNames : List Str) : Option (List Str) :=
  assignAll sufUnderscore 2 [] (schemaNames.map (sanModule u))

/-- Inline item / enum names of the extractor (`extractor.py:127-131, 288-292`), given the names
    already taken. -/
def inlineName (taken : List Str) (base : Str) : Option Str :=
  freshName (sufPlain base) 1 taken base

/-! ### The operation-id de-duplication as written (endpoints_emitter.py:111-136)

    ```
    seen_methods: dict[str, int] = {}
    for op in operations:
        method_name = sanitize_method_name(op.operation_id)
        if method_name in seen_methods:
            while True:
                seen_methods[method_name] += 1
                new_op_id = f"{op.operation_id}_{seen_methods[method_name]}"
                new_method_name = sanitize_method_name(new_op_id)
                if new_method_name not in seen_methods: break
            seen_methods[new_method_name] = 1
            op.operation_id = new_op_id
        else:
            seen_methods[method_name] = 1
    ```
    The keys of `seen_methods` do not change while the `while` loop runs (only the counter of `method_name` does), so the
    loop is `findFresh` over the keys, starting at `counter + 1`; the counter ends at the suffix found. -/

def countOf (seen : List (Str × Nat)) (k : Str) : Option Nat :=
  match seen with
  | [] => none
  | (k', n) :: rest => if k' == k then some n else countOf rest k

/-- `seen[k] = v` for a key that is present (the position is kept). -/
def setCount (seen : List (Str × Nat)) (k : Str) (v : Nat) : List (Str × Nat) :=
  match seen with
  | [] => []
  | (k', n) :: rest => if k' == k then (k', v) :: rest else (k', n) :: setCount rest k v

/-- `f"{op.operation_id}_{k}"` -/
def sufId (id : Str) (k : Nat) : Str := id ++ '_' :: natStr k

/-- The method name of the `k`-th candidate for `id`. -/
def sufMethod (id : Str) (k : Nat) : Str := sanMethod (sufId id k)

/-- The keys of `seen_methods`, in insertion order. -/
def seenKeys (seen : List (Str × Nat)) : List Str := seen.map (·.1)

/-- The operation ids after the pass.  `none` would mean that one of the `while` loops does not end within `|seen_methods| + 1`
    iterations; `Pog.dedupOpIds?_isSome` proves that this never happens (the python loop terminates on every input). -/
def dedupOpIds? : List (Str × Nat) → List Str → Option (List Str)
  | _, [] => some []
  | seen, id :: rest =>
    let m := sanMethod id
    match countOf seen m with
    | some n =>
      match findFresh (sufMethod id) (seenKeys seen) (n + 1) (seen.length + 1) with
      | none => none
      | some k =>
        match dedupOpIds? (setCount seen m k ++ [(sufMethod id k, 1)]) rest with
        | none => none
        | some out => some (sufId id k :: out)
    | none =>
      match dedupOpIds? (seen ++ [(m, 1)]) rest with
      | none => none
      | some out => some (id :: out)

/-- The operation ids after the pass, as a total function (`dedupOpIds?` is always `some`, `Pog.dedupOpIds?_eq_some`;
    the default is never taken). -/
def dedupOpIds (seen : List (Str × Nat)) (ids : List Str) : List Str := (dedupOpIds? seen ids).getD ids

/-- Method names the endpoint visitor will emit: sanitised de-duplicated ids. -/
def methodNames (ids : List Str) : List Str := (dedupOpIds [] ids).map sanMethod

end Pog
