import Pog.Drv.Util
import Pog.Model.Loader
/-
  JSON glue for `Pog.Loader`.

    node  = null | bool | int | str | [node,…] | {"o": [[key, node],…]}          (a JSON object keeps its key order)
    out   = {"binary": bool, "name": str|null, "unresolved": bool, "objProps": bool}

    loaderParseOp  [opId, [pathParam…], [param…], [] | [requestBody], [[statusKey(str|int), node]…],
                    {"parameters": [[k, node]…], "responses": […], "requestBodies": […]},
                    [[name|null, node, out|null]…]]          the oracle: what `_parse_schema` returned (null = raised);
                                                             a request that is not in the table gets the default `out`
      -> {"error": str|null, "schemaRaised": bool, "params": […], "body": …, "responses": […], "events": […], "post": {…}}
    loaderLastSeg      [str] -> str
    loaderStreamLookup [str] -> str|null
-/
open Lean Pog Pog.Drv Pog.Loader
namespace Pog.Drv

def loaderFns : List String := ["loaderParseOp", "loaderLastSeg", "loaderStreamLookup"]

private partial def getNodeL (j : Lean.Json) : Except String JsonV :=
  match j with
  | .null => pure .null
  | .bool b => pure (.bool b)
  | .str s => pure (.str s.toList)
  | .num _ => do pure (.int (← j.getInt?))
  | .arr a => do pure (.arr (← a.toList.mapM getNodeL))
  | .obj _ => do
    let ps ← (← j.getObjVal? "o").getArr?
    let kvs ← ps.toList.mapM (fun p => do
      let a ← p.getArr?
      pure ((← getStr (← argN a 0)), (← getNodeL (← argN a 1))))
    pure (.obj kvs)

private partial def putNodeL (j : JsonV) : Lean.Json :=
  match j with
  | .null => .null
  | .bool b => .bool b
  | .int n => jint n
  | .str s => jstr s
  | .arr xs => Lean.Json.arr (xs.map putNodeL).toArray
  | .obj kvs => Lean.Json.mkObj [("o", Lean.Json.arr (kvs.map (fun kv => Lean.Json.arr #[jstr kv.1, putNodeL kv.2])).toArray)]

private def getTableL (j : Lean.Json) : Except String (List (Str × JsonV)) :=
  getList (fun e => do
    let a ← e.getArr?
    pure ((← getStr (← argN a 0)), (← getNodeL (← argN a 1)))) j

private def getOptStrL (j : Lean.Json) : Except String (Option Str) :=
  if j.isNull then pure none else do pure (some (← getStr j))

private def getOutL (j : Lean.Json) : Except String (Option ParseOut) :=
  if j.isNull then pure none else do
    pure (some { binary := (← (← j.getObjVal? "binary").getBool?),
                 name := (← getOptStrL (← j.getObjVal? "name")),
                 unresolved := (← (← j.getObjVal? "unresolved").getBool?),
                 objProps := (← (← j.getObjVal? "objProps").getBool?) })

private def getOracleL (j : Lean.Json) : Except String Oracle := do
  let rows ← getList (fun e => do
    let a ← e.getArr?
    pure ((← getOptStrL (← argN a 0)), (← getNodeL (← argN a 1)), (← getOutL (← argN a 2)))) j
  pure (fun name node =>
    match rows.find? (fun r => r.1 == name && r.2.1 == node) with
    | some r => r.2.2
    | none => some {})

private def getKeyL (j : Lean.Json) : Except String Ops.StatusKey :=
  match j with
  | .str s => pure (.strKey s.toList)
  | .obj _ => do pure (.badKey (← (← j.getObjVal? "b").getStr?).toList)
  | _ => do pure (.intKey (← j.getInt?))

private def putReqL (r : ParseReq) : Lean.Json := Lean.Json.arr #[jopt jstr r.name, putNodeL r.node]

private def putParamSchemaL : ParamSchema → Lean.Json
  | .enumArray k i => Lean.Json.mkObj [("kind", "enumArray"), ("key", jopt jstr k), ("item", jopt jstr i)]
  | .parsed r => Lean.Json.mkObj [("kind", "parsed"), ("req", putReqL r)]
  | .blank => Lean.Json.mkObj [("kind", "blank")]

private def putParamL (p : IRParam) : Lean.Json :=
  Lean.Json.mkObj [("name", putNodeL p.name), ("in", putNodeL p.pin), ("required", Lean.Json.bool p.required),
                   ("schema", putParamSchemaL p.schema)]

private def putEventL : Event → Lean.Json
  | .parse r => Lean.Json.arr #["parse", jopt jstr r.name, putNodeL r.node]
  | .regEnum k => Lean.Json.arr #["regEnum", jstr k]

private def putPostEvL : PostEv → Lean.Json
  | .regSet k => Lean.Json.arr #["set", jstr k]
  | .regIfAbsent k => Lean.Json.arr #["ifAbsent", jstr k]

private def putRespL (r : IRResp) : Lean.Json :=
  Lean.Json.mkObj [
    ("status", jstr r.status),
    ("content", jlist (fun e => Lean.Json.arr #[jstr e.1, jopt putReqL e.2.req]) r.content),
    ("stream", Lean.Json.bool r.stream), ("format", jopt jstr r.streamFormat)]

private def putBodyL (b : IRReqBody) : Lean.Json :=
  Lean.Json.mkObj [("required", Lean.Json.bool b.required),
                   ("content", jlist (fun e => Lean.Json.arr #[jstr e.1, putReqL e.2.1]) b.content)]

private def putPostL (p : PostOut) : Lean.Json :=
  Lean.Json.mkObj [
    ("bodyNames", jlist (fun e => Lean.Json.arr #[jstr e.1, jopt jstr e.2]) p.bodyNames),
    ("respNames", jlist (fun e => Lean.Json.arr #[jstr e.1, jlist (fun x => Lean.Json.arr #[jstr x.1, jopt jstr x.2]) e.2])
                    p.respNames),
    ("events", jlist putPostEvL p.events)]

def loaderRun (f : String) (a : Array Lean.Json) (u : UInfo) : Except String Lean.Json := do
  match f with
  | "loaderParseOp" =>
    let opId ← getStr (← argN a 0)
    let pathParams ← getList getNodeL (← argN a 1)
    let params ← getList getNodeL (← argN a 2)
    let rbs ← getList getNodeL (← argN a 3)
    let resps ← getList (fun e => do
      let x ← e.getArr?
      pure ((← getKeyL (← argN x 0)), (← getNodeL (← argN x 1)))) (← argN a 4)
    let cj ← argN a 5
    let comps : Comps := { parameters := (← getTableL (← cj.getObjVal? "parameters")),
                           responses := (← getTableL (← cj.getObjVal? "responses")),
                           requestBodies := (← getTableL (← cj.getObjVal? "requestBodies")) }
    let orc ← getOracleL (← argN a 6)
    let inp : OpIn := { opId := opId, pathParams := pathParams, params := params, requestBody := rbs.head?,
                        responses := resps }
    match parseOp u orc comps inp with
    | .error e =>
      pure (Lean.Json.mkObj [("error", jstr (errMsg e)), ("schemaRaised", Lean.Json.bool (e == Err.schemaRaised))])
    | .ok o =>
      pure (Lean.Json.mkObj [
        ("error", Lean.Json.null), ("schemaRaised", Lean.Json.bool false),
        ("params", jlist putParamL o.params), ("body", jopt putBodyL o.body),
        ("responses", jlist putRespL o.responses), ("events", jlist putEventL o.events),
        ("post", putPostL (postProcess opId o))])
  | "loaderLastSeg" => pure (jstr (lastSeg (← getStr (← argN a 0))))
  | "loaderStreamLookup" => pure (jopt jstr (streamLookup u (← getStr (← argN a 0))))
  | _ => throw s!"unknown function {f}"

def dispatchLoader : Dispatch := fun f a u =>
  if loaderFns.contains f then some (loaderRun f a u) else none

end Pog.Drv
