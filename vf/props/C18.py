"""C18 — stream decoders are independent of how the bytes are chunked."""
from __future__ import annotations

from .. import findings
from . import _generic as g

PROP = "C18"
CORR = "vf.corr.c18"


def check(run, ctx) -> None:
    known = findings.Known(run, PROP)
    g.run_corr(run, ctx, CORR, "Stream (splitlines, LineDecoder, SSE, NDJSON, UTF-8 incremental)", quick=1.0, thorough=10.0)
    g.run_oracle(run, ctx, known, CORR, "C18 on the real helpers (every chunking vs unsplit; SSE reference)", {}, quick=1.0, thorough=4.0)
    known.report_unreplayed()


def search(run, ctx) -> None:
    check(run, ctx)


def replay(run, ctx, rec) -> bool:
    return g.replay_generic(rec)
