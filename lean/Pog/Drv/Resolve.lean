import Pog.Drv.Util
import Pog.Model.Resolve
/-
  JSON glue for the schema type resolver model (`Pog/Model/Resolve.lean`).

    IR   {"uid":n,"name":s?,"gen":s?,"stem":s?,"ty":s?,"format":s?,"enum":b,"benum":[true|false|null…],
          "items":IR?,"props":b,"anyOf":[IR…]?,"oneOf":[IR…]?,"allOf":[IR…]?}
    rel  {"k":"absent"} | {"k":"raises"} | {"k":"const","v":s?} | {"k":"prefix","v":s}
    resolve [reg:[[key,IR]…], cur:s?, rel, fuel, IR, required, ru, imps:[[m,n]…]]
-/
open Lean Pog Pog.Drv
namespace Pog.Drv

def resolveFns : List String :=
  ["resolve", "resolveBranch", "resPathBasename", "resPathDirname", "resSelfImport", "resImportModule"]

private def optR (f : Json → Except String α) (j : Json) (k : String) : Except String (Option α) :=
  match j.getObjVal? k with
  | .ok v => if v.isNull then pure none else do pure (some (← f v))
  | .error _ => pure none

private def getOptBool (j : Json) : Except String (Option Bool) :=
  if j.isNull then pure none else do pure (some (← j.getBool?))

private partial def getIR (j : Json) : Except String Resolve.IR := do
  let lst (k : String) : Except String (Option (List Resolve.IR)) :=
    optR (fun v => do (← v.getArr?).toList.mapM getIR) j k
  pure {
    uid := ← getNat (← j.getObjVal? "uid")
    name := ← optR getStr j "name"
    genName := ← optR getStr j "gen"
    stem := ← optR getStr j "stem"
    ty := ← optR getStr j "ty"
    format := ← optR getStr j "format"
    enumNonEmpty := ← getBool (← j.getObjVal? "enum")
    boolEnum := ← (← (← j.getObjVal? "benum").getArr?).toList.mapM getOptBool
    items := ← optR getIR j "items"
    hasProps := ← getBool (← j.getObjVal? "props")
    anyOf := ← lst "anyOf"
    oneOf := ← lst "oneOf"
    allOf := ← lst "allOf" }

private def getReg (j : Json) : Except String (List (Str × Resolve.IR)) := do
  (← j.getArr?).toList.mapM (fun e => do
    let a ← e.getArr?
    pure (← getStr (← argN a 0), ← getIR (← argN a 1)))

private def getRel (j : Json) : Except String Resolve.RelMode := do
  let k ← (← j.getObjVal? "k").getStr?
  match k with
  | "absent" => pure .absent
  | "raises" => pure .raises
  | "const" =>
    let v ← optR getStr j "v"
    pure (.ret (fun _ => v))
  | "prefix" =>
    let v ← getStr (← j.getObjVal? "v")
    pure (.ret (fun t => some (v ++ t)))
  | _ => throw s!"bad rel {k}"

private def getImps (j : Json) : Except String Resolve.Imps := do
  (← j.getArr?).toList.mapM (fun e => do
    let a ← e.getArr?
    pure (← getStr (← argN a 0), ← getStr (← argN a 1)))

private def getOptS (j : Json) : Except String (Option Str) :=
  if j.isNull then pure none else do pure (some (← getStr j))

private def jImps (i : Resolve.Imps) : Json := jlist (fun p => Json.arr #[jstr p.1, jstr p.2]) i

private def leafName : Resolve.Leaf → String
  | .null => "null" | .any => "any" | .named => "named" | .string => "string" | .integer => "integer"
  | .number => "number" | .boolean => "boolean" | .arrayNoItems => "arrayNoItems" | .object => "object"

private def branchName : Resolve.Branch → String
  | .leaf k => "leaf:" ++ leafName k
  | .goto _ => "goto"
  | .array _ ru => if ru then "array:ru" else "array"
  | .union ms => if ms.length == 1 then "union1" else "union"

def resolveRun (f : String) (a : Array Json) : Except String Json := do
  match f with
  | "resolve" =>
    let reg ← getReg (← argN a 0)
    let cur ← getOptS (← argN a 1)
    let rel ← getRel (← argN a 2)
    let fuel ← getNat (← argN a 3)
    let s ← getIR (← argN a 4)
    let required ← getBool (← argN a 5)
    let ru ← getBool (← argN a 6)
    let imps ← getImps (← argN a 7)
    match Resolve.resolve reg cur rel fuel s required ru imps with
    | none => pure Json.null
    | some (r, i) =>
      pure (Json.mkObj [
        ("python_type", jstr (Resolve.render r.ann)),
        ("is_optional", Json.bool r.optional),
        ("is_forward_ref", Json.bool r.forwardRef),
        ("needs_import", Json.bool r.needsImport),
        ("import_module", jopt jstr r.importModule),
        ("import_name", jopt jstr r.importName),
        ("imports", jImps i),
        ("names", jstrs (Resolve.usedNames r)),
        ("cover_ok", Json.bool (Resolve.coverOK (r, i))),
        ("hazard_free", Json.bool (Resolve.hazardFree reg fuel s ru))])
  | "resolveBranch" =>
    pure (Json.str (branchName (Resolve.dispatch (← getReg (← argN a 0)) (← getIR (← argN a 1)) (← getBool (← argN a 2)))))
  | "resPathBasename" => pure (jstr (Resolve.pathBasename (← getStr (← argN a 0))))
  | "resPathDirname" => pure (jstr (Resolve.pathDirname (← getStr (← argN a 0))))
  | "resSelfImport" => pure (Json.bool (Resolve.selfImport (← getOptS (← argN a 0)) (← getStr (← argN a 1))))
  | "resImportModule" => pure (jstr (Resolve.importModuleOf (← getRel (← argN a 0)) (← getStr (← argN a 1))))
  | _ => throw s!"unknown function {f}"

def dispatchResolve : Dispatch := fun f a _ =>
  if resolveFns.contains f then some (resolveRun f a) else none

end Pog.Drv
