#!/venv/bin/python
"""Extract / ModelKind — correspondence and oracle for the Lean models `Pog.Extract`.

run():    seeded random registries of REAL `IRSchema` objects built in-process; the REAL
          `extract_inline_enums(registry, disc)` (which calls `extract_inline_array_items` first), applied once and
          twice, and the REAL `extract_inline_array_items` alone, are compared with the compiled Lean driver
          (`extractEnums`, `extractEnumsTwice`, `extractArrayItems`) on the WHOLE resulting registry: keys in order and,
          recursively for every schema, name / type / generation_name / final_module_stem / enum / property keys in
          order / items / truthiness of any_of, one_of, all_of.  `ModelVisitor.visit_IRSchema` is driven with stub
          generators (the generator that gets called, or "" returned, is the decision) and compared with `modelKind`.
oracle(): the properties themselves on the real functions, no Lean: original keys kept in order and no RuntimeError
          (1), nothing overwritten and one new key per promotion (2), wire keys and array nature of every original
          property unchanged (3), second application changes nothing (6), named schema with properties and no enum ->
          dataclass generator, anonymous -> "" (7).
Importable: no work and no `pyopenapi_gen` import at module import time.
"""
from __future__ import annotations

import contextlib
import json
import os
import random
import re
import shutil
import subprocess
import sys
import tempfile

HERE = os.path.dirname(os.path.abspath(__file__))
DEFAULT_DRIVER = os.path.join(HERE, ".lake", "build", "bin", "driver")

RULE = (
    "registries: 2-6 schemas, keys drawn from a pool with ...Response / ...ListResponse names, names equal to the synthetic "
    "{Parent}{Prop}Item / {Parent}{Prop}Enum / digit-suffixed forms of other pool members, and the odd names 'array' and "
    "'string'; each schema gets 0-4 properties named data/items/results/content (also upper-cased) or ordinary names; a "
    "property is a plain primitive, an inline enum (type string/integer/number/boolean/None, values str or int, with/without "
    "generation_name, name = property key / class-like / a registered key / None), a reference by `type` to a registered "
    "enum, or an array whose items are an inline object (with its own enum and nested array properties) / array / "
    "primitive / empty object / null-type / named / composition; discriminator pairs are a random subset of the "
    "(schema, property) pairs.  A registry case is NON-TRIVIAL when the real function added at least one key.  "
    "visit_IRSchema: schemas over name in {None,'',str} x enum x type pool x properties x items (None / anonymous object "
    "with name None or '' / named / non-object) x one_of/any_of x skip list; non-trivial when the decision is not "
    "'skipped'."
)


# ------------------------------------------------------------------------------------------------ infrastructure
@contextlib.contextmanager
def _quiet():
    import logging
    base = os.environ.get("VERIF_SCRATCH_DIR", "/tmp")
    os.makedirs(base, exist_ok=True)
    d = tempfile.mkdtemp(prefix="corr_extract_", dir=base)
    old_env, old_td = os.environ.get("TMPDIR"), tempfile.tempdir
    os.environ["TMPDIR"] = d
    tempfile.tempdir = d
    old_disable = logging.root.manager.disable
    logging.disable(logging.CRITICAL)
    try:
        yield d
    finally:
        logging.disable(old_disable)
        tempfile.tempdir = old_td
        if old_env is None:
            os.environ.pop("TMPDIR", None)
        else:
            os.environ["TMPDIR"] = old_env
        shutil.rmtree(d, ignore_errors=True)


def _uinfo(strings) -> dict:
    tbl = {}
    for s in strings:
        for c in s:
            if ord(c) >= 128 and str(ord(c)) not in tbl:
                tbl[str(ord(c))] = {"w": bool(re.match(r"\w", c)), "d": c.isdigit(), "l": c.lower(), "U": c.upper(),
                                    "iu": c.isupper()}
    return tbl


def _strings_of(x, acc):
    if isinstance(x, str):
        acc.append(x)
    elif isinstance(x, dict):
        for k, v in x.items():
            _strings_of(k, acc)
            _strings_of(v, acc)
    elif isinstance(x, (list, tuple)):
        for v in x:
            _strings_of(v, acc)
    return acc


def _driver_batch(driver: str, reqs: list) -> list:
    if not reqs:
        return []
    out = []
    for i in range(0, len(reqs), 3000):
        chunk = reqs[i:i + 3000]
        for r in chunk:
            u = _uinfo(_strings_of(r["a"], []))
            if u:
                r["u"] = u
        data = "\n".join(json.dumps(r, ensure_ascii=True) for r in chunk) + "\n"
        p = subprocess.run([driver], input=data, capture_output=True, text=True, timeout=900)
        if p.returncode != 0:
            raise RuntimeError(f"driver exited {p.returncode}: {p.stderr[-1000:]}")
        lines = [ln for ln in p.stdout.split("\n") if ln != ""]
        if len(lines) != len(chunk):
            raise RuntimeError(f"driver answered {len(lines)} lines for {len(chunk)} requests")
        out += [json.loads(ln) for ln in lines]
    return out


# ------------------------------------------------------------------------------------------------ JSON <-> IRSchema
def _mk(j: dict):
    """JSON description -> a fresh IRSchema tree (attributes assigned AFTER construction: no `__post_init__` renaming)."""
    from pyopenapi_gen import IRSchema
    s = IRSchema()
    s.name = j.get("name")
    s.type = j.get("type")
    s.generation_name = j.get("gen")
    s.final_module_stem = j.get("stem")
    en = j.get("enum")
    s.enum = None if en is None else [json.loads(v) for v in en]
    s.properties = {k: _mk(p) for k, p in j.get("props") or []}
    it = j.get("items")
    s.items = None if it is None else _mk(it)
    for f, a in (("anyOf", "any_of"), ("oneOf", "one_of"), ("allOf", "all_of")):
        v = j.get(f)
        setattr(s, a, None if v is None else ([IRSchema(type="string")] if v else []))
    return s


def _dump(s) -> dict:
    return {
        "name": s.name, "type": s.type, "gen": s.generation_name, "stem": s.final_module_stem,
        "enum": None if s.enum is None else [json.dumps(v) for v in s.enum],
        "props": [[k, _dump(p)] for k, p in s.properties.items()],
        "items": None if s.items is None else _dump(s.items),
        "anyOf": bool(s.any_of), "oneOf": bool(s.one_of), "allOf": bool(s.all_of),
    }


def _norm(j: dict) -> dict:
    """The driver's view of an input description (absent / None composition = falsy)."""
    return {
        "name": j.get("name"), "type": j.get("type"), "gen": j.get("gen"), "stem": j.get("stem"),
        "enum": j.get("enum"), "props": [[k, _norm(p)] for k, p in j.get("props") or []],
        "items": None if j.get("items") is None else _norm(j["items"]),
        "anyOf": bool(j.get("anyOf")), "oneOf": bool(j.get("oneOf")), "allOf": bool(j.get("allOf")),
    }


def _mk_reg(reg: list) -> dict:
    return {k: _mk(s) for k, s in reg}


def _dump_reg(d: dict) -> list:
    return [[k, _dump(s)] for k, s in d.items()]


def _real_enums(reg: list, disc: list, times: int = 1):
    """-> dumped registry, or {"raised": "..."}."""
    from pyopenapi_gen.core.loader.schemas.extractor import extract_inline_enums
    d = _mk_reg(reg)
    try:
        for _ in range(times):
            d = extract_inline_enums(d, {(a, b) for a, b in disc})
    except RuntimeError as e:
        return {"raised": f"RuntimeError: {e}"}
    return _dump_reg(d)


def _real_items(reg: list):
    from pyopenapi_gen.core.loader.schemas.extractor import extract_inline_array_items
    d = _mk_reg(reg)
    try:
        d = extract_inline_array_items(d)
    except RuntimeError as e:
        return {"raised": f"RuntimeError: {e}"}
    return _dump_reg(d)


class _Stub:
    def __init__(self, tag, log):
        self.tag, self.log = tag, log

    def generate(self, schema, base_name, context):
        self.log.append((self.tag, base_name))
        return f"# {self.tag}\n"


class _Ctx:
    current_file = None

    def mark_generated_module(self, *_a, **_k):
        pass

    def add_import(self, *_a, **_k):
        pass


def _real_kind(sj: dict, skip: list):
    """Drive the REAL `ModelVisitor.visit_IRSchema` with stub generators.
    -> {"kind": "enum"|"alias"|"dataclass"|"dataWrapperDataclass"|"skipped"|None, "wrapper": bool}"""
    import pyopenapi_gen.visit.model.model_visitor as mv

    class _TH:
        @staticmethod
        def get_python_type_for_schema(*_a, **_k):
            return "Any"

    s = _mk(sj)
    s.is_data_wrapper = False
    v = mv.ModelVisitor(schemas={}, discriminator_skip_list=set(skip))
    log: list = []
    v.alias_generator = _Stub("alias", log)
    v.enum_generator = _Stub("enum", log)
    v.dataclass_generator = _Stub("dataclass", log)

    class _F:
        @staticmethod
        def format(code):
            return code

    v.formatter = _F()
    old = mv.TypeHelper
    mv.TypeHelper = _TH
    try:
        try:
            out = v.visit_IRSchema(s, _Ctx())
        except RuntimeError:
            return {"kind": None, "wrapper": bool(s.is_data_wrapper)}
    finally:
        mv.TypeHelper = old
    if not log:
        kind = "skipped" if out == "" else "?"
    else:
        kind = log[0][0]
        if kind == "dataclass" and s.is_data_wrapper:
            kind = "dataWrapperDataclass"
    return {"kind": kind, "wrapper": bool(s.is_data_wrapper)}


# ------------------------------------------------------------------------------------------------ generators
KEY_POOL = [
    "User", "UserResponse", "UserListResponse", "MessageBatchResponse", "ListResponse", "Response", "ItemListResponse",
    "UserItem", "UserItem1", "MessageBatchItem", "UserTagsItem", "UserTagsItem1", "UserTagsItem2", "UserDataItem",
    "UserResponseDataItem", "UserStatusEnum", "UserStatusEnum1", "UserStatusEnum2", "Status", "StatusEnum", "Status1",
    "user_profile", "userProfile", "Order", "OrderResponse", "OrderItem", "OrderItemsItem", "OrderKindEnum", "Pet",
    "PetResponseList", "array", "string", "MyEnum", "my_status", "Item", "UserTagsItemSubsItem", "UserItemSubsItem",
]
PROP_POOL = ["data", "items", "results", "content", "Data", "ITEMS", "Results", "tags", "status", "kind", "role",
             "user_status", "Status", "a_b", "subs", "type", "données", "x"]
PRIM = ["string", "integer", "number", "boolean"]
ENUM_VALS = [["a", "b"], ["x"], [1, 2, 3], ["a", 1], [1.5], ["active", "inactive", "banned"], [True], []]


def _enum_list(r):
    v = r.choice(ENUM_VALS)
    return [json.dumps(x) for x in v]


def _class_like(r, keys):
    return r.choice(["StatusEnum", "Status", "MyEnum", "UserStatusEnum", "Kind", "My_Enum", "status", "URL", "Édith"]
                    + keys[:2])


def _gen_prop(r, pkey: str, keys: list, depth: int) -> dict:
    k = r.random()
    if k < 0.12:      # plain primitive
        return {"name": r.choice([pkey, None]), "type": r.choice(PRIM + ["object", None])}
    if k < 0.50:      # inline enum and relatives
        p = {"enum": _enum_list(r)}
        if r.random() < 0.08:
            p["enum"] = None
        t = r.random()
        p["type"] = (r.choice(["string", "integer", "number"]) if t < 0.78 else
                     r.choice(["boolean", None, "object", "array"]) if t < 0.86 else r.choice(keys + ["StatusEnum"]))
        n = r.random()
        p["name"] = (pkey if n < 0.55 else None if n < 0.65 else "" if n < 0.68 else _class_like(r, keys) if n < 0.88
                     else r.choice(keys))
        g = r.random()
        p["gen"] = (None if g < 0.45 else "" if g < 0.48 else r.choice(keys) if g < 0.62 else
                    r.choice(["UserStatusEnum", "Status", "StatusEnum", "MyEnum", "my_status", "OrderKindEnum", "Kind"])
                    if g < 0.97 else "array")
        if r.random() < 0.15:
            p["stem"] = "old_stem"
        if r.random() < 0.06:
            p["items"] = _gen_items(r, keys, depth)
        return p
    if k < 0.56:      # reference by type to a (possibly) registered name
        return {"name": r.choice([pkey, None]), "type": r.choice(keys + ["StatusEnum", "Missing"]),
                "enum": r.choice([None, _enum_list(r)])}
    # array
    p = {"name": r.choice([pkey, None]), "type": "array" if r.random() < 0.93 else r.choice(["object", None, "string"])}
    if r.random() < 0.94:
        p["items"] = _gen_items(r, keys, depth)
    if r.random() < 0.05:
        p["enum"] = _enum_list(r)
    return p


def _gen_items(r, keys: list, depth: int) -> dict:
    k = r.random()
    it: dict = {}
    if k < 0.45:      # inline object
        it["type"] = r.choice(["object", "object", "object", None])
        if depth < 2:
            n = r.choice([0, 1, 1, 2, 3])
            names = r.sample(PROP_POOL, n)
            it["props"] = [[pn, _gen_prop(r, pn, keys, depth + 1)] for pn in names]
        else:
            it["props"] = [["v", {"name": "v", "type": "string"}]] if r.random() < 0.5 else []
    elif k < 0.55:
        it["type"] = "array"
        it["items"] = {"type": r.choice(PRIM + ["object"])}
    elif k < 0.68:
        it["type"] = r.choice(PRIM)
        if r.random() < 0.3:
            it["enum"] = _enum_list(r)
    elif k < 0.76:
        it["type"] = "object"          # empty object
    elif k < 0.82:
        it["type"] = "null"
        if r.random() < 0.5:
            it["props"] = [["v", {"name": "v", "type": "string"}]]
    elif k < 0.90:
        it["type"] = r.choice(["object", None, "string", "null"])
        it[r.choice(["anyOf", "oneOf", "allOf"])] = r.choice([True, True, False])
    else:
        it["type"] = r.choice(["object", None])
    n = r.random()
    it["name"] = None if n < 0.80 else "" if n < 0.85 else r.choice(keys + ["Named"])
    return it


def _gen_registry(r) -> tuple:
    n = r.randint(2, 6)
    fam = r.random()
    pool = KEY_POOL if fam < 0.6 else [k for k in KEY_POOL if k.startswith(("User", "Status", "array", "string", "Item"))]
    keys = r.sample(pool, min(n, len(pool)))
    reg = []
    for key in keys:
        s: dict = {"name": key if r.random() < 0.9 else r.choice([None, "", "Other"])}
        t = r.random()
        if t < 0.22:
            s["type"] = r.choice(["string", "integer", "number"])
            s["enum"] = _enum_list(r) if r.random() < 0.85 else None
            g = r.random()
            s["gen"] = None if g < 0.6 else "" if g < 0.65 else r.choice([key, "Renamed"])
            if r.random() < 0.5:
                s["stem"] = "some_stem"
        else:
            s["type"] = r.choice(["object", "object", "object", None, "array", "string"])
            if r.random() < 0.15:
                s["gen"] = key
        if r.random() < (0.25 if "enum" in s else 0.92):
            m = r.choice([1, 1, 2, 2, 3, 4])
            names = r.sample(PROP_POOL, m)
            s["props"] = [[pn, _gen_prop(r, pn, keys, 0)] for pn in names]
        if r.random() < 0.05:
            s["items"] = _gen_items(r, keys, 1)
        reg.append([key, s])
    pairs = [(k, pn) for k, s in reg for pn, _ in s.get("props") or []]
    disc = [list(p) for p in pairs if r.random() < 0.08]
    if r.random() < 0.1:
        disc.append(["Nope", "status"])
    return [[k, _norm(s)] for k, s in reg], disc


TYPE_POOL = ["string", "integer", "number", "object", "array", "boolean", "null", None, "User", ""]


def _gen_kind_case(r) -> tuple:
    n = r.random()
    s: dict = {"name": None if n < 0.12 else "" if n < 0.17 else r.choice(["User", "Status", "UserTagsItem", "my_status"])}
    s["type"] = r.choice(TYPE_POOL)
    e = r.random()
    s["enum"] = None if e < 0.5 else [] if e < 0.58 else _enum_list(r)
    if r.random() < 0.45:
        s["props"] = [[pn, {"name": pn, "type": "string"}] for pn in r.sample(PROP_POOL, r.choice([1, 2]))]
    i = r.random()
    if i < 0.5:
        it: dict = {"type": r.choice(["object", "object", "string", None, "array"])}
        m = r.random()
        it["name"] = None if m < 0.6 else "" if m < 0.75 else "Named"
        s["items"] = it
    for f in ("anyOf", "oneOf", "allOf"):
        if r.random() < 0.2:
            s[f] = r.choice([True, False])
    g = r.random()
    s["gen"] = None if g < 0.5 else "" if g < 0.55 else "GenName"
    skip = [x for x in ["User", "Status", "my_status", "Other"] if r.random() < 0.25]
    return _norm(s), skip


# ------------------------------------------------------------------------------------------------ statistics helpers
def _features(reg: list, disc: list, out, reg1=None) -> list:
    """Branch labels of one registry case, derived from input and REAL output (statistics only)."""
    feats = []
    if not isinstance(out, list):
        return ["raised"]
    keys = [k for k, _ in reg]
    okeys = [k for k, _ in out]
    new = okeys[len(keys):]
    if new:
        feats.append("new-keys")
    for k in new:
        m = re.match(r"^(.*?)(\d+)$", k)
        if m and (m.group(1) in keys or m.group(1) in new):
            feats.append("suffix-loop")
    od = dict((k, s) for k, s in out)
    dset = {(a, b) for a, b in disc}
    for (k, s), (_, s2) in zip(reg, out):
        if s.get("enum") and s.get("type") in ("string", "integer", "number") and not s.get("gen") and s2.get("gen"):
            feats.append("top-level-gen-set")
        for (pn, p), (_, p2) in zip(s["props"], s2["props"]):
            it, it2 = p.get("items"), p2.get("items")
            if it is not None and not it.get("name") and it2.get("name"):
                feats.append("item-promoted")
                if pn.lower() in ("data", "items", "results", "content"):
                    feats.append("wrapper-prop")
                    if it.get("type") == "object" and k.endswith("Response"):
                        feats.append("response-special-name")
            elif p.get("type") == "array" and it is not None and not it.get("name"):
                feats.append("item-not-complex")
            if p.get("enum") and p.get("type") in ("string", "integer", "number"):
                if (k, pn) in dset:
                    feats.append("enum-disc-skip")
                elif p2.get("enum") is None:
                    feats.append("enum-extracted")
                    if p.get("gen"):
                        feats.append("enum-name-from-gen")
                    e = od.get(p2["name"])
                    if e is not None and e["name"] != p2["name"]:
                        feats.append("enum-entry-name-differs-from-key")
                    if p2.get("type") == "array":
                        feats.append("type-became-array")
                else:
                    feats.append("enum-kept-already-extracted")
                    # which disjuncts of `enum_already_extracted` hold (statistics only)
                    ed = {kk: bool(ss.get("enum")) for kk, ss in reg1} if isinstance(reg1, list) else {}
                    if p.get("gen") and ed.get(p["gen"]):
                        feats.append("already:generation_name-registered-enum")
                    if p.get("name") and ed.get(p["name"]):
                        feats.append("already:name-registered-enum")
                    n_ = p.get("name")
                    if n_ and n_[0].isupper() and "_" not in n_ and n_ != pn:
                        feats.append("already:class-like-name")
                    if p.get("type") and ed.get(p["type"]):
                        feats.append("already:type-registered-enum")
    for k in new:
        s = od[k]
        for pn, p in s["props"]:
            if p.get("enum") is None and p.get("type") in new:
                feats.append("enum-extracted-from-promoted-item")
    return feats


# ------------------------------------------------------------------------------------------------ run
def run(seed: int, scale: float, driver: str = DEFAULT_DRIVER) -> dict:
    r = random.Random(seed)
    n_reg = max(20, int(4500 * scale))
    n_kind = max(50, int(8000 * scale))
    comparisons = 0
    disagreements: list = []
    distribution: dict = {}
    samples: list = []
    nontrivial_keys = set()

    def bump(k, n=1):
        distribution[k] = distribution.get(k, 0) + n

    def compare(label, request, model, impl):
        nonlocal comparisons
        comparisons += 1
        if model != impl:
            if len(disagreements) < 50:
                disagreements.append({"label": label, "request": request, "model": model, "impl": impl})

    with _quiet():
        cases = [_gen_registry(r) for _ in range(n_reg)]
        reqs, impls = [], []
        for reg, disc in cases:
            once = _real_enums(reg, disc, 1)
            twice = _real_enums(reg, disc, 2)
            items = _real_items(reg)
            reqs.append({"f": "extractEnums", "a": [reg, disc]})
            impls.append(once)
            reqs.append({"f": "extractEnumsTwice", "a": [reg, disc]})
            impls.append(twice)
            reqs.append({"f": "extractArrayItems", "a": [reg]})
            impls.append(items)
            feats = _features(reg, disc, once, items)
            for f in set(feats):
                bump(f)
            if isinstance(once, list) and isinstance(twice, list) and once != twice:
                bump("second-run-changes-something")
            if "new-keys" in feats:
                nontrivial_keys.add(json.dumps([reg, disc], sort_keys=True))
                if len(samples) < 4 and len(json.dumps(reg)) < 1800:
                    samples.append({"registry": reg, "disc": disc, "result_keys": [k for k, _ in once]})
        kcases = [_gen_kind_case(r) for _ in range(n_kind)]
        for s, skip in kcases:
            real = _real_kind(s, skip)
            reqs.append({"f": "modelKind", "a": [s, skip]})
            impls.append(real)
            bump("kind:" + str(real["kind"]))
            if real["kind"] != "skipped":
                nontrivial_keys.add(json.dumps([s, skip], sort_keys=True))
        if len(samples) < 6 and kcases:
            samples.append({"schema": kcases[0][0], "skip": kcases[0][1], "kind": _real_kind(*kcases[0])})
        # the two string helpers on their own
        for _ in range(max(20, int(400 * scale))):
            name = "".join(r.choice(["Response", "List", "Res", "ponse", "Lis", "t", "User", "R", "L", "é", "_"])
                           for _ in range(r.randint(0, 5)))
            reqs.append({"f": "dropSub", "a": ["Response", name]})
            impls.append(name.replace("Response", ""))
            reqs.append({"f": "dropSub", "a": ["List", name]})
            impls.append(name.replace("List", ""))
        answers = _driver_batch(driver, reqs)
    for req, ans, impl in zip(reqs, answers, impls):
        if req["f"] == "modelKind":
            model = {"kind": ans.get("kind"), "wrapper": ans.get("flags", [None] * 4)[3]} if isinstance(ans, dict) else ans
            if isinstance(ans, dict) and "error" in ans:
                model = ans
            compare("modelKind", req, model, impl)
        elif req["f"] == "dropSub":
            compare("dropSub", req, ans, impl)
        else:
            model = ans
            if isinstance(impl, dict) and "raised" in impl:
                impl_cmp = None          # the model answers null when a post-condition check fails
            else:
                impl_cmp = impl
            compare(req["f"], req, model, impl_cmp)
    return {"comparisons": comparisons, "disagreements": disagreements, "nontrivial": len(nontrivial_keys),
            "rule": RULE, "samples": samples, "distribution": distribution}


# ------------------------------------------------------------------------------------------------ oracle
def _complex(it: dict) -> bool:
    empty = it["type"] == "object" and not it["props"] and not it["anyOf"] and not it["oneOf"] and not it["allOf"]
    return it["type"] != "null" and not empty and (
        it["type"] in ("object", "array") or bool(it["props"]) or it["anyOf"] or it["oneOf"] or it["allOf"])


def _wants_item(p: dict):
    it = p["items"]
    if it is None:
        return None
    return it if p["type"] == "array" and not it["name"] and _complex(it) else None


def _no_array_gen(reg: list) -> bool:
    """hypothesis of `extract_preserves_array_nature_partial`"""
    return all(p["gen"] != "array" for _, s in reg for _, p in s["props"])


def _idem_ok(reg: list) -> bool:
    """hypothesis `idemOk` of `extract_idempotent_partial`"""
    for _, s in reg:
        for _, p in s["props"]:
            if p["gen"] == "array":
                return False
            it = _wants_item(p)
            if it is not None:
                for _, q in it["props"]:
                    if _wants_item(q) is not None or q["gen"] == "array":
                        return False
    return True


def _eval_registry_case(case: dict) -> list:
    """The properties on the REAL functions for one registry case -> list of failures."""
    from pyopenapi_gen.core.loader.schemas.extractor import extract_inline_enums
    reg, disc = case["registry"], case["disc"]
    fails = []

    def fail(cls, observed, expected):
        fails.append({"class": cls, "case": case, "observed": observed, "expected": expected})

    d = _mk_reg(reg)
    originals = dict(d)
    orig_keys = list(d.keys())
    before = _dump_reg(d)
    try:
        out = extract_inline_enums(d, {(a, b) for a, b in disc})
    except RuntimeError as e:
        fail("extract-postcondition-raises", f"RuntimeError: {e}", "no exception")
        return fails
    okeys = list(out.keys())
    # (1) original keys kept, in order, as a prefix
    if okeys[:len(orig_keys)] != orig_keys:
        fail("extract-original-keys-moved", okeys, orig_keys)
    # (2) nothing overwritten; one new key per promotion
    for k in orig_keys:
        if out.get(k) is not originals[k]:
            fail("extract-overwrote-entry", k, "same object")
    after = _dump_reg(out)
    promotions = 0
    new = okeys[len(orig_keys):]
    for idx, (k, s2) in enumerate(after):
        s1 = before[idx][1] if idx < len(before) else None
        for j, (pn, p2) in enumerate(s2["props"]):
            if s1 is not None:
                p1 = s1["props"][j][1] if j < len(s1["props"]) else None
                if p1 is None:
                    continue
                i1, i2 = p1.get("items"), p2.get("items")
                if i1 is not None and i2 is not None and not i1.get("name") and i2.get("name"):
                    promotions += 1
                if p1.get("enum") and p2.get("enum") is None and p2.get("type") in new:
                    promotions += 1
            else:
                # a promoted item schema: its properties' enums were extracted by the second pass
                if p2.get("enum") is None and p2.get("type") in new and p2.get("name") == p2.get("type"):
                    promotions += 1
    if promotions != len(new):
        fail("extract-promotions-vs-new-keys", {"promotions": promotions, "new": new}, "one new key per promotion")
    # (3) wire keys and array nature of every original property
    for (k, s1), (_, s2) in zip(before, after):
        k1 = [pn for pn, _ in s1["props"]]
        k2 = [pn for pn, _ in s2["props"]]
        if k1 != k2:
            fail("extract-wire-keys-changed", {k: k2}, {k: k1})
            continue
        for (pn, p1), (_, p2) in zip(s1["props"], s2["props"]):
            if (p1.get("type") == "array") != (p2.get("type") == "array"):
                fail("extract-wire-array-flip" if not _no_array_gen(reg) else "extract-wire-array-flip-unexplained",
                     {"schema": k, "prop": pn, "type": p2.get("type")}, {"type": p1.get("type")})
    # (6) idempotence
    try:
        out2 = extract_inline_enums(dict(out), {(a, b) for a, b in disc})
        again = _dump_reg(out2)
        if again != after:
            fail("extract-not-idempotent" if not _idem_ok(reg) else "extract-not-idempotent-unexplained",
                 {"keys_after_second_run": [k for k, _ in again]},
                 {"keys_after_first_run": [k for k, _ in after]})
    except RuntimeError as e:
        fail("extract-postcondition-raises", f"second run RuntimeError: {e}", "no exception")
    return fails


def _eval_kind_case(case: dict) -> list:
    s, skip = case["schema"], case["skip"]
    real = _real_kind(s, skip)
    fails = []
    named = bool(s.get("name"))
    if not named and real["kind"] != "skipped":
        fails.append({"class": "kind-anonymous-rendered", "case": case, "observed": real, "expected": "skipped"})
    if named and s.get("props") and not s.get("enum") and real["kind"] != "dataclass":
        fails.append({"class": "kind-properties-not-dataclass", "case": case, "observed": real,
                      "expected": "dataclass"})
    if real["kind"] is None or real["kind"] == "?":
        fails.append({"class": "kind-no-decision", "case": case, "observed": real, "expected": "exactly one decision"})
    return fails


def _make_cases(seed: int, scale: float) -> list:
    r = random.Random(seed * 7919 + 13)
    cases = []
    for _ in range(max(20, int(6000 * scale))):
        reg, disc = _gen_registry(r)
        cases.append({"kind": "registry", "registry": reg, "disc": disc})
    for _ in range(max(50, int(12000 * scale))):
        s, skip = _gen_kind_case(r)
        cases.append({"kind": "visit", "schema": s, "skip": skip})
    return cases


def _eval_case(case: dict) -> list:
    return _eval_registry_case(case) if case["kind"] == "registry" else _eval_kind_case(case)


def oracle(seed: int, scale: float) -> dict:
    failures = []
    per_class: dict = {}
    n = 0
    with _quiet():
        for case in _make_cases(seed, scale):
            n += 1
            for f in _eval_case(case):
                per_class[f["class"]] = per_class.get(f["class"], 0) + 1
                if per_class[f["class"]] <= 40:          # keep every class visible, bound the size
                    failures.append(f)
    return {"evaluations": n, "failures": failures, "failures_per_class": per_class}


def replay(case) -> bool:
    with _quiet():
        return bool(_eval_case(case))


if __name__ == "__main__":
    sys.path.insert(0, "/repo/src")
    import time
    t0 = time.time()
    seed = int(sys.argv[1]) if len(sys.argv) > 1 else 1
    scale = float(sys.argv[2]) if len(sys.argv) > 2 else 1.0
    res = run(seed, scale, DEFAULT_DRIVER)
    print(f"{res['comparisons']} comparisons, {res['nontrivial']} non-trivial, {len(res['disagreements'])} disagreements "
          f"({time.time() - t0:.1f}s)")
    print(json.dumps(res["distribution"], sort_keys=True))
    for d in res["disagreements"][:5]:
        print(json.dumps(d)[:3000])
    t1 = time.time()
    o = oracle(seed, scale)
    by = o["failures_per_class"]
    print(f"oracle: {o['evaluations']} evaluations, failures by class: {json.dumps(by, sort_keys=True)} "
          f"({time.time() - t1:.1f}s)")
    if o["failures"]:
        print("replay of first failure:", replay(o["failures"][0]["case"]))
