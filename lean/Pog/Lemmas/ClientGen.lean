import Pog.Model.ClientGen
import Pog.Lemmas.SurfaceModule
/-
  Lemmas about `Pog.ClientGen` (Pog/Model/ClientGen.lean): the tag tuples of `ClientVisitor.visit` are one tuple per
  normalised key, sorted by key, built from the canonical tag; character-level facts about `sanModule`.
-/
namespace Pog.ClientGen
open Pog

/-! ## Generic list helpers -/

theorem mapM_eq_some_filterMap {α β : Type} (f : α → Option β) (l : List α) (h : ∀ a ∈ l, (f a).isSome = true) :
    l.mapM f = some (l.filterMap f) := by
  induction l with
  | nil => rfl
  | cons a l ih =>
    have ha := h a (by simp)
    obtain ⟨b, hb⟩ := Option.isSome_iff_exists.1 ha
    rw [List.mapM_cons, hb, ih (fun x hx => h x (List.mem_cons_of_mem _ hx))]
    simp [hb]

theorem filterMap_eq_map_of_some {α β : Type} (f : α → Option β) (g : α → β) (l : List α)
    (h : ∀ a ∈ l, f a = some (g a)) : l.filterMap f = l.map g := by
  induction l with
  | nil => rfl
  | cons a l ih =>
    rw [List.filterMap_cons, h a (by simp), ih (fun x hx => h x (List.mem_cons_of_mem _ hx))]
    rfl

theorem nodup_not_mem_drop {α : Type} (l : List α) (i : Nat) (x : α) (h : l[i]? = some x) (hn : l.Nodup) :
    x ∉ l.drop (i + 1) := by
  induction l generalizing i with
  | nil => simp at h
  | cons a l ih =>
    simp only [List.nodup_cons] at hn
    cases i with
    | zero =>
      simp only [List.getElem?_cons_zero, Option.some.injEq] at h
      subst h
      simpa using hn.1
    | succ j =>
      simp only [List.getElem?_cons_succ] at h
      simpa using ih j h hn.2

/-! ## The dictionary of the visitor -/

theorem dictGet_isSome_of_mem_keys {α : Type} (d : List (Str × α)) (k : Str) (h : k ∈ d.map (·.1)) :
    (tagDictGet d k).isSome = true := by
  obtain ⟨e, he, rfl⟩ := List.mem_map.1 h
  unfold tagDictGet
  cases hf : d.find? (fun x => x.1 == e.1) with
  | none =>
    have := List.find?_eq_none.1 hf e he
    simp at this
  | some x => rfl

/-- The keys of `tag_map`, in the order `sorted(tag_map)`. -/
def tupleKeys (u : UInfo) (tagss : List (List Str)) : List Str :=
  sortKeys ((tagMapEmitter u (opsOfTags tagss)).map (·.1))

theorem tagMapEmitter_keys_nodup (u : UInfo) (ops : List TagOp) : ((tagMapEmitter u ops).map (·.1)).Nodup := by
  rw [tagMapEmitter_fused, List.map_map]; exact keyToPairs_nodup u ops

theorem tupleKeys_perm (u : UInfo) (tagss : List (List Str)) :
    (tupleKeys u tagss).Perm ((tagMapEmitter u (opsOfTags tagss)).map (·.1)) := sortKeys_perm _

theorem tupleKeys_nodup (u : UInfo) (tagss : List (List Str)) : (tupleKeys u tagss).Nodup :=
  (tupleKeys_perm u tagss).nodup_iff.2 (tagMapEmitter_keys_nodup u _)

/-- `ClientVisitor.visit` never raises: neither `max` (no key has an empty candidate list) nor `tag_map[key]`. -/
theorem tagTuplesRaw_eq (u : UInfo) (tagss : List (List Str)) : tagTuplesRaw u tagss = some (tagTuples u tagss) := by
  unfold tagTuplesRaw tagTuples
  rw [tagMapVisitor_eq]
  simp only
  apply mapM_eq_some_filterMap
  intro k hk
  have hk' : k ∈ (tagMapEmitter u (opsOfTags tagss)).map (·.1) := (sortKeys_perm _).mem_iff.1 hk
  have := dictGet_isSome_of_mem_keys _ k hk'
  obtain ⟨b, hb⟩ := Option.isSome_iff_exists.1 this
  simp [hb]

/-- One tuple per key, from the canonical tag of the key. -/
theorem tagTuples_eq_map (u : UInfo) (tagss : List (List Str)) :
    tagTuples u tagss = (tupleKeys u tagss).map fun k => mkTuple u (canonicalTag u tagss k) := by
  unfold tagTuples tupleKeys
  apply filterMap_eq_map_of_some
  intro k hk
  have hk' : k ∈ (tagMapEmitter u (opsOfTags tagss)).map (·.1) := (sortKeys_perm _).mem_iff.1 hk
  obtain ⟨b, hb⟩ := Option.isSome_iff_exists.1 (dictGet_isSome_of_mem_keys _ k hk')
  simp [canonicalTag, hb]

theorem tagsOrDefault_opsOfTags (ts : List Str) : tagsOrDefault ⟨[], ts⟩ = tagsOr ts := rfl

theorem mem_opsOfTags (tagss : List (List Str)) (op : TagOp) :
    op ∈ opsOfTags tagss ↔ ∃ ts ∈ tagss, op = ⟨[], ts⟩ := by
  unfold opsOfTags
  constructor
  · intro h
    obtain ⟨ts, hts, rfl⟩ := List.mem_map.1 h
    exact ⟨ts, hts, rfl⟩
  · rintro ⟨ts, hts, rfl⟩
    exact List.mem_map.2 ⟨ts, hts, rfl⟩

/-- The entries of `tag_map` are the (key, canonical tag) pairs of the endpoint groups. -/
theorem mem_tagMapEmitter (u : UInfo) (ops : List TagOp) (e : Str × Str) :
    e ∈ tagMapEmitter u ops ↔ ∃ g ∈ groupEndpoints u ops, g.key = e.1 ∧ g.canon = e.2 := by
  rw [tagMapEmitter_fused]
  unfold groupEndpoints
  constructor
  · intro h
    obtain ⟨x, hx, rfl⟩ := List.mem_map.1 h
    exact ⟨_, List.mem_map.2 ⟨x, hx, rfl⟩, rfl, rfl⟩
  · rintro ⟨g, hg, h1, h2⟩
    obtain ⟨x, hx, rfl⟩ := List.mem_map.1 hg
    refine List.mem_map.2 ⟨x, hx, ?_⟩
    obtain ⟨a, b⟩ := e
    simp only [mkGroup] at h1 h2
    rw [h1, h2]

theorem canonicalTag_of_mem (u : UInfo) (tagss : List (List Str)) (e : Str × Str)
    (he : e ∈ tagMapEmitter u (opsOfTags tagss)) : canonicalTag u tagss e.1 = e.2 := by
  unfold canonicalTag
  rw [dictGet_of_mem _ (tagMapEmitter_keys_nodup u _) e he]
  rfl

/-- `k` is a key of `tag_map` iff some tag of some operation (or `default`) normalises to it. -/
theorem mem_tupleKeys (u : UInfo) (tagss : List (List Str)) (k : Str) :
    k ∈ tupleKeys u tagss ↔ ∃ ts ∈ tagss, ∃ t ∈ tagsOr ts, normTagKey u t = k := by
  rw [(tupleKeys_perm u tagss).mem_iff]
  constructor
  · intro h
    obtain ⟨e, he, rfl⟩ := List.mem_map.1 h
    obtain ⟨g, hg, hk, _⟩ := (mem_tagMapEmitter u _ e).1 he
    -- the group has at least one operation id: take the pair that produced it
    unfold groupEndpoints at hg
    obtain ⟨x, hx, rfl⟩ := List.mem_map.1 hg
    rw [keyToPairs_eq] at hx
    obtain ⟨h1, h2⟩ := gfold_entry _ _ _ x hx
    cases hf : (tagPairs u (opsOfTags tagss)).filter (fun p => p.1 == x.1) with
    | nil => rw [hf] at h1; exact absurd h1 h2
    | cons p rest =>
      have hp : p ∈ (tagPairs u (opsOfTags tagss)).filter (fun p => p.1 == x.1) := by rw [hf]; simp
      obtain ⟨hp1, hp2⟩ := List.mem_filter.1 hp
      obtain ⟨hpk, op, hop, ht⟩ := tagPairs_key u _ p hp1
      obtain ⟨ts, hts, rfl⟩ := (mem_opsOfTags tagss op).1 hop
      refine ⟨ts, hts, p.2.1, ht, ?_⟩
      have : p.1 = x.1 := by simpa using hp2
      rw [← hpk, this]
      exact hk
  · rintro ⟨ts, hts, t, ht, rfl⟩
    have hop : (⟨[], ts⟩ : TagOp) ∈ opsOfTags tagss := (mem_opsOfTags tagss _).2 ⟨ts, hts, rfl⟩
    obtain ⟨g, hg, hk, _⟩ := every_op_present u (opsOfTags tagss) ⟨[], ts⟩ t hop ht
    have := (mem_tagMapEmitter u _ (g.key, g.canon)).2 ⟨g, hg, rfl, rfl⟩
    rw [← hk]
    exact List.mem_map.2 ⟨_, this, rfl⟩

/-- The canonical tag of a key of `tag_map` normalises to that key and is a tag some operation carries (or `default`). -/
theorem canonicalTag_spec (u : UInfo) (tagss : List (List Str)) (k : Str) (hk : k ∈ tupleKeys u tagss) :
    normTagKey u (canonicalTag u tagss k) = k ∧ ∃ ts ∈ tagss, canonicalTag u tagss k ∈ tagsOr ts := by
  have hk' := (tupleKeys_perm u tagss).mem_iff.1 hk
  obtain ⟨e, he, rfl⟩ := List.mem_map.1 hk'
  rw [canonicalTag_of_mem u tagss e he]
  obtain ⟨g, hg, h1, h2⟩ := (mem_tagMapEmitter u _ e).1 he
  obtain ⟨hkey, ⟨op, hop, hc⟩, _, _⟩ := groupEndpoints_canon u _ g hg
  obtain ⟨ts, hts, rfl⟩ := (mem_opsOfTags tagss op).1 hop
  rw [← h1, ← h2]
  exact ⟨hkey.symm, ts, hts, hc⟩

/-- Every tuple is `mkTuple` of a tag that occurs. -/
theorem mem_tagTuples (u : UInfo) (tagss : List (List Str)) (t : TagTuple) (ht : t ∈ tagTuples u tagss) :
    ∃ k ∈ tupleKeys u tagss, t = mkTuple u (canonicalTag u tagss k) := by
  rw [tagTuples_eq_map] at ht
  obtain ⟨k, hk, rfl⟩ := List.mem_map.1 ht
  exact ⟨k, hk, rfl⟩

theorem mem_tagTuples_tag (u : UInfo) (tagss : List (List Str)) (t : TagTuple) (ht : t ∈ tagTuples u tagss) :
    t = mkTuple u t.tag ∧ ∃ ts ∈ tagss, t.tag ∈ tagsOr ts := by
  obtain ⟨k, hk, rfl⟩ := mem_tagTuples u tagss t ht
  exact ⟨rfl, (canonicalTag_spec u tagss k hk).2⟩

/-! ## The tuples and the endpoint groups -/

def groupTuple (g : TagGroup) : TagTuple := (g.canon, g.cls, g.module)

theorem tagTuples_perm_groups (u : UInfo) (tagss : List (List Str)) :
    (tagTuples u tagss).Perm ((groupEndpoints u (opsOfTags tagss)).map groupTuple) := by
  unfold tagTuples
  have hn := tagMapEmitter_keys_nodup u (opsOfTags tagss)
  refine (List.Perm.filterMap _ (sortKeys_perm _)).trans ?_
  rw [List.filterMap_map]
  have : (tagMapEmitter u (opsOfTags tagss)).filterMap
      ((fun k => (tagDictGet (tagMapEmitter u (opsOfTags tagss)) k).map (mkTuple u)) ∘ (·.1)) =
      (tagMapEmitter u (opsOfTags tagss)).map (fun e => mkTuple u e.2) := by
    apply filterMap_eq_map_of_some
    intro e he
    simp only [Function.comp_def]
    rw [dictGet_of_mem _ hn e he]; rfl
  rw [this, tagMapEmitter_fused]
  simp only [groupEndpoints, List.map_map]
  exact List.Perm.of_eq (List.map_congr_left (fun e _ => rfl))

theorem opTagPairs_forget_id (u : UInfo) (id : Str) : ∀ (ts seen : List Str),
    opTagPairs u [] seen ts = (opTagPairs u id seen ts).map fun p => (p.1, p.2.1, p.2.2.map (fun _ => ([] : Str))) := by
  intro ts
  induction ts with
  | nil => intro _; rfl
  | cons t ts ih =>
    intro seen
    simp only [opTagPairs]
    split <;> simp [ih]

/-- Operation ids play no role: the tag pairs of the id-less operations. -/
theorem tagPairs_opsOfTags (u : UInfo) (ops : List TagOp) :
    tagPairs u (opsOfTags (ops.map (·.tags))) = (tagPairs u ops).map fun p => (p.1, p.2.1, p.2.2.map (fun _ => ([] : Str))) := by
  unfold tagPairs opsOfTags
  induction ops with
  | nil => rfl
  | cons op ops ih =>
    simp only [List.map_cons, List.flatMap_cons, List.map_append, ih]
    congr 1
    exact opTagPairs_forget_id u op.id _ []

theorem tagMapEmitter_opsOfTags (u : UInfo) (ops : List TagOp) :
    tagMapEmitter u (opsOfTags (ops.map (·.tags))) = tagMapEmitter u ops := by
  unfold tagMapEmitter
  rw [keyToCands_eq, keyToCands_eq, tagPairs_opsOfTags, gfold_map]

theorem tagTuples_perm_groups_ops (u : UInfo) (ops : List TagOp) :
    (tagTuples u (ops.map (·.tags))).Perm ((groupEndpoints u ops).map groupTuple) := by
  unfold tagTuples
  rw [tagMapEmitter_opsOfTags]
  have hn := tagMapEmitter_keys_nodup u ops
  refine (List.Perm.filterMap _ (sortKeys_perm _)).trans ?_
  rw [List.filterMap_map]
  have : (tagMapEmitter u ops).filterMap ((fun k => (tagDictGet (tagMapEmitter u ops) k).map (mkTuple u)) ∘ (·.1)) =
      (tagMapEmitter u ops).map (fun e => mkTuple u e.2) := by
    apply filterMap_eq_map_of_some
    intro e he
    simp only [Function.comp_def]
    rw [dictGet_of_mem _ hn e he]; rfl
  rw [this, tagMapEmitter_fused]
  simp only [groupEndpoints, List.map_map]
  exact List.Perm.of_eq (List.map_congr_left (fun e _ => rfl))

/-- The property names of `APIClient` as `Pog.clientProps` has them. -/
theorem clientProps_eq (u : UInfo) (tagss : List (List Str)) :
    clientProps u (opsOfTags tagss) = some ((tagTuples u tagss).map (·.module)) := by
  unfold clientProps tagTuples
  rw [tagMapVisitor_eq]
  simp only [Option.map_some, List.map_filterMap, Option.map_map]
  rfl

theorem mockClientProps_eq (u : UInfo) (tagss : List (List Str)) :
    mockClientProps u (opsOfTags tagss) = (mockTuples u tagss).map (·.module) := by
  simp [mockClientProps, mockTuples, List.map_map, Function.comp_def, TagTuple.module]

/-! ## Emptiness -/

theorem tagsOr_nonempty (ts : List Str) : ∃ t, t ∈ tagsOr ts := by
  unfold tagsOr
  cases ts with
  | nil => exact ⟨kDefaultTag, by simp⟩
  | cons t ts' => exact ⟨t, by simp⟩

theorem tagTuples_eq_nil_iff (u : UInfo) (tagss : List (List Str)) : tagTuples u tagss = [] ↔ tagss = [] := by
  constructor
  · intro h
    cases tagss with
    | nil => rfl
    | cons ts rest =>
      exfalso
      obtain ⟨t, ht⟩ := tagsOr_nonempty ts
      have hk := (mem_tupleKeys u (ts :: rest) (normTagKey u t)).2 ⟨ts, by simp, t, ht, rfl⟩
      rw [tagTuples_eq_map] at h
      simp only [List.map_eq_nil_iff] at h
      rw [h] at hk; cases hk
  · rintro rfl; rfl

/-- F23 repaired: the `tag_tuples` the mocks emitter hands to `generate_client_mock_class` ARE the tuples of
    `ClientVisitor.visit` — same tuples, same order. -/
theorem mockTuples_eq_tagTuples (u : UInfo) (tagss : List (List Str)) : mockTuples u tagss = tagTuples u tagss := by
  unfold mockTuples tagTuples
  simp only
  rw [← groupMocks_map_canon u (opsOfTags tagss) (mkTuple u)]
  apply List.map_congr_left
  intro g hg
  rw [groupMocks_mk u (opsOfTags tagss) g hg]
  rfl

theorem mockTuples_eq_nil_iff (u : UInfo) (tagss : List (List Str)) : mockTuples u tagss = [] ↔ tagss = [] := by
  rw [mockTuples_eq_tagTuples]
  exact tagTuples_eq_nil_iff u tagss

/-! ## Character-level shape of a module name -/

/-- The head of a module name derived from a tag with an ASCII alphanumeric: a lower-case letter, or `_` followed by a digit. -/
def modHeadB : Str → Bool
  | [] => false
  | c :: cs => isLowerA c || (c == '_' && match cs with | d :: _ => isDigitA d | [] => false)

def allUsB (m : Str) : Bool := m.all (· == '_')

theorem lower_or_digit_lowerA {c : Char} (h : isAlnumA c = true) :
    isLowerA (lowerA c) = true ∨ isDigitA (lowerA c) = true := by
  char_arith

theorem not_lower_of_digit {c : Char} (h : isDigitA c = true) : isLowerA c = false := by
  char_arith

theorem not_us_of_digit {c : Char} (h : isDigitA c = true) : (c == '_') = false := by
  have : c ≠ '_' := by
    intro e; subst e; revert h; decide
  simpa using this

theorem joinWith_head (sep : Str) (x : Str) (rest : List Str) (c : Char) (cs : Str) (hx : x = c :: cs) :
    ∃ cs', joinWith sep (x :: rest) = c :: cs' := by
  subst hx
  cases rest with
  | nil => exact ⟨cs, rfl⟩
  | cons y ys => exact ⟨cs ++ sep ++ joinWith sep (y :: ys), by simp [joinWith]⟩

theorem modHeadB_append (m : Str) (x : Str) (h : modHeadB m = true) : modHeadB (m ++ x) = true := by
  cases m with
  | nil => cases h
  | cons c cs =>
    cases cs with
    | nil =>
      simp only [modHeadB, Bool.and_false, Bool.or_false] at h
      simp [modHeadB, h]
    | cons d ds => simpa [modHeadB] using h

theorem sanModule_modHead (u : UInfo) (t : Str) (h : t.any isAlnumA = true) : modHeadB (sanModule u t) = true := by
  rw [sanModule_eq u t h]
  have hne : tokenize t ≠ [] := by
    intro h0; rw [tokenize_eq_nil_iff, h] at h0; cases h0
  cases htk : tokenize t with
  | nil => exact absurd htk hne
  | cons w ws =>
    obtain ⟨hw1, hw2⟩ := tokenize_good t w (by rw [htk]; simp)
    cases w with
    | nil => exact absurd rfl hw1
    | cons c0 cs0 =>
      simp only [List.all_cons, Bool.and_eq_true] at hw2
      have hasc := isAscii_of_isAlnumA hw2.1
      have hl : u.lowerS (c0 :: cs0) = lowerA c0 :: u.lowerS cs0 := by
        simp [UInfo.lowerS, List.flatMap_cons, hasc]
      obtain ⟨cs', hj⟩ := joinWith_head ['_'] (u.lowerS (c0 :: cs0)) (ws.map u.lowerS) _ _ hl
      simp only [List.map_cons, hj]
      have key : modHeadB (digitGuard (lowerA c0 :: cs')) = true := by
        simp only [digitGuard]
        split
        · rename_i hd
          simp [modHeadB, hd]
        · rename_i hd
          rcases lower_or_digit_lowerA hw2.1 with h1 | h1
          · simp [modHeadB, h1]
          · exact absurd h1 hd
      unfold methodPost
      split
      · exact modHeadB_append _ _ key
      · exact key

/-- What is known of the module name of a tag that is ASCII or has an ASCII alphanumeric. -/
def ModOK (m : Str) : Prop := modHeadB m = true ∨ allUsB m = true

theorem sanModule_modOK (u : UInfo) (t : Str) (h : t.all isAscii = true ∨ t.any isAlnumA = true) :
    ModOK (sanModule u t) := by
  cases ha : t.any isAlnumA with
  | true => exact .inl (sanModule_modHead u t ha)
  | false =>
    rcases h with h | h
    · right
      unfold allUsB
      rw [List.all_eq_true]
      intro c hc
      simpa using sanModule_all_us u t h ha c hc
    · rw [ha] at h; cases h

theorem modHead_not_allUs (m : Str) (h : modHeadB m = true) : allUsB m = false := by
  cases m with
  | nil => cases h
  | cons c cs =>
    simp only [modHeadB, Bool.or_eq_true, Bool.and_eq_true] at h
    rcases h with h | ⟨h1, h2⟩
    · have : (c == '_') = false := by
        have : c ≠ '_' := by intro e; subst e; revert h; decide
        simpa using this
      simp [allUsB, this]
    · cases cs with
      | nil => cases h2
      | cons d ds =>
        simp only at h2
        simp [allUsB, not_us_of_digit h2]

/-- `_<m>` is never again a module name of the same kind, unless both consist of underscores only. -/
theorem priv_eq_mod (m m' : Str) (hm : ModOK m) (hm' : ModOK m') (h : privAttr m = m') :
    allUsB m = true ∧ allUsB m' = true := by
  unfold privAttr at h
  subst h
  rcases hm' with h' | h'
  · exfalso
    have hlu : isLowerA '_' = false := by decide
    cases m with
    | nil => simp [modHeadB, hlu] at h'
    | cons d ds =>
      have hd : isDigitA d = true := by
        simpa [modHeadB, hlu] using h'
      rcases hm with h1 | h1
      · cases ds with
        | nil => simp [modHeadB, not_lower_of_digit hd, not_us_of_digit hd] at h1
        | cons e es => simp [modHeadB, not_lower_of_digit hd, not_us_of_digit hd] at h1
      · simp [allUsB, not_us_of_digit hd] at h1
  · refine ⟨?_, h'⟩
    simpa [allUsB] using h'

theorem ne_of_modOK (m x : Str) (hm : ModOK m) (h1 : modHeadB x = false) (h2 : allUsB x = false) : m ≠ x := by
  rintro rfl
  rcases hm with h | h
  · rw [h1] at h; cases h
  · rw [h2] at h; cases h

/-! ## `_tag_attr_name` (F64 repaired) -/

/-- The module names `_tag_attr_name` renames: the own members, and the own members without their leading underscore. -/
def renamedModules : List Str :=
  ownMembers ++ ownMembers.filterMap fun x => match x with | '_' :: r => some r | _ => none

theorem tagAttr_of_not (m : Str) (h1 : m ∉ ownMembers) (h2 : '_' :: m ∉ ownMembers) : tagAttr m = m := by
  unfold tagAttr
  simp [h1, h2]

/-- Either the name is kept (and neither it nor `_` + it is an own member), or it is one of `renamedModules` and gets `_`. -/
theorem tagAttr_cases (m : Str) :
    (tagAttr m = m ∧ m ∉ ownMembers ∧ '_' :: m ∉ ownMembers) ∨ (m ∈ renamedModules ∧ tagAttr m = m ++ ['_']) := by
  by_cases h1 : m ∈ ownMembers
  · right
    refine ⟨List.mem_append.2 (.inl h1), ?_⟩
    unfold tagAttr
    simp [h1]
  · by_cases h2 : '_' :: m ∈ ownMembers
    · right
      refine ⟨List.mem_append.2 (.inr (List.mem_filterMap.2 ⟨_, h2, rfl⟩)), ?_⟩
      unfold tagAttr
      simp [h2]
    · exact .inl ⟨tagAttr_of_not m h1 h2, h1, h2⟩

/-- Table-level facts about the renamed names (13 closed strings). -/
theorem renamed_facts : ∀ x ∈ renamedModules,
    (x ++ ['_']) ∉ ownMembers ∧ '_' :: (x ++ ['_']) ∉ ownMembers ∧ isValidPyIdentifier (x ++ ['_']) = true ∧
      allUsB (x ++ ['_']) = false := by
  decide

/-- **The repair.**  Whatever the module name, the attribute name is no own member of the three classes, and neither is the
    private attribute `_<attr>`. -/
theorem tagAttr_not_own (m : Str) : tagAttr m ∉ ownMembers ∧ privAttr (tagAttr m) ∉ ownMembers := by
  rcases tagAttr_cases m with ⟨h, h1, h2⟩ | ⟨hm, h⟩
  · rw [h]; exact ⟨h1, h2⟩
  · rw [h]; exact ⟨(renamed_facts m hm).1, (renamed_facts m hm).2.1⟩

theorem tagAttr_valid (m : Str) (h : isValidPyIdentifier m = true) : isValidPyIdentifier (tagAttr m) = true := by
  rcases tagAttr_cases m with ⟨h', _, _⟩ | ⟨hm, h'⟩
  · rw [h']; exact h
  · rw [h']; exact (renamed_facts m hm).2.2.1

theorem tagAttr_of_allUs (m : Str) (h : allUsB (tagAttr m) = true) : tagAttr m = m := by
  rcases tagAttr_cases m with ⟨h', _, _⟩ | ⟨hm, h'⟩
  · exact h'
  · rw [h', (renamed_facts m hm).2.2.2] at h; cases h

theorem allUsB_append_us (m : Str) : allUsB (m ++ ['_']) = allUsB m := by
  simp [allUsB]

theorem tagAttr_modOK (m : Str) (hm : ModOK m) : ModOK (tagAttr m) := by
  rcases tagAttr_cases m with ⟨h', _, _⟩ | ⟨_, h'⟩
  · rw [h']; exact hm
  · rw [h']
    rcases hm with h | h
    · exact .inl (modHeadB_append _ _ h)
    · right; rw [allUsB_append_us]; exact h

/-- Underscores apart, the attribute name is the module name. -/
theorem noUs_tagAttr (m : Str) : noUs (tagAttr m) = noUs m := by
  rcases tagAttr_cases m with ⟨h', _, _⟩ | ⟨_, h'⟩
  · rw [h']
  · rw [h', noUs_append]
    simp [noUs]

/-! ## The last step of `sanitize_module_name` -/

theorem sanModule_final (u : UInfo) (t : Str) :
    ∃ m, sanModule u t = if isKeyword m || isReserved m then m ++ ['_'] else m := ⟨_, rfl⟩

/-- A reserved name (or keyword) that does not end in `_` is never a module name — every input, every case table. -/
theorem sanModule_ne_reserved (u : UInfo) (t x : Str) (hx : (isKeyword x || isReserved x) = true)
    (hl : x.getLast? ≠ some '_') : sanModule u t ≠ x := by
  obtain ⟨m, hm⟩ := sanModule_final u t
  rw [hm]
  split
  · intro h
    apply hl
    rw [← h]
    simp
  · rename_i hc
    intro h
    rw [h] at hc
    exact hc hx

/-! ## Which properties survive in the finished class -/

theorem propSurvives_of (s : ClassSkel) (hn : (s.props.map (·.1)).Nodup) (hm : ∀ p ∈ s.props, p.1 ∉ s.methods)
    (i : Nat) (hi : i < s.props.length) : propSurvives s i = true := by
  unfold propSurvives
  have hget : s.props[i]? = some s.props[i] := List.getElem?_eq_getElem hi
  rw [hget]
  simp only [Bool.and_eq_true, Bool.not_eq_true', List.contains_eq_mem, decide_eq_false_iff_not]
  constructor
  · have h1 : (s.props.map (·.1))[i]? = some s.props[i].1 := by
      rw [List.getElem?_map, hget]; rfl
    have := nodup_not_mem_drop _ i _ h1 hn
    rwa [← List.map_drop] at this
  · exact hm _ (List.getElem_mem hi)

/-! ## Hypotheses on the tags carry over to the canonical tags -/

theorem canon_of_tags (tagss : List (List Str)) (P : Str → Prop) (hd : P kDefaultTag)
    (h : ∀ ts ∈ tagss, ∀ t ∈ ts, P t) (c : Str) (hc : ∃ ts ∈ tagss, c ∈ tagsOr ts) : P c := by
  obtain ⟨ts, hts, hc⟩ := hc
  unfold tagsOr at hc
  split at hc
  · rw [List.mem_singleton.1 hc]; exact hd
  · exact h ts hts c hc

theorem kDefaultTag_alnum : kDefaultTag.any isAlnumA = true := by decide

/-- Every tuple of the visitor, under a hypothesis on all tags. -/
theorem tuple_of_tags (u : UInfo) (tagss : List (List Str)) (P : Str → Prop) (hd : P kDefaultTag)
    (h : ∀ ts ∈ tagss, ∀ t ∈ ts, P t) (t : TagTuple) (ht : t ∈ tagTuples u tagss) :
    t = mkTuple u t.tag ∧ P t.tag := by
  obtain ⟨h1, h2⟩ := mem_tagTuples_tag u tagss t ht
  exact ⟨h1, canon_of_tags tagss P hd h _ h2⟩

theorem tuple_module (u : UInfo) (c : Str) : (mkTuple u c).module = sanModule u c := rfl
theorem tuple_cls (u : UInfo) (c : Str) : (mkTuple u c).cls = sanClass c ++ kClientSuffix := rfl
theorem tuple_tag (u : UInfo) (c : Str) : (mkTuple u c).tag = c := rfl

/-! ## Projections of the skeletons (stated once: unfolding a skeleton under `simp` would normalise its string literals) -/

theorem apiClientSkel_props (tt : List TagTuple) :
    (apiClientSkel tt).props = tt.map fun t => (tagAttr t.module, t.cls) := rfl
theorem apiClientSkel_attrs (tt : List TagTuple) :
    (apiClientSkel tt).attrs = fixedAttrs ++ tt.map fun t => privAttr (tagAttr t.module) := rfl
theorem apiClientSkel_methods (tt : List TagTuple) : (apiClientSkel tt).methods = fixedMethods := rfl
theorem protocolSkel_props (tt : List TagTuple) :
    (protocolSkel tt).props = tt.map fun t => (tagAttr t.module, t.cls ++ kProtocolSuffix) := rfl
theorem protocolSkel_methods (tt : List TagTuple) : (protocolSkel tt).methods = fixedMethods := rfl
theorem mockClientSkel_props (tt : List TagTuple) :
    (mockClientSkel tt).props = tt.map fun t => (tagAttr t.module, t.cls ++ kProtocolSuffix) := rfl
theorem mockClientSkel_attrs (tt : List TagTuple) :
    (mockClientSkel tt).attrs = tt.map fun t => privAttr (tagAttr t.module) := rfl
theorem mockClientSkel_initParams (tt : List TagTuple) :
    (mockClientSkel tt).initParams = kSelf :: tt.map fun t => tagAttr t.module := rfl
theorem mockClientSkel_initBodyEmpty (tt : List TagTuple) : (mockClientSkel tt).initBodyEmpty = false := rfl
theorem mockClientSkel_methods (tt : List TagTuple) : (mockClientSkel tt).methods = fixedMethods := rfl

/-! ## `sorted(tag_map)`: the keys come out in code-point order -/

theorem char_eq_of_toNat (a b : Char) (h : a.toNat = b.toNat) : a = b := by
  rw [← Char.ofNat_toNat a, h, Char.ofNat_toNat]

theorem pyStrLt_asymm (a b : Str) (h : pyStrLt a b = true) : pyStrLt b a = false := by
  induction a generalizing b with
  | nil => cases b <;> simp [pyStrLt] at h ⊢
  | cons x xs ih =>
    cases b with
    | nil => simp [pyStrLt] at h
    | cons y ys =>
      simp only [pyStrLt, Bool.or_eq_true, decide_eq_true_eq, Bool.and_eq_true, beq_iff_eq] at h
      simp only [pyStrLt, Bool.or_eq_false_iff, decide_eq_false_iff_not, Bool.and_eq_false_iff, beq_eq_false_iff_ne]
      rcases h with h | ⟨h1, h2⟩
      · exact ⟨by omega, .inl (fun e => by rw [e] at h; omega)⟩
      · subst h1
        exact ⟨by omega, .inr (ih ys h2)⟩

theorem pyStrLe_trans (a b c : Str) (h1 : pyStrLe a b = true) (h2 : pyStrLe b c = true) : pyStrLe a c = true := by
  unfold pyStrLe at *
  simp only [Bool.not_eq_true'] at *
  induction a generalizing b c with
  | nil => cases c <;> simp [pyStrLt]
  | cons x xs ih =>
    cases b with
    | nil => simp [pyStrLt] at h1
    | cons y ys =>
      cases c with
      | nil => simp [pyStrLt] at h2
      | cons z zs =>
        simp only [pyStrLt, Bool.or_eq_false_iff, decide_eq_false_iff_not, Bool.and_eq_false_iff, beq_eq_false_iff_ne] at h1 h2 ⊢
        refine ⟨by omega, ?_⟩
        by_cases hzx : z = x
        · right
          subst hzx
          have hyz : y = z := char_eq_of_toNat _ _ (by omega)
          subst hyz
          have e1 : pyStrLt ys xs = false := by
            rcases h1.2 with h | h
            · exact absurd rfl h
            · exact h
          have e2 : pyStrLt zs ys = false := by
            rcases h2.2 with h | h
            · exact absurd rfl h
            · exact h
          exact ih ys zs e1 e2
        · exact .inl hzx

def KeysSorted (l : List Str) : Prop := l.Pairwise (fun a b => pyStrLe a b = true)

theorem insertKey_sorted (k : Str) (l : List Str) (h : KeysSorted l) : KeysSorted (insertKey k l) := by
  induction l with
  | nil => simp [insertKey, KeysSorted]
  | cons x xs ih =>
    unfold KeysSorted at h ih ⊢
    rw [List.pairwise_cons] at h
    simp only [insertKey]
    split
    · rename_i hkx
      rw [List.pairwise_cons]
      refine ⟨?_, List.pairwise_cons.2 h⟩
      intro y hy
      rcases List.mem_cons.1 hy with rfl | hy
      · exact hkx
      · exact pyStrLe_trans _ _ _ hkx (h.1 y hy)
    · rename_i hkx
      rw [List.pairwise_cons]
      refine ⟨?_, ih h.2⟩
      intro y hy
      have hy' := (insertKey_perm k xs).mem_iff.1 hy
      rcases List.mem_cons.1 hy' with rfl | hy'
      · have hlt : pyStrLt x y = true := by
          unfold pyStrLe at hkx
          simpa using hkx
        unfold pyStrLe
        rw [pyStrLt_asymm _ _ hlt]; rfl
      · exact h.1 y hy'

theorem sortKeys_sorted (l : List Str) : KeysSorted (sortKeys l) := by
  induction l with
  | nil => simp [sortKeys, KeysSorted]
  | cons x xs ih =>
    simp only [sortKeys, List.foldr_cons]
    exact insertKey_sorted x _ ih

theorem tupleKeys_sorted (u : UInfo) (tagss : List (List Str)) : KeysSorted (tupleKeys u tagss) := sortKeys_sorted _

/-- The key of the `i`-th tuple is the `i`-th sorted key. -/
theorem tagTuples_keys (u : UInfo) (tagss : List (List Str)) :
    (tagTuples u tagss).map (fun t => normTagKey u t.tag) = tupleKeys u tagss := by
  rw [tagTuples_eq_map, List.map_map]
  conv => rhs; rw [← List.map_id (tupleKeys u tagss)]
  apply List.map_congr_left
  intro k hk
  exact (canonicalTag_spec u tagss k hk).1

end Pog.ClientGen
