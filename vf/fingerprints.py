"""Normalised-AST fingerprints of every function of the generator (DESIGN.md 2.3 step 1).

`fingerprints.json` (committed) holds, for the /repo commit the hand-written Lean models were last validated against, one hash
per function / method / module body of src/pyopenapi_gen (ast.dump without positions and docstrings).  On every run the hashes
of the files a property is anchored in (properties.jsonl `anchors.files`, plus the files its models mirror, MODEL_FILES) are
recomputed from the WORKING TREE.  A changed fingerprint is never a violation: it is recorded in the evidence and switches the
property's correspondences and oracles to the widened budget, because a hand model of a function whose source has changed is
exactly where model and code may have drifted apart.
"""
from __future__ import annotations

import ast
import hashlib
import json
from pathlib import Path

from .common import REPO, VERIF

BASELINE = VERIF / "fingerprints.json"
PKG = "src/pyopenapi_gen"

# files mirrored by the models of a property beyond its anchors (DESIGN.md section 12)
MODEL_FILES = {
    "C01": ["context/render_context.py", "context/import_collector.py", "types/services/type_service.py", "emitters/models_emitter.py",
            "visit/exception_visitor.py", "visit/endpoint/generators/response_handler_generator.py"],
    "C02": ["core/parsing/schema_parser.py", "core/parsing/unified_cycle_detection.py", "core/parsing/keywords/all_of_parser.py",
            "core/parsing/keywords/any_of_parser.py", "core/parsing/keywords/one_of_parser.py", "core/loader/schemas/extractor.py", "ir.py",
            "visit/model/dataclass_generator.py", "visit/model/model_visitor.py"],
    "C03": ["core/cattrs_converter.py", "visit/model/dataclass_generator.py", "types/resolvers/schema_resolver.py", "core/utils.py"],
    "C04": ["core/http_transport.py", "core/utils.py", "helpers/url_utils.py"],
    "C05": ["types/strategies/response_strategy.py", "helpers/endpoint_utils.py", "types/resolvers/response_resolver.py", "core/streaming_helpers.py",
            "core/loader/responses/parser.py"],
    "C06": ["core/http_transport.py", "core/exceptions.py", "core/http_status_codes.py", "visit/exception_visitor.py", "helpers/endpoint_utils.py",
            "types/strategies/response_strategy.py", "core/loader/responses/parser.py", "core/loader/operations/parser.py"],
    "C07": ["core/loader/operations/parser.py", "core/loader/operations/post_processor.py", "emitters/endpoints_emitter.py", "visit/client_visitor.py",
            "core/utils.py", "core/spec_fetcher.py", "generator/client_generator.py"],
    "C08": ["core/parsing/schema_parser.py", "core/parsing/unified_cycle_detection.py", "core/parsing/context.py", "core/loader/schemas/extractor.py", "ir.py"],
    "C09": ["generator/client_generator.py", "context/import_collector.py", "emitters/models_emitter.py", "helpers/url_utils.py", "core/parsing/schema_parser.py",
            "visit/endpoint/processors/parameter_processor.py", "types/resolvers/schema_resolver.py"],
    "C10": ["generator/client_generator.py", "emitters/core_emitter.py", "emitters/exceptions_emitter.py", "context/file_manager.py", "core/postprocess_manager.py"],
    "C11": ["emitters/exceptions_emitter.py", "visit/exception_visitor.py", "generator/client_generator.py", "emitters/core_emitter.py"],
    "C12": ["context/render_context.py", "emitters/core_emitter.py", "core/utils.py", "core/http_transport.py"],
    "C13": ["visit/endpoint/endpoint_visitor.py", "visit/endpoint/generators/mock_generator.py", "emitters/mocks_emitter.py", "emitters/endpoints_emitter.py",
            "visit/client_visitor.py", "visit/endpoint/generators/overload_generator.py"],
    "C14": ["core/cattrs_converter.py", "core/writers/python_construct_renderer.py", "visit/model/alias_generator.py"],
    "C15": ["core/writers/python_construct_renderer.py", "core/writers/documentation_writer.py", "core/writers/line_writer.py", "core/writers/code_writer.py",
            "visit/model/dataclass_generator.py", "visit/model/enum_generator.py", "visit/endpoint/generators/url_args_generator.py",
            "visit/endpoint/generators/docstring_generator.py", "visit/client_visitor.py"],
    "C16": ["core/cattrs_converter.py", "core/utils.py"],
    "C17": ["core/http_transport.py", "core/auth/base.py", "core/auth/plugins.py"],
    "C18": ["core/streaming_helpers.py"],
    "C19": ["core/spec_fetcher.py", "core/loader/loader.py", "core/loader/operations/parser.py", "core/loader/responses/parser.py", "core/loader/parameters/parser.py",
            "core/parsing/schema_parser.py", "core/loader/schemas/extractor.py", "types/strategies/response_strategy.py", "helpers/endpoint_utils.py"],
    "C20": ["core/utils.py", "visit/model/enum_generator.py", "visit/model/dataclass_generator.py", "emitters/models_emitter.py", "emitters/endpoints_emitter.py",
            "core/loader/schemas/extractor.py"],
}


class _Strip(ast.NodeTransformer):
    def _body(self, node):
        self.generic_visit(node)
        b = node.body
        if b and isinstance(b[0], ast.Expr) and isinstance(getattr(b[0], "value", None), ast.Constant) and isinstance(b[0].value.value, str):
            node.body = b[1:] or [ast.Pass()]
        return node
    visit_FunctionDef = visit_AsyncFunctionDef = visit_ClassDef = visit_Module = _body


def _h(node) -> str:
    return hashlib.sha256(ast.dump(node, annotate_fields=True, include_attributes=False).encode()).hexdigest()[:16]


def file_fingerprints(path: Path) -> dict[str, str]:
    """qualname -> hash for every function/method; "<module>" = module-level statements other than defs/classes;
    "<class C>" = class-level statements of C other than its methods."""
    try:
        tree = _Strip().visit(ast.parse(path.read_text(encoding="utf-8")))
    except (OSError, SyntaxError, UnicodeDecodeError) as e:
        return {"<unparsable>": type(e).__name__}
    out: dict[str, str] = {}

    def walk(body, prefix: str, label: str):
        rest = []
        for n in body:
            if isinstance(n, (ast.FunctionDef, ast.AsyncFunctionDef)):
                out[prefix + n.name] = _h(n)
            elif isinstance(n, ast.ClassDef):
                walk(n.body, prefix + n.name + ".", f"<class {prefix}{n.name}>")
            else:
                rest.append(n)
        out[label] = hashlib.sha256("|".join(_h(x) for x in rest).encode()).hexdigest()[:16]
    walk(tree.body, "", "<module>")
    return out


def compute_all(repo: Path = REPO) -> dict[str, dict[str, str]]:
    base = repo / PKG
    return {str(f.relative_to(base)): file_fingerprints(f) for f in sorted(base.rglob("*.py")) if "__pycache__" not in f.parts}


def files_for(prop: str) -> list[str]:
    files = set(MODEL_FILES.get(prop, []))
    for line in (VERIF / "properties.jsonl").read_text().splitlines():
        if line.strip():
            p = json.loads(line)
            if p["id"] == prop:
                for f in p.get("anchors", {}).get("files", []):
                    if f.startswith(PKG + "/"):
                        files.add(f[len(PKG) + 1:])
    return sorted(files)


def changed_for(prop: str) -> dict:
    """{"baseline_commit", "files_watched", "changed": ["file::qualname (changed|added|removed)"]} against the working tree."""
    if not BASELINE.exists():
        return {"baseline_commit": None, "files_watched": 0, "changed": [], "note": "fingerprints.json missing"}
    base = json.loads(BASELINE.read_text())
    files = files_for(prop)
    changed = []
    for rel in files:
        old = base["files"].get(rel)
        path = REPO / PKG / rel
        new = file_fingerprints(path) if path.exists() else None
        if old is None and new is None:
            continue
        if new is None:
            changed.append(f"{rel} (file removed)")
            continue
        if old is None:
            changed.append(f"{rel} (file added)")
            continue
        for q in sorted(set(old) | set(new)):
            if old.get(q) != new.get(q):
                changed.append(f"{rel}::{q} ({'changed' if q in old and q in new else 'added' if q in new else 'removed'})")
    return {"baseline_commit": base.get("commit"), "files_watched": len(files), "functions_watched": sum(len(base["files"].get(f, {})) for f in files), "changed": changed}


def write_baseline() -> None:
    import subprocess
    head = subprocess.run(["git", "-C", str(REPO), "rev-parse", "--short", "HEAD"], capture_output=True, text=True).stdout.strip()
    dirty = subprocess.run(["git", "-C", str(REPO), "status", "--porcelain", "--", PKG], capture_output=True, text=True).stdout.strip()
    BASELINE.write_text(json.dumps({"commit": head + ("+dirty" if dirty else ""), "files": compute_all()}, indent=0, sort_keys=True))
    print("fingerprints.json written for", head, "dirty" if dirty else "clean")


if __name__ == "__main__":
    write_baseline()
