import Pog.Lemmas.Http
/-
  C17 — the transport applies defaults, per-request headers and auth as documented.

  FULL STATEMENT: for every combination of transport default headers, per-request headers and
  authentication plug-ins (bearer token, API key in header / query / cookie, extra headers, OAuth2 with
  refresh, compositions in any order) the request that leaves the transport carries the per-request
  headers over the defaults, then each plug-in's contribution in composition order, with an API key
  placed in the location and under the name it was configured with; the caller's query parameters,
  body and other arguments pass through unchanged.

  What is proved about the model `Pog.Model.Http` (= `HttpxTransport._prepare_headers/request`,
  `CompositeAuth`, `BearerAuth`, `HeadersAuth`, `ApiKeyAuth`, `OAuth2Auth`; tied to the code by corr_c17.py).
  `✗` marks parts of the full statement that are FALSE of the current code.

    composition order     : a composite is the left-to-right Kleisli fold of its plug-ins          (full)
    sequential writes     : the headers dict is `{}` merged (`merge_headers`: a write deletes the other
                            spellings of its name) with defaults, request headers, plug-in writes, in that
                            order; an EXACT key is present iff the last writer of that name spelled it so   (full)
    header precedence     : on the WIRE (case-insensitive names) the last writer wins, one line per name  (full)
                            — F27a repaired: `x-b` default + `X-B` per-request header used to be BOTH sent
    API key, header       : placed under the configured name                                        (full)
    API key, query/cookie : placed in the configured location                                        ✗
                            — the key reaches httpx NOWHERE, for every key/name/caller arguments  (total defect)
    API key, other        : `ValueError`                                                            (full)
    bearer_token          : used iff no auth plug-in is configured                                  (full)
    passthrough           : params / cookies / every other keyword reach httpx unchanged            (full)
    OAuth2 refresh        : the header carries `cb tok` iff it is non-empty and different, else `tok` (full)
-/
namespace Pog.C17
open Pog

/-! ## composition order -/

/-- `CompositeAuth(*ps).authenticate_request` applies the plug-ins one after the other, left to right,
    each on the result of the previous one; the first exception aborts (monadic fold in `Except`). -/
theorem composite_order (ps : List Plugin) (a : RequestArgs) :
    authenticate (.composite ps) a = ps.foldlM (fun acc p => authenticate p acc) a := by
  rw [authenticate_composite]; exact authenticateAll_eq_foldlM ps a

/-- The headers written by a composite are the concatenation of its members' writes, in order; nesting
    is flattened. -/
theorem composite_contrib (ps : List Plugin) :
    contrib (.composite ps) = (ps.map contrib).flatten := by
  rw [contrib]
  induction ps with
  | nil => simp [contribAll]
  | cons p ps ih => simp [contribAll, ih]

/-! ## the headers dict = sequential case-insensitive writes -/

/-- `_prepare_headers` raises exactly the exception of the first failing plug-in, otherwise its result is
    `{}` merged — `merge_headers`, in this order — with the default headers, the per-request
    headers, and each plug-in's writes in composition order (or the `bearer_token` line). -/
theorem headers_are_sequential_writes (defaults reqHeaders : Option Dict) (auth : Option Plugin)
    (bearer : Option Str) :
    prepareHeaders defaults reqHeaders auth bearer =
      match auth.bind firstErr with
      | some e => .error e
      | none => .ok (dictUpdateCI [] (allWrites defaults reqHeaders auth bearer)) :=
  prepareHeaders_spec defaults reqHeaders auth bearer

/-- The dict handed to httpx, read by EXACT (case-sensitive) key: `k` is present iff the LAST writer of that
    header name — in any spelling, among defaults, per-request headers, plug-ins in order — spelled it `k`,
    and then it carries that writer's value; in particular a key that was only written in an earlier layer
    under another spelling is gone.  No key occurs twice. -/
theorem header_last_writer_wins_exact (defaults reqHeaders : Option Dict) (auth : Option Plugin)
    (bearer : Option Str) (res : Dict) (h : prepareHeaders defaults reqHeaders auth bearer = .ok res) :
    (∀ k, dictGet res k =
        match lastWriterCI (allWrites defaults reqHeaders auth bearer) k with
        | some w => if w.1 = k then some w.2 else none
        | none => none)
    ∧ (∀ k, k ∈ dictKeys res ↔ ∃ v, lastWriterCI (allWrites defaults reqHeaders auth bearer) k = some (k, v))
    ∧ (dictKeys res).Nodup := by
  rw [prepareHeaders_spec] at h
  cases he : auth.bind firstErr with
  | some e => simp [he] at h
  | none =>
    simp only [he, Except.ok.injEq] at h
    subst h
    have hg : ∀ k, dictGet (dictUpdateCI [] (allWrites defaults reqHeaders auth bearer)) k =
        match lastWriterCI (allWrites defaults reqHeaders auth bearer) k with
        | some w => if w.1 = k then some w.2 else none
        | none => none := by
      intro k; rw [dictGet_dictUpdateCI]; cases lastWriterCI (allWrites defaults reqHeaders auth bearer) k <;> simp [dictGet]
    refine ⟨hg, fun k => ?_, nodup_dictUpdateCI _ _ (by simp [dictKeys])⟩
    rw [← dictGet_isSome_iff, hg]
    cases hl : lastWriterCI (allWrites defaults reqHeaders auth bearer) k with
    | none => simp
    | some w =>
      obtain ⟨k1, v1⟩ := w
      by_cases hk : k1 = k
      · subst hk; simp
      · simp [hk]

/-! ## header precedence on the wire -/

/-- FULL STATEMENT (F27a repaired).  For every combination of default headers, per-request headers, auth
    plug-in (any composition) and bearer token, whatever the spellings: under each header name (ASCII
    case-insensitive, as httpx and HTTP read it) the request carries the value of the LAST writer among
    [defaults, per-request headers, plug-ins in composition order / bearer token] and nothing else — i.e.
    plug-ins over per-request headers over defaults; every written name is sent on exactly one line. -/
theorem header_precedence (defaults reqHeaders : Option Dict) (auth : Option Plugin)
    (bearer : Option Str) (res : Dict)
    (h : prepareHeaders defaults reqHeaders auth bearer = .ok res) :
    (∀ name, wireLookup res name = (lastWriteCI (allWrites defaults reqHeaders auth bearer) name).toList)
    ∧ (∀ name, wireLookup res name =
        (((lastWriteCI (authWrites auth bearer) name).or (lastWriteCI (reqHeaders.getD []) name)).or
          (lastWriteCI (defaults.getD []) name)).toList)
    ∧ (∀ k ∈ dictKeys (allWrites defaults reqHeaders auth bearer), (wireLookup res k).length = 1)
    ∧ (∀ name, (wireLookup res name).length ≤ 1) := by
  rw [prepareHeaders_spec] at h
  cases he : auth.bind firstErr with
  | some e => simp [he] at h
  | none =>
    simp only [he, Except.ok.injEq] at h
    subst h
    have hw := wireLookup_dictUpdateCI_nil (allWrites defaults reqHeaders auth bearer)
    refine ⟨hw, fun name => ?_, fun k hk => ?_, fun name => ?_⟩
    · rw [hw]; simp [allWrites, lastWriteCI_append, Option.or_assoc]
    · rw [hw]
      have := (lastWriteCI_isSome_of_mem _ k k hk (ciEq_refl k))
      cases hl : lastWriteCI (allWrites defaults reqHeaders auth bearer) k with
      | none => simp [hl] at this
      | some v => simp
    · rw [hw]; cases lastWriteCI (allWrites defaults reqHeaders auth bearer) name <;> simp

/-- The hypothesis of `header_precedence` is satisfiable on an input with case variants in every layer:
    the former witness of F27a extended by a plug-in that writes a third spelling. -/
example : ∃ res, prepareHeaders (some [("x-b".toList, "d".toList)]) (some [("X-B".toList, "r".toList)])
    (some (.headers [("X-b".toList, "p".toList)])) none = .ok res :=
  ⟨[("X-b".toList, "p".toList)], by decide⟩

/-- Former witness of F27a: default `x-b: d`, per-request `X-B: r`, no auth.  The dict handed to httpx has
    ONE entry, spelled as the per-request header spelled it, and one line `X-B: r` goes out — the value of
    the last writer of that header name. -/
theorem header_precedence_former_witness :
    prepareHeaders (some [("x-b".toList, "d".toList)]) (some [("X-B".toList, "r".toList)]) none none
        = .ok [("X-B".toList, "r".toList)]
    ∧ wireLookup [("X-B".toList, "r".toList)] "x-b".toList = ["r".toList]
    ∧ (lastWriteCI (allWrites (some [("x-b".toList, "d".toList)]) (some [("X-B".toList, "r".toList)]) none none)
        "x-b".toList).toList = ["r".toList] := by
  decide

/-- Former witness between a plug-in and a per-request header: `BearerAuth` writes `Authorization`, the
    caller's lower-case `authorization` is replaced, one credential is sent. -/
theorem header_precedence_former_witness_auth :
    (match prepareHeaders none (some [("authorization".toList, "mine".toList)])
        (some (.bearer "t".toList)) none with
      | .ok res => wireLookup res "Authorization".toList
      | .error _ => []) = ["Bearer t".toList] := by
  decide

/-- Plug-ins among themselves: the last plug-in in composition order wins even when an earlier one used the
    spelling again that is already in the dict (`Authorization` — `authorization` — `Authorization`). -/
example :
    (match prepareHeaders (some [("X-B".toList, "d".toList), ("Accept".toList, "a".toList)])
        (some [("x-b".toList, "r".toList)])
        (some (.composite [.bearer "t".toList, .headers [("authorization".toList, "low".toList)],
          .oauth2 "o".toList none, .headers [("X-b".toList, "p".toList)]])) none with
      | .ok res => (wireLookup res "x-b".toList, wireLookup res "AUTHORIZATION".toList, res)
      | .error _ => ([], [], [])) =
      (["p".toList], ["Bearer o".toList], [("Accept".toList, "a".toList),
        ("Authorization".toList, "Bearer o".toList), ("X-b".toList, "p".toList)]) := by
  decide

/-! ## API key placement

  ✗ FULL STATEMENT (false): `location = "query"` → the request's params contain `name ↦ key`;
  `location = "cookie"` → the request's cookies contain `name ↦ key`. -/

/-- `location="header"`: the request carries `name: key` — in the dict under exactly the configured spelling,
    on the wire as the ONLY line of that name — whatever the defaults and per-request headers. -/
theorem apikey_header_placed (defaults reqHeaders : Option Dict) (bearer : Option Str) (key name : Str) :
    ∃ res, prepareHeaders defaults reqHeaders (some (.apiKey key locHeader name)) bearer = .ok res
      ∧ dictGet res name = some key ∧ wireLookup res name = [key] := by
  refine ⟨dictUpdateCI [] (allWrites defaults reqHeaders (some (.apiKey key locHeader name)) bearer), ?_, ?_, ?_⟩
  · rw [prepareHeaders_spec]; simp [firstErr]
  · simp [dictGet_dictUpdateCI, allWrites, authWrites, contrib, lastWriterCI_append, lastWriterCI, ciEq_refl]
  · simp [wireLookup_dictUpdateCI_nil, allWrites, authWrites, contrib, lastWriteCI_append, lastWriteCI, ciEq_refl]

/-- ✗ TOTAL DEFECT.  With `location="query"` or `"cookie"` the key reaches httpx nowhere: for EVERY key, name,
    default headers, bearer token and caller arguments the keyword arguments of `client.request` are the
    caller's params, the caller's cookies, and the headers built from defaults and per-request headers
    alone — identical to what an empty `CompositeAuth()` produces.  (The plug-in writes
    `request_args["params"|"cookies"]`, the transport gave it `{"headers": …}` only and reads back only
    `["headers"]`.) -/
theorem apikey_query_cookie_dropped_counterexample {β : Type} (defaults : Option Dict) (bearer : Option Str)
    (c : CallerArgs β) (key name loc : Str) (hloc : loc = locQuery ∨ loc = locCookie) :
    sendArgs { auth := some (.apiKey key loc name), bearerToken := bearer, defaultHeaders := defaults } c
      = .ok { headers := baseHeaders defaults c.headers, params := c.params, cookies := c.cookies,
              other := c.other }
    ∧ sendArgs { auth := some (.apiKey key loc name), bearerToken := bearer, defaultHeaders := defaults } c
      = sendArgs { auth := some (.composite []), bearerToken := bearer, defaultHeaders := defaults } c := by
  have hq : locQuery ≠ locHeader := by decide
  have hc1 : locCookie ≠ locHeader := by decide
  have hc2 : locCookie ≠ locQuery := by decide
  rcases hloc with h | h <;> subst h <;>
    simp [sendArgs, prepareHeaders, authenticate, authenticateAll, hq, hc1, hc2]

/-- The same inside any composite, at any position: removing the query/cookie API-key plug-in does not
    change the outcome of `_prepare_headers` (value or exception). -/
theorem apikey_query_cookie_dropped_in_composite (defaults reqHeaders : Option Dict) (bearer : Option Str)
    (pre post : List Plugin) (key name loc : Str) (hloc : loc = locQuery ∨ loc = locCookie) :
    prepareHeaders defaults reqHeaders (some (.composite (pre ++ [.apiKey key loc name] ++ post))) bearer
      = prepareHeaders defaults reqHeaders (some (.composite (pre ++ post))) bearer := by
  have hq : locQuery ≠ locHeader := by decide
  have hc1 : locCookie ≠ locHeader := by decide
  have he : firstErr (.apiKey key loc name) = none := by
    rcases hloc with h | h <;> subst h <;> simp [firstErr]
  have hcn : contrib (.apiKey key loc name) = [] := by
    rcases hloc with h | h <;> subst h <;> simp [contrib, hq, hc1]
  simp only [prepareHeaders_spec, Option.bind_some, firstErr_composite, allWrites, authWrites,
    contrib_composite, firstErrAll_append, contribAll_append, firstErrAll_cons, contribAll, he, hcn]
  simp [firstErrAll]

/-- Concrete witness on the plain configuration: `ApiKeyAuth("SECRET", "query", "api_key")`, a caller that
    passes no params: httpx gets no params, no cookies, no headers. -/
theorem apikey_query_dropped_witness :
    (match sendArgs { auth := some (.apiKey "SECRET".toList "query".toList "api_key".toList) }
        ({ other := () } : CallerArgs Unit) with
      | .ok s => (s.headers, s.params, s.cookies)
      | .error _ => ([], some [], some [])) = ([], none, none)
    ∧ (match sendArgs { auth := some (.apiKey "SECRET".toList "cookie".toList "sid".toList) }
        ({ other := () } : CallerArgs Unit) with
      | .ok s => (s.headers, s.params, s.cookies)
      | .error _ => ([], some [], some [])) = ([], none, none) :=
  ⟨by decide, by decide⟩

/-- Any other `location` string: `ValueError("Invalid API key location: <loc>")` out of
    `_prepare_headers` (hence out of `request`, before httpx is called). -/
theorem apikey_bad_location_raises {β : Type} (defaults : Option Dict) (bearer : Option Str) (c : CallerArgs β)
    (key name loc : Str) (h : loc ≠ locHeader ∧ loc ≠ locQuery ∧ loc ≠ locCookie) :
    prepareHeaders defaults c.headers (some (.apiKey key loc name)) bearer
      = .error (.valueError (badLocationMsg loc))
    ∧ sendArgs { auth := some (.apiKey key loc name), bearerToken := bearer, defaultHeaders := defaults } c
      = .error (.valueError (badLocationMsg loc)) := by
  have hp : prepareHeaders defaults c.headers (some (.apiKey key loc name)) bearer
      = .error (.valueError (badLocationMsg loc)) := by
    rw [prepareHeaders_spec]; simp [firstErr, h.1, h.2.1, h.2.2]
  exact ⟨hp, by simp [sendArgs, hp]⟩

example : "Header".toList ≠ locHeader ∧ "Header".toList ≠ locQuery ∧ "Header".toList ≠ locCookie := by decide

/-- A composite raises iff one of its members does (the first one's exception), never otherwise. -/
theorem composite_raises_iff (ps : List Plugin) (a : RequestArgs) :
    (∃ e, authenticate (.composite ps) a = .error e) ↔ ∃ p ∈ ps, firstErr p ≠ none := by
  have key : firstErrAll ps ≠ none ↔ ∃ p ∈ ps, firstErr p ≠ none := by
    induction ps with
    | nil => simp [firstErrAll]
    | cons p ps ih =>
      simp only [firstErrAll, List.mem_cons, exists_eq_or_imp]
      cases hp : firstErr p with
      | some e => simp
      | none => simpa using ih
  rw [← key]
  cases hf : firstErrAll ps with
  | some e =>
    have := authenticate_of_firstErr_some (.composite ps) a e (by simpa [firstErr] using hf)
    simp [this]
  | none =>
    obtain ⟨r, hr⟩ := authenticate_of_firstErr_none (.composite ps) a (by simpa [firstErr] using hf)
    simp [hr]

/-! ## bearer_token -/

/-- With an auth plug-in the `bearer_token` constructor argument is ignored; without one it sets
    `Authorization: Bearer <t>` (replacing a default / per-request header of that name, however spelled). -/
theorem bearer_token_only_without_auth (defaults reqHeaders : Option Dict) :
    (∀ (p : Plugin) (bearer : Option Str),
        prepareHeaders defaults reqHeaders (some p) bearer = prepareHeaders defaults reqHeaders (some p) none)
    ∧ (∀ t : Str, ∃ res, prepareHeaders defaults reqHeaders none (some t) = .ok res
        ∧ res = dictSetCI (baseHeaders defaults reqHeaders) hAuthorization (bearerValue t)
        ∧ dictGet res hAuthorization = some (bearerValue t))
    ∧ prepareHeaders defaults reqHeaders none none = .ok (baseHeaders defaults reqHeaders) := by
  refine ⟨fun p bearer => by simp [prepareHeaders], fun t => ⟨_, by simp [prepareHeaders], rfl, ?_⟩,
    by simp [prepareHeaders]⟩
  simp [dictGet_dictSetCI]

/-! ## passthrough -/

/-- Whatever the plug-in configuration: if the request is sent, httpx receives the caller's `params`,
    `cookies` and every other keyword unchanged; the headers depend on the caller's `headers` only; and the
    request is sent unless a plug-in raises. -/
theorem passthrough {β : Type} (t : Transport) (c : CallerArgs β) :
    (∀ s, sendArgs t c = .ok s →
        s.params = c.params ∧ s.cookies = c.cookies ∧ s.other = c.other
        ∧ prepareHeaders t.defaultHeaders c.headers t.auth t.bearerToken = .ok s.headers)
    ∧ ((∃ s, sendArgs t c = .ok s) ↔ t.auth.bind firstErr = none) := by
  constructor
  · intro s hs
    unfold sendArgs at hs
    cases hp : prepareHeaders t.defaultHeaders c.headers t.auth t.bearerToken with
    | error e => simp [hp] at hs
    | ok h =>
      simp only [hp, Except.ok.injEq] at hs
      subst hs; simp
  · unfold sendArgs
    rw [prepareHeaders_spec]
    cases t.auth.bind firstErr <;> simp

/-! ## OAuth2 refresh -/

/-- With a refresh callback the header carries `cb tok` when that is non-empty and differs from `tok`,
    otherwise `tok`; the plug-in keeps that token for the next request.  Without a callback: `tok`. -/
theorem oauth2_refresh (defaults reqHeaders : Option Dict) (bearer : Option Str) (tok : Str) (cb : Str → Str) :
    (∃ res, prepareHeaders defaults reqHeaders (some (.oauth2 tok (some cb))) bearer = .ok res
      ∧ dictGet res hAuthorization
          = some (bearerValue (if cb tok ≠ [] ∧ cb tok ≠ tok then cb tok else tok)))
    ∧ (∃ res, prepareHeaders defaults reqHeaders (some (.oauth2 tok none)) bearer = .ok res
      ∧ dictGet res hAuthorization = some (bearerValue tok))
    ∧ pluginAfter (.oauth2 tok (some cb))
        = .oauth2 (if cb tok ≠ [] ∧ cb tok ≠ tok then cb tok else tok) (some cb) := by
  refine ⟨⟨dictUpdateCI [] (allWrites defaults reqHeaders (some (.oauth2 tok (some cb))) bearer), ?_, ?_⟩,
    ⟨dictUpdateCI [] (allWrites defaults reqHeaders (some (.oauth2 tok none)) bearer), ?_, ?_⟩, ?_⟩
  · rw [prepareHeaders_spec]; simp [firstErr]
  · simp [dictGet_dictUpdateCI, allWrites, authWrites, contrib, lastWriterCI_append, lastWriterCI, ciEq_refl, effToken]
  · rw [prepareHeaders_spec]; simp [firstErr]
  · simp [dictGet_dictUpdateCI, allWrites, authWrites, contrib, lastWriterCI_append, lastWriterCI, ciEq_refl, effToken]
  · simp [pluginAfter, effToken]

/-- Non-vacuity: refreshed, refused because empty, refused because equal; second request after a refresh. -/
example :
    let cb : Str → Str := fun t => if t = "a".toList then "b".toList else if t = "b".toList then [] else t
    prepareHeaders none none (some (.oauth2 "a".toList (some cb))) none
        = .ok [("Authorization".toList, "Bearer b".toList)]
    ∧ prepareHeaders none none (some (.oauth2 "b".toList (some cb))) none
        = .ok [("Authorization".toList, "Bearer b".toList)]
    ∧ prepareHeaders none none (some (.oauth2 "c".toList (some cb))) none
        = .ok [("Authorization".toList, "Bearer c".toList)]
    ∧ prepareHeaders none none (some (pluginAfter (.oauth2 "a".toList (some cb)))) none
        = .ok [("Authorization".toList, "Bearer b".toList)] := by
  decide

end Pog.C17
