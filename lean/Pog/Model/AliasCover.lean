import Pog.Model.Registry
/-
  Which status-specific exception classes the generated endpoint code RAISES (and therefore imports from
  the core package) versus which classes `exception_aliases.py` DEFINES.

    * `handlerRaises`  = the `for resp_ir in other_responses:` loop of
      `EndpointResponseHandlerGenerator.generate_response_handling`: a response whose `status_code`
      `.isdigit()`, does not `.startswith("2")` and `is_error_code(int(code))` gets `raise <get_exception_class_name(int(code))>(…)` and
      `context.add_import(core_package_name, <that name>)`.  (The primary 2xx response is the only one
      removed from `other_responses`; it would not be raised anyway.)
    * `generatedCodes` = `ExceptionVisitor.visit` (`Pog.specCodes`/`Pog.genFor` of the Registry model).

  Abstraction: a status code is its string as written in the document, restricted to ASCII digits for the
  `isdigit()` branch (`int()` of other Unicode digits is outside the model).
-/
namespace Pog

/-- `str.isdigit()` restricted to ASCII. -/
def isDigitStr (s : Str) : Bool := !s.isEmpty && s.all isDigitA

/-- `int(s)` for a string of ASCII digits. -/
def digitsToNat (s : Str) : Nat := s.foldl (fun n c => 10 * n + (c.toNat - '0'.toNat)) 0

/-- The codes for which one operation's handler emits `raise Alias(response=response)`. -/
def handlerRaises (statusCodes : List Str) : List Nat :=
  -- `elif is_error_code(status_code_val)` (F3 repaired): a declared 1xx/3xx status raises the base HTTPError, no alias
  (statusCodes.filter (fun s => isDigitStr s && !startsWith s ['2'] && isErrorCode (digitsToNat s))).map digitsToNat

/-- The same for codes given as numbers (written without leading zeros). -/
def raisedCodes (declared : List Nat) : List Nat := handlerRaises (declared.map natStr)

/-- names imported from the core package and raised by the handlers of one operation -/
def raisedAliases (declared : List Nat) : List Str := (raisedCodes declared).map aliasName

/-- The codes that get a class in `exception_aliases.py`, given ALL numeric codes of the spec. -/
def generatedCodes (allDeclared : List Nat) : List Nat := genFor (specCodes allDeclared)

def generatedAliases (allDeclared : List Nat) : List Str := (generatedCodes allDeclared).map aliasName

end Pog
