import Pog.Props.C02c
import Pog.Lemmas.SpecKeys
/-
  C02, the TYPE-LEVEL consequences of `parse_faithful_partial3` spelled out.  `Faithful decls s n` (Pog/Model/ParserSpec.lean)
  is one statement: the name has a full model whose fields are, AS A SET of (key, required, kind) triples, the fields
  `specFields decls n` of the document.  Because the denotation has ONE field per key (`specFields_keys_nodup`,
  Pog/Lemmas/SpecKeys.lean) the set equality splits into the facts a reader of C02 asks for, each on the fragment
  `Simple3 decls rank` with the rank / depth / fuel hypotheses of `C02c.parse_faithful_partial3`, for
  `s := buildSchemas maxDepth (F + 1) decls` and EVERY declared name:

    every_declared_name_registered3      partial  the load ends without out-of-fuel / RuntimeError and `build_schemas` registered
                                                  a FULL model (not a placeholder) for every declared name
    model_keys_are_spec_keys3            partial  the set of field keys of the model = the set of property keys of the document
                                                  (no property lost, none invented)
    model_required_iff_spec3             partial  a model field is required iff the document field OF THE SAME KEY is required
    model_kind_is_spec_kind3             partial  a model field has the kind (`Kind`) the document declares for that key
    model_invariant_under_permutation3   partial  for every permutation of the declarations: both loads succeed, every name has a
                                                  model in both, with the same keys and per key the same required flag and kind
    spec_keys_unique                     full     the document denotation has at most one field per key (what makes the
                                                  per-key statements functional)

  Nothing here is new mathematics over `parse_faithful_partial3`; the theorems exist so that the claims of C02 can be
  cited one by one.
-/
namespace Pog.C02d
open Pog Pog.Prs Pog.Trk Pog.C02 Pog.C02b Pog.C02c

/-- `spec_keys_unique`.  For every document and every name, the keys of `specFields` are pairwise different (the
    denotation merges `allOf` parts first-wins and own properties in place, like a Python `dict`).  This is what lets
    the per-key theorems below speak of THE document field with a given key. -/
theorem spec_keys_unique (decls : Decls) (n : Str) : ((specFields decls n).map (·.key)).Nodup :=
  specFields_keys_nodup decls n

/-- `every_declared_name_registered3`.  On `Simple3 decls rank` (rank below the fuel and the depth limit) the load
    `buildSchemas maxDepth (F + 1) decls` does not run out of fuel, raises no RuntimeError (`missing = []`), and for
    EVERY declared name the registry holds an object that is a full schema (kind `.full`, i.e. neither a cycle nor a
    depth placeholder) and can be read back (`modelFields … = some _`): `build_schemas` returns a model for each. -/
theorem every_declared_name_registered3 (decls : Decls) (rank : Str → Nat) (hS : Simple3 decls rank) (maxDepth F : Nat)
    (hF : ∀ d ∈ decls, rank d.1 < F) (hD : ∀ d ∈ decls, rank d.1 + 1 ≤ maxDepth) :
    (buildSchemas maxDepth (F + 1) decls).oom = false ∧
    missing decls (buildSchemas maxDepth (F + 1) decls) = [] ∧
    ∀ d ∈ decls, ∃ id fs, (buildSchemas maxDepth (F + 1) decls).lookup d.1 = some id ∧
      ((buildSchemas maxDepth (F + 1) decls).get id).kind = .full ∧
      modelFields decls (buildSchemas maxDepth (F + 1) decls) d.1 = some fs := by
  have h := parse_faithful_partial3 decls rank hS maxDepth F hF hD
  exact ⟨h.1, h.2.1, fun d hd => (h.2.2 d hd).registered⟩

/-- `model_keys_are_spec_keys3`.  On the same fragment, for every declared name the SET of field keys of the model
    equals the set of property keys the document declares for it (own properties and those of every `allOf` part,
    transitively): no property is lost and none is invented. -/
theorem model_keys_are_spec_keys3 (decls : Decls) (rank : Str → Nat) (hS : Simple3 decls rank) (maxDepth F : Nat)
    (hF : ∀ d ∈ decls, rank d.1 < F) (hD : ∀ d ∈ decls, rank d.1 + 1 ≤ maxDepth) :
    ∀ d ∈ decls, ∃ fs, modelFields decls (buildSchemas maxDepth (F + 1) decls) d.1 = some fs ∧
      ∀ k, k ∈ fs.map (·.key) ↔ k ∈ (specFields decls d.1).map (·.key) :=
  fun d hd => ((parse_faithful_partial3 decls rank hS maxDepth F hF hD).2.2 d hd).keys

/-- `model_required_iff_spec3`.  On the same fragment, a field of the model is required iff the document requires the
    property of the same key: whenever a model field `f` and a document field `g` have the same key, their `required`
    flags agree (by `model_keys_are_spec_keys3` such a `g` exists for every `f` and conversely, by `spec_keys_unique`
    it is the only one). -/
theorem model_required_iff_spec3 (decls : Decls) (rank : Str → Nat) (hS : Simple3 decls rank) (maxDepth F : Nat)
    (hF : ∀ d ∈ decls, rank d.1 < F) (hD : ∀ d ∈ decls, rank d.1 + 1 ≤ maxDepth) :
    ∀ d ∈ decls, ∃ fs, modelFields decls (buildSchemas maxDepth (F + 1) decls) d.1 = some fs ∧
      ∀ f ∈ fs, ∀ g ∈ specFields decls d.1, f.key = g.key → (f.required = true ↔ g.required = true) := by
  intro d hd
  obtain ⟨fs, h1, h2⟩ := ((parse_faithful_partial3 decls rank hS maxDepth F hF hD).2.2 d hd).field_eq
  exact ⟨fs, h1, fun f hf g hg hk => by rw [h2 f hf g hg hk]⟩

/-- `model_kind_is_spec_kind3`.  On the same fragment, the kind of each model field (primitive type, reference to a
    named schema, array of …, object, union; `Kind` of Pog/Model/ParserSpec.lean, read off the IR by `irKind`) is the
    kind the document declares for the property of the same key (`nodeKind`). -/
theorem model_kind_is_spec_kind3 (decls : Decls) (rank : Str → Nat) (hS : Simple3 decls rank) (maxDepth F : Nat)
    (hF : ∀ d ∈ decls, rank d.1 < F) (hD : ∀ d ∈ decls, rank d.1 + 1 ≤ maxDepth) :
    ∀ d ∈ decls, ∃ fs, modelFields decls (buildSchemas maxDepth (F + 1) decls) d.1 = some fs ∧
      ∀ f ∈ fs, ∀ g ∈ specFields decls d.1, f.key = g.key → f.kind = g.kind := by
  intro d hd
  obtain ⟨fs, h1, h2⟩ := ((parse_faithful_partial3 decls rank hS maxDepth F hF hD).2.2 d hd).field_eq
  exact ⟨fs, h1, fun f hf g hg hk => by rw [h2 f hf g hg hk]⟩

/-- `model_invariant_under_permutation3` (`parse_perm_invariant_partial3` restated fact by fact).  On the same fragment,
    for every permutation `d'` of the declarations `d`: both loads end without out-of-fuel and without RuntimeError, and
    every declared name has a model in both whose fields have the same set of keys and, key by key, the same required
    flag and the same kind. -/
theorem model_invariant_under_permutation3 (d d' : Decls) (rank : Str → Nat) (hp : d.Perm d') (hS : Simple3 d rank)
    (maxDepth F : Nat) (hF : ∀ x ∈ d, rank x.1 < F) (hD : ∀ x ∈ d, rank x.1 + 1 ≤ maxDepth) :
    ((buildSchemas maxDepth (F + 1) d).oom = false ∧ missing d (buildSchemas maxDepth (F + 1) d) = []) ∧
    ((buildSchemas maxDepth (F + 1) d').oom = false ∧ missing d' (buildSchemas maxDepth (F + 1) d') = []) ∧
    ∀ x ∈ d, ∃ fs fs', modelFields d (buildSchemas maxDepth (F + 1) d) x.1 = some fs ∧
      modelFields d' (buildSchemas maxDepth (F + 1) d') x.1 = some fs' ∧
      (∀ k, k ∈ fs.map (·.key) ↔ k ∈ fs'.map (·.key)) ∧
      (∀ f ∈ fs, ∀ f' ∈ fs', f.key = f'.key → (f.required = true ↔ f'.required = true)) ∧
      (∀ f ∈ fs, ∀ f' ∈ fs', f.key = f'.key → f.kind = f'.kind) := by
  have h1 := parse_faithful_partial3 d rank hS maxDepth F hF hD
  have h2 := parse_faithful_partial3 d' rank (hS.perm hp) maxDepth F
    (fun x hx => hF x (hp.mem_iff.mpr hx)) (fun x hx => hD x (hp.mem_iff.mpr hx))
  refine ⟨⟨h1.1, h1.2.1⟩, ⟨h2.1, h2.2.1⟩, fun x hx => ?_⟩
  obtain ⟨fs, e1, _, m1⟩ := h1.2.2 x hx
  obtain ⟨fs', e2, _, m2⟩ := h2.2.2 x (hp.mem_iff.mp hx)
  have hsp : specFields d' x.1 = specFields d x.1 := (specFields_perm hp hS.nodup x.1).symm
  rw [hsp] at m2
  have hmem : ∀ f, f ∈ fs ↔ f ∈ fs' := fun f => (m1 f).trans (m2 f).symm
  have heq : ∀ f ∈ fs, ∀ f' ∈ fs', f.key = f'.key → f = f' := fun f hf f' hf' hk =>
    field_eq_of_key_eq (specFields_keys_nodup d x.1) ((m1 f).mp hf) ((m2 f').mp hf') hk
  refine ⟨fs, fs', e1, e2, fun k => ?_, fun f hf f' hf' hk => by rw [heq f hf f' hf' hk],
    fun f hf f' hf' hk => by rw [heq f hf f' hf' hk]⟩
  simp only [List.mem_map]
  exact ⟨fun ⟨f, hf, e⟩ => ⟨f, (hmem f).mp hf, e⟩, fun ⟨f, hf, e⟩ => ⟨f, (hmem f).mpr hf, e⟩⟩

/-! ### non-vacuity: the pet-store document of `C02c` -/

/-- the five theorems instantiated on `petDecls` (rank `petRank`, `PYOPENAPI_MAX_DEPTH = 150`, fuel 9) and on its
    reversal (children declared before their parents) -/
example :
    let s := buildSchemas 150 9 petDecls
    (s.oom = false ∧ missing petDecls s = [] ∧
      ∀ d ∈ petDecls, ∃ id fs, s.lookup d.1 = some id ∧ (s.get id).kind = .full ∧ modelFields petDecls s d.1 = some fs) ∧
    (∀ d ∈ petDecls, ∃ fs, modelFields petDecls s d.1 = some fs ∧
      ∀ k, k ∈ fs.map (·.key) ↔ k ∈ (specFields petDecls d.1).map (·.key)) ∧
    (∀ d ∈ petDecls, ∃ fs, modelFields petDecls s d.1 = some fs ∧
      ∀ f ∈ fs, ∀ g ∈ specFields petDecls d.1, f.key = g.key → (f.required = true ↔ g.required = true)) ∧
    (∀ d ∈ petDecls, ∃ fs, modelFields petDecls s d.1 = some fs ∧
      ∀ f ∈ fs, ∀ g ∈ specFields petDecls d.1, f.key = g.key → f.kind = g.kind) :=
  have h := petDecls_simple3
  ⟨every_declared_name_registered3 petDecls petRank h.1 150 8 h.2.1 h.2.2,
   model_keys_are_spec_keys3 petDecls petRank h.1 150 8 h.2.1 h.2.2,
   model_required_iff_spec3 petDecls petRank h.1 150 8 h.2.1 h.2.2,
   model_kind_is_spec_kind3 petDecls petRank h.1 150 8 h.2.1 h.2.2⟩

example := model_invariant_under_permutation3 petDecls petDecls.reverse petRank (List.reverse_perm _).symm
  petDecls_simple3.1 150 8 petDecls_simple3.2.1 petDecls_simple3.2.2

/-- what the document says about `Dog` (an `allOf` child of the `allOf` child `Pet` of `Base`, with an inline member):
    five properties, `id`, `name` (inherited) and `bark` (required by the child itself) required … -/
theorem petDog_spec : specFields petDecls "Dog".toList =
    [⟨"id".toList, true, .prim .integer⟩, ⟨"name".toList, true, .prim .string⟩,
     ⟨"tags".toList, false, .arr (.prim .string)⟩, ⟨"color".toList, false, .ref "Color".toList⟩,
     ⟨"bark".toList, true, .prim .integer⟩] := by
  show specFieldsF (specFuel petDecls) petDecls "Dog".toList = _
  rw [petFuel]
  decide +kernel

/-- … hence, BY THE THEOREMS (no evaluation of the parser), the model of `Dog` has a field `bark`, every field of the
    model with that key is required and an integer, and the model has no field `owner` -/
example : ∃ fs, modelFields petDecls (buildSchemas 150 9 petDecls) "Dog".toList = some fs ∧
    "bark".toList ∈ fs.map (·.key) ∧ "owner".toList ∉ fs.map (·.key) ∧
    ∀ f ∈ fs, f.key = "bark".toList → f.required = true ∧ f.kind = .prim .integer := by
  have h := petDecls_simple3
  have hd : ("Dog".toList, Node.allOf [cRef "Pet", cInl [("bark", .nullable (.prim .integer false))] []] [] ["bark".toList])
      ∈ petDecls :=
    List.mem_cons_of_mem _ (List.mem_cons_of_mem _ (List.mem_cons_of_mem _ (List.mem_cons_self ..)))
  obtain ⟨fs, e, hk⟩ := model_keys_are_spec_keys3 petDecls petRank h.1 150 8 h.2.1 h.2.2 _ hd
  obtain ⟨fs1, e1, hr⟩ := model_required_iff_spec3 petDecls petRank h.1 150 8 h.2.1 h.2.2 _ hd
  obtain ⟨fs2, e2, hkd⟩ := model_kind_is_spec_kind3 petDecls petRank h.1 150 8 h.2.1 h.2.2 _ hd
  rw [e] at e1 e2
  cases e1
  cases e2
  have hb : (⟨"bark".toList, true, .prim .integer⟩ : Field) ∈ specFields petDecls "Dog".toList := by
    rw [petDog_spec]; decide
  refine ⟨fs, e, (hk _).mpr (by rw [petDog_spec]; decide), fun hc => ?_, fun f hf hkey => ?_⟩
  · have := (hk _).mp hc
    rw [petDog_spec] at this
    revert this
    decide
  · exact ⟨(hr f hf _ hb hkey).mpr rfl, hkd f hf _ hb hkey⟩

end Pog.C02d
